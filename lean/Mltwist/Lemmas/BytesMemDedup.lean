import Mltwist.Model.BytesMem
import Mltwist.Spec.BytesMem
/-
C15, part 1: `dedupBlocks`.  The cursor loop of the model is shown equal to a functional merge
`dedupF`; its specification (error iff two blocks overlap, otherwise the block invariant and the
same byte map) is proved on `dedupF`.
-/
namespace Mltwist.Lemmas.BytesMem
open Mltwist Mltwist.BytesMem Mltwist.BytesSpec

/-- functional form of the `dedupBlocks` loop: `p` is the block `bs[j-1]`, the list is `bs[i:]` -/
def dedupF : Block → List Block → Except Fail (List Block)
  | p, [] => .ok [p]
  | p, c :: rest =>
    if bend p > c.1 then .error .overlap
    else if bend p = c.1 then dedupF (p.1, p.2 ++ c.2) rest
    else match dedupF c rest with
      | .ok r => .ok (p :: r)
      | .error e => .error e

def mapOk (pre : List Block) : Except Fail (List Block) → Except Fail (List Block)
  | .ok r => .ok (pre ++ r)
  | .error e => .error e

theorem mapOk_mapOk (a b : List Block) (x : Except Fail (List Block)) :
    mapOk a (mapOk b x) = mapOk (a ++ b) x := by
  cases x <;> simp [mapOk]

/-- the array is `pre ++ [p] ++ mid ++ rest` with `j - 1 = |pre|`, `i = |pre| + 1 + |mid|`;
`mid` is the stale part between the two cursors -/
theorem dedupLoop_eq (rest : List Block) : ∀ (pre : List Block) (p : Block) (mid : List Block),
    dedupLoop rest.length (pre ++ p :: (mid ++ rest)) (pre.length + 1 + mid.length) (pre.length + 1)
      = mapOk pre (dedupF p rest) := by
  induction rest with
  | nil =>
    intro pre p mid
    simp [dedupLoop, dedupF, mapOk, List.take_append, List.take_of_length_le]
  | cons c rest ih =>
    intro pre p mid
    have h1 : (pre ++ p :: (mid ++ c :: rest))[pre.length + 1 - 1]? = some p := by
      simp
    have h2 : (pre ++ p :: (mid ++ c :: rest))[pre.length + 1 + mid.length]? = some c := by
      rw [List.getElem?_append_right (by omega)]
      have : pre.length + 1 + mid.length - pre.length = mid.length + 1 := by omega
      rw [this, List.getElem?_cons_succ, List.getElem?_append_right (by omega)]
      simp
    simp only [List.length_cons, dedupLoop, h1, h2, dedupF]
    by_cases hov : bend p > c.1
    · simp [hov, mapOk]
    · simp only [hov, if_false]
      by_cases hadj : bend p = c.1
      · simp only [hadj, if_true]
        have hs : (pre ++ p :: (mid ++ c :: rest)).set (pre.length + 1 - 1) (p.1, p.2 ++ c.2)
            = pre ++ (p.1, p.2 ++ c.2) :: ((mid ++ [c]) ++ rest) := by
          simp
        rw [hs]
        have := ih pre (p.1, p.2 ++ c.2) (mid ++ [c])
        simp only [List.length_append, List.length_singleton] at this
        rw [← this]
        congr 1
      · simp only [hadj, if_false]
        cases mid with
        | nil =>
          have hs : (pre ++ p :: ([] ++ c :: rest)).set (pre.length + 1) c
              = (pre ++ [p]) ++ c :: ([] ++ rest) := by
            simp
          rw [hs]
          have := ih (pre ++ [p]) c []
          simp only [List.length_append, List.length_singleton, List.length_nil] at this
          simp only [List.length_nil, Nat.add_zero]
          rw [this]
          cases dedupF c rest <;> simp [mapOk]
        | cons m mid =>
          have hs : (pre ++ p :: ((m :: mid) ++ c :: rest)).set (pre.length + 1) c
              = (pre ++ [p]) ++ c :: ((mid ++ [c]) ++ rest) := by
            simp
          rw [hs]
          have := ih (pre ++ [p]) c (mid ++ [c])
          simp only [List.length_append, List.length_singleton] at this
          simp only [List.length_cons]
          have e : pre.length + 1 + (mid.length + 1) + 1 = pre.length + 1 + 1 + (mid.length + 1) := by
            omega
          rw [e, this]
          cases dedupF c rest <;> simp [mapOk]

theorem dedupBlocks_eq (bs : List Block) :
    dedupBlocks bs = match bs with
      | [] => .ok []
      | p :: rest => dedupF p rest := by
  unfold dedupBlocks
  match bs with
  | [] => simp
  | [p] => simp [dedupF]
  | p :: c :: rest =>
    have := dedupLoop_eq (c :: rest) [] p []
    simp only [List.length_cons, List.nil_append, List.length_nil] at this
    simp only [List.length_cons]
    rw [if_neg (by omega)]
    have e : rest.length + 1 + 1 - 1 = rest.length + 1 := by omega
    rw [e, this]
    cases dedupF p (c :: rest) <;> simp [mapOk]

/-! ### byte map of a block list -/

/-- the two blocks share no address -/
def Disj (b c : Block) : Prop := ∀ a, ¬ (Covers b a ∧ Covers c a)

theorem Disj.symm {b c : Block} (h : Disj b c) : Disj c b := fun a ⟨h1, h2⟩ => h a ⟨h2, h1⟩

/-- the invariant between the `store` calls of one `Store`: as `Inv`, adjacency allowed -/
def Pre (l : List Block) : Prop :=
  l.Pairwise (fun x y => bend x ≤ y.1) ∧ ∀ x ∈ l, x.2 ≠ []

theorem inv_pre {l : List Block} (h : Inv l) : Pre l :=
  ⟨h.1.imp (fun {x y} hxy => by unfold bend; omega), h.2⟩

theorem covers_iff (b : Block) (a : Nat) : Covers b a ↔ b.1 ≤ a ∧ a < bend b := Iff.rfl

theorem covers_getElem {b : Block} {a : Nat} (h : Covers b a) : ∃ v, b.2[a - b.1]? = some v := by
  have : a - b.1 < b.2.length := by unfold Covers at h; omega
  exact ⟨b.2[a - b.1], List.getElem?_eq_getElem this⟩

theorem ofBlocks_cons (b : Block) (l : List Block) (a : Nat) :
    ofBlocks (b :: l) a = if Covers b a then b.2[a - b.1]? else ofBlocks l a := rfl

theorem ofBlocks_eq_none_iff (l : List Block) (a : Nat) :
    ofBlocks l a = none ↔ ∀ b ∈ l, ¬ Covers b a := by
  induction l with
  | nil => simp [ofBlocks]
  | cons b l ih =>
    rw [ofBlocks_cons]
    by_cases h : Covers b a
    · obtain ⟨v, hv⟩ := covers_getElem h
      simp [h, hv]
    · simp [h, ih]

theorem ofBlocks_ne_none_iff (l : List Block) (a : Nat) :
    ofBlocks l a ≠ none ↔ ∃ b ∈ l, Covers b a := by
  rw [Ne, ofBlocks_eq_none_iff]
  simp

theorem ofBlocks_append (l r : List Block) (a : Nat) :
    ofBlocks (l ++ r) a = (ofBlocks l a).or (ofBlocks r a) := by
  induction l with
  | nil => simp [ofBlocks]
  | cons b l ih =>
    rw [List.cons_append, ofBlocks_cons, ofBlocks_cons]
    by_cases h : Covers b a
    · obtain ⟨v, hv⟩ := covers_getElem h
      simp [h, hv]
    · simp [h, ih]

/-- in a list of pairwise disjoint blocks every covering block determines the byte -/
theorem ofBlocks_eq_of_mem {l : List Block} (hd : l.Pairwise Disj) {b : Block} (hb : b ∈ l)
    {a : Nat} (hc : Covers b a) : ofBlocks l a = b.2[a - b.1]? := by
  induction l with
  | nil => cases hb
  | cons c l ih =>
    rw [ofBlocks_cons]
    rw [List.pairwise_cons] at hd
    rcases List.mem_cons.1 hb with rfl | hb'
    · simp [hc]
    · have : ¬ Covers c a := fun h => hd.1 b hb' a ⟨h, hc⟩
      simp [this, ih hd.2 hb']

theorem ofBlocks_some_iff {l : List Block} (hd : l.Pairwise Disj) (a : Nat) (v : UInt8) :
    ofBlocks l a = some v ↔ ∃ b ∈ l, Covers b a ∧ b.2[a - b.1]? = some v := by
  constructor
  · intro h
    have hne : ofBlocks l a ≠ none := by rw [h]; simp
    obtain ⟨b, hb, hc⟩ := (ofBlocks_ne_none_iff l a).1 hne
    exact ⟨b, hb, hc, by rw [← ofBlocks_eq_of_mem hd hb hc, h]⟩
  · rintro ⟨b, hb, hc, hv⟩
    rw [ofBlocks_eq_of_mem hd hb hc, hv]

/-- the merged block covers what the two adjacent blocks cover -/
theorem covers_merge {p c : Block} (h : bend p = c.1) (a : Nat) :
    Covers (p.1, p.2 ++ c.2) a ↔ Covers p a ∨ Covers c a := by
  unfold Covers bend at *
  simp only [List.length_append]
  omega

theorem getElem_merge {p c : Block} (h : bend p = c.1) (a : Nat) :
    (p.2 ++ c.2)[a - p.1]? = if Covers p a then p.2[a - p.1]? else
      if Covers c a then c.2[a - c.1]? else (p.2 ++ c.2)[a - p.1]? := by
  by_cases h1 : Covers p a
  · rw [if_pos h1, List.getElem?_append_left (by unfold Covers at h1; omega)]
  · rw [if_neg h1]
    by_cases h2 : Covers c a
    · rw [if_pos h2, List.getElem?_append_right (by unfold Covers bend at *; omega)]
      congr 1
      unfold Covers bend at *
      omega
    · rw [if_neg h2]

/-! ### specification of `dedupF` -/

theorem dedupF_spec (rest : List Block) : ∀ (p : Block), p.2 ≠ [] →
    (∀ c ∈ rest, c.2 ≠ [] ∧ p.1 ≤ c.1) → rest.Pairwise (fun x y => x.1 ≤ y.1) →
    (dedupF p rest = .error .overlap ∧ ¬ (p :: rest).Pairwise Disj) ∨
    (∃ r, dedupF p rest = .ok r ∧ (p :: rest).Pairwise Disj ∧ Inv r ∧ (∀ y ∈ r, p.1 ≤ y.1) ∧
      ∀ a, ofBlocks r a = ofBlocks (p :: rest) a) := by
  induction rest with
  | nil =>
    intro p hp _ _
    right
    refine ⟨[p], rfl, by simp, ⟨by simp, by simpa using hp⟩, by simp, fun _ => rfl⟩
  | cons c rest ih =>
    intro p hp hrest hsorted
    have hc := hrest c (List.mem_cons_self ..)
    rw [List.pairwise_cons] at hsorted
    unfold dedupF
    by_cases hov : bend p > c.1
    · left
      refine ⟨by simp [hov], ?_⟩
      intro hd
      rw [List.pairwise_cons] at hd
      refine hd.1 c (List.mem_cons_self ..) c.1 ⟨?_, ?_⟩
      · unfold Covers; unfold bend at hov; omega
      · have : 0 < c.2.length := List.length_pos_iff.2 hc.1
        unfold Covers; omega
    · rw [if_neg hov]
      by_cases hadj : bend p = c.1
      · rw [if_pos hadj]
        have key : (p :: c :: rest).Pairwise Disj ↔ ((p.1, p.2 ++ c.2) :: rest).Pairwise Disj := by
          simp only [List.pairwise_cons, List.mem_cons, forall_eq_or_imp]
          constructor
          · rintro ⟨⟨_, h1⟩, h2, h3⟩
            refine ⟨fun x hx a ⟨ha, hb⟩ => ?_, h3⟩
            rcases (covers_merge hadj a).1 ha with h | h
            · exact h1 x hx a ⟨h, hb⟩
            · exact h2 x hx a ⟨h, hb⟩
          · rintro ⟨h1, h3⟩
            refine ⟨⟨?_, fun x hx a ⟨ha, hb⟩ => h1 x hx a ⟨(covers_merge hadj a).2 (Or.inl ha), hb⟩⟩,
              fun x hx a ⟨ha, hb⟩ => h1 x hx a ⟨(covers_merge hadj a).2 (Or.inr ha), hb⟩, h3⟩
            intro a ⟨ha, hb⟩
            unfold Covers bend at *
            omega
        have hmap : ∀ a, ofBlocks ((p.1, p.2 ++ c.2) :: rest) a = ofBlocks (p :: c :: rest) a := by
          intro a
          simp only [ofBlocks_cons]
          rw [getElem_merge hadj a]
          by_cases h1 : Covers p a
          · simp [h1, (covers_merge hadj a).2 (Or.inl h1)]
          · by_cases h2 : Covers c a
            · simp [h1, h2, (covers_merge hadj a).2 (Or.inr h2)]
            · have : ¬ Covers (p.1, p.2 ++ c.2) a := fun h => by
                rcases (covers_merge hadj a).1 h with h | h <;> contradiction
              simp [h1, h2, this]
        have := ih (p.1, p.2 ++ c.2) (by simp [hp])
          (fun x hx => ⟨(hrest x (List.mem_cons_of_mem _ hx)).1,
            (hrest x (List.mem_cons_of_mem _ hx)).2⟩) hsorted.2
        rcases this with ⟨he, hnd⟩ | ⟨r, hr, hd, hinv, hle, hm⟩
        · left; exact ⟨he, fun h => hnd (key.1 h)⟩
        · right
          exact ⟨r, hr, key.2 hd, hinv, hle, fun a => (hm a).trans (hmap a)⟩
      · rw [if_neg hadj]
        have hgap : bend p < c.1 := by omega
        have hpd : ∀ x ∈ c :: rest, Disj p x := by
          intro x hx a ⟨ha, hb⟩
          have : c.1 ≤ x.1 := by
            rcases List.mem_cons.1 hx with rfl | hx'
            · exact Nat.le_refl _
            · exact hsorted.1 x hx'
          unfold Covers bend at *
          omega
        have := ih c hc.1 (fun x hx => ⟨(hrest x (List.mem_cons_of_mem _ hx)).1, hsorted.1 x hx⟩)
          hsorted.2
        rcases this with ⟨he, hnd⟩ | ⟨r, hr, hd, hinv, hle, hm⟩
        · left
          refine ⟨by rw [he], fun h => hnd ?_⟩
          exact (List.pairwise_cons.1 h).2
        · right
          refine ⟨p :: r, by rw [hr], List.pairwise_cons.2 ⟨hpd, hd⟩, ⟨?_, ?_⟩, ?_, ?_⟩
          · refine List.pairwise_cons.2 ⟨fun y hy => ?_, hinv.1⟩
            have := hle y hy
            unfold bend at hgap
            omega
          · intro x hx
            rcases List.mem_cons.1 hx with rfl | hx'
            · exact hp
            · exact hinv.2 x hx'
          · intro y hy
            rcases List.mem_cons.1 hy with rfl | hy'
            · exact Nat.le_refl _
            · have := hle y hy'; omega
          · intro a
            rw [ofBlocks_cons, ofBlocks_cons, hm a]

end Mltwist.Lemmas.BytesMem
