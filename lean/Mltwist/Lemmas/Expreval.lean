import Mltwist.Model.Expreval
/-
Helper lemmas for C10.  (Proofs to be supplied.)
-/
namespace Mltwist.Lemmas.Expreval
open Mltwist

theorem binary_length (op : BinOp) (c1 c2 : List UInt8) (w : Nat) :
    (Expreval.binary op c1 c2 w).length = w := by
  sorry

theorem binary_value (op : BinOp) (c1 c2 : List UInt8) (w : Nat) (hw : w ≤ 255) :
    leToNat (Expreval.binary op c1 c2 w) =
      evalBin op w (trunc w (leToNat c1)) (trunc w (leToNat c2)) := by
  sorry

theorem ltu_iff (c1 c2 : List UInt8) (w : Nat) :
    Expreval.ltu c1 c2 w = true ↔ trunc w (leToNat c1) < trunc w (leToNat c2) := by
  sorry

theorem shift_in_range (v : List UInt8) (w a b : Nat) (h : Expreval.shiftUint64 v w = some (a, b)) :
    a < w ∧ b < 8 := by
  sorry

end Mltwist.Lemmas.Expreval
