import Mltwist.Model.Expreval
import Mltwist.Lemmas.Bytes
/-
Helper lemmas for C10: the byte-level algorithms of `expreval` compute the reference
semantics `evalBin` / unsigned `<` on truncated operands.
-/
namespace Mltwist.Lemmas.Expreval
open Mltwist
open Mltwist.Lemmas.Bytes

/-! ### `add` -/

theorem addLoop_length (l1 l2 : List UInt8) (c : Bool) (h : l1.length = l2.length) :
    (Expreval.addLoop l1 l2 c).length = l1.length := by
  induction l1 generalizing l2 c with
  | nil => cases l2 <;> simp [Expreval.addLoop]
  | cons b1 r1 ih =>
    cases l2 with
    | nil => simp at h
    | cons b2 r2 =>
      simp only [List.length_cons, Nat.add_right_cancel_iff] at h
      simp [Expreval.addLoop, ih r2 _ h]

/-- one step of the carry loop: result byte and carry out -/
theorem add_byte (b1 b2 : UInt8) (c : Bool) :
    (if c then b1 + b2 + 1 else b1 + b2).toNat = (b1.toNat + b2.toNat + c.toNat) % 256 ∧
    ((b1 + b2 < b1 || (c && b1 + b2 == 255)).toNat = (b1.toNat + b2.toNat + c.toNat) / 256) := by
  have h1 := toNat_lt_256 b1
  have h2 := toNat_lt_256 b2
  have hs : (b1 + b2).toNat = (b1.toNat + b2.toNat) % 256 := UInt8.toNat_add b1 b2
  have hlt : (b1 + b2 < b1) = ((b1.toNat + b2.toNat) % 256 < b1.toNat) := by
    rw [UInt8.lt_iff_toNat_lt, hs]
  have heq : (b1 + b2 == 255) = decide ((b1.toNat + b2.toNat) % 256 = 255) := by
    rw [← hs]
    rw [Bool.beq_eq_decide_eq]
    congr 1
    rw [← UInt8.toNat_inj]; rfl
  cases c with
  | false =>
    simp only [Bool.false_eq_true, if_false, Bool.false_and, Bool.or_false, Bool.toNat_false,
      Nat.add_zero]
    refine ⟨hs, ?_⟩
    by_cases hc : (b1.toNat + b2.toNat) % 256 < b1.toNat
    · have : (b1 + b2 < b1) := by rw [hlt]; exact hc
      simp only [this, decide_true, Bool.toNat_true]; omega
    · have : ¬ (b1 + b2 < b1) := by rw [hlt]; exact hc
      simp only [this, decide_false, Bool.toNat_false]; omega
  | true =>
    simp only [if_true, Bool.true_and, Bool.toNat_true]
    constructor
    · rw [UInt8.toNat_add, hs]; show (_ + 1) % 2 ^ 8 = _; omega
    · rw [heq]
      by_cases hc : (b1.toNat + b2.toNat) % 256 < b1.toNat
      · have : (b1 + b2 < b1) := by rw [hlt]; exact hc
        simp only [this, decide_true, Bool.true_or, Bool.toNat_true]; omega
      · have : ¬ (b1 + b2 < b1) := by rw [hlt]; exact hc
        simp only [this, decide_false, Bool.false_or]
        by_cases he : (b1.toNat + b2.toNat) % 256 = 255
        · simp only [he, decide_true, Bool.toNat_true]; omega
        · simp only [he, decide_false, Bool.toNat_false]; omega

theorem leToNat_addLoop (l1 l2 : List UInt8) (c : Bool) (h : l1.length = l2.length) :
    leToNat (Expreval.addLoop l1 l2 c) =
      (leToNat l1 + leToNat l2 + c.toNat) % 256 ^ l1.length := by
  induction l1 generalizing l2 c with
  | nil => cases l2 <;> simp [Expreval.addLoop, Nat.mod_one]
  | cons b1 r1 ih =>
    cases l2 with
    | nil => simp at h
    | cons b2 r2 =>
      simp only [List.length_cons, Nat.add_right_cancel_iff] at h
      obtain ⟨hb, hc⟩ := add_byte b1 b2 c
      simp only [Expreval.addLoop, leToNat_cons, List.length_cons]
      rw [ih r2 _ h, hb, hc, pow256_succ, Nat.mod_mul]
      have e1 : (b1.toNat + 256 * leToNat r1 + (b2.toNat + 256 * leToNat r2) + c.toNat) % 256
          = (b1.toNat + b2.toNat + c.toNat) % 256 := by omega
      have e2 : (b1.toNat + 256 * leToNat r1 + (b2.toNat + 256 * leToNat r2) + c.toNat) / 256
          = leToNat r1 + leToNat r2 + (b1.toNat + b2.toNat + c.toNat) / 256 := by omega
      rw [e1, e2]

/-! ### `nand` -/

theorem nandLoop_length (l1 l2 : List UInt8) (h : l1.length = l2.length) :
    (Expreval.nandLoop l1 l2).length = l1.length := by
  induction l1 generalizing l2 with
  | nil => cases l2 <;> simp [Expreval.nandLoop]
  | cons b1 r1 ih =>
    cases l2 with
    | nil => simp at h
    | cons b2 r2 =>
      simp only [List.length_cons, Nat.add_right_cancel_iff] at h
      simp [Expreval.nandLoop, ih r2 h]

/-- bitwise and splits at a byte boundary -/
theorem and_byte_split (a b A B : Nat) (ha : a < 256) (hb : b < 256) :
    (a + 256 * A) &&& (b + 256 * B) = (a &&& b) + 256 * (A &&& B) := by
  have ha' : a < 2 ^ 8 := ha
  have hb' : b < 2 ^ 8 := hb
  have hab : a &&& b < 2 ^ 8 := Nat.and_lt_two_pow a hb'
  apply Nat.eq_of_testBit_eq
  intro i
  have e1 : a + 256 * A = 2 ^ 8 * A + a := by omega
  have e2 : b + 256 * B = 2 ^ 8 * B + b := by omega
  have e3 : (a &&& b) + 256 * (A &&& B) = 2 ^ 8 * (A &&& B) + (a &&& b) := by omega
  rw [e3, Nat.testBit_and, e1, e2, Nat.testBit_two_pow_mul_add _ ha',
    Nat.testBit_two_pow_mul_add _ hb', Nat.testBit_two_pow_mul_add _ hab]
  split <;> simp [Nat.testBit_and]

theorem leToNat_nandLoop (l1 l2 : List UInt8) (h : l1.length = l2.length) :
    leToNat (Expreval.nandLoop l1 l2) =
      256 ^ l1.length - 1 - (leToNat l1 &&& leToNat l2) := by
  induction l1 generalizing l2 with
  | nil => cases l2 <;> simp [Expreval.nandLoop]
  | cons b1 r1 ih =>
    cases l2 with
    | nil => simp at h
    | cons b2 r2 =>
      simp only [List.length_cons, Nat.add_right_cancel_iff] at h
      have h1 := toNat_lt_256 b1
      have h2 := toNat_lt_256 b2
      have hm : b1.toNat &&& b2.toNat < 2 ^ 8 := Nat.and_lt_two_pow _ h2
      have hM : leToNat r1 &&& leToNat r2 < 256 ^ r1.length := by
        have := leToNat_lt r2
        rw [← h] at this
        have := Nat.and_lt_two_pow (leToNat r1) this
        rwa [two_pow_eight_mul] at this
      have hP := pow256_pos r1.length
      simp only [Expreval.nandLoop, leToNat_cons, List.length_cons]
      rw [ih r2 h, and_byte_split _ _ _ _ h1 h2, UInt8.toNat_not, UInt8.toNat_and, pow256_succ]
      show 256 - 1 - _ + _ = _
      omega

/-! ### bit shifts -/

theorem bitLshAux_length (s : Nat) (prev : UInt8) (l : List UInt8) :
    (Expreval.bitLshAux s prev l).length = l.length := by
  induction l generalizing prev with
  | nil => rfl
  | cons b bs ih => simp [Expreval.bitLshAux, ih]

theorem bitRsh_length (s : Nat) (l : List UInt8) :
    (Expreval.bitRsh s l).length = l.length := by
  induction l with
  | nil => rfl
  | cons b bs ih =>
    cases bs with
    | nil => rfl
    | cons c bs => simp only [Expreval.bitRsh, List.length_cons] at ih ⊢; rw [ih]

/-- or of a multiple of `2^s` and a value below `2^s` is their sum -/
theorem or_eq_add_of_dvd (s x y : Nat) (hx : x % 2 ^ s = 0) (hy : y < 2 ^ s) :
    x ||| y = x + y := by
  have : x = 2 ^ s * (x / 2 ^ s) := by
    have := Nat.div_add_mod x (2 ^ s)
    omega
  rw [this, ← Nat.two_pow_add_eq_or_of_lt hy]

theorem ofNat_toNat_mod8 (s : Nat) (hs : s < 8) : (UInt8.ofNat s).toNat % 8 = s := by
  rw [UInt8.toNat_ofNat']; omega

/-- the byte produced by `bitLsh`/`bitRsh` out of the shifted byte and its neighbour's spill -/
theorem shl_or_shr_byte (s : Nat) (h0 : 0 < s) (h8 : s < 8) (b p : UInt8) :
    ((b <<< UInt8.ofNat s) ||| (p >>> UInt8.ofNat (8 - s))).toNat =
      (b.toNat * 2 ^ s) % 256 + p.toNat / 2 ^ (8 - s) := by
  have hb := toNat_lt_256 b
  have hp := toNat_lt_256 p
  rw [UInt8.toNat_or, UInt8.toNat_shiftLeft, UInt8.toNat_shiftRight,
    ofNat_toNat_mod8 s h8, ofNat_toNat_mod8 (8 - s) (by omega), Nat.shiftLeft_eq,
    Nat.shiftRight_eq_div_pow]
  apply or_eq_add_of_dvd s
  · have hs : s = 1 ∨ s = 2 ∨ s = 3 ∨ s = 4 ∨ s = 5 ∨ s = 6 ∨ s = 7 := by omega
    rcases hs with rfl | rfl | rfl | rfl | rfl | rfl | rfl <;> omega
  · have hs : s = 1 ∨ s = 2 ∨ s = 3 ∨ s = 4 ∨ s = 5 ∨ s = 6 ∨ s = 7 := by omega
    rcases hs with rfl | rfl | rfl | rfl | rfl | rfl | rfl <;> omega

theorem shr_or_shl_byte (s : Nat) (h0 : 0 < s) (h8 : s < 8) (b c : UInt8) :
    ((b >>> UInt8.ofNat s) ||| (c <<< UInt8.ofNat (8 - s))).toNat =
      b.toNat / 2 ^ s + (c.toNat * 2 ^ (8 - s)) % 256 := by
  have := shl_or_shr_byte (8 - s) (by omega) (by omega) c b
  have e : 8 - (8 - s) = s := by omega
  rw [e] at this
  rw [UInt8.toNat_or, Nat.or_comm, ← UInt8.toNat_or, this, Nat.add_comm]

theorem leToNat_bitLshAux (s : Nat) (h0 : 0 < s) (h8 : s < 8) (prev : UInt8) (l : List UInt8) :
    leToNat (Expreval.bitLshAux s prev l) =
      (leToNat l * 2 ^ s + prev.toNat / 2 ^ (8 - s)) % 256 ^ l.length := by
  induction l generalizing prev with
  | nil => simp [Expreval.bitLshAux, Nat.mod_one]
  | cons b bs ih =>
    have hb := toNat_lt_256 b
    have hp := toNat_lt_256 prev
    simp only [Expreval.bitLshAux, leToNat_cons, List.length_cons]
    rw [ih b, shl_or_shr_byte s h0 h8, pow256_succ, Nat.mod_mul]
    have hs : s = 1 ∨ s = 2 ∨ s = 3 ∨ s = 4 ∨ s = 5 ∨ s = 6 ∨ s = 7 := by omega
    have e1 : ((b.toNat + 256 * leToNat bs) * 2 ^ s + prev.toNat / 2 ^ (8 - s)) % 256
        = b.toNat * 2 ^ s % 256 + prev.toNat / 2 ^ (8 - s) := by
      rcases hs with rfl | rfl | rfl | rfl | rfl | rfl | rfl <;> omega
    have e2 : ((b.toNat + 256 * leToNat bs) * 2 ^ s + prev.toNat / 2 ^ (8 - s)) / 256
        = leToNat bs * 2 ^ s + b.toNat / 2 ^ (8 - s) := by
      rcases hs with rfl | rfl | rfl | rfl | rfl | rfl | rfl <;> omega
    rw [e1, e2]

theorem leToNat_bitLsh (s : Nat) (h0 : 0 < s) (h8 : s < 8) (l : List UInt8) :
    leToNat (Expreval.bitLsh l s) = (leToNat l * 2 ^ s) % 256 ^ l.length := by
  rw [Expreval.bitLsh, leToNat_bitLshAux s h0 h8]
  simp

theorem leToNat_bitRsh (s : Nat) (h0 : 0 < s) (h8 : s < 8) (l : List UInt8) :
    leToNat (Expreval.bitRsh s l) = leToNat l / 2 ^ s := by
  induction l with
  | nil => simp [Expreval.bitRsh]
  | cons b bs ih =>
    cases bs with
    | nil =>
      simp only [Expreval.bitRsh, leToNat_cons, leToNat_nil, Nat.mul_zero, Nat.add_zero]
      rw [UInt8.toNat_shiftRight, ofNat_toNat_mod8 s h8, Nat.shiftRight_eq_div_pow]
    | cons c bs =>
      have hb := toNat_lt_256 b
      have hc := toNat_lt_256 c
      simp only [Expreval.bitRsh, leToNat_cons] at ih ⊢
      rw [ih, shr_or_shl_byte s h0 h8]
      have hs : s = 1 ∨ s = 2 ∨ s = 3 ∨ s = 4 ∨ s = 5 ∨ s = 6 ∨ s = 7 := by omega
      rcases hs with rfl | rfl | rfl | rfl | rfl | rfl | rfl <;> omega

/-! ### `shiftUint64` -/

theorem shiftUint64_eq (v : List UInt8) (w : Nat) :
    Expreval.shiftUint64 v w =
      if trunc w (leToNat v) ≥ 2 ^ 64 then none
      else if trunc w (leToNat v) / 8 ≥ w then none
      else some (trunc w (leToNat v) / 8, trunc w (leToNat v) % 8) := by
  simp only [Expreval.shiftUint64, bigInt_eq]

theorem shift_in_range (v : List UInt8) (w a b : Nat) (h : Expreval.shiftUint64 v w = some (a, b)) :
    a < w ∧ b < 8 := by
  rw [shiftUint64_eq] at h
  split at h
  · cases h
  · split at h
    · cases h
    · simp only [Option.some.injEq, Prod.mk.injEq] at h
      omega

/-- the two failure cases of `shiftUint64` are exactly "shift by at least `8w` bits" -/
theorem shiftUint64_none (v : List UInt8) (w : Nat) (hw : w ≤ 255)
    (h : Expreval.shiftUint64 v w = none) : trunc w (leToNat v) ≥ 8 * w := by
  rw [shiftUint64_eq] at h
  split at h
  · rename_i h64
    have : (2 : Nat) ^ 64 = 18446744073709551616 := by decide
    omega
  · split at h
    · omega
    · cases h

theorem shiftUint64_some (v : List UInt8) (w k s : Nat)
    (h : Expreval.shiftUint64 v w = some (k, s)) :
    trunc w (leToNat v) = 8 * k + s ∧ k < w ∧ s < 8 := by
  rw [shiftUint64_eq] at h
  split at h
  · cases h
  · split at h
    · cases h
    · simp only [Option.some.injEq, Prod.mk.injEq] at h
      omega

/-! ### `lsh` and `rsh` -/

theorem lsh_length (v1 v2 : List UInt8) (w : Nat) : (Expreval.lsh v1 v2 w).length = w := by
  unfold Expreval.lsh
  split
  · simp
  · rename_i k s h
    obtain ⟨_, hk, _⟩ := shiftUint64_some _ _ _ _ h
    have hl : (List.replicate k (0 : UInt8) ++ (Expreval.setWidth v1 w).take (w - k)).length = w := by
      rw [List.length_append, List.length_replicate, List.length_take, setWidth_length]; omega
    simp only []
    split
    · rw [Expreval.bitLsh, bitLshAux_length, hl]
    · exact hl

theorem rsh_length (v1 v2 : List UInt8) (w : Nat) : (Expreval.rsh v1 v2 w).length = w := by
  unfold Expreval.rsh
  split
  · simp
  · rename_i k s h
    obtain ⟨_, hk, _⟩ := shiftUint64_some _ _ _ _ h
    simp only []
    rw [List.length_append, List.length_replicate]
    split
    · rw [bitRsh_length, List.length_drop, setWidth_length]; omega
    · rw [List.length_drop, setWidth_length]; omega

theorem two_pow_split (k s : Nat) : 2 ^ (8 * k + s) = 256 ^ k * 2 ^ s := by
  rw [Nat.pow_add, two_pow_eight_mul]

theorem leToNat_lsh (v1 v2 : List UInt8) (w : Nat) (hw : w ≤ 255) :
    leToNat (Expreval.lsh v1 v2 w) =
      evalBin .lsh w (trunc w (leToNat v1)) (trunc w (leToNat v2)) := by
  unfold Expreval.lsh evalBin
  split
  · rename_i h
    have := shiftUint64_none _ _ hw h
    simp only [leToNat_replicate_zero]
    rw [if_pos this]
  · rename_i k s h
    obtain ⟨hy, hk, hs⟩ := shiftUint64_some _ _ _ _ h
    have hlt : ¬ (trunc w (leToNat v2) ≥ 8 * w) := by omega
    simp only []
    rw [if_neg hlt, hy, two_pow_split, two_pow_eight_mul]
    have hl : (List.replicate k (0 : UInt8) ++ (Expreval.setWidth v1 w).take (w - k)).length = w := by
      rw [List.length_append, List.length_replicate, List.length_take, setWidth_length]; omega
    have hv : leToNat (List.replicate k (0 : UInt8) ++ (Expreval.setWidth v1 w).take (w - k)) =
        (256 ^ k * trunc w (leToNat v1)) % 256 ^ w := by
      rw [leToNat_append, leToNat_replicate_zero, List.length_replicate, leToNat_take,
        leToNat_setWidth, Nat.zero_add, ← Nat.mul_mod_mul_left, ← pow256_add]
      congr 2; omega
    split
    · rename_i hs0
      rw [leToNat_bitLsh s (by omega) hs, hl, hv, Nat.mod_mul_mod]
      congr 1
      rw [Nat.mul_comm (256 ^ k), Nat.mul_assoc]
    · rename_i hs0
      have : s = 0 := by omega
      subst this
      rw [hv, Nat.pow_zero, Nat.mul_one, Nat.mul_comm]

theorem leToNat_rsh (v1 v2 : List UInt8) (w : Nat) (hw : w ≤ 255) :
    leToNat (Expreval.rsh v1 v2 w) =
      evalBin .rsh w (trunc w (leToNat v1)) (trunc w (leToNat v2)) := by
  unfold Expreval.rsh evalBin
  split
  · rename_i h
    have := shiftUint64_none _ _ hw h
    simp only [leToNat_replicate_zero]
    rw [if_pos this]
  · rename_i k s h
    obtain ⟨hy, hk, hs⟩ := shiftUint64_some _ _ _ _ h
    have hlt : ¬ (trunc w (leToNat v2) ≥ 8 * w) := by omega
    simp only []
    rw [if_neg hlt, hy, two_pow_split, leToNat_append, leToNat_replicate_zero, Nat.mul_zero,
      Nat.add_zero, ← Nat.div_div_eq_div_mul]
    split
    · rename_i hs0
      rw [leToNat_bitRsh s (by omega) hs, leToNat_drop, leToNat_setWidth]
    · rename_i hs0
      have : s = 0 := by omega
      subst this
      rw [leToNat_drop, leToNat_setWidth, Nat.pow_zero, Nat.div_one]

/-! ### the main statements -/

theorem binary_length (op : BinOp) (c1 c2 : List UInt8) (w : Nat) :
    (Expreval.binary op c1 c2 w).length = w := by
  cases op
  · show (Expreval.addLoop _ _ _).length = w
    rw [addLoop_length _ _ _ (by simp), setWidth_length]
  · exact lsh_length c1 c2 w
  · exact rsh_length c1 c2 w
  · show (natToLE _ _).length = w
    exact natToLE_length _ _
  · show (Expreval.div c1 c2 w).length = w
    unfold Expreval.div
    split
    · exact List.length_replicate
    · exact natToLE_length _ _
  · show (Expreval.nandLoop _ _).length = w
    rw [nandLoop_length _ _ (by simp), setWidth_length]

theorem binary_value (op : BinOp) (c1 c2 : List UInt8) (w : Nat) (hw : w ≤ 255) :
    leToNat (Expreval.binary op c1 c2 w) =
      evalBin op w (trunc w (leToNat c1)) (trunc w (leToNat c2)) := by
  cases op
  · show leToNat (Expreval.addLoop _ _ _) = _ % _
    rw [leToNat_addLoop _ _ _ (by simp), setWidth_length, leToNat_setWidth, leToNat_setWidth,
      two_pow_eight_mul]
    rfl
  · exact leToNat_lsh c1 c2 w hw
  · exact leToNat_rsh c1 c2 w hw
  · show leToNat (natToLE _ _) = _ % _
    rw [leToNat_natToLE, bigInt_eq, bigInt_eq]
  · show leToNat (Expreval.div c1 c2 w) = if _ then _ else _
    unfold Expreval.div
    rw [bigInt_eq, bigInt_eq]
    split
    · rw [leToNat_replicate_255, two_pow_eight_mul]
    · rw [leToNat_natToLE_trunc, trunc_of_lt]
      exact Nat.lt_of_le_of_lt (Nat.div_le_self _ _) (trunc_lt w _)
  · show leToNat (Expreval.nandLoop _ _) = nandW _ _ _
    rw [leToNat_nandLoop _ _ (by simp), setWidth_length, leToNat_setWidth, leToNat_setWidth,
      nandW, two_pow_eight_mul]

/-! ### `ltu` -/

/-- scanning from the most significant byte decides numeric `<` -/
theorem ltuLoop_iff (r1 r2 : List UInt8) (h : r1.length = r2.length) :
    Expreval.ltuLoop r1 r2 = true ↔ leToNat r1.reverse < leToNat r2.reverse := by
  induction r1 generalizing r2 with
  | nil =>
    cases r2 with
    | nil => simp [Expreval.ltuLoop]
    | cons _ _ => simp at h
  | cons b1 t1 ih =>
    cases r2 with
    | nil => simp at h
    | cons b2 t2 =>
      simp only [List.length_cons, Nat.add_right_cancel_iff] at h
      have hA := leToNat_lt_pow256 t1.reverse
      have hB := leToNat_lt_pow256 t2.reverse
      rw [List.length_reverse] at hA hB
      rw [← h] at hB
      simp only [Expreval.ltuLoop, List.reverse_cons, leToNat_append, List.length_reverse,
        leToNat_cons, leToNat_nil, Nat.mul_zero, Nat.add_zero, ← h]
      by_cases hlt' : b1 < b2
      · rw [if_pos hlt']
        have hlt : b1.toNat < b2.toNat := UInt8.lt_iff_toNat_lt.mp hlt'
        have : 256 ^ t1.length * (b1.toNat + 1) ≤ 256 ^ t1.length * b2.toNat :=
          Nat.mul_le_mul_left _ hlt
        rw [Nat.mul_add, Nat.mul_one] at this
        simp only [true_iff]
        omega
      · rw [if_neg hlt']
        have hlt : ¬ b1.toNat < b2.toNat := fun h => hlt' (UInt8.lt_iff_toNat_lt.mpr h)
        by_cases hgt' : b1 > b2
        · rw [if_pos hgt']
          have hgt : b2.toNat < b1.toNat := UInt8.lt_iff_toNat_lt.mp hgt'
          have : 256 ^ t1.length * (b2.toNat + 1) ≤ 256 ^ t1.length * b1.toNat :=
            Nat.mul_le_mul_left _ hgt
          rw [Nat.mul_add, Nat.mul_one] at this
          simp only [Bool.false_eq_true, false_iff]
          omega
        · rw [if_neg hgt', ih t2 h]
          have hgt : ¬ b2.toNat < b1.toNat := fun h => hgt' (UInt8.lt_iff_toNat_lt.mpr h)
          have : b1.toNat = b2.toNat := by omega
          rw [this]
          omega

theorem ltu_iff (c1 c2 : List UInt8) (w : Nat) :
    Expreval.ltu c1 c2 w = true ↔ trunc w (leToNat c1) < trunc w (leToNat c2) := by
  unfold Expreval.ltu
  rw [ltuLoop_iff _ _ (by simp), List.reverse_reverse, List.reverse_reverse, leToNat_setWidth,
    leToNat_setWidth]

end Mltwist.Lemmas.Expreval
