import Mltwist.Lemmas.DepsView
/-
Footprints of the model (`Ins.inRegs`, … : `keySet` of `findAll` results) against the
structural footprints of the specification (`SIns.regIn`, …).  Only what `conflict_path` needs.
-/
namespace Mltwist.Lemmas.Deps.Paths
open Mltwist Mltwist.Deps Mltwist.Deps.Spec

theorem mem_insertKey (k a : String) (s : List String) : a ∈ insertKey k s ↔ a ∈ s ∨ a = k := by
  unfold insertKey
  split
  · constructor
    · intro h; exact Or.inl h
    · rintro (h | h)
      · exact h
      · subst h; assumption
  · simp

theorem mem_keySet_aux (ks : List String) (s : List String) (a : String) :
    a ∈ ks.foldl (fun s k => insertKey k s) s ↔ a ∈ s ∨ a ∈ ks := by
  induction ks generalizing s with
  | nil => simp
  | cons k ks ih =>
    simp only [List.foldl_cons, ih, mem_insertKey, List.mem_cons]
    constructor
    · rintro ((h | h) | h)
      · exact Or.inl h
      · exact Or.inr (Or.inl h)
      · exact Or.inr (Or.inr h)
    · rintro (h | h | h)
      · exact Or.inl (Or.inl h)
      · exact Or.inl (Or.inr h)
      · exact Or.inr h

theorem mem_keySet (ks : List String) (a : String) : a ∈ keySet ks ↔ a ∈ ks := by
  unfold keySet
  rw [mem_keySet_aux]
  simp

theorem mem_findAll_regLoad (e : Expr) (a : String) :
    a ∈ (findAll .regLoad e).filterMap regLoadKey ↔ a ∈ regReads e := by
  induction e with
  | const bs => simp [findAll, Expr.kind, regReads]
  | binary op x y w ihx ihy =>
    simp only [findAll, Expr.kind, regReads, List.filterMap_append, List.mem_append, ihx, ihy]
    simp
  | less x y t f w ihx ihy iht ihf =>
    simp only [findAll, Expr.kind, regReads, List.filterMap_append, List.mem_append, ihx, ihy,
      iht, ihf]
    simp
  | memLoad k x w ihx =>
    simp only [findAll, Expr.kind, regReads, List.filterMap_append, List.mem_append, ihx]
    simp
  | regLoad k w => simp [findAll, Expr.kind, regReads, regLoadKey]

theorem mem_findAll_memLoad (e : Expr) (a : String) :
    a ∈ (findAll .memLoad e).filterMap memLoadKey ↔ a ∈ memReads e := by
  induction e with
  | const bs => simp [findAll, Expr.kind, memReads]
  | binary op x y w ihx ihy =>
    simp only [findAll, Expr.kind, memReads, List.filterMap_append, List.mem_append, ihx, ihy]
    simp
  | less x y t f w ihx ihy iht ihf =>
    simp only [findAll, Expr.kind, memReads, List.filterMap_append, List.mem_append, ihx, ihy,
      iht, ihf]
    simp
  | memLoad k x w ihx =>
    simp only [findAll, Expr.kind, memReads, List.filterMap_append, List.mem_append, ihx]
    simp [memLoadKey]
  | regLoad k w => simp [findAll, Expr.kind, memReads]

theorem mem_inRegs (i : Ins) (n : Nat) (a : String) : a ∈ (i.toS n).regIn ↔ a ∈ i.inRegs := by
  unfold Ins.inRegs inputRegs SIns.regIn Ins.toS exprsMany
  rw [mem_keySet]
  simp only [List.mem_flatMap]
  constructor
  · rintro ⟨ef, hef, ha⟩
    cases ef with
    | regStore v k w =>
      exact ⟨v, ⟨_, hef, by simp [Effect.exprs]⟩, (mem_findAll_regLoad v a).2 ha⟩
    | memStore v k ad w =>
      simp only [effRegReads, List.mem_append] at ha
      rcases ha with ha | ha
      · exact ⟨ad, ⟨_, hef, by simp [Effect.exprs]⟩, (mem_findAll_regLoad ad a).2 ha⟩
      · exact ⟨v, ⟨_, hef, by simp [Effect.exprs]⟩, (mem_findAll_regLoad v a).2 ha⟩
  · rintro ⟨ex, ⟨ef, hef, hex⟩, ha⟩
    refine ⟨ef, hef, ?_⟩
    have ha := (mem_findAll_regLoad ex a).1 ha
    cases ef with
    | regStore v k w =>
      simp only [Effect.exprs, List.mem_singleton] at hex
      subst hex; exact ha
    | memStore v k ad w =>
      simp only [Effect.exprs, List.mem_cons, List.not_mem_nil, or_false] at hex
      simp only [effRegReads, List.mem_append]
      rcases hex with hex | hex
      · subst hex; exact Or.inl ha
      · subst hex; exact Or.inr ha

theorem mem_loads (i : Ins) (n : Nat) (a : String) : a ∈ (i.toS n).memIn ↔ a ∈ i.loads := by
  unfold Ins.loads Deps.loads SIns.memIn Ins.toS exprsMany
  simp only [List.mem_flatMap]
  constructor
  · rintro ⟨ef, hef, ha⟩
    cases ef with
    | regStore v k w =>
      exact ⟨v, ⟨_, hef, by simp [Effect.exprs]⟩, (mem_findAll_memLoad v a).2 ha⟩
    | memStore v k ad w =>
      simp only [effMemReads, List.mem_append] at ha
      rcases ha with ha | ha
      · exact ⟨ad, ⟨_, hef, by simp [Effect.exprs]⟩, (mem_findAll_memLoad ad a).2 ha⟩
      · exact ⟨v, ⟨_, hef, by simp [Effect.exprs]⟩, (mem_findAll_memLoad v a).2 ha⟩
  · rintro ⟨ex, ⟨ef, hef, hex⟩, ha⟩
    refine ⟨ef, hef, ?_⟩
    have ha := (mem_findAll_memLoad ex a).1 ha
    cases ef with
    | regStore v k w =>
      simp only [Effect.exprs, List.mem_singleton] at hex
      subst hex; exact ha
    | memStore v k ad w =>
      simp only [Effect.exprs, List.mem_cons, List.not_mem_nil, or_false] at hex
      simp only [effMemReads, List.mem_append]
      rcases hex with hex | hex
      · subst hex; exact Or.inl ha
      · subst hex; exact Or.inr ha

theorem mem_outRegs (i : Ins) (n : Nat) (a : String) : a ∈ (i.toS n).regOut ↔ a ∈ i.outRegs := by
  unfold Ins.outRegs outputRegs SIns.regOut Ins.toS
  rw [mem_keySet]
  simp only [List.mem_flatMap, List.mem_filterMap]
  constructor
  · rintro ⟨ef, hef, ha⟩
    refine ⟨ef, hef, ?_⟩
    cases ef with
    | regStore v k w => simp only [effRegWrites, List.mem_singleton] at ha; simp [ha]
    | memStore v k ad w => simp [effRegWrites] at ha
  · rintro ⟨ef, hef, ha⟩
    refine ⟨ef, hef, ?_⟩
    cases ef with
    | regStore v k w => simp only [Option.some.injEq] at ha; simp [effRegWrites, ha]
    | memStore v k ad w => simp at ha

theorem mem_stores (i : Ins) (n : Nat) (a : String) : a ∈ (i.toS n).memOut ↔ a ∈ i.stores := by
  unfold Ins.stores Deps.stores SIns.memOut Ins.toS
  simp only [List.mem_flatMap, List.mem_filterMap]
  constructor
  · rintro ⟨ef, hef, ha⟩
    refine ⟨ef, hef, ?_⟩
    cases ef with
    | regStore v k w => simp [effMemWrites] at ha
    | memStore v k ad w => simp only [effMemWrites, List.mem_singleton] at ha; simp [ha]
  · rintro ⟨ef, hef, ha⟩
    refine ⟨ef, hef, ?_⟩
    cases ef with
    | regStore v k w => simp at ha
    | memStore v k ad w => simp only [Option.some.injEq] at ha; simp [effMemWrites, ha]

theorem writesIp_iff (i : Ins) (n : Nat) : (i.toS n).writesIp = true ↔ ipKey ∈ i.outRegs := by
  rw [← mem_outRegs i n]
  unfold SIns.writesIp
  have e : Spec.Lift.ipKey = ipKey := rfl
  simp [e]

theorem special_eq (i : Ins) (n : Nat) : (i.toS n).special = insSpecial i := by
  unfold SIns.special insSpecial Ins.syscall Ins.cpuStateChange Ins.toS
  simp only [Bool.or_comm]

theorem memOrder_eq (i : Ins) (n : Nat) : (i.toS n).memOrder = insMemOrder i := rfl

theorem memAccess_iff (i : Ins) (n : Nat) : (i.toS n).memAccess = true ↔ isMemAccess i = true := by
  have h1 := mem_loads i n
  have h2 := mem_stores i n
  unfold SIns.memAccess isMemAccess
  generalize (i.toS n).memIn = a at h1
  generalize (i.toS n).memOut = b at h2
  generalize i.loads = c at h1
  generalize i.stores = d at h2
  have e1 : a = [] ↔ c = [] := by
    constructor
    · intro h; subst h
      cases c with
      | nil => rfl
      | cons x _ => exact absurd ((h1 x).2 (by simp)) (by simp)
    · intro h; subst h
      cases a with
      | nil => rfl
      | cons x _ => exact absurd ((h1 x).1 (by simp)) (by simp)
  have e2 : b = [] ↔ d = [] := by
    constructor
    · intro h; subst h
      cases d with
      | nil => rfl
      | cons x _ => exact absurd ((h2 x).2 (by simp)) (by simp)
    · intro h; subst h
      cases b with
      | nil => rfl
      | cons x _ => exact absurd ((h2 x).1 (by simp)) (by simp)
  simp only [Bool.or_eq_true, Bool.not_eq_true', List.isEmpty_eq_false_iff, decide_eq_true_eq,
    List.length_pos_iff, ne_eq]
  rw [e1, e2]
  exact Or.comm

end Mltwist.Lemmas.Deps.Paths
