import Mltwist.Lemmas.ListingInv
/-
Every command of the disassembler mode keeps the invariant and does not panic (C23);
`move` and `bounds` in detail.
-/
namespace Mltwist.Lemmas.Listing
open Mltwist.Listing Mltwist.Listing.Spec

theorem markMove_spec (l : Lines) (f t : Nat) (failed : Bool) (hf : f < l.lines.length) (ht : t < l.lines.length) :
    ∃ l', markMove l f t failed = some l' ∧ shown l' = shown l ∧ l'.blockStarts = l.blockStarts ∧
      l'.lines.length = l.lines.length ∧ (∀ j ∈ l'.marks, j ∈ l.marks ∨ j = f ∨ j = t) := by
  obtain ⟨l1, h1, a1, b1, c1, d1⟩ := setMark_spec l f (if failed then markErrMovedFrom else markMovedFrom) hf
  obtain ⟨l2, h2, a2, b2, c2, d2⟩ := setMark_spec l1 t (if failed then markErrMovedTo else markMovedTo) (by omega)
  refine ⟨l2, by simp only [markMove, h1, h2], a2.trans a1, b2.trans b1, c2.trans c1, ?_⟩
  intro j hj
  rcases d2 j hj with h | h
  · rcases d1 j h with h | h
    · exact Or.inl h
    · exact Or.inr (Or.inl h)
  · exact Or.inr (Or.inr h)

/-- what a command does besides its specific effect -/
structure Keeps (st st' : St) : Prop where
  inv : Inv st'
  entry : st'.code.entry = st.code.entry
  length : st'.lines.lines.length = st.lines.lines.length

theorem cmdMove_spec (ops : CodeOps) (hl : Lawful ops) (st : St) (hinv : Inv st) (f t : Nat) :
    ∃ s st', cmdMove ops st f t = some (s, st') ∧ Keeps st st' ∧ st'.cursor = st.cursor ∧
      (s ≠ .ok → shown st'.lines = shown st.lines ∧ st'.code = st.code) := by
  unfold cmdMove
  by_cases hr : f ≥ st.lines.len ∨ t ≥ st.lines.len
  · rw [if_pos hr]
    exact ⟨_, _, rfl, ⟨hinv, rfl, rfl⟩, rfl, fun _ => ⟨rfl, rfl⟩⟩
  · rw [if_neg hr]
    simp only [Lines.len, not_or, Nat.not_le] at hr
    obtain ⟨l0, h0, r0, s0, n0, m0⟩ := unmarkAll_spec st.lines hinv.marks
    simp only [h0]
    obtain ⟨r, hm, hcase⟩ := move_spec ops hl l0 st.code hinv.wf (r0.trans hinv.rows) (s0.trans hinv.starts)
      f t (by omega) (by omega)
    simp only [hm]
    rcases hcase with ⟨herr, hlines, hcode⟩ | ⟨herr, hwf, hrows, hstarts, hlen, hmarks, hentry⟩
    · cases he : r.err with
      | none => exact absurd he herr
      | some e =>
        obtain ⟨l2, h2, a2, b2, c2, d2⟩ := markMove_spec r.lines f t true (by rw [hlines]; omega) (by rw [hlines]; omega)
        simp only [h2]
        refine ⟨_, _, rfl, ⟨⟨?_, ?_, ?_, ?_, ?_, ?_⟩, ?_, ?_⟩, rfl, fun _ => ⟨?_, ?_⟩⟩
        · simpa [hcode] using hinv.wf
        · simp only [hcode]; rw [a2, hlines, r0]; exact hinv.rows
        · simp only [hcode]; rw [b2, hlines, s0]; exact hinv.starts
        · intro j hj
          simp only at hj ⊢
          rw [c2, hlines, n0]
          rcases d2 j hj with h | h | h
          · rw [hlines, m0] at h; cases h
          · omega
          · omega
        · simp only; rw [c2, hlines, n0]; exact hinv.curMax
        · exact hinv.curVal
        · simp [hcode]
        · simp only; rw [c2, hlines, n0]
        · simp only; rw [a2, hlines, r0]
        · simp [hcode]
    · obtain ⟨l2, h2, a2, b2, c2, d2⟩ := markMove_spec r.lines f t false (by omega) (by omega)
      simp only [herr, h2]
      refine ⟨_, _, rfl, ⟨⟨hwf, ?_, ?_, ?_, ?_, ?_⟩, hentry, ?_⟩, rfl, fun h => absurd rfl h⟩
      · simp only; rw [a2]; exact hrows
      · simp only; rw [b2]; exact hstarts
      · intro j hj
        simp only at hj ⊢
        rw [c2, hlen, n0]
        rcases d2 j hj with h | h | h
        · rw [hmarks, m0] at h; cases h
        · omega
        · omega
      · simp only; rw [c2, hlen, n0]; exact hinv.curMax
      · exact hinv.curVal
      · simp only; rw [c2, hlen, n0]

/-- only marks change -/
theorem keeps_of_marks (st : St) (hinv : Inv st) (l' : Lines) (hrows : shown l' = shown st.lines)
    (hstarts : l'.blockStarts = st.lines.blockStarts) (hlen : l'.lines.length = st.lines.lines.length)
    (hmarks : ∀ j ∈ l'.marks, j < l'.lines.length) : Keeps st { st with lines := l' } :=
  ⟨⟨hinv.wf, hrows.trans hinv.rows, hstarts.trans hinv.starts, hmarks, by simpa [hlen] using hinv.curMax,
    hinv.curVal⟩, rfl, hlen⟩

theorem cmdBounds_spec (st : St) (hinv : Inv st) (n : Nat) :
    ∃ s st', cmdBounds st n = some (s, st') ∧ Keeps st st' ∧ st'.cursor = st.cursor ∧
      shown st'.lines = shown st.lines ∧ st'.code = st.code := by
  unfold cmdBounds
  by_cases hr : n ≥ st.lines.len
  · rw [if_pos hr]; exact ⟨_, _, rfl, ⟨hinv, rfl, rfl⟩, rfl, rfl, rfl⟩
  · rw [if_neg hr]
    simp only [Lines.len, Nat.not_le] at hr
    obtain ⟨l0, h0, r0, s0, n0, m0⟩ := unmarkAll_spec st.lines hinv.marks
    simp only [h0]
    have hn : n < l0.lines.length := by omega
    have hN : l0.lines[n]? = some l0.lines[n] := List.getElem?_eq_getElem hn
    obtain ⟨ln', hmem, hblk, hins⟩ := line_of_shown l0 st.code (r0.trans hinv.rows) n _ hN
    -- marking line `n` alone
    have markErr : ∀ e, ∃ s st', (match l0.setMark n markErr with
          | none => none
          | some l1 => some (Status.err e, { st with lines := l1 })) = some (s, st') ∧
        Keeps st st' ∧ st'.cursor = st.cursor ∧ shown st'.lines = shown st.lines ∧ st'.code = st.code := by
      intro e
      obtain ⟨l1, h1, a1, b1, c1, d1⟩ := setMark_spec l0 n markErr hn
      simp only [h1]
      refine ⟨_, _, rfl, keeps_of_marks st hinv l1 (a1.trans r0) (b1.trans s0) (c1.trans n0) ?_, rfl, a1.trans r0, rfl⟩
      intro j hj
      rcases d1 j hj with h | h
      · rw [m0] at h; cases h
      · omega
    simp only [Lines.block, hN]
    rcases mem_newLines hmem with ⟨h1, h2⟩ | ⟨b, hb, h⟩
    · rw [← hblk] at h1
      simp only [h1]
      exact markErr _
    · have hidx : l0.lines[n].block = some b.idx := by
        rw [hblk]; rcases h with ⟨h, _⟩ | ⟨_, _, h, _⟩ <;> exact h
      have hbget := wf_getElem? st.code hinv.wf b hb
      simp only [hidx, hbget]
      rcases h with ⟨_, h2⟩ | ⟨x, hx, _, h2⟩
      · rw [← hins] at h2
        simp only [h2]
        exact markErr _
      · rw [← hins] at h2
        simp only [h2, wf_ins_getElem? st.code hinv.wf b hb x hx]
        obtain ⟨s, hs, hroom⟩ := start_bound st.code b.idx b hbget
        have hst : l0.blockStarts[b.idx]? = some s := by rw [s0, hinv.starts]; exact hs
        simp only [Lines.line, hst]
        have hbd := hinv.wf.bounds b hb x hx
        have hlen : (newLines st.code).lines.length = l0.lines.length := by
          rw [n0]; exact (shown_length _ _ hinv.rows).symm
        obtain ⟨l1, h1, a1, b1, c1, d1⟩ := setMark_spec l0 (s + 1 + x.lower - 1) markLowerBound (by omega)
        obtain ⟨l2, h2', a2, b2, c2, d2⟩ := setMark_spec l1 (s + 1 + x.upper + 1) markUpperBound (by omega)
        simp only [h1, h2']
        refine ⟨_, _, rfl, keeps_of_marks st hinv l2 (a2.trans (a1.trans r0)) (b2.trans (b1.trans s0))
          (c2.trans (c1.trans n0)) ?_, rfl, a2.trans (a1.trans r0), rfl⟩
        intro j hj
        rcases d2 j hj with h | h
        · rcases d1 j h with h | h
          · rw [m0] at h; cases h
          · omega
        · omega

/-! ### the cursor -/

theorem setCursor_neg (st : St) (v : Int) (h : v < 0) : setCursor st v = (.err .negative, st) := by
  simp [setCursor, Cursor.set, h]

theorem setCursor_high (st : St) (v : Int) (h1 : ¬ v < 0) (h : v ≥ (st.cursor.maxValue : Int)) :
    setCursor st v = (.err .tooHigh, st) := by
  simp [setCursor, Cursor.set, h1, h]

theorem setCursor_ok (st : St) (v : Int) (h1 : ¬ v < 0) (h : ¬ v ≥ (st.cursor.maxValue : Int)) :
    setCursor st v = (.ok, { st with cursor := { st.cursor with value := v.toNat } }) := by
  simp [setCursor, Cursor.set, h1, h]

theorem setCursor_spec (st : St) (hinv : Inv st) (v : Int) :
    Keeps st (setCursor st v).2 ∧ (setCursor st v).2.lines = st.lines ∧ (setCursor st v).2.code = st.code ∧
      ((0 ≤ v ∧ v < st.lines.lines.length ∧ (setCursor st v).1 = .ok ∧ ((setCursor st v).2.cursor.value : Int) = v) ∨
       (¬ (0 ≤ v ∧ v < st.lines.lines.length) ∧ (∃ e, (setCursor st v).1 = .err e) ∧ (setCursor st v).2 = st)) := by
  have hm := hinv.curMax
  by_cases h1 : v < 0
  · rw [setCursor_neg st v h1]
    exact ⟨⟨hinv, rfl, rfl⟩, rfl, rfl, Or.inr ⟨by omega, ⟨_, rfl⟩, rfl⟩⟩
  · by_cases h2 : v ≥ (st.cursor.maxValue : Int)
    · rw [setCursor_high st v h1 h2]
      exact ⟨⟨hinv, rfl, rfl⟩, rfl, rfl, Or.inr ⟨by omega, ⟨_, rfl⟩, rfl⟩⟩
    · rw [setCursor_ok st v h1 h2]
      refine ⟨⟨⟨hinv.wf, hinv.rows, hinv.starts, hinv.marks, hinv.curMax, ?_⟩, rfl, rfl⟩, rfl, rfl,
        Or.inl ⟨by omega, by omega, rfl, ?_⟩⟩
      · show v.toNat < st.cursor.maxValue; omega
      · show ((v.toNat : Nat) : Int) = v; omega

end Mltwist.Lemmas.Listing
