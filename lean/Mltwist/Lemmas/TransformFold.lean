import Mltwist.Lemmas.TransformBasic
/-
Facts about `constFoldRaw` and the normal forms reached by `purge` / `constFold`, used by
`Mltwist.Lemmas.Transform`.
-/
namespace Mltwist.Lemmas.Transform
open Mltwist

/-! ### case analysis of `constFoldRaw` -/

theorem isConst_iff {e : Expr} : e.isConst = true ↔ ∃ bs, e = .const bs := by
  cases e <;> simp [Expr.isConst]

theorem cfr_binary_cases (op : BinOp) (a b : Expr) (w : Nat) :
    (∃ c1 c2, constFoldRaw a = .const c1 ∧ constFoldRaw b = .const c2 ∧
      constFoldRaw (.binary op a b w) = .const (Expreval.binary op c1 c2 w)) ∨
    (((constFoldRaw a).isConst && (constFoldRaw b).isConst) = false ∧
      constFoldRaw (.binary op a b w) = .binary op (constFoldRaw a) (constFoldRaw b) w) := by
  rw [constFoldRaw]
  split
  · rename_i c1 c2 h1 h2
    exact Or.inl ⟨c1, c2, h1, h2, rfl⟩
  · rename_i hn
    refine Or.inr ⟨?_, rfl⟩
    cases h1 : constFoldRaw a <;> cases h2 : constFoldRaw b <;> simp [Expr.isConst]
    exact hn _ _ h1 h2

theorem cfr_less_cases (a b t f : Expr) (w : Nat) :
    (∃ c1 c2, constFoldRaw a = .const c1 ∧ constFoldRaw b = .const c2 ∧
      constFoldRaw (.less a b t f w) =
        setWidth (if Expreval.ltu c1 c2 w then constFoldRaw t else constFoldRaw f) w) ∨
    (((constFoldRaw a).isConst && (constFoldRaw b).isConst) = false ∧
      constFoldRaw (.less a b t f w) =
        .less (constFoldRaw a) (constFoldRaw b) (constFoldRaw t) (constFoldRaw f) w) := by
  rw [constFoldRaw]
  split
  · rename_i c1 c2 h1 h2
    exact Or.inl ⟨c1, c2, h1, h2, rfl⟩
  · rename_i hn
    refine Or.inr ⟨?_, rfl⟩
    cases h1 : constFoldRaw a <;> cases h2 : constFoldRaw b <;> simp [Expr.isConst]
    exact hn _ _ h1 h2

theorem cfr_memLoad (k : String) (a : Expr) (w : Nat) :
    constFoldRaw (.memLoad k a w) = .memLoad k (constFoldRaw a) w := by
  rw [constFoldRaw]

theorem cfr_const (bs : List UInt8) : constFoldRaw (.const bs) = .const bs := by
  simp [constFoldRaw]

theorem cfr_regLoad (k : String) (w : Nat) : constFoldRaw (.regLoad k w) = .regLoad k w := by
  simp [constFoldRaw]

/-! ### width, value, shape of `constFoldRaw` -/

theorem cfr_width (e : Expr) : (constFoldRaw e).width = e.width := by
  induction e with
  | const bs => rw [cfr_const]
  | regLoad k w => rw [cfr_regLoad]
  | memLoad k a w _ => rw [cfr_memLoad]; rfl
  | binary op a b w _ _ =>
    rcases cfr_binary_cases op a b w with ⟨c1, c2, _, _, h⟩ | ⟨_, h⟩
    · rw [h]; exact Lemmas.Expreval.binary_length op c1 c2 w
    · rw [h]; rfl
  | less a b t f w _ _ _ _ =>
    rcases cfr_less_cases a b t f w with ⟨c1, c2, _, _, h⟩ | ⟨_, h⟩
    · rw [h]; exact setWidth_width' _ _
    · rw [h]; rfl

theorem cfr_eval (ρ : Env) (e : Expr) (hwf : e.wf = true) :
    (constFoldRaw e).eval ρ = e.eval ρ := by
  induction e with
  | const bs => rw [cfr_const]
  | regLoad k w => rw [cfr_regLoad]
  | memLoad k a w iha =>
    simp only [Expr.wf, Bool.and_eq_true] at hwf
    rw [cfr_memLoad]; simp only [Expr.eval, iha hwf.2]
  | binary op a b w iha ihb =>
    simp only [Expr.wf, Bool.and_eq_true, decide_eq_true_eq] at hwf
    obtain ⟨⟨⟨_, hw⟩, hwa⟩, hwb⟩ := hwf
    have iha := iha hwa
    have ihb := ihb hwb
    rcases cfr_binary_cases op a b w with ⟨c1, c2, h1, h2, h⟩ | ⟨_, h⟩
    · rw [h]
      rw [h1] at iha
      rw [h2] at ihb
      simp only [Expr.eval] at iha ihb ⊢
      rw [Lemmas.Expreval.binary_value op c1 c2 w hw, iha, ihb]
    · rw [h]; simp only [Expr.eval, iha, ihb]
  | less a b t f w iha ihb iht ihf =>
    simp only [Expr.wf, Bool.and_eq_true, decide_eq_true_eq] at hwf
    obtain ⟨⟨⟨⟨⟨_, hw⟩, hwa⟩, hwb⟩, hwt⟩, hwf'⟩ := hwf
    have iha := iha hwa
    have ihb := ihb hwb
    have iht := iht hwt
    have ihf := ihf hwf'
    rcases cfr_less_cases a b t f w with ⟨c1, c2, h1, h2, h⟩ | ⟨_, h⟩
    · rw [h, setWidth_eval']
      rw [h1] at iha
      rw [h2] at ihb
      simp only [Expr.eval] at iha ihb ⊢
      rw [← iha, ← ihb]
      by_cases hc : Expreval.ltu c1 c2 w = true
      · rw [if_pos hc, if_pos ((Lemmas.Expreval.ltu_iff c1 c2 w).1 hc), iht]
      · rw [if_neg hc, if_neg (fun h' => hc ((Lemmas.Expreval.ltu_iff c1 c2 w).2 h')), ihf]
    · rw [h]; simp only [Expr.eval, iha, ihb, iht, ihf]

theorem cfr_closed (e : Expr) (h : e.closed = true) : (constFoldRaw e).isConst = true := by
  induction e with
  | const bs => rw [cfr_const]; rfl
  | regLoad k w => simp [Expr.closed] at h
  | memLoad k a w _ => simp [Expr.closed] at h
  | binary op a b w iha ihb =>
    simp only [Expr.closed, Bool.and_eq_true] at h
    rcases cfr_binary_cases op a b w with ⟨c1, c2, _, _, h'⟩ | ⟨hn, _⟩
    · rw [h']; rfl
    · rw [iha h.1, ihb h.2] at hn; simp at hn
  | less a b t f w iha ihb iht ihf =>
    simp only [Expr.closed, Bool.and_eq_true] at h
    obtain ⟨⟨⟨ha, hb⟩, ht⟩, hf⟩ := h
    rcases cfr_less_cases a b t f w with ⟨c1, c2, _, _, h'⟩ | ⟨hn, _⟩
    · rw [h']
      apply setWidth_isConst
      split
      · exact iht ht
      · exact ihf hf
    · rw [iha ha, ihb hb] at hn; simp at hn

theorem cfr_noConstOp (e : Expr) : (constFoldRaw e).noConstOp = true := by
  induction e with
  | const bs => rw [cfr_const]; rfl
  | regLoad k w => rw [cfr_regLoad]; rfl
  | memLoad k a w iha => rw [cfr_memLoad]; simpa [Expr.noConstOp] using iha
  | binary op a b w iha ihb =>
    rcases cfr_binary_cases op a b w with ⟨c1, c2, _, _, h⟩ | ⟨hn, h⟩
    · rw [h]; rfl
    · rw [h]; simp only [Expr.noConstOp, hn, iha, ihb]; rfl
  | less a b t f w iha ihb iht ihf =>
    rcases cfr_less_cases a b t f w with ⟨c1, c2, _, _, h⟩ | ⟨hn, h⟩
    · rw [h]
      apply setWidth_noConstOp
      split
      · exact iht
      · exact ihf
    · rw [h]; simp only [Expr.noConstOp, hn, iha, ihb, iht, ihf]; rfl

/-- `constFoldRaw` does nothing on a tree without constant-only operations -/
theorem cfr_of_noConstOp (e : Expr) (h : e.noConstOp = true) : constFoldRaw e = e := by
  induction e with
  | const bs => rw [cfr_const]
  | regLoad k w => rw [cfr_regLoad]
  | memLoad k a w iha =>
    simp only [Expr.noConstOp] at h
    rw [cfr_memLoad, iha h]
  | binary op a b w iha ihb =>
    simp only [Expr.noConstOp, Bool.and_eq_true] at h
    obtain ⟨⟨hn, ha⟩, hb⟩ := h
    have iha := iha ha
    have ihb := ihb hb
    rcases cfr_binary_cases op a b w with ⟨c1, c2, h1, h2, _⟩ | ⟨_, h'⟩
    · rw [iha] at h1; rw [ihb] at h2
      rw [h1, h2] at hn; simp [Expr.isConst] at hn
    · rw [h', iha, ihb]
  | less a b t f w iha ihb iht ihf =>
    simp only [Expr.noConstOp, Bool.and_eq_true] at h
    obtain ⟨⟨⟨⟨hn, ha⟩, hb⟩, ht⟩, hf⟩ := h
    have iha := iha ha
    have ihb := ihb hb
    rcases cfr_less_cases a b t f w with ⟨c1, c2, h1, h2, _⟩ | ⟨_, h'⟩
    · rw [iha] at h1; rw [ihb] at h2
      rw [h1, h2] at hn; simp [Expr.isConst] at hn
    · rw [h', iha, ihb, iht ht, ihf hf]

/-! ### `prune`, `stripSame`, `purge` keep `noConstOp` -/

/-- in a tree without constant-only operations the argument of a width gadget is no constant -/
theorem gadget_arg_of_noConstOp {a : Expr} {x : Nat}
    (h : (Expr.binary .add a (.const [0]) x).noConstOp = true) :
    a.isConst = false ∧ a.noConstOp = true := by
  simp only [Expr.noConstOp, Expr.isConst, Bool.and_true, Bool.and_eq_true,
    Bool.not_eq_true'] at h
  exact ⟨h.1, h.2⟩

theorem prune_noConstOp (e : Expr) (w : Nat) (h : e.noConstOp = true) :
    (prune e w).noConstOp = true ∧ (prune e w).isConst = e.isConst := by
  induction e with
  | binary op a b x iha ihb =>
    rw [prune_binary]
    split
    · rename_i hc
      simp only [Bool.and_eq_true, beq_iff_eq] at hc
      obtain ⟨rfl, rfl⟩ := isWidthGadget_binary hc.1
      obtain ⟨h1, h2⟩ := gadget_arg_of_noConstOp h
      refine ⟨(iha h2).1, ?_⟩
      rw [(iha h2).2, h1]; rfl
    · exact ⟨h, rfl⟩
  | _ => simp [prune, h]

theorem stripSame_noConstOp (e : Expr) (h : e.noConstOp = true) :
    (stripSame e).noConstOp = true ∧ (stripSame e).isConst = e.isConst := by
  induction e with
  | binary op a b x iha ihb =>
    rw [stripSame_binary]
    split
    · rename_i hc
      simp only [Bool.and_eq_true, beq_iff_eq] at hc
      obtain ⟨rfl, rfl⟩ := isWidthGadget_binary hc.1
      obtain ⟨h1, h2⟩ := gadget_arg_of_noConstOp h
      refine ⟨(iha h2).1, ?_⟩
      rw [(iha h2).2, h1]; rfl
    · exact ⟨h, rfl⟩
  | _ => simp [stripSame, h]

theorem purge_isConst (e : Expr) : (purge e).isConst = e.isConst := by
  cases e <;> simp [purge, Expr.isConst]

theorem purge_noConstOp (e : Expr) (h : e.noConstOp = true) : (purge e).noConstOp = true := by
  induction e with
  | const bs => simpa [purge] using h
  | regLoad k w => simp [purge, Expr.noConstOp]
  | memLoad k a w iha =>
    simp only [Expr.noConstOp] at h
    simp only [purge, Expr.noConstOp]
    exact (stripSame_noConstOp _ (iha h)).1
  | binary op a b w iha ihb =>
    simp only [Expr.noConstOp, Bool.and_eq_true] at h
    obtain ⟨⟨hn, ha⟩, hb⟩ := h
    have pa := prune_noConstOp _ w (iha ha)
    have pb := prune_noConstOp _ w (ihb hb)
    simp only [purge, Expr.noConstOp, pa.1, pb.1, pa.2, pb.2, purge_isConst, hn]
    rfl
  | less a b t f w iha ihb iht ihf =>
    simp only [Expr.noConstOp, Bool.and_eq_true] at h
    obtain ⟨⟨⟨⟨hn, ha⟩, hb⟩, ht⟩, hf⟩ := h
    have pa := prune_noConstOp _ w (iha ha)
    have pb := prune_noConstOp _ w (ihb hb)
    have pt := prune_noConstOp _ w (iht ht)
    have pf := prune_noConstOp _ w (ihf hf)
    simp only [purge, Expr.noConstOp, pa.1, pb.1, pt.1, pf.1, pa.2, pb.2, purge_isConst, hn]
    rfl

theorem purgeWidthGadgets_noConstOp (e : Expr) (h : e.noConstOp = true) :
    (purgeWidthGadgets e).noConstOp = true :=
  (stripSame_noConstOp _ (purge_noConstOp e h)).1

/-! ### purge-normal trees -/

/-- fixed-point conditions of `purge`: every operand of a `binary`/`less` is already pruned
for the width of its parent, and every load address is free of same-width gadgets -/
def PN : Expr → Prop
  | .binary _ a b w => PN a ∧ PN b ∧ prune a w = a ∧ prune b w = b
  | .less a b t f w =>
    PN a ∧ PN b ∧ PN t ∧ PN f ∧ prune a w = a ∧ prune b w = b ∧ prune t w = t ∧ prune f w = f
  | .memLoad _ a _ => PN a ∧ stripSame a = a
  | _ => True

theorem prune_idem (e : Expr) (w : Nat) : prune (prune e w) w = prune e w := by
  induction e with
  | binary op a b x iha ihb =>
    by_cases hc : (isWidthGadget (.binary op a b x) && dropDecision w x a.width == some true) = true
    · rw [prune_binary, if_pos hc]; exact iha
    · rw [prune_binary, if_neg hc, prune_binary, if_neg hc]
  | _ => simp [prune]

theorem stripSame_idem (e : Expr) : stripSame (stripSame e) = stripSame e := by
  induction e with
  | binary op a b x iha ihb =>
    by_cases hc : (isWidthGadget (.binary op a b x) && a.width == x) = true
    · rw [stripSame_binary, if_pos hc]; exact iha
    · rw [stripSame_binary, if_neg hc, stripSame_binary, if_neg hc]
  | _ => simp [stripSame]

theorem PN_prune (e : Expr) (w : Nat) (h : PN e) : PN (prune e w) := by
  induction e with
  | binary op a b x iha ihb =>
    rw [prune_binary]
    split
    · exact iha h.1
    · exact h
  | _ => simpa [prune] using h

theorem PN_stripSame (e : Expr) (h : PN e) : PN (stripSame e) := by
  induction e with
  | binary op a b x iha ihb =>
    rw [stripSame_binary]
    split
    · exact iha h.1
    · exact h
  | _ => simpa [stripSame] using h

theorem PN_purge (e : Expr) : PN (purge e) := by
  induction e with
  | const bs => simp [purge, PN]
  | regLoad k w => simp [purge, PN]
  | memLoad k a w iha =>
    simp only [purge, PN]
    exact ⟨PN_stripSame _ iha, stripSame_idem _⟩
  | binary op a b w iha ihb =>
    simp only [purge, PN]
    exact ⟨PN_prune _ w iha, PN_prune _ w ihb, prune_idem _ w, prune_idem _ w⟩
  | less a b t f w iha ihb iht ihf =>
    simp only [purge, PN]
    exact ⟨PN_prune _ w iha, PN_prune _ w ihb, PN_prune _ w iht, PN_prune _ w ihf,
      prune_idem _ w, prune_idem _ w, prune_idem _ w, prune_idem _ w⟩

theorem purge_of_PN (e : Expr) (h : PN e) : purge e = e := by
  induction e with
  | const bs => simp [purge]
  | regLoad k w => simp [purge]
  | memLoad k a w iha =>
    simp only [PN] at h
    simp only [purge, iha h.1, h.2]
  | binary op a b w iha ihb =>
    simp only [PN] at h
    obtain ⟨ha, hb, pa, pb⟩ := h
    simp only [purge, iha ha, ihb hb, pa, pb]
  | less a b t f w iha ihb iht ihf =>
    simp only [PN] at h
    obtain ⟨ha, hb, ht, hf, pa, pb, pt, pf⟩ := h
    simp only [purge, iha ha, ihb hb, iht ht, ihf hf, pa, pb, pt, pf]

/-- `PurgeWidthGadgets` is idempotent -/
theorem purgeWidthGadgets_idem (e : Expr) :
    purgeWidthGadgets (purgeWidthGadgets e) = purgeWidthGadgets e := by
  unfold purgeWidthGadgets
  rw [purge_of_PN _ (PN_stripSame _ (PN_purge e)), stripSame_idem]

end Mltwist.Lemmas.Transform
