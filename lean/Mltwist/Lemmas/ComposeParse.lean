import Mltwist.Props.C21
import Mltwist.Lemmas.EmulatorFetch
/-
COMPOSITION, part 1: the front end (C21, `Model/Parse.lean`) and the emulator's own "code view of an image"
(C03, `Model/Emulator.lean: liftIns/liftBlock/liftCode`).

Two slices modelled `parser.Parse` independently:
* C21: `Parse.parseRv64 : List Elf.Block → Except _ (List (Parse.Ins (Entry × Riscv.Ins)))` — the real loop
  (`parseLoop`, `parseIns`, `Validate`, `newInstruction`), proved to produce the `Tiling` of every block;
* C03: `Emulator.liftCode : List (Nat × List UInt8) → Option CodeView` — a stand-in walk that C03's `Statement`
  quantifies over (`liftCode blocks = some code`).
This file proves that they are the same function on images that fit the address space: whenever the real parser
accepts an image, `liftCode` accepts it and returns the parser's instructions as the emulator sees them
(`toEmu`: `Begin()`, `Len()`, `Effects()`).
-/
namespace Mltwist.Lemmas.Compose
open Mltwist Mltwist.Elf Mltwist.Parse Mltwist.Parse.Spec Mltwist.Emulator

/-- a `parser.Instruction` (C21's `Parse.Ins`) as the emulator (C03's `Emulator.Ins`) sees it:
`Begin()`, `Len() = len(Bytes)`, `Effects()` -/
def toEmu {δ : Type} (i : Parse.Ins δ) : Emulator.Ins := ⟨i.addr, i.bytes.length, i.effects⟩

/-- C20's `Fits` (no block reaches `2^64`) gives C03's `BlocksOK` (no block wraps around) -/
theorem blocksOK_of_fits {bs : List Block} (hf : Elf.Spec.Fits bs) : Lemmas.Emulator.BlocksOK bs :=
  fun b hb => Nat.le_of_lt (hf b hb)

/-- one block: C21's tiling of the block is what C03's `liftBlock` computes -/
theorem liftBlock_of_tiling {a : Nat} {bytes : List UInt8} {is : List (Parse.Ins (Riscv.Entry × Riscv.Ins))}
    (h : Tiling (rvDecoder rv64Table) a bytes is) :
    ∀ fuel, bytes.length / 4 + 1 ≤ fuel → a + bytes.length < 2 ^ 64 →
      liftBlock fuel a bytes = some (is.map toEmu) := by
  induction h with
  | done a =>
    intro fuel _ _
    cases fuel with
    | zero => rfl
    | succ f => simp [liftBlock]
  | step a bytes r ins rest hne hd hv hle hins _ ih =>
    intro fuel hfuel hfit
    obtain ⟨h4, e, _, hp, hr⟩ := Lemmas.Parse.rvDecoder_ok hd
    have hbl : r.byteLen = 4 := by rw [hr]
    rw [hbl] at ih
    cases fuel with
    | zero => omega
    | succ f =>
      have hne' : bytes.isEmpty = false := by
        cases bytes with
        | nil => exact absurd rfl hne
        | cons _ _ => rfl
      have hli : liftIns a bytes = some (toEmu ins) := by
        unfold liftIns
        unfold rv64Table at hp
        rw [hp]
        obtain ⟨_, i2, i3, i4, _⟩ := hins
        rw [hr] at i3 i4
        simp only [Lemmas.Parse.filterMap_id_map_some] at i3 i4
        simp only [toEmu, i2, i3, i4, List.length_take, Option.some.injEq, Emulator.Ins.mk.injEq, true_and,
          and_true]
        omega
      have hmod : (a + 4) % 2 ^ 64 = a + 4 := Nat.mod_eq_of_lt (by omega)
      have hrec := ih f (by simp only [List.length_drop]; omega) (by simp only [List.length_drop]; omega)
      unfold liftBlock
      rw [hne', hli, hmod, hrec]
      rfl

/-- all blocks: C21's `TilingAll` is what C03's `liftCode` computes -/
theorem liftCode_of_tilingAll {bs : List Block} {is : List (Parse.Ins (Riscv.Entry × Riscv.Ins))}
    (h : TilingAll (rvDecoder rv64Table) bs is) (hf : Elf.Spec.Fits bs) :
    liftCode bs = some (is.map toEmu) := by
  induction h with
  | nil => rfl
  | cons b bs is rest hb _ ih =>
    obtain ⟨a, bytes⟩ := b
    have h1 := liftBlock_of_tiling hb (bytes.length / 4 + 1) (Nat.le_refl _) (hf (a, bytes) (List.mem_cons_self ..))
    have h2 := ih (fun x hx => hf x (List.mem_cons_of_mem _ hx))
    unfold liftCode
    simp only at h1
    rw [h1, h2, List.map_append]

/-- THE BRIDGE C21 → C03: whenever the real parser accepts an image (that fits the address space), C03's
`liftCode` accepts it and its code view is the list of the parser's instructions -/
theorem liftCode_of_parse {bs : List Block} (hf : Elf.Spec.Fits bs)
    {is : List (Parse.Ins (Riscv.Entry × Riscv.Ins))} (h : parseRv64 bs = .ok is) :
    liftCode bs = some (is.map toEmu) :=
  liftCode_of_tilingAll ((Props.C21.parse_ok_iff _ (Props.C21.rv_honest _) bs hf is).1 h) hf

/-! ### what the tiling says about addresses (used for C08's well-formedness) -/

/-- the instructions of one tiled block: four bytes each, inside the block, in increasing order, back to back -/
theorem tiling_layout {a : Nat} {bytes : List UInt8} {is : List (Parse.Ins (Riscv.Entry × Riscv.Ins))}
    (h : Tiling (rvDecoder rv64Table) a bytes is) :
    (∀ i ∈ is, i.bytes.length = 4 ∧ a ≤ i.addr ∧ i.addr + 4 ≤ a + bytes.length) ∧
    is.Pairwise (fun x y => x.addr + x.bytes.length ≤ y.addr) := by
  induction h with
  | done a => exact ⟨fun i hi => (by cases hi), List.Pairwise.nil⟩
  | step a bytes r ins rest hne hd hv hle hins _ ih =>
    obtain ⟨h4, e, _, _, hr⟩ := Lemmas.Parse.rvDecoder_ok hd
    have hbl : r.byteLen = 4 := by rw [hr]
    rw [hbl] at ih
    obtain ⟨_, i2, i3, _, _⟩ := hins
    rw [hbl] at i3
    have hl : ins.bytes.length = 4 := by rw [i3, List.length_take]; omega
    obtain ⟨ih1, ih2⟩ := ih
    simp only [List.length_drop] at ih1
    refine ⟨?_, ?_⟩
    · intro i hi
      rcases List.mem_cons.1 hi with rfl | hi
      · exact ⟨hl, by omega, by omega⟩
      · obtain ⟨g1, g2, g3⟩ := ih1 i hi
        exact ⟨g1, by omega, by omega⟩
    · refine List.Pairwise.cons ?_ ih2
      intro y hy
      obtain ⟨_, g2, _⟩ := ih1 y hy
      omega

/-- the instructions of a tidy image (C20: blocks sorted by address and disjoint): four bytes each, below `2^64`,
strictly increasing and disjoint — in the ORDER the parser returns them -/
theorem tilingAll_layout {bs : List Block} {is : List (Parse.Ins (Riscv.Entry × Riscv.Ins))}
    (h : TilingAll (rvDecoder rv64Table) bs is) (ht : Elf.Spec.Tidy bs) :
    (∀ i ∈ is, i.bytes.length = 4 ∧ i.addr + 4 < 2 ^ 64 ∧ ∃ b ∈ bs, b.1 ≤ i.addr ∧ i.addr + 4 ≤ b.1 + b.2.length) ∧
    is.Pairwise (fun x y => x.addr + x.bytes.length ≤ y.addr) := by
  induction h with
  | nil => exact ⟨fun i hi => (by cases hi), List.Pairwise.nil⟩
  | cons b bs is rest hb _ ih =>
    obtain ⟨hfit, hsorted⟩ := ht
    obtain ⟨hb1, hb2⟩ := tiling_layout hb
    have hsorted' := List.pairwise_cons.1 hsorted
    obtain ⟨ih1, ih2⟩ := ih ⟨fun x hx => hfit x (List.mem_cons_of_mem _ hx), hsorted'.2⟩
    have hbf := hfit b (List.mem_cons_self ..)
    refine ⟨?_, ?_⟩
    · intro i hi
      rcases List.mem_append.1 hi with hi | hi
      · obtain ⟨g1, g2, g3⟩ := hb1 i hi
        exact ⟨g1, by omega, b, List.mem_cons_self .., g2, g3⟩
      · obtain ⟨g1, g2, b', hb', g3⟩ := ih1 i hi
        exact ⟨g1, g2, b', List.mem_cons_of_mem _ hb', g3⟩
    · rw [List.pairwise_append]
      refine ⟨hb2, ih2, ?_⟩
      intro x hx y hy
      obtain ⟨g1, _, g3⟩ := hb1 x hx
      obtain ⟨_, _, b', hb', g4, _⟩ := ih1 y hy
      have := hsorted'.1 b' hb'
      omega

end Mltwist.Lemmas.Compose
