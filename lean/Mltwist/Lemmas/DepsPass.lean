import Mltwist.Lemmas.DepsIndep
import Mltwist.Lemmas.DepsPaths
/-
C05 (d): an accepted move passes only instructions that do not conflict with the moved one.
Dependency paths go forward in every state that satisfies the invariant; the conflict relation is
symmetric up to the terminating-jump clause.
-/
namespace Mltwist.Lemmas.Deps
open Mltwist Mltwist.Deps Mltwist.Deps.Spec

theorem path_first {E : Edges} {a b : Nat} (h : Path E a b) :
    ∃ w, (a, w) ∈ E ∧ (w = b ∨ Path E w b) := by
  cases h with
  | edge h => exact ⟨b, h, Or.inl rfl⟩
  | cons h1 h2 => exact ⟨_, h1, Or.inr h2⟩

theorem path_last {E : Edges} {a b : Nat} (h : Path E a b) :
    ∃ w, (w, b) ∈ E ∧ (w = a ∨ Path E a w) := by
  induction h with
  | edge h => exact ⟨_, h, Or.inl rfl⟩
  | cons h1 _ ih =>
    obtain ⟨w, hw, hw'⟩ := ih
    refine ⟨w, hw, Or.inr ?_⟩
    rcases hw' with rfl | hw'
    · exact Path.edge h1
    · exact Path.cons h1 hw'

theorem path_fwd {L : List Nat} {E : Edges} (hF : Fwd L E) {a b : Nat} (h : Path E a b) :
    L.idxOf a < L.idxOf b := by
  induction h with
  | edge h => exact (hF _ h).2.2
  | cons h1 _ ih => exact Nat.lt_trans (hF _ h1).2.2 ih

/-- the conflict relation is symmetric except for the clause about the terminating jump -/
theorem conflict_symm {x y : SIns} (h : Conflict x y) : Conflict y x ∨ y.term = true := by
  unfold Conflict at h ⊢
  have ms : ∀ {a b : List String}, Meets a b → Meets b a := fun ⟨k, h1, h2⟩ => ⟨k, h2, h1⟩
  rcases h with h | h | h | h | h | h | h | h | h | h | h | h | h
  · exact Or.inl (Or.inr (Or.inr (Or.inl (ms h))))
  · exact Or.inl (Or.inr (Or.inl (ms h)))
  · exact Or.inl (Or.inl (ms h))
  · exact Or.inl (Or.inr (Or.inr (Or.inr (Or.inr (Or.inr (Or.inl (ms h)))))))
  · exact Or.inl (Or.inr (Or.inr (Or.inr (Or.inr (Or.inl (ms h))))))
  · exact Or.inl (Or.inr (Or.inr (Or.inr (Or.inl (ms h)))))
  · exact Or.inl (Or.inr (Or.inr (Or.inr (Or.inr (Or.inr (Or.inr (Or.inr (Or.inl h))))))))
  · exact Or.inl (Or.inr (Or.inr (Or.inr (Or.inr (Or.inr (Or.inr (Or.inl h)))))))
  · rcases h with ⟨h1, h2 | h2⟩
    · exact Or.inl (Or.inr (Or.inr (Or.inr (Or.inr (Or.inr (Or.inr (Or.inr (Or.inr (Or.inr (Or.inl ⟨h1, h2⟩))))))))))
    · exact Or.inl (Or.inr (Or.inr (Or.inr (Or.inr (Or.inr (Or.inr (Or.inr (Or.inr (Or.inl ⟨h2, Or.inr h1⟩)))))))))
  · exact Or.inl (Or.inr (Or.inr (Or.inr (Or.inr (Or.inr (Or.inr (Or.inr (Or.inr (Or.inl ⟨h.1, Or.inl h.2⟩)))))))))
  · exact Or.inr h
  · exact Or.inl (Or.inr (Or.inr (Or.inr (Or.inr (Or.inr (Or.inr (Or.inr (Or.inr (Or.inr (Or.inr (Or.inr (Or.inr h))))))))))))
  · exact Or.inl (Or.inr (Or.inr (Or.inr (Or.inr (Or.inr (Or.inr (Or.inr (Or.inr (Or.inr (Or.inr (Or.inr (Or.inl h))))))))))))

/-- two conflicting instructions of the current order are joined by a dependency path in the
direction of the current order -/
theorem Orig.conflict_path {b0 b : Block} (ho : Orig b0 b) (hb : BInv b) (i j : Nat) (hij : i < j)
    (hj : j < b.seq.length)
    (hc : Conflict ((b.seq[i]'(by omega)).toS b.seq.length) (b.seq[j].toS b.seq.length)) :
    Path b.edges (b.seq[i]'(by omega)).id b.seq[j].id := by
  have hi : i < b.seq.length := by omega
  obtain ⟨h1, hs1⟩ := ho.static _ (List.getElem_mem hi)
  obtain ⟨h2, hs2⟩ := ho.static _ (List.getElem_mem hj)
  have hne : b.seq[i].id ≠ b.seq[j].id := by
    intro h
    have e1 := hb.idxOf_id i hi
    have e2 := hb.idxOf_id j hj
    rw [h] at e1; omega
  rw [conflict_static _ hs1 hs2, ho.len] at hc
  rcases Nat.lt_or_gt_of_ne hne with hlt | hgt
  · exact Lemmas.Deps.conflict_path b0.seq ho.ids b.edges ho.edges _ _ hlt h2 hc
  · exfalso
    rcases conflict_symm hc with hc' | ht
    · have hp := Lemmas.Deps.conflict_path b0.seq ho.ids b.edges ho.edges _ _ hgt h1 hc'
      have := path_fwd hb.fwd hp
      rw [hb.idxOf_id i hi, hb.idxOf_id j hj] at this
      omega
    · simp only [Ins.toS, Bool.and_eq_true, decide_eq_true_eq] at ht
      have := ho.ids _ h2
      omega

/-- a forward move within the upper bound passes only instructions the moved one does not
conflict with -/
theorem Orig.passes_fwd {b0 b : Block} (ho : Orig b0 b) (hb : BInv b) (f t : Nat) (hft : f < t)
    (ht : t < b.seq.length)
    (hup : ∀ e ∈ b.edges, e.1 = (b.seq[f]'(by omega)).id → t < (idsOf b.seq).idxOf e.2)
    (k : Nat) (hfk : f < k) (hkt : k ≤ t) :
    ¬ Conflict ((b.seq[f]'(by omega)).toS b.seq.length) ((b.seq[k]'(by omega)).toS b.seq.length) := by
  intro hc
  have hk : k < b.seq.length := by omega
  have hp := ho.conflict_path hb f k hfk hk hc
  obtain ⟨w, hw, hw'⟩ := path_first hp
  have h1 := hup _ hw rfl
  have h2 : (idsOf b.seq).idxOf w ≤ k := by
    rcases hw' with rfl | hw'
    · rw [hb.idxOf_id k hk]; exact Nat.le_refl _
    · have := path_fwd hb.fwd hw'
      rw [hb.idxOf_id k hk] at this; omega
  simp only at h1
  omega

/-- a backward move within the lower bound passes only instructions that do not conflict with the
moved one -/
theorem Orig.passes_back {b0 b : Block} (ho : Orig b0 b) (hb : BInv b) (f t : Nat) (htf : t < f)
    (hf : f < b.seq.length)
    (hlo : ∀ e ∈ b.edges, e.2 = b.seq[f].id → (idsOf b.seq).idxOf e.1 < t)
    (k : Nat) (htk : t ≤ k) (hkf : k < f) :
    ¬ Conflict ((b.seq[k]'(by omega)).toS b.seq.length) (b.seq[f].toS b.seq.length) := by
  intro hc
  have hk : k < b.seq.length := by omega
  have hp := ho.conflict_path hb k f hkf hf hc
  obtain ⟨w, hw, hw'⟩ := path_last hp
  have h1 := hlo _ hw rfl
  have h2 : k ≤ (idsOf b.seq).idxOf w := by
    rcases hw' with rfl | hw'
    · rw [hb.idxOf_id k hk]; exact Nat.le_refl _
    · have := path_fwd hb.fwd hw'
      rw [hb.idxOf_id k hk] at this; omega
  simp only at h1
  omega

end Mltwist.Lemmas.Deps
