import Mltwist.Model.Deps
import Mltwist.Spec.Deps
/-
How the specification (`Spec/Deps.lean`) looks at the states of the model (`Model/Deps.lean`):
views of instructions, blocks and codes, and the specification's instruction `SIns` behind a
model instruction.  Core Lean only; definitions shared by the C05 / C06 / C07 lemma files.
-/
namespace Mltwist.Deps
open Mltwist Mltwist.Deps.Spec

/-- what the public API shows of an instruction -/
def Ins.view (i : Ins) : VIns := ⟨i.id, i.origAddr, i.currAddr, i.len, i.blockIdx⟩

def Block.view (b : Block) : VBlock := ⟨b.begin, b.end_, b.idx, b.seq.map Ins.view, b.edges⟩

/-- the blocks of a code in their current order -/
def Code.current (c : Code) : List Block := c.blocks.filterMap fun p => c.store[p]?

def Code.view (c : Code) : VCode := ⟨c.current.map Block.view⟩

/-- the instruction as the specification executes it: at its current address; `n` is the number
of instructions of its block (the terminating jump is the originally last instruction, if it has
a real jump target) -/
def Ins.toS (n : Nat) (i : Ins) : SIns :=
  { typ := i.typ, addr := i.currAddr, len := i.len, effects := i.effects,
    term := decide (i.id + 1 = n) && !i.jumpTargets.isEmpty }

/-- the current order of a block as the specification executes it -/
def Block.toS (b : Block) : List SIns := b.seq.map (Ins.toS b.seq.length)

/-- the fields of an instruction that no operation changes -/
def Ins.static (i : Ins) : Nat × Nat × Nat × Nat × List Effect × List Expr :=
  (i.id, i.typ, i.origAddr, i.len, i.effects, i.jumpTargets)

/-- ids are positions (true for the sequence `indexFrom 0 _` that `newBlock` hands to the finders) -/
def IdsArePositions (seq : List Ins) : Prop := ∀ k (h : k < seq.length), seq[k].id = k

/-- a dependency path `a → … → b` (at least one edge) -/
inductive Path (E : Edges) : Nat → Nat → Prop
  | edge {a b : Nat} : (a, b) ∈ E → Path E a b
  | cons {a b c : Nat} : (a, b) ∈ E → Path E b c → Path E a c

end Mltwist.Deps
