import Mltwist.Lemmas.SparseCut
/-
C14, part 3: the tree list — membership and order under `insert`/`remove`/`overlaps` — the
abstraction `abs`, and `Store`.
-/
namespace Mltwist.Lemmas.Sparse
open Mltwist Mltwist.Sparse Mltwist.Spec.Sparse

/-- `x` lies in the interval of `kv` -/
def Contains (kv : KV) (x : Nat) : Prop := kv.low ≤ x ∧ x < kv.high

abbrev Ordered (t : List KV) : Prop := t.Pairwise (fun x y => x.high ≤ y.low)

theorem ordered_mem {t : List KV} (h : Ordered t) {a b : KV} (ha : a ∈ t) (hb : b ∈ t) :
    a = b ∨ a.high ≤ b.low ∨ b.high ≤ a.low := by
  induction t with
  | nil => cases ha
  | cons x xs ih =>
    rw [Ordered, List.pairwise_cons] at h
    rcases List.mem_cons.1 ha with rfl | ha' <;> rcases List.mem_cons.1 hb with rfl | hb'
    · exact .inl rfl
    · exact .inr (.inl (h.1 _ hb'))
    · exact .inr (.inr (h.1 _ ha'))
    · exact ih h.2 ha' hb'

theorem contains_unique {t : List KV} (h : Ordered t) {a b : KV} (ha : a ∈ t) (hb : b ∈ t) {x : Nat}
    (hax : Contains a x) (hbx : Contains b x) : a = b := by
  rcases ordered_mem h ha hb with h | h | h
  · exact h
  · unfold Contains at *; omega
  · unfold Contains at *; omega

/-! ### `abs` -/

theorem abs_eq_none_iff (t : Tree) (x : Nat) : abs t x = none ↔ ∀ kv ∈ t, ¬ Contains kv x := by
  unfold abs
  split
  · rename_i kv h
    have hm := List.mem_of_find?_eq_some h
    have hp := List.find?_some h
    simp only [Bool.and_eq_true, decide_eq_true_eq] at hp
    constructor
    · intro h'; cases h'
    · intro h'; exact absurd hp (h' kv hm)
  · rename_i h
    rw [List.find?_eq_none] at h
    constructor
    · intro _ kv hkv hc
      exact h kv hkv (by simp only [Bool.and_eq_true, decide_eq_true_eq]; exact hc)
    · intro _; rfl

theorem abs_eq_some_of_mem {t : Tree} (h : Ordered t) {kv : KV} (hkv : kv ∈ t) {x : Nat}
    (hx : Contains kv x) : abs t x = some (kv.cell x) := by
  unfold abs
  split
  · rename_i kv' h'
    have hm := List.mem_of_find?_eq_some h'
    have hp := List.find?_some h'
    simp only [Bool.and_eq_true, decide_eq_true_eq] at hp
    rw [contains_unique h hkv hm hx hp]
  · rename_i h'
    rw [List.find?_eq_none] at h'
    exact absurd (by simp only [Bool.and_eq_true, decide_eq_true_eq]; exact hx) (h' kv hkv)

theorem abs_cases (t : Tree) (x : Nat) :
    (abs t x = none ∧ ∀ kv ∈ t, ¬ Contains kv x) ∨
    (∃ kv ∈ t, Contains kv x ∧ abs t x = some (kv.cell x)) := by
  unfold abs
  split
  · rename_i kv h
    have hm := List.mem_of_find?_eq_some h
    have hp := List.find?_some h
    simp only [Bool.and_eq_true, decide_eq_true_eq] at hp
    exact .inr ⟨kv, hm, hp, rfl⟩
  · rename_i h
    rw [List.find?_eq_none] at h
    refine .inl ⟨rfl, fun kv hkv hc => h kv hkv ?_⟩
    simp only [Bool.and_eq_true, decide_eq_true_eq]; exact hc

/-! ### the tree operations -/

theorem mem_insert (ow : Bool) (kv : KV) : ∀ (t : Tree), Ordered t → (∀ y ∈ t, y.low < y.high) →
    kv.low < kv.high → (∀ y ∈ t, kv.high ≤ y.low ∨ y.high ≤ kv.low) →
    Ordered (Sparse.insert ow kv t) ∧ ∀ y, y ∈ Sparse.insert ow kv t ↔ y = kv ∨ y ∈ t
  | [], _, _, _, _ => by simp [Sparse.insert]
  | x :: xs, ho, hne, hkv, hd => by
    rw [Ordered, List.pairwise_cons] at ho
    have hx := hne x (List.mem_cons_self)
    have hdx := hd x (List.mem_cons_self)
    unfold Sparse.insert
    by_cases h1 : kv.low < x.low
    · rw [if_pos h1]
      refine ⟨?_, fun y => by simp⟩
      rw [Ordered, List.pairwise_cons]
      refine ⟨fun y hy => ?_, List.pairwise_cons.2 ho⟩
      rcases List.mem_cons.1 hy with rfl | hy'
      · omega
      · have := ho.1 y hy'
        have := hd y (List.mem_cons_of_mem _ hy')
        have := hne y (List.mem_cons_of_mem _ hy')
        omega
    · rw [if_neg h1]
      by_cases h2 : kv.low = x.low
      · omega
      · rw [if_neg h2]
        have ih := mem_insert ow kv xs ho.2 (fun y hy => hne y (List.mem_cons_of_mem _ hy)) hkv
          (fun y hy => hd y (List.mem_cons_of_mem _ hy))
        refine ⟨?_, fun y => ?_⟩
        · rw [Ordered, List.pairwise_cons]
          refine ⟨fun y hy => ?_, ih.1⟩
          rcases (ih.2 y).1 hy with rfl | hy'
          · omega
          · exact ho.1 y hy'
        · rw [List.mem_cons, ih.2 y, List.mem_cons]
          constructor
          · rintro (h | h | h)
            · exact .inr (.inl h)
            · exact .inl h
            · exact .inr (.inr h)
          · rintro (h | h | h)
            · exact .inr (.inl h)
            · exact .inl h
            · exact .inr (.inr h)

/-- the overlapping intervals -/
def ovl (t : Tree) (a e : Nat) : List KV :=
  t.filter fun kv => decide (kv.low < e) && decide (kv.high > a)

theorem overlaps_eq (t : Tree) {a e : Nat} (h : a ≤ e) : overlaps t a e = .ok (ovl t a e) := by
  unfold overlaps ovl
  rw [if_neg (by omega)]

theorem mem_ovl {t : Tree} {a e : Nat} {y : KV} : y ∈ ovl t a e ↔ y ∈ t ∧ y.low < e ∧ a < y.high := by
  unfold ovl
  rw [List.mem_filter]
  simp only [Bool.and_eq_true, decide_eq_true_eq, gt_iff_lt]

theorem ovl_ordered {t : Tree} (h : Ordered t) (a e : Nat) : Ordered (ovl t a e) :=
  List.Pairwise.filter _ h

theorem mem_foldl_remove (ov : List KV) : ∀ (t : Tree) (y : KV),
    y ∈ ov.foldl (fun t o => remove t o.low) t ↔ y ∈ t ∧ ∀ o ∈ ov, y.low ≠ o.low := by
  induction ov with
  | nil => intro t y; simp
  | cons o os ih =>
    intro t y
    rw [List.foldl_cons, ih]
    unfold remove
    rw [List.mem_filter]
    simp only [decide_eq_true_eq, List.mem_cons, forall_eq_or_imp]
    constructor
    · rintro ⟨⟨h1, h2⟩, h3⟩; exact ⟨h1, h2, h3⟩
    · rintro ⟨h1, h2, h3⟩; exact ⟨⟨h1, h2⟩, h3⟩

theorem foldl_remove_ordered (ov : List KV) : ∀ (t : Tree), Ordered t →
    Ordered (ov.foldl (fun t o => remove t o.low) t) := by
  induction ov with
  | nil => intro t h; exact h
  | cons o os ih =>
    intro t h
    rw [List.foldl_cons]
    exact ih _ (List.Pairwise.filter _ h)

end Mltwist.Lemmas.Sparse
