import Mltwist.Lemmas.EmulatorEvalMem
/-
Emulator (C03, C04), part 7: `eval` and `EffectsApply(efs, eval)`.  On a state satisfying the invariant,
for well-formed expressions evaluation never panics: it succeeds when the memory loads lie in the domain of C14,
and is stopped by `checkAccess` (REPAIR F45) otherwise (`eval_total`, `evalEffects_total`); on success the
result is a pure function of the FINAL state (`valBytes`); the state evolves by provider fills only;
the report notes exactly the register and memory loads of the expressions, with the values read.
-/
namespace Mltwist.Lemmas.Emulator
open Mltwist Mltwist.State Mltwist.Overlay Mltwist.Emulator Mltwist.Spec.Overlay Mltwist.Interval
open Mltwist.Lemmas.State (Good)

/-! ### substitution of registers: shape facts -/

theorem substRegs_noRegs {m : RegMap} (hc : RegsConst m) : ∀ e : Expr, RegsIn m (regLoads e) →
    regLoads (substRegs m e) = []
  | .const _, _ => rfl
  | .binary op a b w, h => by
    simp only [regLoads, RegsIn.append] at h
    simp only [substRegs, regLoads, substRegs_noRegs hc a h.1, substRegs_noRegs hc b h.2, List.append_nil]
  | .less a b t f w, h => by
    simp only [regLoads, RegsIn.append] at h
    simp only [substRegs, regLoads, substRegs_noRegs hc a h.1.1.1, substRegs_noRegs hc b h.1.1.2,
      substRegs_noRegs hc t h.1.2, substRegs_noRegs hc f h.2, List.append_nil]
  | .memLoad k a w, h => by
    simp only [regLoads] at h
    simp only [substRegs, regLoads, substRegs_noRegs hc a h]
  | .regLoad k w, h => by
    have hk := h (k, w) (by simp [regLoads])
    cases hg : assocGet k m with
    | none => exact absurd hg hk
    | some e =>
      obtain ⟨v, rfl⟩ := hc k e hg
      simp only [substRegs, load_const hg, Option.getD, regLoads]

theorem substRegs_wf {m : RegMap} (hc : RegsConst m) : ∀ e : Expr, e.wf = true → (substRegs m e).wf = true
  | .const _, h => h
  | .binary op a b w, h => by
    simp only [Expr.wf, Bool.and_eq_true] at h
    simp only [substRegs, Expr.wf, Bool.and_eq_true]
    exact ⟨⟨h.1.1, substRegs_wf hc a h.1.2⟩, substRegs_wf hc b h.2⟩
  | .less a b t f w, h => by
    simp only [Expr.wf, Bool.and_eq_true] at h
    simp only [substRegs, Expr.wf, Bool.and_eq_true]
    exact ⟨⟨⟨⟨h.1.1.1.1, substRegs_wf hc a h.1.1.1.2⟩, substRegs_wf hc b h.1.1.2⟩, substRegs_wf hc t h.1.2⟩,
      substRegs_wf hc f h.2⟩
  | .memLoad k a w, h => by
    simp only [Expr.wf, Bool.and_eq_true] at h
    simp only [substRegs, Expr.wf, Bool.and_eq_true]
    exact ⟨h.1, substRegs_wf hc a h.2⟩
  | .regLoad k w, h => by
    simp only [substRegs]
    cases hg : assocGet k m with
    | none => rw [load_none hg]; exact h
    | some e =>
      obtain ⟨v, rfl⟩ := hc k e hg
      simp only [load_const hg, Option.getD, Expr.wf, cw_length]
      exact h

theorem substRegs_width (m : RegMap) (hc : RegsConst m) : ∀ e : Expr, (substRegs m e).width = e.width
  | .const _ => rfl
  | .binary .. => rfl
  | .less .. => rfl
  | .memLoad .. => rfl
  | .regLoad k w => by
    simp only [substRegs]
    cases hg : assocGet k m with
    | none => rw [load_none hg]; rfl
    | some e =>
      obtain ⟨v, rfl⟩ := hc k e hg
      simp only [load_const hg, Option.getD, Expr.width, cw_length]

theorem substMem_width (A : AMap) : ∀ e : Expr, (substMem A e).width = e.width
  | .const _ => rfl
  | .binary .. => rfl
  | .less .. => rfl
  | .regLoad .. => rfl
  | .memLoad k a w => by simp [substMem, loadConst, Expr.width]

/-! ### the value of an expression in a state -/

/-- the expression with registers and memory substituted from the state -/
def substAll (s : State) (e : Expr) : Expr := substMem (absOf s) (substRegs s.regs e)

/-- the bytes `eval` returns, as a function of the (final) state -/
def valBytes (s : State) (e : Expr) : List UInt8 := natToLE e.width ((substAll s e).eval ρ0)

/-- everything the expression reads is in the state -/
def Present (s : State) (e : Expr) : Prop :=
  RegsIn s.regs (regLoads e) ∧ MemsIn (absOf s) (substRegs s.regs e)

/-- state extension -/
def SExt (s s' : State) : Prop := RExt s.regs s'.regs ∧ AExt (absOf s) (absOf s')

theorem SExt.refl (s : State) : SExt s s := ⟨RExt.refl _, AExt.refl _⟩
theorem SExt.trans {a b c : State} (h1 : SExt a b) (h2 : SExt b c) : SExt a c :=
  ⟨h1.1.trans h2.1, h1.2.trans h2.2⟩

theorem sext_of_fill {p : Provider} {s s' : State} {l : List Req} (hf : Fill p s l s') (h : Inv s) : SExt s s' :=
  ⟨hf.rext, aext_of_fill hf h⟩

/-- the reads an expression causes: register reads and memory reads -/
def noteExpr (s : State) (r : Report) (e : Expr) : Report :=
  noteLoads (noteReads r (readVals s.regs (regLoads e))) (memReads (absOf s) (substRegs s.regs e))

theorem present_ext {s s' : State} (he : SExt s s') {e : Expr} (h : Present s e) :
    Present s' e ∧ substAll s' e = substAll s e ∧ valBytes s' e = valBytes s e ∧
      ∀ r, noteExpr s' r e = noteExpr s r e := by
  have h1 := substRegs_ext he.1 e h.1
  obtain ⟨m1, m2, m3⟩ := substMem_ext he.2 (substRegs s.regs e) h.2
  have hs : substAll s' e = substAll s e := by unfold substAll; rw [h1, m1]
  refine ⟨⟨h.1.ext he.1, by rw [h1]; exact m2⟩, hs, by unfold valBytes; rw [hs], fun r => ?_⟩
  unfold noteExpr
  rw [h1, m3, readVals_ext he.1 h.1]

/-- `eval` on `e` from `c` performs loads in the domain of C14 only -/
def EvalDom (p : Provider) (code : CodeView) (e : Expr) (c : Ctx) : Prop :=
  ∀ e1 c1, evalRegs p code e c = .ok (e1, c1) → EvalMemDom p e1 c1

/-- what `eval` guarantees -/
structure EvalOut (p : Provider) (code : CodeView) (e : Expr) (c c' : Ctx) : Prop where
  log : ∃ l, c'.log = c.log ++ l ∧ Fill p c.st l c'.st ∧
    ∀ r ∈ l, RegReqOf code (regLoads e) r ∨ ∃ k a w, r = Req.mem k a w
  inv : Inv c'.st
  present : Present c'.st e
  rep : c'.rep = noteExpr c'.st c.rep e

/-- `eval` on ANY well-formed expression never panics: it succeeds, or `checkAccess` (REPAIR F45) stops it at a
load that does not fit the address space — exactly what `EvalDom` excludes -/
theorem eval_total (p : Provider) (code : CodeView) (e : Expr) (c : Ctx) (hi : Inv c.st) (hw : e.wf = true) :
    (∃ c', eval p code e c = .ok (valBytes c'.st e, c') ∧ EvalOut p code e c c') ∨
    (∃ c' a w, eval p code e c = .error (.access c' a w) ∧ AccStop p c c' a w ∧ ¬ EvalDom p code e c) := by
  obtain ⟨c1, h1, o1⟩ := evalRegs_spec p code e c hi.regs
  obtain ⟨l1, hl1, hf1, hq1⟩ := o1.log
  have hi1 : Inv c1.st := hf1.inv hi
  have hnr := substRegs_noRegs o1.regsConst e o1.regsIn
  have hwf := substRegs_wf o1.regsConst e hw
  rcases evalMem_total p (substRegs c1.st.regs e) c1 hi1 hnr hwf with ⟨c2, h2, o2⟩ | ⟨c2, a0, w0, h2, s2, hnd⟩
  rotate_left
  · exact Or.inr ⟨c2, a0, w0, by simp only [eval, h1, h2], AccStop.after hl1 hf1 s2, fun hd => hnd (hd _ c1 h1)⟩
  left
  obtain ⟨l2, hl2, hf2, hq2⟩ := o2.log
  have hregs : c2.st.regs = c1.st.regs := o2.regs
  have hsh := substMem_shape (absOf c2.st) (substRegs c1.st.regs e) hnr hwf
  obtain ⟨v, _, hcf, hlen, hval⟩ := foldConst_shape hsh
  have hv : v = valBytes c2.st e := by
    unfold valBytes substAll
    rw [hregs, ← hval ρ0]
    have : e.width = v.length := by
      rw [hlen, substMem_width, substRegs_width _ o1.regsConst]
    rw [this, Lemmas.Const.natToLE_leToNat]
  refine ⟨c2, ?_, ?_⟩
  · simp only [eval, h1, h2, hcf, hv]
  · refine ⟨⟨l1 ++ l2, by rw [hl2, hl1, List.append_assoc], hf1.append hf2, ?_⟩, o2.inv, ?_, ?_⟩
    · intro r hr
      rcases List.mem_append.1 hr with h | h
      · exact Or.inl (hq1 r h)
      · exact Or.inr (hq2 r h)
    · exact ⟨by rw [hregs]; exact o1.regsIn, by rw [hregs]; exact o2.memsIn⟩
    · unfold noteExpr
      rw [o2.rep, o1.rep, hregs]

/-- … in particular, when every load lies in the domain of C14, it succeeds -/
theorem eval_spec (p : Provider) (code : CodeView) (e : Expr) (c : Ctx) (hi : Inv c.st) (hw : e.wf = true)
    (hd : EvalDom p code e c) : ∃ c', eval p code e c = .ok (valBytes c'.st e, c') ∧ EvalOut p code e c c' := by
  rcases eval_total p code e c hi hw with h | ⟨_, _, _, _, _, hnd⟩
  · exact h
  · exact absurd hd hnd

/-! ### effects -/

/-- the expressions of an effect in the order `EffectApply(ef, eval)` evaluates them -/
def evalOrder : Effect → List Expr
  | .memStore v _ a _ => [v, a]
  | .regStore v _ _ => [v]

/-- the evaluated effect, as a function of the (final) state -/
def evalEff (s : State) : Effect → Effect
  | .memStore v k a w => .memStore (.const (valBytes s v)) k (.const (valBytes s a)) w
  | .regStore v k w => .regStore (.const (valBytes s v)) k w

def noteExprs (s : State) (r : Report) (es : List Expr) : Report := es.foldl (noteExpr s) r

theorem noteExprs_append (s : State) (r : Report) (l1 l2 : List Expr) :
    noteExprs s r (l1 ++ l2) = noteExprs s (noteExprs s r l1) l2 := by
  simp [noteExprs, List.foldl_append]

/-- all expressions of the list can be read from the state -/
def PresentAll (s : State) (es : List Expr) : Prop := ∀ e ∈ es, Present s e

theorem presentAll_ext {s s' : State} (he : SExt s s') {es : List Expr} (h : PresentAll s es) :
    PresentAll s' es ∧ (∀ e ∈ es, valBytes s' e = valBytes s e) ∧ ∀ r, noteExprs s' r es = noteExprs s r es := by
  refine ⟨fun e he' => (present_ext he (h e he')).1, fun e he' => (present_ext he (h e he')).2.2.1, ?_⟩
  induction es with
  | nil => intro r; rfl
  | cons e es ih =>
    intro r
    have h1 := (present_ext he (h e (List.mem_cons_self ..))).2.2.2 r
    simp only [noteExprs, List.foldl_cons] at ih ⊢
    rw [h1]
    exact ih (fun x hx => h x (List.mem_cons_of_mem _ hx)) _

def EffDom (p : Provider) (code : CodeView) : Effect → Ctx → Prop
  | .memStore v _ a _, c => EvalDom p code v c ∧ ∀ v' c1, eval p code v c = .ok (v', c1) → EvalDom p code a c1
  | .regStore v _ _, c => EvalDom p code v c

def Effect.wfE : Effect → Prop
  | .memStore v _ a _ => v.wf = true ∧ a.wf = true
  | .regStore v _ _ => v.wf = true

/-- what evaluating a list of expressions guarantees -/
structure EvalsOut (p : Provider) (code : CodeView) (es : List Expr) (c c' : Ctx) : Prop where
  log : ∃ l, c'.log = c.log ++ l ∧ Fill p c.st l c'.st ∧
    ∀ r ∈ l, (∃ e ∈ es, RegReqOf code (regLoads e) r) ∨ ∃ k a w, r = Req.mem k a w
  inv : Inv c'.st
  present : PresentAll c'.st es
  rep : c'.rep = noteExprs c'.st c.rep es

theorem EvalsOut.of_eval {p : Provider} {code : CodeView} {e : Expr} {c c' : Ctx} (o : EvalOut p code e c c') :
    EvalsOut p code [e] c c' := by
  obtain ⟨l, h1, h2, h3⟩ := o.log
  refine ⟨⟨l, h1, h2, fun r hr => ?_⟩, o.inv, fun x hx => ?_, ?_⟩
  · rcases h3 r hr with h | h
    · exact Or.inl ⟨e, by simp, h⟩
    · exact Or.inr h
  · simp only [List.mem_singleton] at hx; subst hx; exact o.present
  · simp [noteExprs, o.rep]

theorem EvalsOut.trans {p : Provider} {code : CodeView} {es1 es2 : List Expr} {c c1 c2 : Ctx} (_hi : Inv c.st)
    (o1 : EvalsOut p code es1 c c1) (o2 : EvalsOut p code es2 c1 c2) :
    EvalsOut p code (es1 ++ es2) c c2 := by
  obtain ⟨l1, a1, a2, a3⟩ := o1.log
  obtain ⟨l2, b1, b2, b3⟩ := o2.log
  have he : SExt c1.st c2.st := sext_of_fill b2 o1.inv
  obtain ⟨p1, _, p3⟩ := presentAll_ext he o1.present
  refine ⟨⟨l1 ++ l2, by rw [b1, a1, List.append_assoc], a2.append b2, fun r hr => ?_⟩, o2.inv, ?_, ?_⟩
  · rcases List.mem_append.1 hr with h | h
    · rcases a3 r h with ⟨e, he', hq⟩ | h'
      · exact Or.inl ⟨e, List.mem_append_left _ he', hq⟩
      · exact Or.inr h'
    · rcases b3 r h with ⟨e, he', hq⟩ | h'
      · exact Or.inl ⟨e, List.mem_append_right _ he', hq⟩
      · exact Or.inr h'
  · intro e he'
    rcases List.mem_append.1 he' with h | h
    · exact p1 e h
    · exact o2.present e h
  · rw [noteExprs_append, o2.rep, o1.rep, p3]

/-- `EffectApply(ef, eval)` on ANY well-formed effect never panics: it succeeds, or `checkAccess` stops it -/
theorem evalEffect_total (p : Provider) (code : CodeView) (ef : Effect) (c : Ctx) (hi : Inv c.st)
    (hw : Effect.wfE ef) :
    (∃ c', evalEffect p code ef c = .ok (evalEff c'.st ef, c') ∧ EvalsOut p code (evalOrder ef) c c') ∨
    (∃ c' a w, evalEffect p code ef c = .error (.access c' a w) ∧ AccStop p c c' a w ∧ ¬ EffDom p code ef c) := by
  cases ef with
  | regStore v k w =>
    rcases eval_total p code v c hi hw with ⟨c1, h1, o1⟩ | ⟨c1, a0, w0, h1, s1, hnd⟩
    · exact Or.inl ⟨c1, by simp only [evalEffect, h1, evalEff], EvalsOut.of_eval o1⟩
    · exact Or.inr ⟨c1, a0, w0, by simp only [evalEffect, h1], s1, hnd⟩
  | memStore v k a w =>
    rcases eval_total p code v c hi hw.1 with ⟨c1, h1, o1⟩ | ⟨c1, a0, w0, h1, s1, hnd⟩
    rotate_left
    · exact Or.inr ⟨c1, a0, w0, by simp only [evalEffect, h1], s1, fun hd => hnd hd.1⟩
    obtain ⟨l1, hl1, hf1, _⟩ := o1.log
    rcases eval_total p code a c1 o1.inv hw.2 with ⟨c2, h2, o2⟩ | ⟨c2, a0, w0, h2, s2, hnd⟩
    rotate_left
    · exact Or.inr ⟨c2, a0, w0, by simp only [evalEffect, h1, h2], AccStop.after hl1 hf1 s2,
        fun hd => hnd (hd.2 _ c1 h1)⟩
    obtain ⟨l2, _, hf2, _⟩ := o2.log
    have he : SExt c1.st c2.st := sext_of_fill hf2 o1.inv
    have hv := (present_ext he o1.present).2.2.1
    refine Or.inl ⟨c2, by simp only [evalEffect, h1, h2, evalEff, hv], ?_⟩
    exact EvalsOut.trans hi (EvalsOut.of_eval o1) (EvalsOut.of_eval o2)

theorem evalEffect_spec (p : Provider) (code : CodeView) (ef : Effect) (c : Ctx) (hi : Inv c.st)
    (hw : Effect.wfE ef) (hd : EffDom p code ef c) :
    ∃ c', evalEffect p code ef c = .ok (evalEff c'.st ef, c') ∧ EvalsOut p code (evalOrder ef) c c' := by
  rcases evalEffect_total p code ef c hi hw with h | ⟨_, _, _, _, _, hnd⟩
  · exact h
  · exact absurd hd hnd

def EffsDom (p : Provider) (code : CodeView) : List Effect → Ctx → Prop
  | [], _ => True
  | ef :: efs, c => EffDom p code ef c ∧ ∀ ef' c1, evalEffect p code ef c = .ok (ef', c1) → EffsDom p code efs c1

/-- all expressions of a list of effects, in evaluation order -/
def evalOrders (efs : List Effect) : List Expr := efs.flatMap evalOrder

theorem evalEff_ext {s s' : State} (he : SExt s s') {ef : Effect} (h : PresentAll s (evalOrder ef)) :
    evalEff s' ef = evalEff s ef := by
  obtain ⟨_, h2, _⟩ := presentAll_ext he h
  cases ef with
  | regStore v k w => simp only [evalEff, h2 v (by simp [evalOrder])]
  | memStore v k a w => simp only [evalEff, h2 v (by simp [evalOrder]), h2 a (by simp [evalOrder])]

/-- `EffectsApply(efs, eval)` on ANY list of well-formed effects never panics: it succeeds, or `checkAccess` stops
it at the first load that does not fit the address space -/
theorem evalEffects_total (p : Provider) (code : CodeView) : ∀ (efs : List Effect) (c : Ctx), Inv c.st →
    (∀ ef ∈ efs, Effect.wfE ef) →
    (∃ c', evalEffects p code efs c = .ok (efs.map (evalEff c'.st), c') ∧ EvalsOut p code (evalOrders efs) c c') ∨
    (∃ c' a w, evalEffects p code efs c = .error (.access c' a w) ∧ AccStop p c c' a w ∧ ¬ EffsDom p code efs c)
  | [], c, hi, _ =>
    Or.inl ⟨c, rfl, ⟨⟨[], by simp, Fill.nil _, fun _ h => (nomatch h)⟩, hi, fun _ h => (nomatch h), rfl⟩⟩
  | ef :: efs, c, hi, hw => by
    rcases evalEffect_total p code ef c hi (hw ef (List.mem_cons_self ..)) with
      ⟨c1, h1, o1⟩ | ⟨c1, a0, w0, h1, s1, hnd⟩
    rotate_left
    · exact Or.inr ⟨c1, a0, w0, by simp only [evalEffects, h1], s1, fun hd => hnd hd.1⟩
    obtain ⟨l1, hl1, hf1, _⟩ := o1.log
    rcases evalEffects_total p code efs c1 o1.inv (fun x hx => hw x (List.mem_cons_of_mem _ hx)) with
      ⟨c2, h2, o2⟩ | ⟨c2, a0, w0, h2, s2, hnd⟩
    rotate_left
    · exact Or.inr ⟨c2, a0, w0, by simp only [evalEffects, h1, h2], AccStop.after hl1 hf1 s2,
        fun hd => hnd (hd.2 _ c1 h1)⟩
    obtain ⟨l2, _, hf2, _⟩ := o2.log
    have he : SExt c1.st c2.st := sext_of_fill hf2 o1.inv
    refine Or.inl ⟨c2, ?_, ?_⟩
    · simp only [evalEffects, h1, h2, List.map_cons, evalEff_ext he o1.present]
    · have := EvalsOut.trans hi o1 o2
      simpa [evalOrders] using this

theorem evalEffects_spec (p : Provider) (code : CodeView) (efs : List Effect) (c : Ctx) (hi : Inv c.st)
    (hw : ∀ ef ∈ efs, Effect.wfE ef) (hd : EffsDom p code efs c) :
    ∃ c', evalEffects p code efs c = .ok (efs.map (evalEff c'.st), c') ∧ EvalsOut p code (evalOrders efs) c c' := by
  rcases evalEffects_total p code efs c hi hw with h | ⟨_, _, _, _, _, hnd⟩
  · exact h
  · exact absurd hd hnd

end Mltwist.Lemmas.Emulator
