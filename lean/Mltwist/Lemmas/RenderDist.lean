import Mltwist.Model.Render
import Mathlib.Tactic.Linarith
/-
Proofs for C24, part 2: the loop of `Composite.distributeLines`.

* it terminates for every input, as the code is (`dec = false`) and with `remLines--` (`dec = true`): the fuel of the model suffices (`distLoop_isSome`);
* what it computes: invariants of one round (`Inv`), carried to the result (`distLoop_inv`).
-/
namespace Mltwist.Lemmas.Render
open Mltwist.Render

/-! ### lists of integers -/

theorem getD_set_eq (l : List Int) (i : Nat) (v d : Int) (h : i < l.length) : (l.set i v).getD i d = v := by
  induction l generalizing i with
  | nil => simp at h
  | cons x xs ih =>
    cases i with
    | zero => simp
    | succ i => simp at h; simpa using ih i h

theorem getD_set_ne (l : List Int) (i j : Nat) (v d : Int) (h : i ≠ j) : (l.set i v).getD j d = l.getD j d := by
  induction l generalizing i j with
  | nil => simp
  | cons x xs ih =>
    cases i with
    | zero => cases j with
      | zero => exact absurd rfl h
      | succ j => simp
    | succ i => cases j with
      | zero => simp
      | succ j => simpa using ih i j (by omega)

theorem getD_ge (l : List Int) (j : Nat) (h : l.length ≤ j) : l.getD j 0 = 0 := by
  induction l generalizing j with
  | nil => simp
  | cons x xs ih =>
    cases j with
    | zero => simp at h
    | succ j => simp at h; simpa using ih j h

theorem sumInts_set (l : List Int) (i : Nat) (v : Int) (h : i < l.length) :
    sumInts (l.set i v) = sumInts l - l.getD i 0 + v := by
  induction l generalizing i with
  | nil => simp at h
  | cons x xs ih =>
    cases i with
    | zero => simp [sumInts]; omega
    | succ i =>
      simp at h
      simp only [List.set_cons_succ, sumInts, List.getD_cons_succ]
      rw [ih i h]; omega

theorem posSum_set (l : List Int) (i : Nat) (d : Int) (h : i < l.length) (hd : l.getD i 0 = d) (hp : 0 < d) :
    posSum (l.set i (d - 1)) + 1 = posSum l := by
  induction l generalizing i with
  | nil => simp at h
  | cons x xs ih =>
    cases i with
    | zero =>
      simp at hd; subst hd
      simp only [List.set_cons_zero, posSum]; omega
    | succ i =>
      simp at h hd
      simp only [List.set_cons_succ, posSum]
      have := ih i h (by simpa using hd); omega

theorem countPositive_set (l : List Int) (i : Nat) (d : Int) (h : i < l.length) (hd : l.getD i 0 = d)
    (hp : 0 < d) :
    countPositive (l.set i (d - 1)) = (if d - 1 = 0 then countPositive l - 1 else countPositive l) := by
  induction l generalizing i with
  | nil => simp at h
  | cons x xs ih =>
    cases i with
    | zero =>
      simp at hd; subst hd
      simp only [List.set_cons_zero, countPositive]
      by_cases h1 : x - 1 = 0
      · rw [if_pos h1, if_neg (by omega), if_pos hp]; omega
      · rw [if_neg h1, if_pos (by omega), if_pos hp]
    | succ i =>
      simp at h hd
      simp only [List.set_cons_succ, countPositive]
      rw [ih i h (by simpa using hd)]
      split <;> omega

theorem countPositive_nonneg (l : List Int) : 0 ≤ countPositive l := by
  induction l with
  | nil => simp [countPositive]
  | cons x xs ih => simp only [countPositive]; split <;> omega

theorem countPositive_pos_any (l : List Int) (h : 0 < countPositive l) : l.any (fun v => decide (0 < v)) = true := by
  induction l with
  | nil => simp [countPositive] at h
  | cons x xs ih =>
    simp only [countPositive] at h
    simp only [List.any_cons, Bool.or_eq_true, decide_eq_true_eq]
    by_cases hx : 0 < x
    · left; exact hx
    · right; rw [if_neg (by omega)] at h; exact ih (by omega)

theorem countPositive_zero (l : List Int) (h : countPositive l ≤ 0) (j : Nat) : l.getD j 0 ≤ 0 := by
  induction l generalizing j with
  | nil => simp
  | cons x xs ih =>
    simp only [countPositive] at h
    have := countPositive_nonneg xs
    cases j with
    | zero => simp; by_contra hx; rw [if_pos (by omega)] at h; omega
    | succ j => simp; exact ih (by split at h <;> omega) j

theorem any_pos_posSum (l : List Int) (h : l.any (fun v => decide (0 < v)) = true) : 0 < posSum l := by
  induction l with
  | nil => simp at h
  | cons x xs ih =>
    simp only [List.any_cons, Bool.or_eq_true, decide_eq_true_eq] at h
    simp only [posSum]
    rcases h with h | h
    · omega
    · have := ih h; omega

theorem any_drop (l : List Int) (p : Int → Bool) (i : Nat) (h : i < l.length) :
    (l.drop i).any p = (p (l.getD i 0) || (l.drop (i + 1)).any p) := by
  induction l generalizing i with
  | nil => simp at h
  | cons x xs ih =>
    cases i with
    | zero => simp
    | succ i => simp at h; simpa using ih i h

/-! ### one round -/

/-- the loop condition -/
abbrev Cont (st : LoopSt) : Prop := st.remLines > 0 ∧ st.positiveDiffs > 0

/-- body and post statement of the loop -/
def step (dec : Bool) (len : Nat) (st : LoopSt) : LoopSt :=
  let next := (st.i + 1) % len
  let d := st.diffs.getD st.i 0
  if d ≤ 0 then { st with i := next }
  else
    { i := next
      remLines := if dec then st.remLines - 1 else st.remLines
      positiveDiffs := if d - 1 = 0 then st.positiveDiffs - 1 else st.positiveDiffs
      diffs := st.diffs.set st.i (d - 1)
      lineCnts := st.lineCnts.set st.i (st.lineCnts.getD st.i 0 + 1) }

theorem distLoop_succ (dec : Bool) (len fuel : Nat) (st : LoopSt) :
    distLoop dec len (fuel + 1) st = if Cont st then distLoop dec len fuel (step dec len st) else some st := by
  rw [distLoop]
  unfold Cont step
  by_cases h : st.remLines > 0 ∧ st.positiveDiffs > 0
  · rw [if_pos h, if_pos h]
    simp only
    by_cases hd : st.diffs.getD st.i 0 ≤ 0
    · rw [if_pos hd, if_pos hd]
    · rw [if_neg hd, if_neg hd]
  · rw [if_neg h, if_neg h]

/-! ### termination -/

/-- structural invariant: index in range, `positiveDiffs` is the number of positive entries -/
structure Shape (len : Nat) (st : LoopSt) : Prop where
  idx : 0 < len → st.i < len
  dlen : st.diffs.length = len
  pos : st.positiveDiffs = countPositive st.diffs

/-- must the loop variable wrap around before it meets a positive entry? -/
def wrap (st : LoopSt) : Nat := if (st.diffs.drop st.i).any (fun v => decide (0 < v)) then 0 else 1

/-- the measure -/
def phi (len : Nat) (st : LoopSt) : Nat :=
  posSum st.diffs * (2 * len + 1) + wrap st * (len + 1) + (len - st.i)

theorem wrap_le (st : LoopSt) : wrap st ≤ 1 := by unfold wrap; split <;> omega

theorem phi_ub (len : Nat) (st : LoopSt) : phi len st ≤ posSum st.diffs * (2 * len + 1) + (2 * len + 1) := by
  unfold phi
  have hw := wrap_le st
  generalize wrap st = w at hw
  have : w * (len + 1) ≤ len + 1 := by
    cases w with
    | zero => simp
    | succ w => have : w = 0 := by omega
                subst this; simp
  omega

theorem phi_lb (len : Nat) (st : LoopSt) (h : st.i < len) : posSum st.diffs * (2 * len + 1) + 1 ≤ phi len st := by
  unfold phi; omega

theorem cont_len {len : Nat} {st : LoopSt} (hs : Shape len st) (hc : Cont st) :
    0 < len ∧ st.diffs.any (fun v => decide (0 < v)) = true := by
  have h1 : 0 < countPositive st.diffs := by rw [← hs.pos]; exact hc.2
  have h2 := countPositive_pos_any _ h1
  refine ⟨?_, h2⟩
  rw [← hs.dlen]
  cases hd : st.diffs with
  | nil => rw [hd] at h2; simp at h2
  | cons x xs => simp

theorem step_shape {dec : Bool} {len : Nat} {st : LoopSt} (hs : Shape len st) (hc : Cont st) :
    Shape len (step dec len st) := by
  obtain ⟨hlen, _⟩ := cont_len hs hc
  have hi := hs.idx hlen
  unfold step
  simp only
  by_cases hd : st.diffs.getD st.i 0 ≤ 0
  · rw [if_pos hd]
    exact ⟨fun _ => Nat.mod_lt _ hlen, hs.dlen, hs.pos⟩
  · rw [if_neg hd]
    refine ⟨fun _ => Nat.mod_lt _ hlen, by simp [hs.dlen], ?_⟩
    simp only
    rw [countPositive_set _ _ _ (by rw [hs.dlen]; exact hi) rfl (by omega), hs.pos]

theorem step_phi {dec : Bool} {len : Nat} {st : LoopSt} (hs : Shape len st) (hc : Cont st) :
    phi len (step dec len st) < phi len st := by
  obtain ⟨hlen, hany⟩ := cont_len hs hc
  have hi := hs.idx hlen
  have hil : st.i < st.diffs.length := by rw [hs.dlen]; exact hi
  unfold step
  simp only
  by_cases hd : st.diffs.getD st.i 0 ≤ 0
  · rw [if_pos hd]
    unfold phi wrap
    simp only
    have hdrop := any_drop st.diffs (fun v => decide (0 < v)) st.i hil
    have hpd : decide (0 < st.diffs.getD st.i 0) = false := decide_eq_false (by omega)
    rw [hpd, Bool.false_or] at hdrop
    by_cases hw : st.i + 1 < len
    · rw [Nat.mod_eq_of_lt hw, hdrop]
      generalize posSum st.diffs * (2 * len + 1) = A
      split <;> omega
    · have hw' : st.i + 1 = len := by omega
      rw [hw'] at hdrop
      rw [hw', Nat.mod_self, List.drop_zero, hany, hdrop]
      have : st.diffs.drop len = [] := by rw [← hs.dlen]; simp
      rw [this]
      simp only [List.any_nil, if_true]
      generalize posSum st.diffs * (2 * len + 1) = A
      simp; omega
  · rw [if_neg hd]
    have hps := posSum_set st.diffs st.i (st.diffs.getD st.i 0) hil rfl (by omega)
    refine Nat.lt_of_le_of_lt (phi_ub len _) (Nat.lt_of_lt_of_le ?_ (phi_lb len st hi))
    simp only
    rw [← hps, Nat.add_mul]
    omega

theorem distLoop_isSome_of (dec : Bool) (len : Nat) (fuel : Nat) (st : LoopSt) (hs : Shape len st)
    (hf : phi len st < fuel) : (distLoop dec len fuel st).isSome = true := by
  induction fuel generalizing st with
  | zero => omega
  | succ fuel ih =>
    rw [distLoop_succ]
    by_cases hc : Cont st
    · rw [if_pos hc]
      exact ih _ (step_shape hs hc) (by have := step_phi (dec := dec) hs hc; omega)
    · rw [if_neg hc]; rfl

/-- the state in which `distributeLines` enters its loop -/
def initSt (els : List View) (remLines : Int) : LoopSt :=
  { i := 0, remLines := remLines, positiveDiffs := countPositive (diffLinesMax els (mins els) remLines),
    diffs := diffLinesMax els (mins els) remLines, lineCnts := mins els }

theorem distributeLines_eq (dec : Bool) (els : List View) (remLines : Int) :
    distributeLines dec els remLines =
      (distLoop dec els.length (distFuel els.length (diffLinesMax els (mins els) remLines))
        (initSt els remLines)).map (·.lineCnts) := rfl

theorem diffLinesMax_length (els : List View) (ms : List Int) (maxDiff : Int) :
    (diffLinesMax els ms maxDiff).length = els.length := by
  induction els generalizing ms with
  | nil => rfl
  | cons e es ih => simp [diffLinesMax, ih]

/-- **Termination of `distributeLines`**: the fuel of the model is enough for every list of elements and
every number of remaining lines, with and without the repair. -/
theorem distributeLines_isSome (dec : Bool) (els : List View) (remLines : Int) :
    (distributeLines dec els remLines).isSome = true := by
  rw [distributeLines_eq]
  simp only [Option.isSome_map]
  apply distLoop_isSome_of
  · exact ⟨fun h => h, diffLinesMax_length _ _ _, rfl⟩
  · refine Nat.lt_of_le_of_lt (phi_ub _ _) ?_
    have e : (initSt els remLines).diffs = diffLinesMax els (mins els) remLines := rfl
    rw [e]
    unfold distFuel
    rw [Nat.add_mul]
    omega

/-! ### invariants -/

/-- A property of the loop state that every round preserves holds for the result, together with the
negated loop condition. -/
theorem distLoop_inv (dec : Bool) (len : Nat) (P : LoopSt → Prop)
    (hstep : ∀ st, P st → Cont st → P (step dec len st))
    (fuel : Nat) (st st' : LoopSt) (h0 : P st) (h : distLoop dec len fuel st = some st') :
    P st' ∧ ¬ Cont st' := by
  induction fuel generalizing st with
  | zero => simp [distLoop] at h
  | succ fuel ih =>
    rw [distLoop_succ] at h
    by_cases hc : Cont st
    · rw [if_pos hc] at h
      exact ih _ (hstep st h0 hc) h
    · rw [if_neg hc] at h
      cases h; exact ⟨h0, hc⟩

/-- What the rounds keep, relative to the initial minimums `ms` and differences `ds`:
the grant of an element plus its remaining difference is constant, differences stay non-negative,
grants never fall below the minimum, and (with `remLines--`) grants handed out plus remaining lines are
constant with the remaining lines non-negative. -/
structure Inv (dec : Bool) (len : Nat) (ms ds : List Int) (rem0 : Int) (st : LoopSt) : Prop where
  shape : Shape len st
  clen : st.lineCnts.length = len
  bal : ∀ j, st.lineCnts.getD j 0 + st.diffs.getD j 0 = ms.getD j 0 + ds.getD j 0
  dnn : ∀ j, 0 ≤ st.diffs.getD j 0
  lo : ∀ j, ms.getD j 0 ≤ st.lineCnts.getD j 0
  budget : if dec then sumInts st.lineCnts + st.remLines = sumInts ms + rem0 ∧ 0 ≤ st.remLines
           else st.remLines = rem0

theorem step_inv {dec : Bool} {len : Nat} {ms ds : List Int} {rem0 : Int} {st : LoopSt}
    (hI : Inv dec len ms ds rem0 st) (hc : Cont st) : Inv dec len ms ds rem0 (step dec len st) := by
  have hshape := step_shape (dec := dec) hI.shape hc
  obtain ⟨hlen, _⟩ := cont_len hI.shape hc
  have hi := hI.shape.idx hlen
  refine ⟨hshape, ?_, ?_, ?_, ?_, ?_⟩
  all_goals unfold step
  all_goals simp only
  all_goals by_cases hd : st.diffs.getD st.i 0 ≤ 0
  all_goals (first | rw [if_pos hd] | rw [if_neg hd])
  · exact hI.clen
  · simp [hI.clen]
  · exact hI.bal
  · intro j
    simp only
    by_cases hj : st.i = j
    · subst hj
      rw [getD_set_eq _ _ _ _ (by rw [hI.clen]; exact hi),
        getD_set_eq _ _ _ _ (by rw [hI.shape.dlen]; exact hi)]
      have := hI.bal st.i; omega
    · rw [getD_set_ne _ _ _ _ _ hj, getD_set_ne _ _ _ _ _ hj]; exact hI.bal j
  · exact hI.dnn
  · intro j
    simp only
    by_cases hj : st.i = j
    · subst hj
      rw [getD_set_eq _ _ _ _ (by rw [hI.shape.dlen]; exact hi)]; omega
    · rw [getD_set_ne _ _ _ _ _ hj]; exact hI.dnn j
  · exact hI.lo
  · intro j
    simp only
    by_cases hj : st.i = j
    · subst hj
      rw [getD_set_eq _ _ _ _ (by rw [hI.clen]; exact hi)]
      have := hI.lo st.i; omega
    · rw [getD_set_ne _ _ _ _ _ hj]; exact hI.lo j
  · exact hI.budget
  · have hb := hI.budget
    cases dec with
    | false => simpa using hb
    | true =>
      simp only [if_true] at hb ⊢
      rw [sumInts_set _ _ _ (by rw [hI.clen]; exact hi)]
      have := hc.1
      constructor <;> omega

theorem diffOf_nonneg (min max maxDiff : Int) (h : 0 ≤ maxDiff) : 0 ≤ diffOf min max maxDiff := by
  unfold diffOf; simp only
  split
  · omega
  · split <;> omega

theorem diffOf_le (min max maxDiff : Int) (h : 0 ≤ maxDiff) : diffOf min max maxDiff ≤ maxDiff := by
  unfold diffOf; simp only
  split
  · omega
  · split <;> omega

/-- a bounded element never gets more than its maximum (its minimum if the maximum is below it) -/
theorem diffOf_max (min max maxDiff : Int) (hm : 0 ≤ max) :
    min + diffOf min max maxDiff ≤ (if max < min then min else max) := by
  unfold diffOf; simp only
  split
  · split <;> omega
  · split <;> split <;> omega

theorem diffLinesMax_getD (els : List View) (ms : List Int) (maxDiff : Int) (j : Nat) (hj : j < els.length) :
    (diffLinesMax els ms maxDiff).getD j 0 = diffOf (ms.getD j 0) (els.getD j ⟨0, 0, fun _ => ⟨.ok, .none⟩⟩).maxLines maxDiff := by
  induction els generalizing ms j with
  | nil => simp at hj
  | cons e es ih =>
    cases j with
    | zero => cases ms <;> simp [diffLinesMax]
    | succ j =>
      simp at hj
      simp only [diffLinesMax, List.getD_cons_succ]
      rw [ih ms.tail j hj]
      cases ms <;> simp

theorem diffLinesMax_getD_ge (els : List View) (ms : List Int) (maxDiff : Int) (j : Nat) (hj : els.length ≤ j) :
    (diffLinesMax els ms maxDiff).getD j 0 = 0 := by
  exact getD_ge _ _ (by rw [diffLinesMax_length]; exact hj)

theorem diffLinesMax_nonneg (els : List View) (ms : List Int) (maxDiff : Int) (h : 0 ≤ maxDiff) (j : Nat) :
    0 ≤ (diffLinesMax els ms maxDiff).getD j 0 := by
  by_cases hj : j < els.length
  · rw [diffLinesMax_getD _ _ _ _ hj]; exact diffOf_nonneg _ _ _ h
  · rw [diffLinesMax_getD_ge _ _ _ _ (by omega)]

theorem mins_length (els : List View) : (mins els).length = els.length := by simp [mins]

/-- the initial state satisfies the invariant -/
theorem init_inv (dec : Bool) (els : List View) (rem0 : Int) (h : 0 ≤ rem0) :
    Inv dec els.length (mins els) (diffLinesMax els (mins els) rem0) rem0 (initSt els rem0) := by
  refine ⟨⟨fun h => h, diffLinesMax_length _ _ _, rfl⟩, mins_length els, fun j => rfl,
    diffLinesMax_nonneg els _ _ h, fun j => Int.le_refl _, ?_⟩
  cases dec <;> simp [initSt, h]

/-- **What `distributeLines` computes** (`remLines ≥ 0`, as guaranteed by `Composite.Print`):
a grant per element, at least its minimum and at most minimum + difference; with `remLines--` (`dec = true`) the grants
exceed the minimums by at most `remLines` in total, and by exactly `remLines` unless every element got
its full difference; as the code is (`dec = false`) every element gets its full difference as soon as
`remLines > 0`. -/
theorem distributeLines_spec (dec : Bool) (els : List View) (rem0 : Int) (h : 0 ≤ rem0) :
    ∃ gs, distributeLines dec els rem0 = some gs ∧ gs.length = els.length ∧
      (∀ j, (mins els).getD j 0 ≤ gs.getD j 0 ∧
            gs.getD j 0 ≤ (mins els).getD j 0 + (diffLinesMax els (mins els) rem0).getD j 0) ∧
      (dec = true → sumInts gs ≤ sumInts (mins els) + rem0 ∧
        (sumInts gs = sumInts (mins els) + rem0 ∨
         ∀ j, gs.getD j 0 = (mins els).getD j 0 + (diffLinesMax els (mins els) rem0).getD j 0)) ∧
      (dec = false → 0 < rem0 →
        ∀ j, gs.getD j 0 = (mins els).getD j 0 + (diffLinesMax els (mins els) rem0).getD j 0) ∧
      (rem0 = 0 → gs = mins els) := by
  have hsome := distributeLines_isSome dec els rem0
  rw [distributeLines_eq] at hsome ⊢
  simp only [Option.isSome_map] at hsome
  obtain ⟨st', hst'⟩ := Option.isSome_iff_exists.mp hsome
  have ⟨hI, hnc⟩ := distLoop_inv dec els.length
    (Inv dec els.length (mins els) (diffLinesMax els (mins els) rem0) rem0)
    (fun st hP hc => step_inv hP hc) _ _ st' (init_inv dec els rem0 h) hst'
  refine ⟨st'.lineCnts, by simp [hst'], hI.clen, ?_, ?_, ?_, ?_⟩
  · intro j
    have := hI.bal j; have := hI.dnn j
    have hd0 := diffLinesMax_nonneg els (mins els) rem0 h j
    constructor
    · exact hI.lo j
    · omega
  · intro hdec
    subst hdec
    have hb := hI.budget
    simp only [if_true] at hb
    refine ⟨by omega, ?_⟩
    unfold Cont at hnc
    by_cases hr : st'.remLines ≤ 0
    · left; omega
    · right
      intro j
      have hp : st'.positiveDiffs ≤ 0 := by omega
      rw [hI.shape.pos] at hp
      have := countPositive_zero _ hp j
      have := hI.dnn j; have := hI.bal j
      omega
  · intro hdec hpos j
    subst hdec
    have hb := hI.budget
    simp only [Bool.false_eq_true, if_false] at hb
    unfold Cont at hnc
    have hp : st'.positiveDiffs ≤ 0 := by omega
    rw [hI.shape.pos] at hp
    have := countPositive_zero _ hp j
    have := hI.dnn j; have := hI.bal j
    omega
  · intro h0
    subst h0
    -- the loop is not entered
    unfold distFuel at hst'
    rw [distLoop_succ, if_neg (by simp [initSt])] at hst'
    cases hst'; rfl

end Mltwist.Lemmas.Render
