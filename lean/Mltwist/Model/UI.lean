import Mltwist.Model.Listing
import Mltwist.Model.MemView
import Mltwist.Model.NumParse
import Mltwist.Model.Render
import Mltwist.Model.Format
/-
Model of the console UI as a whole (C22): `internal/consoleui/{ui.go,mode.go,command.go,
standard_commands.go}`, `internal/consoleui/internal/cmdtools/tools.go`,
`internal/consoleui/internal/linereader/line_reader.go` and the command tables of the three modes
(`disassemble/commands.go`, `emulate/commands.go` + `emulate/{emulate.go,state.go}`,
`internal/memview/commands.go`), following the Go code literally:

* `strings.Split(str, " ")`, `dropEmptyStrs`, `UI.parseCommand` (command lookup in the command map of the
  current mode, required arguments with their parsers, optional arguments), `newCmdMap` with
  `addStandardCmds`/`addHelp` (duplicate keys are an error of `AddMode`);
* `UI.processCommand` (`uiStep`): empty line → nothing; parse error → message, wait for ENTER; action
  error → message, wait for ENTER; `ErrQuit` → `quitMode`; the mode stack (`AddMode`, `quitMode`);
* every command action, expressed through the component models: listing, cursor, navigation and moves
  (`Model/Listing.lean`, C23/C31), memory view (`Model/MemView.lean`, C32), number parsing
  (`Model/NumParse.lean`, C30), text wrapping of `help` (`Model/Format.lean`, C29), rendering
  (`Model/Render.lean`, C24).

Console input is the list of the lines `bufio.Scanner` (split function `ScanLines`) hands out
(`Input`); `linereader.ReadLine` takes the head, the empty list is the end of the input (`io.EOF`).
Output is not modelled beyond its existence: an answer is `executed`, `error` (a line `error: …` was
printed), `left` (a mode was left), `skipped` (the empty line).  Go strings are byte strings
(`Str = List UInt8`).

PARAMETERS (outside this model):

* `Params.cops : Listing.CodeOps` — the code model underneath (`deps.Code.Move`, `Block.Move`), as in C23;
* `Params.rx` — `regexp.CompilePOSIX` (`none` = the pattern does not compile) and `MatchString`;
* `Params.eops : EmuOps σ` — the emulator over an abstract state `σ`: `emulator.New`, `MustIP`, the
  register file (`Regs.Values()[key]`, `Regs.Store`), the memories (`State.Mems[key]`) and
  `Emulator.Step` as an *interaction tree* `StepTree`: the step asks the state provider for values
  (`ask w k`: a value prompt for `w` bytes, `k` continues with the constant typed in) and ends with
  `done` (nil), `fail` (an error is returned) or `panic`.  What C22 assumes of them is `UI.EmuLawful`
  (`Lemmas/UI.lean`): the step never panics (C03), …
* the terminal (`view.Print` asks for its size; the height is the argument of `renderTop`), `fmt`.

A Go panic is the explicit outcome `panic`; the endless loop of `readValueNoErr` at the end of the
input is the outcome `hang`.

REPAIRS (the model follows the repaired code; `pinned := true` gives the code before them):
* F20: `parseCommand` on a line consisting of spaces only: `dropEmptyStrs` leaves no parts and
  `parts[0]` panics (index out of range).  Repair: `no command entered` error.
* F43: a surplus word after a command without `OptionalArgs` calls the nil function
  `cmd.OptionalArgs` (nil pointer dereference).  Repair: `too many args` error.
-/
namespace Mltwist.UI
open Mltwist

abbrev Str := List UInt8

/-- ASCII string literal as bytes -/
def b (s : String) : Str := s.toList.map fun c => UInt8.ofNat c.toNat

/-- the lines `linereader.ReadLine` will return; `[]` = end of input -/
abbrev Input := List Str

/-! ### `strings.Split`, `dropEmptyStrs`, `strings.Join` -/

/-- the loop of `strings.Split(s, " ")`: `cur` is the current piece reversed -/
def splitLoop : Str → Str → List Str
  | [], cur => [cur.reverse]
  | c :: r, cur => if c = 0x20 then cur.reverse :: splitLoop r [] else splitLoop r (c :: cur)

/-- `strings.Split(s, " ")` -/
def split (s : Str) : List Str := splitLoop s []

/-- `dropEmptyStrs` -/
def dropEmptyStrs (l : List Str) : List Str := l.filter fun s => s.length ≠ 0

/-- `strings.Join(strs, " ")` -/
def joinSp : List Str → Str
  | [] => []
  | [s] => s
  | s :: r => s ++ 0x20 :: joinSp r

/-! ### `cmdtools.ParseNum(0, math.MaxInt)` -/

/-- `strconv.Atoi` (= `ParseInt(s, 10, 0)` with its fast path): optional sign, at least one decimal
digit, no underscore; a value outside `int64` is a range error.  `none` = an error. -/
def atoi (s : Str) : Option Int :=
  let (neg, ds) : Bool × Str := match s with
    | 0x2b :: r => (false, r)
    | 0x2d :: r => (true, r)
    | r => (false, r)
  if ds.isEmpty then none
  else
    match NumParse.digitsLoop 10 ds 0 with
    | none => none
    | some n =>
      if neg then (if n ≤ 2 ^ 63 then some (-(n : Int)) else none)
      else (if n < 2 ^ 63 then some (n : Int) else none)

/-- `ParseNum(0, math.MaxInt)`: `v < min` and `v > max` are errors -/
def parseNum (s : Str) : Option Nat :=
  match atoi s with
  | none => none
  | some v => if v < 0 then none else if v > (Listing.maxInt : Int) then none else some v.toNat

/-! ### commands -/

/-- the argument parsers: `cmdtools.ParseNum(0, math.MaxInt)`, `cmdtools.ParseString`, `memview.parseAddr` -/
inductive ArgKind where
  | num | str | addr
  deriving DecidableEq, Repr

/-- a parsed argument (`interface{}` holding `int`, `string`, `model.Addr`) -/
inductive ArgVal where
  | num (n : Nat)
  | str (s : Str)
  | addr (a : Nat)
  deriving DecidableEq, Repr

/-- `pinned`: the parser of `address` before the repair of F27 (not used by this property) -/
def parseArg : ArgKind → Str → NumParse.Res ArgVal
  | .num, s => match parseNum s with | some n => .ok (.num n) | none => .err
  | .str, s => .ok (.str s)
  | .addr, s => match NumParse.parseAddr s with
    | .ok a => .ok (.addr a)
    | .err => .err
    | .panic => .panic

/-- the actions of all command tables -/
inductive Act where
  | quit | help
  | dDown | dUp | dMove | dBounds | dFind | dGoto | dEntry | dAllLines | dEmulate
  | eStep | eMemories | eMemory | eRegmod
  | mDown | mUp | mGoto | mAddress
  deriving DecidableEq, Repr

/-- `consoleui.Command` -/
structure Command where
  keys : List Str
  help : Str
  args : List ArgKind
  /-- `OptionalArgs != nil` (always `cmdtools.JoinOptStrings`) -/
  opt : Bool
  act : Act
  deriving DecidableEq, Repr

/-- `standardCmds` -/
def quitCmd : Command := ⟨[b "quit", b "q"], b "Quit the app.", [], false, .quit⟩
/-- `helpCmd` of `addHelp` -/
def helpCmd : Command := ⟨[b "help", b "h"], b "Print help of all commands", [], false, .help⟩

/-- `disassemble.commands` -/
def disCommands : List Command := [
  ⟨[b "down", b "d"], b "Move line cursor <N> lines down.", [.num], false, .dDown⟩,
  ⟨[b "up", b "u"], b "Move line cursor <N> lines up.", [.num], false, .dUp⟩,
  ⟨[b "move", b "mv", b "m"], b "Move instruction from line <N> to line <M>", [.num, .num], false, .dMove⟩,
  ⟨[b "bounds", b "b"], b "Show bounds where a given instruction can be moved.", [.num], false, .dBounds⟩,
  ⟨[b "find", b "f", b "/"], b "Find row matching standard POSIX regex.", [.str], true, .dFind⟩,
  ⟨[b "goto", b "g"], b "Go to line number <N>.", [.num], false, .dGoto⟩,
  ⟨[b "entrypoint", b "entry"], b "Sets cursor to app entrypoint.", [], false, .dEntry⟩,
  ⟨[b "alllines"], b "Prints all lines of the code into console. Ignores current cursor position.", [], false,
    .dAllLines⟩,
  ⟨[b "emulate", b "emul", b "e"],
    b "Start emulating the machine code at current line.\n\nTIP: for emulation started at entrypoint, use 'entrypoint' command followed by this command.",
    [], false, .dEmulate⟩]

/-- `emulate.commands` -/
def emuCommands : List Command := [
  ⟨[b "forward", b "fwd", b "f", b "step", b "s"], b "Move emulation one instruction forward.", [], false, .eStep⟩,
  ⟨[b "memories", b "mems", b "ms"], b "List all memories the program wrote.", [], false, .eMemories⟩,
  ⟨[b "memory", b "mem", b "m"], b "Show content of memory address space identified by <key>.", [.str], false,
    .eMemory⟩,
  ⟨[b "regmod", b "rmod"], b "Modify register of the running application.", [.str], false, .eRegmod⟩]

/-- `memview.commands` -/
def memCommands : List Command := [
  ⟨[b "down", b "d"], b "Move line cursor <N> lines down.", [.num], false, .mDown⟩,
  ⟨[b "up", b "u"], b "Move line cursor <N> lines up.", [.num], false, .mUp⟩,
  ⟨[b "goto", b "g"], b "Go to line <n>.", [.num], false, .mGoto⟩,
  ⟨[b "address", b "addr", b "a"], b "Go to address.", [.addr], false, .mAddress⟩]

inductive Kind where
  | dis | emu | mem
  deriving DecidableEq, Repr

/-- `Mode.Commands()` -/
def commandsOf : Kind → List Command
  | .dis => disCommands
  | .emu => emuCommands
  | .mem => memCommands

/-- `addStandardCmds(cmds)`: `help`, then the standard commands, then the commands of the mode -/
def addStandardCmds (cmds : List Command) : List Command := helpCmd :: quitCmd :: cmds

/-- `commandMap`: a Go map is an association list with distinct keys -/
abbrev CmdMap := List (Str × Command)

def CmdMap.find (m : CmdMap) (k : Str) : Option Command := (m.find? fun p => p.1 == k).map (·.2)

/-- the inner loop of `newCmdMap` over the keys of one command; `none` = `duplicate command key` -/
def addKeys (cmd : Command) : List Str → CmdMap → Option CmdMap
  | [], m => some m
  | k :: ks, m => if (m.find k).isSome then none else addKeys cmd ks (m ++ [(k, cmd)])

/-- the outer loop of `newCmdMap` -/
def addCmds : List Command → CmdMap → Option CmdMap
  | [], m => some m
  | c :: cs, m =>
    match addKeys c c.keys m with
    | none => none
    | some m' => addCmds cs m'

/-- `newCmdMap(cmds)`; `none` = an error -/
def newCmdMap (cmds : List Command) : Option CmdMap := addCmds (addStandardCmds cmds) []

/-! ### `UI.parseCommand` -/

inductive ParseOut where
  | ok (cmd : Command) (args : List ArgVal)
  | err
  | panic
  deriving DecidableEq, Repr

/-- `for i, parseF := range cmd.Args { val, err := parseF(parts[i]) … }`; the first failing parser ends the
loop.  `parts[i]` cannot be out of range after the length check of `parseCommand`. -/
def parseArgs : List ArgKind → List Str → NumParse.Res (List ArgVal)
  | [], _ => .ok []
  | _ :: _, [] => .panic
  | k :: ks, s :: ss =>
    match parseArg k s with
    | .ok v =>
      match parseArgs ks ss with
      | .ok vs => .ok (v :: vs)
      | .err => .err
      | .panic => .panic
    | .err => .err
    | .panic => .panic

/-- `UI.parseCommand(str)` on the command map of the current mode -/
def parseCommandWith (pinned : Bool) (m : CmdMap) (str : Str) : ParseOut :=
  match dropEmptyStrs (split str) with
  | [] => if pinned then .panic else .err                      -- F20: `parts[0]`
  | cmdStr :: parts =>
    match m.find cmdStr with
    | none => .err                                              -- "command %q not recognized"
    | some cmd =>
      if parts.length < cmd.args.length then .err               -- "too few args"
      else
        match parseArgs cmd.args parts with
        | .err => .err                                          -- "cannot parse argument %d"
        | .panic => .panic
        | .ok args =>
          let rest := parts.drop cmd.args.length
          if rest.isEmpty then .ok cmd args
          else if !cmd.opt then (if pinned then .panic else .err)   -- F43: nil `cmd.OptionalArgs`
          else .ok cmd (args ++ [.str (joinSp rest)])           -- `JoinOptStrings`

def parseCommand := parseCommandWith false
def parseCommandPinned := parseCommandWith true

/-! ### the emulator as a parameter -/

/-- `Emulator.Step()` seen from the console: value prompts of the state provider, then the result -/
inductive StepTree (σ : Type) where
  /-- `Step` returned `nil`; the state afterwards -/
  | done (s : σ)
  /-- `Step` returned an error -/
  | fail (s : σ)
  | panic
  /-- `stateProv.Register(key, w)` / `stateProv.Memory(key, addr, w)`: `readValueNoErr(prompt, w)` -/
  | ask (w : Nat) (k : Str → StepTree σ)

structure EmuOps (σ : Type) where
  /-- `emulator.New(code, ip, &stateProvider{}, stat)` on the fresh state of `emulF` -/
  init : Listing.Code → Nat → σ
  /-- `MustIP()`; `none` = it panics -/
  ip : σ → Option Nat
  step : σ → StepTree σ
  /-- `r, ok := regs.Values()[key]; r.Width()` -/
  regWidth : σ → Str → Option Nat
  /-- `regs.Store(key, c, w)` -/
  regStore : σ → Str → Str → σ
  /-- `State.Mems[key]` as the memory view sees it; `none` = no such memory (nil interface) -/
  mem : σ → Str → Option MemView.Mem
  /-- the register file as the register view sees it -/
  regs : σ → List Render.Reg

structure Params (σ : Type) where
  cops : Listing.CodeOps
  eops : EmuOps σ
  /-- `regexp.CompilePOSIX(pattern)` and `MatchString(line text)`; `none` = the pattern does not compile -/
  rx : Str → Option (String → Bool)

/-! ### modes and the mode stack -/

/-- `emulate.mode`: the listing view (its own `lines.NewView(code)`) and the emulator -/
structure EmuMode (σ : Type) where
  view : Listing.St
  emu : σ

inductive Mode (σ : Type) where
  | dis (st : Listing.St)
  | emu (e : EmuMode σ)
  /-- `memview.mode`: the memory handed to `memview.New` and the view -/
  | mem (m : Option MemView.Mem) (v : MemView.View)

def Mode.kind {σ} : Mode σ → Kind
  | .dis _ => .dis
  | .emu _ => .emu
  | .mem _ _ => .mem

/-- `namedMode` -/
structure NamedMode (σ : Type) where
  name : Str
  mode : Mode σ
  cmdMap : CmdMap

/-- `UI`: the mode stack, the CURRENT mode first (Go appends at the end) -/
structure UI (σ : Type) where
  stack : List (NamedMode σ)

/-- `UI.AddMode(name, mode)`; `none` = the error of `newMode` -/
def addMode {σ} (ui : UI σ) (name : Str) (mode : Mode σ) : Option (UI σ) :=
  match newCmdMap (commandsOf mode.kind) with
  | none => none
  | some m => some ⟨⟨name, mode, m⟩ :: ui.stack⟩

/-- `consoleui.New(disassemble.New(code, emulF))` -/
def UI.init {σ} (code : Listing.Code) : Option (UI σ) := addMode ⟨[]⟩ (b "app") (.dis (Listing.St.init code))

/-! ### value prompts (`emulate/state.go`) -/

inductive PromptOut where
  | value (c : Str) (rest : Input)
  /-- the input ended: `readValue` fails, the error is printed, the loop goes on for ever -/
  | hang
  | panic

/-- `readValueNoErr(prompt, w)`: a rejected line is answered with `error: …`, one more line is read
and dropped (`_, _ = linereader.ReadLine()`), and the prompt is shown again -/
def readValueNoErr (w : Nat) : Input → PromptOut
  | [] => .hang
  | [line] =>
    match NumParse.readValue w line with
    | .ok c => .value c []
    | .err => .hang
    | .panic => .panic
  | line :: ack :: rest =>
    match NumParse.readValue w line with
    | .ok c => .value c (ack :: rest)
    | .err => readValueNoErr w rest
    | .panic => .panic

inductive TreeOut (σ : Type) where
  | done (s : σ) (rest : Input)
  | fail (s : σ) (rest : Input)
  | hang
  | panic

/-- `Emulator.Step()` with the console as state provider -/
def runTree {σ} : StepTree σ → Input → TreeOut σ
  | .done s, inp => .done s inp
  | .fail s, inp => .fail s inp
  | .panic, _ => .panic
  | .ask w k, inp =>
    match readValueNoErr w inp with
    | .value c rest => runTree (k c) rest
    | .hang => .hang
    | .panic => .panic

/-! ### the actions -/

/-- what an `Action` (with everything it reads) does -/
inductive ActOut (σ : Type) where
  /-- `nil` -/
  | ok (ui : UI σ) (rest : Input)
  /-- an error other than `ErrQuit` -/
  | err (ui : UI σ) (rest : Input)
  /-- `ErrQuit` -/
  | quit (ui : UI σ) (rest : Input)
  | hang
  | panic

/-- `linereader.ErrMsgf(…)`: message, `Press ENTER to continue`, one line is read -/
def errMsgf {σ} (ui : UI σ) : Input → ActOut σ
  | [] => .err ui []                 -- "readline error"
  | _ :: rest => .ok ui rest

/-- result of a Go function returning `(value, error)` that may panic -/
inductive R3 (α : Type) where
  | ok (a : α)
  | err
  | panic

/-- `emulate.mode.refreshCursor()`: the error of `Cursor.Set` is dropped as in the Go code -/
def refreshCursor {σ} (eops : EmuOps σ) (view : Listing.St) (s : σ) : R3 Listing.St :=
  match eops.ip s with
  | none => .panic                                              -- `MustIP`
  | some ip =>
    match view.code.address ip with
    | none => .err                                              -- "cannot find block containing address"
    | some block =>
      match block.address ip with
      | none => .err                                            -- "cannot find instruction at address"
      | some ins =>
        match view.lines.line block ins.idx with
        | none => .panic                                        -- `blockStarts[block.Idx()]`
        | some line => .ok (Listing.setCursor view line).2

/-- `emulate.New(code, ip, stat)` -/
def newEmu {σ} (eops : EmuOps σ) (code : Listing.Code) (ip : Nat) : R3 (EmuMode σ) :=
  let s := eops.init code ip
  match refreshCursor eops (Listing.St.init code) s with
  | .ok view => .ok ⟨view, s⟩
  | .err => .err                                                -- "cannot set cursor"
  | .panic => .panic

/-- the texts `help` wraps: `format(cmd.Help, 1, width)` for every command of the mode -/
def helpOK (k : Kind) : Bool :=
  (addStandardCmds (commandsOf k)).all fun c =>
    match Format.format c.help 1 80 with
    | .ok _ => true
    | _ => false

/-- the answer of a disassembler command executed by the listing model -/
def disAnswer {σ} (top : NamedMode σ) (below : List (NamedMode σ)) (inp : Input) :
    Option (Listing.Status × Listing.St) → ActOut σ
  | none => .panic
  | some (.ok, st') => .ok ⟨{ top with mode := .dis st' } :: below⟩ inp
  | some (.noMatch, st') => errMsgf ⟨{ top with mode := .dis st' } :: below⟩ inp   -- "No line matching regex"
  | some (.err _, st') => .err ⟨{ top with mode := .dis st' } :: below⟩ inp

/-- the answer of a memory view command (`none` = the error of `Cursor.Set` / "no line with address") -/
def memAnswer {σ} (top : NamedMode σ) (below : List (NamedMode σ)) (m : Option MemView.Mem)
    (inp : Input) : Option MemView.View → ActOut σ
  | none => .err ⟨top :: below⟩ inp
  | some v' => .ok ⟨{ top with mode := .mem m v' } :: below⟩ inp

/-- the action `emulate` of the disassembler mode -/
def actEmulate {σ} (p : Params σ) (top : NamedMode σ) (below : List (NamedMode σ)) (st : Listing.St)
    (inp : Input) : ActOut σ :=
  let ui : UI σ := ⟨top :: below⟩
  let l := st.cursor.value
  match st.lines.lines[l]? with
  | none => .panic                                              -- `Lines.Index(l)`
  | some line =>
    match st.lines.block st.code l with
    | none => .panic                                            -- `code.Index(idx)`
    | some none => .err ui inp                                  -- "line %d belongs to no block"
    | some (some block) =>
      match line.instr with
      | none => .err ui inp                                     -- "line %d is not instruction line"
      | some insIdx =>
        match block.ins[insIdx]? with
        | none => .panic                                        -- `block.Index(insIdx)`
        | some ins =>
          match newEmu p.eops st.code ins.addr with
          | .panic => .panic
          | .err => .err ui inp                                 -- "bug: cannot create emulation"
          | .ok e =>
            match addMode ui (b "emulate") (.emu e) with
            | none => .err ui inp                               -- "cannot process mode"
            | some ui' => .ok ui' inp

/-- the action `step` of the emulator mode -/
def actStep {σ} (p : Params σ) (top : NamedMode σ) (below : List (NamedMode σ)) (e : EmuMode σ)
    (inp : Input) : ActOut σ :=
  match runTree (p.eops.step e.emu) inp with
  | .panic => .panic
  | .hang => .hang
  | .fail s rest => .err ⟨{ top with mode := .emu { e with emu := s } } :: below⟩ rest   -- "cannot emulate instruction"
  | .done s rest =>
    match refreshCursor p.eops e.view s with
    | .panic => .panic
    | .err => .err ⟨{ top with mode := .emu { e with emu := s } } :: below⟩ rest         -- "cannot refresh cursor"
    | .ok view => .ok ⟨{ top with mode := .emu ⟨view, s⟩ } :: below⟩ rest

/-- the action `memory <key>` of the emulator mode -/
def actMemory {σ} (p : Params σ) (top : NamedMode σ) (below : List (NamedMode σ)) (e : EmuMode σ)
    (key : Str) (inp : Input) : ActOut σ :=
  let ui : UI σ := ⟨top :: below⟩
  let mem := p.eops.mem e.emu key
  match MemView.newMemoryView mem with
  | none => .panic
  | some v =>
    match addMode ui (b "memview(" ++ key ++ b ")") (.mem mem v) with
    | none => .err ui inp
    | some ui' => .ok ui' inp

/-- the action `regmod <key>` of the emulator mode -/
def actRegmod {σ} (p : Params σ) (top : NamedMode σ) (below : List (NamedMode σ)) (e : EmuMode σ)
    (key : Str) (inp : Input) : ActOut σ :=
  match p.eops.regWidth e.emu key with
  | none => .err ⟨top :: below⟩ inp                             -- "register is not set at all"
  | some w =>
    match readValueNoErr w inp with
    | .hang => .hang
    | .panic => .panic
    | .value c rest =>
      .ok ⟨{ top with mode := .emu { e with emu := p.eops.regStore e.emu key c } } :: below⟩ rest

/-- `cmd.Action(c, args...)` in the current mode `top`; the type assertions on the arguments
(`args[0].(int)` …) and a command table that does not belong to the mode are panics -/
def runAct {σ} (p : Params σ) (top : NamedMode σ) (below : List (NamedMode σ)) (act : Act)
    (args : List ArgVal) (inp : Input) : ActOut σ :=
  let ui : UI σ := ⟨top :: below⟩
  match act with
  | .quit => .quit ui inp
  | .help => if helpOK top.mode.kind then errMsgf ui inp else .panic
  | .dDown =>
    match top.mode, args with
    | .dis st, [.num n] => disAnswer top below inp (Listing.step p.cops st (.down n))
    | _, _ => .panic
  | .dUp =>
    match top.mode, args with
    | .dis st, [.num n] => disAnswer top below inp (Listing.step p.cops st (.up n))
    | _, _ => .panic
  | .dMove =>
    match top.mode, args with
    | .dis st, [.num f, .num t] => disAnswer top below inp (Listing.step p.cops st (.move f t))
    | _, _ => .panic
  | .dBounds =>
    match top.mode, args with
    | .dis st, [.num l] => disAnswer top below inp (Listing.step p.cops st (.bounds l))
    | _, _ => .panic
  | .dGoto =>
    match top.mode, args with
    | .dis st, [.num n] => disAnswer top below inp (Listing.step p.cops st (.goto n))
    | _, _ => .panic
  | .dEntry =>
    match top.mode with
    | .dis st => disAnswer top below inp (Listing.step p.cops st .entrypoint)
    | _ => .panic
  | .dFind =>
    -- `r := args[0].(string); if len(args) > 1 { r = r + " " + args[1].(string) }`
    match top.mode, args with
    | .dis st, [.str r] =>
      disAnswer top below inp
        (Listing.step p.cops st (.find ((p.rx r).map fun f => st.lines.lines.map fun l => f l.value)))
    | .dis st, [.str r, .str o] =>
      disAnswer top below inp
        (Listing.step p.cops st
          (.find ((p.rx (r ++ 0x20 :: o)).map fun f => st.lines.lines.map fun l => f l.value)))
    | _, _ => .panic
  | .dAllLines =>
    -- `for i := 0; i < Len(); i++ { fmt.Print(m.view.Format(i)) }`: every index is in range
    match top.mode with
    | .dis _ => errMsgf ui inp
    | _ => .panic
  | .dEmulate =>
    match top.mode with
    | .dis st => actEmulate p top below st inp
    | _ => .panic
  | .eStep =>
    match top.mode with
    | .emu e => actStep p top below e inp
    | _ => .panic
  | .eMemories =>
    match top.mode with
    | .emu _ =>
      match inp with
      | [] => .err ui []                                        -- "readline error"
      | _ :: rest => .ok ui rest
    | _ => .panic
  | .eMemory =>
    match top.mode, args with
    | .emu e, [.str key] => actMemory p top below e key inp
    | _, _ => .panic
  | .eRegmod =>
    match top.mode, args with
    | .emu e, [.str key] => actRegmod p top below e key inp
    | _, _ => .panic
  | .mDown =>
    match top.mode, args with
    | .mem m v, [.num n] => memAnswer top below m inp (MemView.cmdDown v n)
    | _, _ => .panic
  | .mUp =>
    match top.mode, args with
    | .mem m v, [.num n] => memAnswer top below m inp (MemView.cmdUp v n)
    | _, _ => .panic
  | .mGoto =>
    match top.mode, args with
    | .mem m v, [.num n] => memAnswer top below m inp (MemView.cmdGoto v n)
    | _, _ => .panic
  | .mAddress =>
    match top.mode, args with
    | .mem m v, [.addr a] => memAnswer top below m inp (MemView.cmdAddress v a)
    | _, _ => .panic

/-! ### `UI.processCommand` -/

inductive Answer where
  /-- the empty line: nothing happens -/
  | skipped
  /-- the command was executed (`Action` returned nil) -/
  | executed
  /-- a line `error: …` was printed (and ENTER awaited) -/
  | error
  /-- `quit` in a mode other than the first: the mode was left -/
  | left
  deriving DecidableEq, Repr

/-- where the end of the input was met (`processCommand` returns an error, `Run` returns it, the
program prints it and exits with status 1) -/
inductive EofAt where
  | command      -- reading the command line
  | ack          -- waiting for ENTER after an error message
  | quitAck      -- waiting for ENTER in `quitMode`
  deriving DecidableEq, Repr

inductive Out (σ : Type) where
  /-- `processCommand` returned nil -/
  | cont (a : Answer) (ui : UI σ) (rest : Input)
  /-- `ErrQuit`: `Run` returns nil -/
  | exited (rest : Input)
  | eof (w : EofAt)
  | hang
  | panic

/-- message printed, then `linereader.ReadLine()` -/
def ack {σ} (ui : UI σ) : Input → Out σ
  | [] => .eof .ack
  | _ :: rest => .cont .error ui rest

/-- `UI.quitMode()` -/
def quitMode {σ} (ui : UI σ) (inp : Input) : Out σ :=
  match ui.stack with
  | [] => .panic                                                -- `c.modeStack[len(c.modeStack)-1]`
  | _ :: below =>
    if below.isEmpty then
      match inp with
      | [] => .eof .quitAck
      | _ :: rest => .exited rest
    else
      match inp with
      | [] => .eof .quitAck
      | _ :: rest => .cont .left ⟨below⟩ rest

/-- `UI.processCommand()` -/
def uiStepWith {σ} (pinned : Bool) (p : Params σ) (ui : UI σ) : Input → Out σ
  | [] => .eof .command
  | line :: rest =>
    if line.isEmpty then .cont .skipped ui rest
    else
      match ui.stack with
      | [] => .panic                                            -- `c.mode()`
      | top :: below =>
        match parseCommandWith pinned top.cmdMap line with
        | .panic => .panic
        | .err => ack ui rest
        | .ok cmd args =>
          match runAct p top below cmd.act args rest with
          | .panic => .panic
          | .hang => .hang
          | .ok ui' rest' => .cont .executed ui' rest'
          | .err ui' rest' => ack ui' rest'
          | .quit ui' rest' => quitMode ui' rest'

def uiStep {σ} := @uiStepWith σ false

/-- how a whole session (the loop of `UI.Run` without the screen) ends -/
inductive Final where
  | exited
  | eof (w : EofAt)
  | hang
  | panic
  | outOfFuel
  deriving DecidableEq, Repr

/-- the loop of `UI.Run`: every round consumes at least one line, `fuel = len(input) + 1` suffices -/
def runWith {σ} (pinned : Bool) (p : Params σ) : Nat → UI σ → Input → Final
  | 0, _, _ => .outOfFuel
  | fuel + 1, ui, inp =>
    match uiStepWith pinned p ui inp with
    | .cont _ ui' rest => runWith pinned p fuel ui' rest
    | .exited _ => .exited
    | .eof a => .eof a
    | .hang => .hang
    | .panic => .panic

def session {σ} (p : Params σ) (ui : UI σ) (inp : Input) : Final := runWith false p (inp.length + 1) ui inp

/-! ### rendering of the current mode (`Mode.View().Print(n)`) -/

def renderMode {σ} (eops : EmuOps σ) : Mode σ → Nat → Render.Res
  | .dis st, n => (Render.linesView st.lines.len st.cursor.value).print n
  | .emu e, n => (Render.emuView e.view.lines.len e.view.cursor.value (eops.regs e.emu)).print n
  | .mem m v, n =>
    match MemView.print m v n with
    | none => ⟨.panic, .none⟩                                    -- `formatMemLine`
    | some _ => (Render.memView v.lines.length v.cursor).print n

/-- `c.mode().mode.View().Print(n)` -/
def renderTop {σ} (eops : EmuOps σ) (ui : UI σ) (n : Nat) : Render.Res :=
  match ui.stack with
  | [] => ⟨.panic, .none⟩
  | top :: _ => renderMode eops top.mode n

end Mltwist.UI
