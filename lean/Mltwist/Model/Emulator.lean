import Mltwist.Model.State
import Mltwist.Model.RiscvTables
/-
Model of `internal/emulator/{emulator.go,evaluation.go,deps.go}` — properties C03 and C04.

The emulator runs on `state.State` (`Model/State.lean`) whose memories are the layering
`Overlay(Bytes, Sparse)` that `cmd/mltwist/main.go: runIU` builds (`Model/Overlay.lean`).  The code it
runs on is an abstract `CodeView`: the list of instructions (current address, byte length, constant
folded effects) with the lookup "the instruction whose current address equals ip".  That
`deps.Code.Address` followed by `Block.Address` implement exactly this lookup is the business of the
dependency model (C07) and is the assumption `LookupExact` of the theorems about this model.

The `StateProvider` is an oracle (`Provider`: two functions returning the bytes of an `expr.Const`);
every call is appended to a LOG (`Req`), which is the subject of C04.

Every Go panic is an explicit outcome (`Panic`): the unchecked type assertions `.(expr.Const)`, the
`bug: …` panics, the panics of `MustIP`, and the panics of the memory layers underneath.

REPAIR F45 (in the code since the `fix:` commit for F45): a memory access whose exclusive end is not an address
(`addr + w ≥ 2^64`) used to panic inside the memories (`interval.New(addr, addr+w)`).  Now `checkAccess(addr, w)`
— at the top of `memValue`, and in `Step` over ALL evaluated effects before the first one is applied — panics
with the private value `accessError{addr, w}`, which the `defer`/`recover` of `Step` turns into the ordinary
error `(nil, err)`.  The model follows that literally: evaluation stops with `Stop.access c addr w`, where `c` is
the mutable state at that moment (Go mutates `e.State` in place: the values already fetched from the provider
stay stored), and `step` reports `Outcome.accessErr`: nothing applied, the instruction pointer unchanged.

REPAIRS the model follows (the pinned code violates C03 without them):
* F03: `memValue` type-asserts the result of `Mems.Load` to `expr.Const`; a load that is composed of
  several stored pieces (two stores of different widths, image bytes + written bytes, a cut piece of a
  wider store) is a `BitOr`/`Lsh`/width-gadget tree of constants.  Repaired code:
  `exprtransform.ConstFold(val).(expr.Const)` at both `Load` sites.
* F70: `regValue` asks the provider for exactly the width of the `RegLoad` at hand and stores that
  narrow value as the whole register; a later, wider read of the same register is then silently zero
  extended (`RegMap.Load` = `SetWidth`).  Repaired code: the provider is asked once for the register at
  the greatest width the code reads or writes it with (`CodeView.regWidth`, computed in `New`), the
  answer is stored at that width and the requested width is cut from it.
-/
namespace Mltwist.Emulator
open Mltwist Mltwist.State Mltwist.Overlay Mltwist.Interval

/-- `expr.IPKey` -/
def ipKey : String := "#r:w:ip"

/-- `model.AddrWidth` -/
def addrWidth : Nat := 8

/-- `StateProvider`: the bytes of the `expr.Const` that `Register(key, w)` / `Memory(key, addr, w)` return -/
structure Provider where
  reg : String → Nat → List UInt8
  mem : String → Nat → Nat → List UInt8

/-- one call of the provider -/
inductive Req where
  | reg (key : String) (w : Nat)
  | mem (key : String) (addr w : Nat)
  deriving DecidableEq, Repr, Inhabited

inductive Panic where
  /-- `MustIP`: "instruction pointer register is missing in registry file." -/
  | ipMissing
  /-- `MustIP`: `ex.(expr.Const)` on a non-constant -/
  | ipNotConst
  /-- `MustIP`: "constant value of instruction pointer doesn't fit address" -/
  | ipNoFit
  /-- `regValue`: `val.(expr.Const)` on a non-constant register value -/
  | regNotConst
  /-- `memValue`: `ConstFold(val).(expr.Const)` on something that does not fold to a constant -/
  | memNotConst
  /-- `memValue`: "bug: memory with width %d at addr 0x%x not present" -/
  | memNotPresent
  /-- `evalMemoryFully`: `ConstFold(curr.Addr()).(expr.Const)` -/
  | addrNotConst
  /-- `eval`: `ConstFold(ex).(expr.Const)` -/
  | evalNotConst
  /-- `recordOutput`: one of its three type assertions -/
  | recordNotConst
  /-- `Step`: "bug: state change couldn't be applied" -/
  | applyRefused
  /-- `Step`, the check of the stores: `mStore.Addr().(expr.Const)` -/
  | checkNotConst
  /-- a panic of the memories underneath (`Mems.Load`, `Mems.Missing`, `Mems.Store`) -/
  | mem (f : Fail)
  deriving DecidableEq, Repr, Inhabited

/-- `MemAccess` -/
structure MemAccess where
  key : String
  addr : Nat
  value : List UInt8
  deriving DecidableEq, Repr, Inhabited

/-- `Step` (`evaluation.go`): the two `RegSet`s are Go maps (association lists, one entry per key) -/
structure Report where
  regLoads : List (String × List UInt8) := []
  regStores : List (String × List UInt8) := []
  memLoads : List MemAccess := []
  memStores : List MemAccess := []
  deriving DecidableEq, Repr, Inhabited

/-- `Step.inputReg` -/
def Report.inputReg (r : Report) (key : String) (c : List UInt8) : Report :=
  { r with regLoads := assocSet key c r.regLoads }

/-- `Step.memRead` -/
def Report.memRead (r : Report) (key : String) (addr : Nat) (c : List UInt8) : Report :=
  { r with memLoads := r.memLoads ++ [⟨key, addr, c⟩] }

/-- `Step.recordOutput`; `none` = one of the type assertions fails -/
def Report.recordOutput (r : Report) : Effect → Option Report
  | .memStore (.const v) key (.const a) w =>
    some { r with memStores := r.memStores ++ [⟨key, (Const.constUint 8 a).1, Const.withWidth v w⟩] }
  | .memStore .. => none
  | .regStore (.const v) key _ => some { r with regStores := assocSet key v r.regStores }
  | .regStore .. => none

/-! ### the code -/

/-- one instruction as the emulator sees it: `Begin()` (current address), `Len()`, `Effects()` -/
structure Ins where
  addr : Nat
  len : Nat
  effects : List Effect
  deriving DecidableEq, Repr, Inhabited

/-- `End()`: `currAddr + Len()` in `uint64` -/
def Ins.end_ (i : Ins) : Nat := (i.addr + i.len) % 2 ^ 64

abbrev CodeView := List Ins

/-- `Emulator.instruction`: the instruction whose current address is `ip` -/
def CodeView.lookup (c : CodeView) (ip : Nat) : Option Ins := c.find? (fun i => i.addr == ip)

/-- the greatest width of a `RegLoad` of `key` inside an expression -/
def exprRegWidth (key : String) : Expr → Nat
  | .const _ => 0
  | .binary _ a b _ => max (exprRegWidth key a) (exprRegWidth key b)
  | .less a b t f _ =>
    max (max (exprRegWidth key a) (exprRegWidth key b)) (max (exprRegWidth key t) (exprRegWidth key f))
  | .memLoad _ a _ => exprRegWidth key a
  | .regLoad k w => if k = key then w else 0

/-- … of an effect: the loads of its expressions and the width of a store to `key` -/
def effectRegWidth (key : String) : Effect → Nat
  | .memStore v _ a _ => max (exprRegWidth key a) (exprRegWidth key v)
  | .regStore v k w => max (if k = key then w else 0) (exprRegWidth key v)

def effectsRegWidth (key : String) (efs : List Effect) : Nat :=
  efs.foldl (fun m ef => max m (effectRegWidth key ef)) 0

/-- REPAIR F70, `New`: the greatest width the code reads or writes register `key` with -/
def CodeView.regWidth (c : CodeView) (key : String) : Nat :=
  c.foldl (fun m i => max m (effectsRegWidth key i.effects)) 0

/-! ### evaluation: everything threads the state, the log and the report -/

/-- the mutable part during one `Step` -/
structure Ctx where
  st : State
  log : List Req := []
  rep : Report := {}
  deriving Repr, Inhabited

/-- how an evaluation inside `Step` stops early: by a Go panic.  `access` is the panic with the private value
`accessError{addr, w}` of `checkAccess`, the one `Step` recovers from; it carries the mutable part of the
emulator at that moment (the state with the provider fills made so far, and their log) -/
inductive Stop where
  | panic (p : Panic)
  | access (c : Ctx) (addr w : Nat)
  deriving Repr, Inhabited

/-- the condition of `checkAccess(addr, w)`: `addr+model.Addr(w) < addr` in `uint64` — the exclusive end of the
access is not an address (it is `2^64`, or it wrapped) -/
def accessBad (addr w : Nat) : Bool := (addr + w) % 2 ^ 64 < addr

/-- `regValue` (with REPAIR F70) -/
def regValue (p : Provider) (code : CodeView) (c : Ctx) (key : String) (w : Nat) :
    Except Stop (List UInt8 × Ctx) :=
  match c.st.regs.load key w with
  | some (.const bs) => .ok (bs, c)
  | some _ => .error (.panic .regNotConst)
  | none =>
    let full := max w (code.regWidth key)
    let val := Const.withWidth (p.reg key full) full
    .ok (Const.withWidth val w,
      { c with st := { c.st with regs := c.st.regs.store key (.const val) full }
               log := c.log ++ [.reg key full] })

/-- `evalRegsFully`: `ReplaceAll[expr.RegLoad]`, bottom-up, left to right -/
def evalRegs (p : Provider) (code : CodeView) : Expr → Ctx → Except Stop (Expr × Ctx)
  | .const bs, c => .ok (.const bs, c)
  | .binary op a b w, c =>
    match evalRegs p code a c with
    | .error e => .error e
    | .ok (a', c1) =>
      match evalRegs p code b c1 with
      | .error e => .error e
      | .ok (b', c2) => .ok (.binary op a' b' w, c2)
  | .less a b t f w, c =>
    match evalRegs p code a c with
    | .error e => .error e
    | .ok (a', c1) =>
      match evalRegs p code b c1 with
      | .error e => .error e
      | .ok (b', c2) =>
        match evalRegs p code t c2 with
        | .error e => .error e
        | .ok (t', c3) =>
          match evalRegs p code f c3 with
          | .error e => .error e
          | .ok (f', c4) => .ok (.less a' b' t' f' w, c4)
  | .memLoad k a w, c =>
    match evalRegs p code a c with
    | .error e => .error e
    | .ok (a', c1) => .ok (.memLoad k a' w, c1)
  | .regLoad k w, c =>
    match regValue p code c k w with
    | .error e => .error e
    | .ok (v, c1) => .ok (.const v, { c1 with rep := c1.rep.inputReg k v })

/-- the loop of `memValue` over the missing intervals: ask, `WithWidth`, `Mems.Store` -/
def fillMissing (p : Provider) (key : String) : List Intv → Ctx → Except Stop Ctx
  | [], c => .ok c
  | i :: is, c =>
    let a := ibegin i
    let w := ilen i
    let val := Const.withWidth (p.mem key a w) w
    match c.st.mems.store key a (.const val) w with
    | .error f => .error (.panic (.mem f))
    | .ok mems' =>
      fillMissing p key is { c with st := { c.st with mems := mems' }, log := c.log ++ [.mem key a w] }

/-- the type assertion after REPAIR F03: `exprtransform.ConstFold(val).(expr.Const)` -/
def foldConst (e : Expr) : Except Stop (List UInt8) :=
  match constFold e with
  | .const bs => .ok bs
  | _ => .error (.panic .memNotConst)

/-- `memValue` (with REPAIR F03, and REPAIR F45: `checkAccess(addr, w)` first) -/
def memValue (p : Provider) (c : Ctx) (key : String) (addr w : Nat) : Except Stop (List UInt8 × Ctx) :=
  if accessBad addr w then .error (.access c addr w) else
  match c.st.mems.load key addr w with
  | .error f => .error (.panic (.mem f))
  | .ok (some e) =>
    match foldConst e with
    | .error x => .error x
    | .ok bs => .ok (bs, c)
  | .ok none =>
    match c.st.mems.missing key addr w with
    | .error f => .error (.panic (.mem f))
    | .ok miss =>
      match fillMissing p key miss c with
      | .error x => .error x
      | .ok c1 =>
        match c1.st.mems.load key addr w with
        | .error f => .error (.panic (.mem f))
        | .ok none => .error (.panic .memNotPresent)
        | .ok (some e) =>
          match foldConst e with
          | .error x => .error x
          | .ok bs => .ok (bs, c1)

/-- `evalMemoryFully`: `ReplaceAll[expr.MemLoad]`, bottom-up, left to right -/
def evalMem (p : Provider) : Expr → Ctx → Except Stop (Expr × Ctx)
  | .const bs, c => .ok (.const bs, c)
  | .regLoad k w, c => .ok (.regLoad k w, c)
  | .binary op a b w, c =>
    match evalMem p a c with
    | .error e => .error e
    | .ok (a', c1) =>
      match evalMem p b c1 with
      | .error e => .error e
      | .ok (b', c2) => .ok (.binary op a' b' w, c2)
  | .less a b t f w, c =>
    match evalMem p a c with
    | .error e => .error e
    | .ok (a', c1) =>
      match evalMem p b c1 with
      | .error e => .error e
      | .ok (b', c2) =>
        match evalMem p t c2 with
        | .error e => .error e
        | .ok (t', c3) =>
          match evalMem p f c3 with
          | .error e => .error e
          | .ok (f', c4) => .ok (.less a' b' t' f' w, c4)
  | .memLoad key a w, c =>
    match evalMem p a c with
    | .error e => .error e
    | .ok (a', c1) =>
      match constFold a' with
      | .const ab =>
        let addr := (Const.constUint 8 ab).1
        match memValue p c1 key addr w with
        | .error e => .error e
        | .ok (v, c2) => .ok (.const v, { c2 with rep := c2.rep.memRead key addr v })
      | _ => .error (.panic .addrNotConst)

/-- `eval` -/
def eval (p : Provider) (code : CodeView) (ex : Expr) (c : Ctx) : Except Stop (List UInt8 × Ctx) :=
  match evalRegs p code ex c with
  | .error e => .error e
  | .ok (e1, c1) =>
    match evalMem p e1 c1 with
    | .error e => .error e
    | .ok (e2, c2) =>
      match constFold e2 with
      | .const bs => .ok (bs, c2)
      | _ => .error (.panic .evalNotConst)

/-- `EffectApply(ef, eval)`: Go evaluates the arguments of `NewMemStore` left to right: value, address -/
def evalEffect (p : Provider) (code : CodeView) : Effect → Ctx → Except Stop (Effect × Ctx)
  | .memStore v k a w, c =>
    match eval p code v c with
    | .error e => .error e
    | .ok (v', c1) =>
      match eval p code a c1 with
      | .error e => .error e
      | .ok (a', c2) => .ok (.memStore (.const v') k (.const a') w, c2)
  | .regStore v k w, c =>
    match eval p code v c with
    | .error e => .error e
    | .ok (v', c1) => .ok (.regStore (.const v') k w, c1)

/-- `EffectsApply(efs, eval)` -/
def evalEffects (p : Provider) (code : CodeView) : List Effect → Ctx → Except Stop (List Effect × Ctx)
  | [], c => .ok ([], c)
  | ef :: efs, c =>
    match evalEffect p code ef c with
    | .error e => .error e
    | .ok (ef', c1) =>
      match evalEffects p code efs c1 with
      | .error e => .error e
      | .ok (efs', c2) => .ok (ef' :: efs', c2)

/-- an instruction-pointer write -/
def isJump : Effect → Bool
  | .regStore _ k _ => k == ipKey
  | _ => false

/-- REPAIR F45, the first loop of `Step` over the evaluated effects: `checkAccess` of every `MemStore`, BEFORE
any effect is applied (`c`: the mutable state at that moment, for the panic value) -/
def checkStores (c : Ctx) : List Effect → Except Stop Unit
  | [] => .ok ()
  | .memStore _ _ (.const a) w :: efs =>
    let addr := (Const.constUint 8 a).1
    if accessBad addr w then .error (.access c addr w) else checkStores c efs
  | .memStore .. :: _ => .error (.panic .checkNotConst)
  | .regStore .. :: efs => checkStores c efs

/-- the second loop of `Step` over the evaluated effects: `jumped`, `recordOutput`, `State.Apply` -/
def applyAll : List Effect → State → Report → Bool → Except Panic (State × Report × Bool)
  | [], s, r, j => .ok (s, r, j)
  | ef :: efs, s, r, j =>
    match r.recordOutput ef with
    | none => .error .recordNotConst
    | some r' =>
      match s.apply ef with
      | .error f => .error (.mem f)
      | .ok (_, false) => .error .applyRefused
      | .ok (s', true) => applyAll efs s' r' (j || isJump ef)

/-- `MustIP` -/
def mustIP (s : State) : Except Panic Nat :=
  match s.regs.load ipKey addrWidth with
  | none => .error .ipMissing
  | some (.const bs) =>
    let r := Const.constUint 8 bs
    if r.2 then .ok r.1 else .error .ipNoFit
  | some _ => .error .ipNotConst

/-- `expr.ConstFromUint(a)` for a `model.Addr` -/
def addrConst (a : Nat) : Expr := .const (natToLE 8 a)

/-- the results of `Step` -/
inductive Outcome where
  /-- `(step, nil)`: the new state, the report, the provider calls of this step -/
  | ok (s : State) (rep : Report) (log : List Req)
  /-- `(nil, err)`: no instruction at the instruction pointer; the state is unchanged -/
  | err
  /-- `(nil, accessError{addr, w})` (REPAIR F45): an access of the instruction leaves the address space.  `s` is
  the state the emulator is left in — the provider calls `log` made before the failing access stay stored, no
  effect of the instruction is applied, the instruction pointer is not advanced -/
  | accessErr (s : State) (log : List Req) (addr w : Nat)
  | panic (p : Panic)
  deriving Repr, Inhabited

/-- the `defer`/`recover` of `Step`: exactly the panic value of `checkAccess` becomes the error; everything else
is re-panicked -/
def recovered : Stop → Outcome
  | .panic e => .panic e
  | .access c addr w => .accessErr c.st c.log addr w

/-- `Emulator.Step` -/
def step (p : Provider) (code : CodeView) (s : State) : Outcome :=
  match mustIP s with
  | .error e => .panic e
  | .ok ip =>
    match code.lookup ip with
    | none => .err
    | some ins =>
      match evalEffects p code ins.effects { st := s } with
      | .error e => recovered e
      | .ok (efs, c) =>
        match checkStores c efs with
        | .error e => recovered e
        | .ok () =>
          match applyAll efs c.st c.rep false with
          | .error e => .panic e
          | .ok (s', rep, jumped) =>
            let s'' := if jumped then s'
              else { s' with regs := s'.regs.store ipKey (addrConst ins.end_) addrWidth }
            .ok s'' rep c.log

/-- `emulator.New`: stores the instruction pointer -/
def new (ip : Nat) (s : State) : State :=
  { s with regs := s.regs.store ipKey (addrConst ip) addrWidth }

/-- the result of running `n` steps: the outcomes of the steps performed (the run ends with the first
error or `panic`) and the last state -/
def run (p : Provider) (code : CodeView) : Nat → State → List Outcome × State
  | 0, s => ([], s)
  | n + 1, s =>
    match step p code s with
    | .ok s' rep log =>
      let r := run p code n s'
      (.ok s' rep log :: r.1, r.2)
    | .accessErr s' log addr w => ([.accessErr s' log addr w], s')
    | o => ([o], s)

/-- the whole provider log of a run (a step that fails with the access error has asked the provider, too) -/
def logOf : List Outcome → List Req
  | [] => []
  | .ok _ _ l :: os => l ++ logOf os
  | .accessErr _ l _ _ :: os => l ++ logOf os
  | _ :: os => logOf os

/-! ### the code view of a program image -/

/-- the instruction the front end lifts from the bytes `bs` at `addr`: `parser.newInstruction` —
`ByteLen` bytes, the effects mapped through `ConstFold` -/
def liftIns (addr : Nat) (bs : List UInt8) : Option Ins :=
  match Riscv.parse (Riscv.instructionSet 64 true true) addr bs with
  | .ok e i => some ⟨addr, 4, (e.validEffects i).map (Effect.apply constFold)⟩
  | _ => none

/-- `parser.Parse` over one block: instructions back to back from the block's begin; `none` = an
error (a word that is no instruction, or fewer than four bytes left) -/
def liftBlock : Nat → Nat → List UInt8 → Option (List Ins)
  | 0, _, _ => some []
  | fuel + 1, addr, bs =>
    if bs.isEmpty then some []
    else match liftIns addr bs with
      | none => none
      | some i =>
        match liftBlock fuel ((addr + 4) % 2 ^ 64) (bs.drop 4) with
        | none => none
        | some is => some (i :: is)

/-- `parser.Parse` over the blocks of the machine code -/
def liftCode : List (Nat × List UInt8) → Option CodeView
  | [] => some []
  | (b, bs) :: rest =>
    match liftBlock (bs.length / 4 + 1) b bs with
    | none => none
    | some is =>
      match liftCode rest with
      | none => none
      | some js => some (is ++ js)

end Mltwist.Emulator
