import Mltwist.Model.Transform
import Mltwist.Model.Const
/-
Model of basic-block identification (C08):
`internal/deps/internal/basicblock/{parse.go,block.go,pipeline.go}`, `jumps` of
`internal/deps/instruction.go`, and `deps.NewCode`/`Code.Blocks` as far as block
membership and order are concerned.

An instruction is `(addr, len, jumps)`; `model.Addr` is `uint64`, so `End()` and all block
arithmetic is taken modulo `2^64` exactly where Go wraps.  Library replacements (trusted
base): `sort.Slice` = stable insertion sort on `Begin()` (exact for ≤ 12 elements and for
pairwise distinct keys); `sort.Search` is followed literally (binary search with fuel).

Go panics are the explicit outcome `Fail.panic`: `b.seq[0]` of an empty block, an index out
of range.  REPAIR F09: the pinned `splitByAddress` evaluates `seq[1:]` on an empty slice
(panic `slice bounds out of range [1:0]`); the model follows the repaired loop, which
yields no sequence for an empty input, so `Parse` ends in `blocks.split(entrypoint)`
with "no basic block with address".
REPAIR F48: `blocks.split`/`block.contains` compare against the last byte of a block
(`begin + length - 1`) instead of the exclusive end, which is 0 for a block that ends
exactly at `2^64`.
-/
namespace Mltwist.BasicBlock

/-- `model.Addr` is `uint64` -/
def M : Nat := 2 ^ 64

/-- `expr.IPKey` -/
def ipKey : String := "#r:w:ip"

/-- an instruction as `basicblock.Instruction` sees it -/
structure Ins where
  addr : Nat
  len : Nat
  jumps : List Expr
  deriving DecidableEq, Repr, Inhabited

/-- `End()`: `currAddr + Len()` in `uint64` -/
def Ins.end_ (i : Ins) : Nat := (i.addr + i.len) % M

/-! ### `deps.jumps` -/

/-- the filtering loop of `jumps`: every possibility is constant folded; a constant whose
`ConstUint[model.Addr]` value (the `ok` flag is ignored) equals `End()` is dropped -/
def filterJumps (endA : Nat) : List Expr → List Expr
  | [] => []
  | e :: es =>
    let a := constFold e
    match a with
    | .const bs =>
      if (Const.constUint 8 bs).1 = endA then filterJumps endA es else a :: filterJumps endA es
    | _ => a :: filterJumps endA es

/-- `jumps(ins)` for an instruction at `addr` with `len` bytes and the given effects -/
def jumps (addr len : Nat) : List Effect → List Expr
  | [] => []
  | .regStore v k _ :: efs =>
    (if k = ipKey then filterJumps ((addr + len) % M) (possibilities v) else []) ++ jumps addr len efs
  | .memStore .. :: efs => jumps addr len efs

/-- `newInstruction` restricted to what matters here -/
def mkIns (addr len : Nat) (effects : List Effect) : Ins := ⟨addr, len, jumps addr len effects⟩

/-! ### failures -/

inductive ErrClass where
  | noBlock        -- "no basic block with address 0x%x found"
  | notContained   -- "block doesn't contain address 0x%x"
  | notFound       -- "instruction at address 0x%x not found"
  | notBoundary    -- "address 0x%x is not at instruction boundary"
  deriving DecidableEq, Repr

inductive Fail where
  | panic
  | err (c : ErrClass)
  deriving DecidableEq, Repr

/-- failure of `Parse`: a Go panic, or an error of one of the two splitting stages -/
inductive ParseFail where
  | panic
  | jumpTarget (c : ErrClass)   -- "cannot split blocks by jump targets"
  | entry (c : ErrClass)        -- "cannot create basic block at entry point"
  deriving DecidableEq, Repr

/-! ### `sort.Slice`, `sort.Search` -/

/-- one step of insertion sort: `x` moves left while it is strictly less than its predecessor -/
def insertSorted (x : Ins) : List Ins → List Ins
  | [] => [x]
  | y :: ys => if x.addr < y.addr then x :: y :: ys else y :: insertSorted x ys

/-- `sort.Slice(seq, Begin(i) < Begin(j))` -/
def sortIns (l : List Ins) : List Ins := l.foldl (fun acc x => insertSorted x acc) []

/-- the loop of `sort.Search`: `for i < j { h := (i+j)/2; if !f(h) { i = h+1 } else { j = h } }` -/
def searchLoop (f : Nat → Except Fail Bool) : Nat → Nat → Nat → Except Fail Nat
  | 0, i, _ => .ok i
  | fuel + 1, i, j =>
    if i < j then do
      let h := (i + j) / 2
      if !(← f h) then searchLoop f fuel (h + 1) j else searchLoop f fuel i h
    else .ok i

/-- `sort.Search(n, f)`; `n` iterations always suffice -/
def search (n : Nat) (f : Nat → Except Fail Bool) : Except Fail Nat := searchLoop f n 0 n

/-! ### `pipeline.go`, `splitByAddress`, `splitByJumps` -/

/-- the loop of `splitByAddress`; `cur` is `seq[begin:i]`, the second argument `seq[i:]` -/
def splitByAddressLoop : List Ins → List Ins → List (List Ins)
  | cur, a :: b :: rest =>
    if a.end_ = b.addr then splitByAddressLoop (cur ++ [a]) (b :: rest)
    else (cur ++ [a]) :: splitByAddressLoop [] (b :: rest)
  | cur, [a] => [cur ++ [a]]
  | cur, [] => if cur.isEmpty then [] else [cur]

/-- `splitByAddress` (repaired for the empty sequence, F09) -/
def splitByAddress (seq : List Ins) : List (List Ins) := splitByAddressLoop [] seq

/-- the loop of `splitByJumps` -/
def splitByJumpsLoop : List Ins → List Ins → List (List Ins)
  | cur, a :: rest =>
    if a.jumps.length > 0 then (cur ++ [a]) :: splitByJumpsLoop [] rest
    else splitByJumpsLoop (cur ++ [a]) rest
  | cur, [] => if cur.isEmpty then [] else [cur]

def splitByJumps (seq : List Ins) : List (List Ins) := splitByJumpsLoop [] seq

/-- one stage of `pipelineApply` -/
def pipelineStage (f : List Ins → List (List Ins)) (seqs : List (List Ins)) : List (List Ins) :=
  seqs.flatMap f

/-! ### `block.go` -/

structure Block where
  seq : List Ins
  length : Nat
  deriving DecidableEq, Repr, Inhabited

/-- `seqBytes`: `length += ins.End() - ins.Begin()` in `uint64` -/
def seqBytes : List Ins → Nat
  | [] => 0
  | i :: is => ((i.end_ + M - i.addr % M) % M + seqBytes is) % M

def newBlock (seq : List Ins) : Block := ⟨seq, seqBytes seq⟩

/-- `begin()`: `b.seq[0].Begin()` panics for an empty block -/
def Block.begin (b : Block) : Except Fail Nat :=
  match b.seq with
  | [] => .error .panic
  | i :: _ => .ok i.addr

/-- `last()` (F48 repair): address of the last byte, `begin() + length - 1` in `uint64` -/
def Block.last (b : Block) : Except Fail Nat := do
  let bg ← b.begin
  pure ((bg + b.length + (M - 1)) % M)

/-- `contains` (F48 repair): `addr >= b.begin() && addr <= b.last()` -/
def Block.contains (b : Block) (addr : Nat) : Except Fail Bool := do
  let bg ← b.begin
  let l ← b.last
  pure (decide (addr ≥ bg) && decide (addr ≤ l))

/-- `func(i int) bool { return b.seq[i].Begin() >= addr }` -/
def insPred (seq : List Ins) (addr i : Nat) : Except Fail Bool :=
  match seq[i]? with
  | none => .error .panic
  | some x => .ok (decide (x.addr ≥ addr))

/-- `block.split` -/
def Block.split (b : Block) (addr : Nat) : Except Fail (Block × Block) := do
  if !(← b.contains addr) then throw (.err .notContained)
  let i ← search b.seq.length (insPred b.seq addr)
  if i = b.seq.length then throw (.err .notFound)
  match b.seq[i]? with
  | none => throw .panic
  | some x =>
    if x.addr ≠ addr then throw (.err .notBoundary)
    pure (newBlock (b.seq.take i), newBlock (b.seq.drop i))

/-- the shift loop `for i := len-1; i >= lo; i-- { bs[i] = bs[i-1] }`; first argument `lo`,
second the current `i` -/
def shiftLoop (lo : Nat) : Nat → List Block → List Block
  | 0, l => l
  | i + 1, l => if i + 1 ≥ lo then shiftLoop lo i (l.set (i + 1) (l.getD i default)) else l

/-- `append(*bs, block{})`, shift, `bs[idx], bs[idx+1] = b1, b2` -/
def insertShift (bs : List Block) (idx : Nat) (b1 b2 : Block) : List Block :=
  let l := bs ++ [default]
  let l := shiftLoop (idx + 2) (l.length - 1) l
  (l.set idx b1).set (idx + 1) b2

/-- `func(i int) bool { return (*bs)[i].last() >= addr }` (`end() > addr` before the F48 repair) -/
def blockPred (bs : List Block) (addr i : Nat) : Except Fail Bool :=
  match bs[i]? with
  | none => .error .panic
  | some b => do
    let l ← b.last
    pure (decide (l ≥ addr))

/-- `blocks.split` -/
def blocksSplit (bs : List Block) (addr : Nat) : Except Fail (List Block) := do
  let idx ← search bs.length (blockPred bs addr)
  match bs[idx]? with
  | none => throw (.err .noBlock)          -- idx == len(*bs)
  | some b =>
    let bg ← b.begin
    if addr < bg then throw (.err .noBlock)
    if bg = addr then return bs
    let (b1, b2) ← b.split addr
    pure (insertShift bs idx b1 b2)

/-! ### `parse.go` -/

/-- the constant jump targets that `splitByJumpTargets` splits at: constants that fit 64 bits -/
def constTarget : Expr → Option Nat
  | .const bs => let r := Const.constUint 8 bs; if r.2 then some r.1 else none
  | _ => none

/-- inner loops of `splitByJumpTargets` over a list of jump expressions -/
def splitAtJumps : List Expr → List Block → Except Fail (List Block)
  | [], bs => .ok bs
  | e :: es, bs =>
    match constTarget e with
    | none => splitAtJumps es bs
    | some a => do
      let bs' ← blocksSplit bs a
      splitAtJumps es bs'

/-- `splitByJumpTargets`: iterates over the instructions of the ORIGINAL blocks while
splitting the copy -/
def splitByJumpTargets (orig : List Block) : Except Fail (List Block) :=
  (orig.flatMap (·.seq)).foldlM (fun bs ins => splitAtJumps ins.jumps bs) orig

def liftStage {α} (f : ErrClass → ParseFail) : Except Fail α → Except ParseFail α
  | .ok a => .ok a
  | .error .panic => .error .panic
  | .error (.err c) => .error (f c)

/-- `basicblock.Parse` -/
def parse (entry : Nat) (ins : List Ins) : Except ParseFail (List (List Ins)) := do
  let seq := sortIns ins
  let seqs := pipelineStage splitByJumps (pipelineStage splitByAddress [seq])
  let bs ← liftStage .jumpTarget (splitByJumpTargets (seqs.map newBlock))
  let bs ← liftStage .entry (blocksSplit bs entry)
  pure (bs.map (·.seq))

/-- `deps.NewCode(entry, seq)` followed by `Code.Blocks()`: the instructions of every
block.  `newBlock` of package deps reads `seq[0]`, a panic for an empty sequence. -/
def newCode (entry : Nat) (ins : List (Nat × Nat × List Effect)) :
    Except ParseFail (List (List Ins)) := do
  let seqs ← parse entry (ins.map fun (a, l, efs) => mkIns a l efs)
  if seqs.any (·.isEmpty) then throw .panic
  pure seqs

end Mltwist.BasicBlock
