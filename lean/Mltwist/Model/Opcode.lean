/-
Model of `internal/opcode` (`opcode.go`, `bytes.go`, `group.go`, `matcher.go`): opcode patterns,
mask groups and the matcher.

A pattern is a pair (bytes, mask).  What identifies a pattern in a `Matcher` is its *position*
in the list handed to `NewMatcher` (the Go code carries the caller's `Opcoder` value along; the
harness gives the i-th pattern the name `p<i>`).

Library functions are replaced by their meaning:
* `sort.Slice(s, less)`  : a stable insertion sort w.r.t. the same comparator (`sortBy`);
* `sort.Search(n, pred)` : the least index satisfying the predicate, else `n` (`searchFirst`);
  both call sites use a predicate that is monotone on the (sorted) slice.

`checkConflicts` is modelled in its *repaired* form (finding F17): every pair of patterns of two
different groups is compared on the common mask over the common prefix (`conflict`).  The pinned
Go code probes a group only with the raw bytes of the other group's patterns and thereby accepts
partially overlapping masks (`0F/01` and `F0/10`, both matched by `11`).

Explicit failure outcome `ErrClass.panic`: the Go run-time panics of `newMaskGroup` on an empty
slice (`opcs[1:]`), and the exhaustion of the fuel of the `for len(opcodes) > 0` loop of `group`.
`Lemmas/Opcode*.lean` prove it unreachable.
-/
namespace Mltwist.Opcode

/-- `Opcode`: bytes and mask -/
structure Pat where
  bytes : List UInt8
  mask : List UInt8
deriving DecidableEq, Repr

inductive ErrClass where
  | invalid      -- `Opcode.Validate` failed for some pattern
  | ambiguous    -- `duplicateOpcodeErr`
  | panic        -- unreachable (see the header)
deriving DecidableEq, Repr

/-- `Opcode.Validate` (true = `nil` error) -/
def validate (p : Pat) : Bool :=
  if p.bytes.length == 0 then false
  else if p.bytes.length != p.mask.length then false
  else if p.mask.getLastD 0 == 0 then false
  else true

/-- `applyMask`: one output byte per mask byte.  Every call site passes `bytes` at least as
long as `mask` (validated pattern, or `bytes[:len(mask)]`), so Go's index panic cannot occur;
the model stops at the shorter list. -/
def applyMask : List UInt8 → List UInt8 → List UInt8
  | b :: bs, m :: ms => (b &&& m) :: applyMask bs ms
  | _, _ => []

/-- `byteEQ` -/
def byteEQ : List UInt8 → List UInt8 → Bool
  | [], [] => true
  | a :: as, b :: bs => if a != b then false else byteEQ as bs
  | _, _ => false

/-- the loop of `byteLT` (lengths are equal there) -/
def lexLT : List UInt8 → List UInt8 → Bool
  | a :: as, b :: bs => if a < b then true else if a > b then false else lexLT as bs
  | _, _ => false

/-- `byteLT`: shorter first, then big-endian value -/
def byteLT (first second : List UInt8) : Bool :=
  if first.length < second.length then true
  else if first.length > second.length then false
  else lexLT first second

/-- the wrapper `opcode[T]`: `id` stands for the caller's `Opcoder` (position in the input) -/
structure Opc where
  id : Nat
  pat : Pat
  masked : List UInt8
deriving DecidableEq, Repr

/-- `newOpcodes`, numbering from `i` -/
def newOpcodesFrom : Nat → List Pat → List Opc
  | _, [] => []
  | i, p :: ps => { id := i, pat := p, masked := applyMask p.bytes p.mask } :: newOpcodesFrom (i + 1) ps

def newOpcodes (ps : List Pat) : List Opc := newOpcodesFrom 0 ps

/-- insertion before the first element that is not smaller (keeps equal elements in order) -/
def insertBy {α} (lt : α → α → Bool) (x : α) : List α → List α
  | [] => [x]
  | y :: ys => if lt y x then y :: insertBy lt x ys else x :: y :: ys

/-- stable insertion sort (stands for `sort.Slice`) -/
def sortBy {α} (lt : α → α → Bool) : List α → List α
  | [] => []
  | x :: xs => insertBy lt x (sortBy lt xs)

/-- least index whose element satisfies `p`, else the length (stands for `sort.Search`) -/
def searchFirst {α} (p : α → Bool) : List α → Nat
  | [] => 0
  | x :: xs => if p x then 0 else searchFirst p xs + 1

/-- `maskGroup` -/
structure Group where
  mask : List UInt8
  opcodes : List Opc
deriving DecidableEq, Repr

/-- the duplicate loop of `newMaskGroup`: `byteEQ(opcs[i].masked, opcs[i+1].masked)` for some `i` -/
def hasAdjDup : List Opc → Bool
  | a :: b :: rest => if byteEQ a.masked b.masked then true else hasAdjDup (b :: rest)
  | _ => false

/-- `newMaskGroup` -/
def newMaskGroup (opcs : List Opc) : Except ErrClass Group :=
  let sorted := sortBy (fun a b => byteLT a.masked b.masked) opcs
  match sorted with
  | [] => .error .panic            -- `opcs[1:]` of an empty slice
  | o :: _ =>
    if hasAdjDup sorted then .error .ambiguous
    else .ok { mask := o.pat.mask, opcodes := sorted }

/-- `maskGroup.matchInstruction` -/
def matchInstruction (g : Group) (bytes : List UInt8) : Option Opc :=
  if g.mask.length > bytes.length then none
  else
    let masked := applyMask (bytes.take g.mask.length) g.mask
    let idx := searchFirst (fun o => byteLT masked o.masked || byteEQ masked o.masked) g.opcodes
    match g.opcodes[idx]? with
    | none => none                 -- `idx == len(g.opcodes)`
    | some opc => if !byteEQ masked opc.masked then none else some opc

/-- F17 repair: some byte string matches both patterns iff they agree on the bits selected by
both masks over the common prefix.  Arguments: bytes₁ mask₁ bytes₂ mask₂. -/
def conflict : List UInt8 → List UInt8 → List UInt8 → List UInt8 → Bool
  | b1 :: bs1, m1 :: ms1, b2 :: bs2, m2 :: ms2 =>
    if (b1 ^^^ b2) &&& m1 &&& m2 != 0 then false else conflict bs1 ms1 bs2 ms2
  | _, _, _, _ => true

def conflictPat (p q : Pat) : Bool := conflict p.bytes p.mask q.bytes q.mask

/-- `checkConflicts` (repaired; true = `nil` error): all ordered pairs of different groups -/
def checkConflicts (groups : List Group) : Bool :=
  groups.zipIdx.all fun (gi, i) =>
    groups.zipIdx.all fun (gj, j) =>
      i == j ||
        gj.opcodes.all fun o => gi.opcodes.all fun opc => !conflictPat o.pat opc.pat

/-- the `for len(opcodes) > 0` loop of `group`; fuel = number of opcodes -/
def groupLoop : Nat → List Opc → Except ErrClass (List Group)
  | _, [] => .ok []
  | 0, _ :: _ => .error .panic
  | fuel + 1, o :: os =>
    let opcodes := o :: os
    let mask := o.pat.mask
    let end_ := searchFirst (fun x => !byteEQ x.pat.mask mask) opcodes
    match newMaskGroup (opcodes.take end_) with
    | .error e => .error e
    | .ok g =>
      match groupLoop fuel (opcodes.drop end_) with
      | .error e => .error e
      | .ok gs => .ok (g :: gs)

/-- `group` -/
def group (opcodes : List Opc) : Except ErrClass (List Group) :=
  let sorted := sortBy (fun a b => byteLT a.pat.mask b.pat.mask) opcodes
  match groupLoop sorted.length sorted with
  | .error e => .error e
  | .ok groups => if checkConflicts groups then .ok groups else .error .ambiguous

structure Matcher where
  groups : List Group
deriving DecidableEq, Repr

/-- `NewMatcher` -/
def newMatcher (ps : List Pat) : Except ErrClass Matcher :=
  if !ps.all validate then .error .invalid
  else
    match group (newOpcodes ps) with
    | .error e => .error e
    | .ok groups => .ok { groups }

/-- the loop of `Matcher.Match` -/
def matchGroups : List Group → List UInt8 → Option Nat
  | [], _ => none
  | g :: gs, bs =>
    match matchInstruction g bs with
    | some ins => some ins.id
    | none => matchGroups gs bs

/-- `Matcher.Match`: the position of the matched pattern -/
def Matcher.match (m : Matcher) (bs : List UInt8) : Option Nat := matchGroups m.groups bs

end Mltwist.Opcode
