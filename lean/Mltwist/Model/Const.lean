import Mltwist.Model.Expreval
/-
Model of the constant constructors and readers of `pkg/expr/const.go` (C27).
Go's generic integer type `T` is represented by its size in bytes; unsigned values are
`Nat` below `2^(8*size)`, signed values are `Int` in the signed range of `size` bytes.
`none` = the constructor panics.
-/
namespace Mltwist.Const

/-- `NewConst(b, w)`: a fresh `w`-byte copy of the prefix of `b`, zero padded -/
def newConst (b : List UInt8) (w : Nat) : List UInt8 := Expreval.setWidth b w

/-- `NewConstUint[T](val, w)` -/
def newConstUint (val w : Nat) : Option (List UInt8) :=
  if val / 256 ^ w > 0 then none else some (natToLE w val)

/-- the byte loop of `NewConstInt`: returns the bytes and the shifted-out remainder
(arithmetic shift = floor division) -/
def intLoop : Nat → Int → List UInt8 × Int
  | 0, v => ([], v)
  | w + 1, v =>
    let (bs, r) := intLoop w (v / 256)
    (UInt8.ofNat (v % 256).toNat :: bs, r)

/-- `NewConstInt[T](val, w)` -/
def newConstInt (val : Int) (w : Nat) : Option (List UInt8) :=
  let (bs, rest) := intLoop w val
  let top := (bs.getLast?.getD 0).toNat
  if (rest ≠ 0 || top ≥ 128) && (rest ≠ -1 || top < 128) then none else some bs

/-- `nonzeroUpperIdx` -/
def nonzeroUpperIdx (bs : List UInt8) : Nat :=
  match bs.reverse.dropWhile (· == 0) with
  | [] => 0
  | l => l.length - 1

/-- `ConstUint[T](c)` with `size = sizeof(T)` -/
def constUint (size : Nat) (bs : List UInt8) : Nat × Bool :=
  let idx := nonzeroUpperIdx bs
  if idx ≥ size then (leToNat (bs.take size), false) else (leToNat (bs.take (idx + 1)), true)

/-- `Const.WithWidth` -/
def withWidth (bs : List UInt8) (w : Nat) : List UInt8 :=
  if bs.length = w then bs else if bs.length > w then bs.take w else newConst bs w

end Mltwist.Const
