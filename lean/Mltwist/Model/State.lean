import Mltwist.Model.Overlay
import Mltwist.Model.Const
import Mltwist.Model.Transform
/-
Model of `internal/state/regs.go` (`RegMap`) and `internal/state/state.go` (`State`, `Apply`) —
property C18.

A Go map is a finite map: an association list with `assocGet`/`assocSet` (`Model/Overlay.lean`).
`exprtransform.SetWidth`, `exprtransform.ConstFold` and `expr.ConstUint` are the models of
`Model/Transform.lean` and `Model/Const.lean`.
-/
namespace Mltwist.State
open Mltwist Mltwist.Overlay

/-- `RegMap`: register key ↦ current value -/
abbrev RegMap := List (String × Expr)

/-- `NewRegMap()` -/
def RegMap.empty : RegMap := []

/-- `RegMap.Load` -/
def RegMap.load (m : RegMap) (k : String) (w : Nat) : Option Expr :=
  match assocGet k m with
  | some e => some (setWidth e w)
  | none => none

/-- `RegMap.Store` -/
def RegMap.store (m : RegMap) (k : String) (e : Expr) (w : Nat) : RegMap :=
  assocSet k (setWidth e w) m

/-- `RegMap.Len` -/
def RegMap.len (m : RegMap) : Nat := m.length

/-- `State` -/
structure State where
  regs : RegMap
  mems : MemMap
  deriving Repr, Inhabited

/-- `state.New()` -/
def State.new : State := { regs := RegMap.empty, mems := [] }

/-- `State.Apply`: the new state and the boolean result.  For a `MemStore` the address is
constant-folded; if the result is not a constant the effect is refused (`false`) and the state is
returned as it was.  Otherwise the store address is `ConstUint[model.Addr](c)`, i.e. the low 8 bytes
of the constant — the second result of `ConstUint` ("fits") is discarded by the code, so a constant
address wider than 8 bytes is silently reduced modulo `2^64`.  `error` = a panic of the memory. -/
def State.apply (s : State) : Effect → Except Fail (State × Bool)
  | .memStore value key addr w =>
    match constFold addr with
    | .const c =>
      let a := (Const.constUint 8 c).1
      match s.mems.store key a value w with
      | .ok mems' => .ok ({ s with mems := mems' }, true)
      | .error f => .error f
    | _ => .ok (s, false)
  | .regStore value key w => .ok ({ s with regs := s.regs.store key value w }, true)

end Mltwist.State
