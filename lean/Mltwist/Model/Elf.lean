/-
Model of `internal/elf/{parser.go,memory.go,block.go}` (C20).

`debug/elf`, the file system and the allocator are OUTSIDE the model.  The model starts from an
`ElfView`: what `debug/elf` hands to the code for one file — the file type, the entry point, for
every section its type, flags, address, size and the result of `Data()` (bytes or an error), for
every program header its type, virtual address, file size, memory size and the bytes obtained by
`io.ReadAll(p.Open())` (or an error).  `Section.Size` is a mutable field that `Data()` itself may
rewrite (`.zdebug` sections with a `ZLIB` header), therefore the view records it twice: as
`skipMachineCodeSection` sees it (before `Data()`) and as the length check sees it (after).

`model.Addr` is `uint64`: `Block.End()` is taken modulo `2^64` exactly where Go wraps.

Library stand-ins (trusted base): `sort.Slice` = stable insertion sort on `Begin()` (exact for at
most 12 blocks and for pairwise distinct begins); `sort.Search` is followed literally (binary search
on fuel `n`, which always suffices).

Failure points.  Errors returned by the code are `Err.type … Err.wrap`.  Go panics are explicit:
`Err.panic` = index or slice bounds out of range; `Err.alloc` = the zero fill of `Memory()` asks the
allocator for more than `lim` bytes, where `lim` (a parameter of the model) is the largest request
the allocator satisfies: the Go runtime then panics (`makeslice`/`growslice: len out of range`) or the
process is killed (`fatal error: out of memory`) — finding F19, not repaired.

REPAIR F60: the pinned `newMemory` accepts a block whose exclusive end `Begin()+Len()` is not
representable (the block ends exactly at `2^64`, where `End()` is 0, or beyond).  Such a block can
never be looked up, hides overlaps from the overlap test and is silently skipped by `parser.Parse`.
The model follows the repaired `newMemory`, which rejects it (`Err.wrap`).
-/
namespace Mltwist.Elf

/-- `model.Addr` is `uint64` -/
def M : Nat := 2 ^ 64

/-- `elf.ET_EXEC` -/
def etExec : Nat := 2
/-- `elf.SHT_PROGBITS` -/
def shtProgbits : Nat := 1
/-- `elf.SHF_EXECINSTR` -/
def shfExecinstr : Nat := 4
/-- `elf.PT_LOAD` -/
def ptLoad : Nat := 1

/-- one `*elf.Section` as the code uses it -/
structure Section where
  typ : Nat
  flags : Nat
  addr : Nat
  /-- `s.Size` when `skipMachineCodeSection` reads it -/
  size : Nat
  /-- `s.Size` after `s.Data()` returned -/
  sizeAfter : Nat
  /-- result of `s.Data()`; `none` = error -/
  data : Option (List UInt8)
  deriving DecidableEq, Repr

/-- one `*elf.Prog` as the code uses it -/
structure Prog where
  typ : Nat
  vaddr : Nat
  filesz : Nat
  memsz : Nat
  /-- result of `io.ReadAll(p.Open())`; `none` = error -/
  data : Option (List UInt8)
  deriving DecidableEq, Repr

/-- what `debug/elf` hands to the code for a file that `elf.Open` accepts -/
structure View where
  typ : Nat
  entry : Nat
  sections : List Section
  progs : List Prog
  deriving DecidableEq, Repr

inductive Err where
  | open      -- "cannot open file": `elf.Open` failed (no view)
  | type      -- "is not an executable ELF file"
  | read      -- "cannot read section" / "cannot read program section"
  | size      -- "size of ELF section and read bytes differ"
  | memsz     -- "program section in memory less then in file"
  | empty     -- "no non-empty memory blocks found"
  | overlap   -- "memory creation failed: blocks … overlap"
  | wrap      -- "memory creation failed: block … exceeds the address space" (F60 repair)
  | panic     -- Go run-time panic: index / slice bounds out of range
  | alloc     -- allocation of more than `lim` bytes: panic or out-of-memory kill (F19)
  deriving DecidableEq, Repr, Inhabited

instance decEqResult {α : Type} [DecidableEq α] : DecidableEq (Except Err α)
  | .ok a, .ok b => if h : a = b then isTrue (by rw [h]) else isFalse (fun e => by cases e; exact h rfl)
  | .error a, .error b =>
    if h : a = b then isTrue (by rw [h]) else isFalse (fun e => by cases e; exact h rfl)
  | .ok _, .error _ => isFalse (fun e => by cases e)
  | .error _, .ok _ => isFalse (fun e => by cases e)

/-! ### `block.go` -/

/-- `Block{begin, bytes}` -/
abbrev Block := Nat × List UInt8

/-- `Block.End()`: `b.Begin() + model.Addr(b.Len())` in `uint64` -/
def bend (b : Block) : Nat := (b.1 + b.2.length) % M

/-- `Block.Address(a)`; `b.bytes[a-b.Begin():]` panics when the index exceeds the length -/
def blockAddress (b : Block) (a : Nat) : Except Err (Option (List UInt8)) :=
  if a < b.1 ∨ a ≥ bend b then .ok none
  else if a - b.1 > b.2.length then .error .panic
  else .ok (some (b.2.drop (a - b.1)))

/-- `joinBlocks` (unused by the loader); the documented panic for non-adjacent blocks -/
def joinBlocks (b1 b2 : Block) : Except Err Block :=
  if bend b1 ≠ b2.1 then .error .panic else .ok (b1.1, b1.2 ++ b2.2)

/-! ### `memory.go` -/

/-- insertion into a list sorted by `Begin()`, after all elements with an equal begin -/
def insertByBegin (x : Block) : List Block → List Block
  | [] => [x]
  | y :: ys => if x.1 < y.1 then x :: y :: ys else y :: insertByBegin x ys

/-- stable sort by `Begin()` (stands for `sort.Slice`) -/
def sortByBegin (l : List Block) : List Block := l.foldl (fun acc x => insertByBegin x acc) []

/-- F60 repair: the exclusive end of the block is not representable -/
def wraps (b : Block) : Bool := decide (bend b < b.1)

/-- the loop `for i := range bs[1:] { if bs[i+1].Begin() < bs[i].End() { return error } }` -/
def overlapLoop : List Block → Bool
  | a :: b :: rest => if b.1 < bend a then true else overlapLoop (b :: rest)
  | _ => false

/-- `newMemory`; the result is `Memory.Blocks` -/
def newMemory (bs : List Block) : Except Err (List Block) :=
  if bs.isEmpty then .ok []
  else if bs.any wraps then .error .wrap
  else
    let s := sortByBegin bs
    if overlapLoop s then .error .overlap else .ok s

/-- the loop of `sort.Search`: `for i < j { h := (i+j)/2; if !f(h) { i = h+1 } else { j = h } }`;
the predicate indexes a slice, `none` = index out of range -/
def searchLoop (f : Nat → Option Bool) : Nat → Nat → Nat → Option Nat
  | 0, i, _ => some i
  | fuel + 1, i, j =>
    if i < j then
      let h := (i + j) / 2
      match f h with
      | none => none
      | some false => searchLoop f fuel (h + 1) j
      | some true => searchLoop f fuel i h
    else some i

/-- `sort.Search(n, f)` -/
def search (n : Nat) (f : Nat → Option Bool) : Option Nat := searchLoop f n 0 n

/-- `Memory.Address(addr)`; `.ok none` is the `nil` answer -/
def address (bs : List Block) (addr : Nat) : Except Err (Option (List UInt8)) :=
  match search bs.length (fun i => bs[i]?.map fun b => decide (bend b > addr)) with
  | none => .error .panic
  | some idx =>
    match bs[idx]? with
    | none => .ok none                                  -- idx == len(m.Blocks)
    | some b => if b.1 > addr then .ok none else blockAddress b addr

/-! ### `parser.go` -/

/-- `NewParser` after `elf.Open` succeeded: `f.Type&elf.ET_EXEC == 0` is an error -/
def newParser (v : View) : Except Err Unit :=
  if v.typ &&& etExec = 0 then .error .type else .ok ()

/-- `skipMachineCodeSection` -/
def skipMachineCodeSection (s : Section) : Bool :=
  if s.typ ≠ shtProgbits ∨ s.size = 0 then true
  else if s.addr = 0 then true
  else if s.flags &&& shfExecinstr = 0 then true
  else false

/-- the loop of `MachineCode` -/
def codeBlocks : List Section → Except Err (List Block)
  | [] => .ok []
  | s :: ss =>
    if skipMachineCodeSection s then codeBlocks ss
    else match s.data with
      | none => .error .read
      | some d =>
        if d.length ≠ s.sizeAfter then .error .size
        else match codeBlocks ss with
          | .error e => .error e
          | .ok r => .ok ((s.addr, d) :: r)

/-- `nonEmptyMemory` -/
def nonEmptyMemory (bs : List Block) : Except Err (List Block) :=
  if bs.length = 0 then .error .empty else newMemory bs

/-- `Parser.MachineCode` -/
def machineCode (v : View) : Except Err (List Block) :=
  match codeBlocks v.sections with
  | .error e => .error e
  | .ok bs => nonEmptyMemory bs

/-- `p.Memsz - uint64(len(data))` in `uint64` -/
def missingOf (memsz len : Nat) : Nat := (memsz % M + M - len % M) % M

/-- the loop of `Memory`; `lim` = largest allocation the allocator grants -/
def memBlocks (lim : Nat) : List Prog → Except Err (List Block)
  | [] => .ok []
  | p :: ps =>
    if p.typ ≠ ptLoad then memBlocks lim ps
    else if p.memsz < p.filesz then .error .memsz
    else match p.data with
      | none => .error .read
      | some d =>
        let missing := missingOf p.memsz d.length
        if missing > lim then .error .alloc
        else match memBlocks lim ps with
          | .error e => .error e
          | .ok r => .ok ((p.vaddr, if missing > 0 then d ++ List.replicate missing 0 else d) :: r)

/-- `Parser.Memory` -/
def memory (lim : Nat) (v : View) : Except Err (List Block) :=
  match memBlocks lim v.progs with
  | .error e => .error e
  | .ok bs => nonEmptyMemory bs

/-- `Parser.Entrypoint` -/
def entrypoint (v : View) : Nat := v.entry

/-- everything the loader extracts from a file -/
structure Loaded where
  entry : Nat
  code : Except Err (List Block)
  mem : Except Err (List Block)

/-- `NewParser` + `Entrypoint`, `MachineCode`, `Memory` on an optional view (`none`: `elf.Open` failed) -/
def load (lim : Nat) (v : Option View) : Except Err Loaded :=
  match v with
  | none => .error .open
  | some v =>
    match newParser v with
    | .error e => .error e
    | .ok () => .ok ⟨entrypoint v, machineCode v, memory lim v⟩

end Mltwist.Elf
