import Mltwist.Generated.Riscv32
import Mltwist.Generated.Riscv64
import Mltwist.Model.Opcode
/-
`instructionSet` (`parser.go`) over the regenerated tables, and the faithful model of
`NewParser`/`Parser.Parse` that goes through the opcode matcher (C19) like the Go code does.
-/
namespace Mltwist.Riscv
open Mltwist

/-- `instructionSet(v, exts)`; `xlen` = 32 or 64, extensions in the order M, A -/
def instructionSet (xlen : Nat) (m a : Bool) : List Entry :=
  (if xlen = 32 then Gen.integer32 else Gen.integer64) ++
  (if m then (if xlen = 32 then Gen.mul32 else Gen.mul64) else []) ++
  (if a then (if xlen = 32 then Gen.atomic32 else Gen.atomic64) else [])

def patsOf (tbl : List Entry) : List Opcode.Pat := tbl.map fun e => ⟨e.bytes, e.mask⟩

/-- `NewParser` + `Parse` literally: build the matcher (a failure is the `bug: matcher creation
failed` panic, here `none`), match, take the matched entry. -/
def parseM (tbl : List Entry) (addr : Nat) (bs : List UInt8) : Option ParseResult :=
  match Opcode.newMatcher (patsOf tbl) with
  | .error _ => none
  | .ok M =>
    if bs.length < 4 then some .short
    else match M.match bs with
      | none => some .unknown
      | some idx => match tbl[idx]? with
        | some e => some (.ok e ⟨addr, wordOf bs⟩)
        | none => none

/-- the pattern of an entry as a 32-bit (mask, match) pair (patterns have at most 4 bytes) -/
def Entry.wordMask (e : Entry) : Nat := leToNat (e.mask ++ List.replicate (4 - e.mask.length) 0)
def Entry.wordMatch (e : Entry) : Nat :=
  leToNat (List.zipWith (· &&& ·) e.bytes e.mask ++ List.replicate (4 - e.mask.length) 0)

/-- the 32-bit word `w` matches the entry's pattern -/
def Entry.matchesWord (e : Entry) (w : Nat) : Bool := w &&& e.wordMask == e.wordMatch

end Mltwist.Riscv
