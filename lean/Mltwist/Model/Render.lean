/-
Model of the screen rendering of the console UI (property C24), following the Go code line by line:

  internal/consoleui/internal/view/{view.go,composite.go,screen.go}
  internal/consoleui/internal/lines/view.go       (listing view: MinLines/MaxLines/Print)
  internal/consoleui/internal/memview/view.go     (memory view:  MinLines/MaxLines/Print)
  internal/consoleui/emulate/reg_view.go          (register view)
  internal/consoleui/prompt.go                    (command prompt)

What is observed of a `Print(n)` call is the text written to stdout, reduced to what the height
accounting needs (`Out`): the number of `\n` bytes and whether the text ends with an unterminated row.
Every row the views write is `fmt.Printf` of a format ending in `\n` whose arguments contain no `\n`
(indices, marks, instruction texts, hex bytes, register names) — that is the abstraction step, named
in the trusted base and observed by the harness on every case.

Go `int` is `Int` (no overflow anywhere near the sizes involved); heights handed to the leaf views are
`Nat` (the composite only hands out grants `≥ 0`, `screen.go` only non-negative heights).

Go panics the property forbids are the explicit status `panic` (index out of range in `Lines.Index`).
`outOfFuel` is an artefact of the fuel of `distLoop`, proved unreachable (`Lemmas.Render`).

The model follows the tree *after* the two repairs that C24 required (`fix:` commits):

  F24   listing `Print`: the window `[begin, begin+n)` was not clamped to the number of lines
        → `Lines.Index` panicked.  Repair: clamp `end` to `Len()` and move `begin` back to `end − n`.
  F25   register view: `lines()` does not count the instruction pointer register but `Print` printed it.
        Repair: `Print` skips the instruction pointer register.

`linesPrintPinned` and `regPrint false` keep the behaviour before these repairs (for the theorems that
characterise the two defects).

Two more peculiarities of the code are modelled *as they are* and recorded as observations, not as
violations of C24 (they do not make the property false for the views the tool builds):

  O-F24b  listing `MinLines` is the constant 5 even if the listing has fewer lines (`MaxLines < MinLines`).
  O-F26   `distributeLines` never decrements `remLines`: with two elements that can grow the grants
          exceed the height.  The composites of the tool have one such element at most.
          `distLoop true`, `compositeDec` model the variant with `remLines--` (obs_F26.patch, not applied).
-/
namespace Mltwist.Render

/-! ## Output, status -/

/-- What a `Print` call wrote: `nl` = number of `\n` bytes, `op` = the output is non-empty and does not
end with `\n` (an unterminated last row: the cursor stays in it). -/
structure Out where
  nl : Nat
  op : Bool
deriving DecidableEq, Repr

namespace Out
/-- nothing written -/
def none : Out := ⟨0, false⟩
/-- one row: text without `\n` followed by `\n` (also the bare separator `\n`) -/
def row : Out := ⟨1, false⟩
/-- non-empty text without any `\n` -/
def text : Out := ⟨0, true⟩
/-- concatenation of outputs -/
def app (a b : Out) : Out := ⟨a.nl + b.nl, if b.nl = 0 then (a.op || b.op) else b.op⟩
end Out

inductive Status where
  | ok          -- `Print` returned nil
  | err         -- `Print` returned an error
  | panic       -- `Print` panicked
  | outOfFuel   -- artefact of the model, unreachable
deriving DecidableEq, Repr

/-- Result of a `Print` call: how it ended and what had been written until then. -/
structure Res where
  status : Status
  out : Out
deriving DecidableEq, Repr

/-- `view.View`: `MinLines()`, `MaxLines()` (negative = unbounded), `Print(n)`. -/
structure View where
  minLines : Int
  maxLines : Int
  print : Nat → Res

/-! ## The golden-ratio cut  `int(math.Floor(float64(n)/(math.Phi+1)))`

`math.Phi+1 = φ² = (3+√5)/2`.  For a natural `n` the real number `n/φ²` is irrational (or `0`), and
`k ≤ n/φ²  ⟺  k·(3+√5) ≤ 2n  ⟺  3k ≤ 2n ∧ 5k² ≤ (2n−3k)²  ⟺  3k ≤ 2n ∧ 3nk ≤ k² + n²`.
`phiCut n` is the largest such `k`, i.e. `⌊n/φ²⌋ = ⌊n·(3−√5)/2⌋`.  That the float64 computation of the
Go code yields this integer is validated by the harness (`phisweep`: every `n` in `0 … 100000`, `phicut`:
random `n` up to `10^6`), not proved: it is named in the trusted base. -/

/-- `k ≤ n/φ²` in integer arithmetic -/
def phiOK (n k : Nat) : Bool := decide (3 * k ≤ 2 * n) && decide (3 * n * k ≤ k * k + n * n)

/-- the largest `k ≤ bound` with `phiOK n k` (`0` satisfies it) -/
def phiCutFrom (n : Nat) : Nat → Nat
  | 0 => 0
  | k + 1 => if phiOK n (k + 1) then k + 1 else phiCutFrom n k

def phiCut (n : Nat) : Nat := phiCutFrom n n

/-! ## Rows of the listing and of the memory view -/

/-- `for i := begin; i < end; i++ { print row i }` with trip count `k`, loop variable `i` and the rows
of a view of `size` rows: reading row `i ≥ size` is the Go index-out-of-range panic. -/
def rowsLoop (size : Nat) : Nat → Nat → Out → Res
  | 0, _, acc => ⟨.ok, acc⟩
  | k + 1, i, acc => if i < size then rowsLoop size k (i + 1) (acc.app .row) else ⟨.panic, acc⟩

/-- `lines.View.Print` before the repair of F24.  State: `L = Lines.Len()`, `c = Cursor.Value()`.
```go
begin := offset - int(math.Floor(float64(n)/(math.Phi+1)))
if begin < 0 { begin = 0 }          -- truncated subtraction
end := begin + n
for i := begin; i < end; i++ { fmt.Print(v.Format(i)) }   -- Format calls Lines.Index(i)
``` -/
def linesPrintPinned (L c n : Nat) : Res :=
  let begin := c - phiCut n
  let end_ := begin + n
  rowsLoop L (end_ - begin) begin .none

/-- `lines.View.Print` (with the repair of F24):
```go
end := begin + n
if l := v.Lines.Len(); end > l {
    end = l
    begin = end - n
    if begin < 0 { begin = 0 }
}
``` -/
def linesPrint (L c n : Nat) : Res :=
  let begin := c - phiCut n
  let end_ := begin + n
  let be : Nat × Nat := if end_ > L then (L - n, L) else (begin, end_)
  rowsLoop L (be.2 - be.1) be.1 .none

/-- first row of the window of the repaired listing `Print` (reported by the harness) -/
def linesBegin (L c n : Nat) : Nat :=
  let begin := c - phiCut n
  if begin + n > L then L - n else begin

/-- the listing view before the repair of F24 -/
def linesViewPinned (L c : Nat) : View := ⟨5, L, linesPrintPinned L c⟩

/-- `lines.View`: `MinLines() = 5` (a constant, also for a listing of fewer lines: observation O-F24b),
`MaxLines() = Lines.Len()`. -/
def linesView (L c : Nat) : View := ⟨5, L, linesPrint L c⟩

/-- `memoryView.Print`.  State: `R = len(v.lines)`, cursor `c` (there is no cursor iff `R = 0`).
```go
if v.c == nil { fmt.Printf("\n\n"); fmt.Printf("\tNO MEMORY TO SHOW\n"); fmt.Printf("\n\n"); return nil }
begin := cursorIndex - int(math.Floor(float64(n)/(math.Phi+1)))
if begin < 0 { begin = 0 }
end := begin + n
if end > len(v.lines) { end = len(v.lines) }
for i := begin; i < end; i++ { ... v.lines[i] ... one Printf ending in "\n" }
``` -/
def memPrint (R c n : Nat) : Res :=
  if R = 0 then ⟨.ok, ⟨5, false⟩⟩
  else
    let begin := c - phiCut n
    let end_ := if begin + n > R then R else begin + n
    rowsLoop R (end_ - begin) begin .none

def memBegin (c n : Nat) : Nat := c - phiCut n

def memView (R c : Nat) : View := ⟨5, -1, memPrint R c⟩

/-! ## Register view -/

/-- A register of the register file: its key and the width (bytes) of its constant value.
The register file is a Go map; the model takes it as the list of its entries sorted by key
(`regKeys`: `sort.Slice` by `<` on the keys), keys distinct. -/
structure Reg where
  key : String
  width : Nat
deriving DecidableEq, Repr

/-- `expr.IPKey` -/
def ipKey : String := "#r:w:ip"

/-- `regView.lines()`: `regCnt := Regs.Len(); if IP present { regCnt-- }; lines := regCnt/2; if regCnt%2 > 0 { lines++ }` -/
def regLines (regs : List Reg) : Nat :=
  let regCnt := regs.length
  let regCnt := if regs.any (·.key == ipKey) then regCnt - 1 else regCnt
  let lines := regCnt / 2
  if regCnt % 2 > 0 then lines + 1 else lines

/-- `len(fmt.Sprintf("%s: 0x%x", k, bs))` with `len(bs) = width` -/
def regText (r : Reg) : Nat := r.key.utf8ByteSize + 4 + 2 * r.width

/-- `printLine`: `rem := 80 - 2*maxWidth; spaces := rem / 3; if spaces < 1 { error }`, otherwise one row.
(`Int.tdiv` is Go's truncated division.) -/
def regPrintLine (row : List Reg) : Res :=
  let maxWidth := row.foldl (fun m r => if m < regText r then regText r else m) 0
  let rem : Int := 80 - 2 * (maxWidth : Int)
  let spaces := rem.tdiv 3
  if spaces < 1 then ⟨.err, .none⟩ else ⟨.ok, .row⟩

/-- the loop of `regView.Print`: two keys per row, stops at the first row that does not fit -/
def regLoop : List Reg → Out → Res
  | [], acc => ⟨.ok, acc⟩
  | [a], acc =>
    match (regPrintLine [a]).status with
    | .ok => ⟨.ok, acc.app .row⟩
    | s => ⟨s, acc⟩
  | a :: b :: rest, acc =>
    match (regPrintLine [a, b]).status with
    | .ok => regLoop rest (acc.app .row)
    | s => ⟨s, acc⟩

/-- `regView.Print`: before the repair of F25 (`skipIP = false`) it printed every register, now it leaves out the
instruction pointer register which `lines()` does not count (F25).  The height `n` is ignored. -/
def regPrint (skipIP : Bool) (regs : List Reg) (_n : Nat) : Res :=
  regLoop (if skipIP then regs.filter (fun r => !(r.key == ipKey)) else regs) .none

def regViewPinned (regs : List Reg) : View := ⟨regLines regs, regLines regs, regPrint false regs⟩
def regView (regs : List Reg) : View := ⟨regLines regs, regLines regs, regPrint true regs⟩

/-! ## Command prompt -/

/-- `commandPrompt`: `MinLines = MaxLines = 2`, `Print` writes `"Enter command: "` without newline. -/
def promptView : View := ⟨2, 2, fun _ => ⟨.ok, .text⟩⟩

/-! ## Composite -/

def sumInts : List Int → Int
  | [] => 0
  | x :: xs => x + sumInts xs

/-- `elementSpaces`: `len(v.elements) - 1` -/
def elementSpaces (els : List View) : Int := (els.length : Int) - 1

/-- `Composite.MinLines`: the sum of the `MinLines()` of the elements (as they are, not clamped)
plus the separators. -/
def compMinLines (els : List View) : Int := sumInts (els.map (·.minLines)) + elementSpaces els

/-- the loop of `Composite.MaxLines`: `m := p.MaxLines(); if m < 0 { return -1 }; h += m` -/
def compMaxLoop (spaces : Int) : List View → Int → Int
  | [], h => h + spaces
  | p :: ps, h => if p.maxLines < 0 then -1 else compMaxLoop spaces ps (h + p.maxLines)

def compMaxLines (els : List View) : Int := compMaxLoop (elementSpaces els) els 0

/-- `mins()`: `MinLines()` of every element, negative values replaced by `0`.
Go maps with the keys `0 … len−1` are lists. -/
def mins (els : List View) : List Int := els.map fun e => if e.minLines < 0 then 0 else e.minLines

/-- one entry of `diffLinesMax` -/
def diffOf (min max maxDiff : Int) : Int :=
  if max ≥ 0 ∧ max < min then 0
  else
    let diff := max - min
    if max < 0 ∨ diff > maxDiff then maxDiff else diff

/-- `diffLinesMax(mins, maxDiff)` -/
def diffLinesMax : List View → List Int → Int → List Int
  | [], _, _ => []
  | e :: es, ms, maxDiff => diffOf (ms.headD 0) e.maxLines maxDiff :: diffLinesMax es ms.tail maxDiff

/-- `countPositive` -/
def countPositive : List Int → Int
  | [] => 0
  | v :: vs => (if v > 0 then 1 else 0) + countPositive vs

/-- state of the loop of `distributeLines` -/
structure LoopSt where
  i : Nat
  remLines : Int
  positiveDiffs : Int
  diffs : List Int
  lineCnts : List Int
deriving DecidableEq, Repr

/-- The loop of `distributeLines`, `len = len(v.elements)`:
```go
for i := 0; remLines > 0 && positiveDiffs > 0; i = (i + 1) % len(v.elements) {
    if diffs[i] <= 0 { continue }
    lineCnts[i]++
    diffs[i]--
    remLines--            // NOT in the code: only in the variant dec = true (observation O-F26)
    if diffs[i] == 0 { positiveDiffs-- }
}
```
(`continue` executes the post statement.  `% len` cannot divide by zero: the body is only entered with
`positiveDiffs > 0`, which needs an element.)  `none` = the fuel ran out. -/
def distLoop (dec : Bool) (len : Nat) : Nat → LoopSt → Option LoopSt
  | 0, _ => none
  | fuel + 1, st =>
    if st.remLines > 0 ∧ st.positiveDiffs > 0 then
      let next := (st.i + 1) % len
      let d := st.diffs.getD st.i 0
      if d ≤ 0 then distLoop dec len fuel { st with i := next }
      else
        distLoop dec len fuel
          { i := next
            remLines := if dec then st.remLines - 1 else st.remLines
            positiveDiffs := if d - 1 = 0 then st.positiveDiffs - 1 else st.positiveDiffs
            diffs := st.diffs.set st.i (d - 1)
            lineCnts := st.lineCnts.set st.i (st.lineCnts.getD st.i 0 + 1) }
    else some st

/-- the sum of the positive entries -/
def posSum : List Int → Nat
  | [] => 0
  | v :: vs => v.toNat + posSum vs

/-- fuel for `distLoop`: enough for every input (`Lemmas.Render.distributeLines_isSome`) -/
def distFuel (len : Nat) (diffs : List Int) : Nat := (posSum diffs + 1) * (2 * len + 1) + 1

/-- `distributeLines(remLines)`: the grants (`lineCnts`) in element order. -/
def distributeLines (dec : Bool) (els : List View) (remLines : Int) : Option (List Int) :=
  let ms := mins els
  let diffs := diffLinesMax els ms remLines
  let st : LoopSt := { i := 0, remLines := remLines, positiveDiffs := countPositive diffs,
                       diffs := diffs, lineCnts := ms }
  (distLoop dec els.length (distFuel els.length diffs) st).map (·.lineCnts)

/-- the loop of `Composite.Print` over the elements: a `\n` between two elements, the first error ends
the loop; a panic of an element propagates. -/
def printEls : List View → List Int → Bool → Out → Res
  | [], _, _, acc => ⟨.ok, acc⟩
  | e :: es, gs, first, acc =>
    let acc := if first then acc else acc.app .row
    let r := e.print (gs.headD 0).toNat
    match r.status with
    | .ok => printEls es gs.tail false (acc.app r.out)
    | s => ⟨s, acc.app r.out⟩

/-- `Composite.Print(lines)` -/
def compPrint (dec : Bool) (els : List View) (lines : Int) : Res :=
  let remainingLines := lines - compMinLines els
  if remainingLines < 0 then ⟨.err, .none⟩
  else
    match distributeLines dec els remainingLines with
    | none => ⟨.outOfFuel, .none⟩
    | some lineCnts => printEls els lineCnts true .none

/-- `view.NewComposite(elements...)` -/
def composite (els : List View) : View :=
  ⟨compMinLines els, compMaxLines els, fun n => compPrint false els n⟩

/-- the composite with `remLines--` in `distributeLines` (observation O-F26; not the code of the tool) -/
def compositeDec (els : List View) : View :=
  ⟨compMinLines els, compMaxLines els, fun n => compPrint true els n⟩

/-! ## The composites the tool builds -/

/-- `view.NewComposite(lineView, regView)` of `emulate.New` -/
def emuView (L c : Nat) (regs : List Reg) : View := composite [linesView L c, regView regs]
def emuViewDec (L c : Nat) (regs : List Reg) : View := compositeDec [linesView L c, regView regs]

/-- `view.NewComposite(c.mode().mode.View(), commandPrompt{})` of `UI.Run` -/
def uiScreen (modeView : View) : View := composite [modeView, promptView]
def uiScreenDec (modeView : View) : View := compositeDec [modeView, promptView]

/-! ## screen.go

`view.Print(e)` asks the terminal for its height (`terminal.GetSize(0)`), which is outside the model:
the height `screenLines` is a parameter.  Read off the code, not reachable by the harness:
```go
minLines := e.MinLines()
if screenLines < minLines { fmt.Printf("screen height is not sufficient: ..."); return nil }
lines := e.MaxLines()
if lines < 0 || lines > screenLines { lines = screenLines }
err = e.Print(lines)
``` -/
def screenHeight (e : View) (screenLines : Int) : Option Int :=
  if screenLines < e.minLines then none
  else
    let lines := e.maxLines
    some (if lines < 0 ∨ lines > screenLines then screenLines else lines)

/-- Rows of the screen a finished output occupies: its `\n`s, and if it ends with an unterminated row
(the prompt) that row and the row the cursor reaches when the user ends the input line with Enter.
This is the accounting behind `commandPrompt.MinLines = 2` although `Print` writes no `\n`. -/
def Out.used (o : Out) : Nat := o.nl + (if o.op then 2 else 0)

end Mltwist.Render
