import Mltwist.Model.Elf
import Mltwist.Model.Transform
import Mltwist.Model.RiscvTables
/-
Model of `internal/parser/{parser.go,instruction.go}` (C21), generic over the platform decoder
(`parser.Parser`), and its instance for the RISC-V front end that `cmd/mltwist` uses
(`riscv.NewParser(Variant64, ExtM, ExtA)`).

`Parse(m, p)`: for every block of `m.Blocks`, `for addr := block.Begin(); addr < block.End(); { … ;
addr += ins.Len() }` with `parseIns` = `block.Address(addr)`, `p.Parse(addr, b)`, `ins.Validate()`,
`newInstruction` (`Bytes = bytes[:ins.ByteLen]`, `Effects = EffectsApply(ins.Effects, ConstFold)`).
`model.Addr` is `uint64`; `End()` and `addr += …` wrap exactly where Go does.

The loop runs on fuel = length of the block; `Lemmas/Parse` proves that the fuel always suffices for
the blocks of a memory (every accepted instruction is at least one byte long), so `Fail.fuel` is a
pure model artefact.  Explicit failure points: `Fail.panic` (index/slice bounds in
`Block.Address`), `Fail.slice` (`bytes[:ByteLen]` with `ByteLen` beyond the visible bytes: a bounds
panic, or — when the backing array happens to be larger — bytes from outside the block; a decoder
that honours the contract of `parser.Parser` never asks for it).
-/
namespace Mltwist.Parse
open Mltwist Mltwist.Elf

/-- `model.TypeMax` -/
def typeMax : Nat := 8

/-- `model.Instruction` as a platform decoder returns it; `none` stands for a `nil` effect /
`nil` details -/
structure RawIns (δ : Type) where
  typ : Nat
  byteLen : Nat
  effects : List (Option Effect)
  details : Option δ

/-- `parser.Instruction` -/
structure Ins (δ : Type) where
  typ : Nat
  addr : Nat
  bytes : List UInt8
  effects : List Effect
  details : δ

/-- a platform decoder: `Parser.Parse(addr, b)`, error class `ε` -/
abbrev Decoder (ε δ : Type) := Nat → List UInt8 → Except ε (RawIns δ)

inductive Fail (ε : Type) where
  | parse (addr : Nat) (e : ε)     -- "cannot parse instruction at address …: parsing error: …"
  | invalid (addr : Nat)           -- "… invalid instruction model produced"
  | panic
  | slice
  | fuel
  deriving DecidableEq, Repr

/-- `Instruction.Validate` succeeds -/
def validate {δ : Type} (r : RawIns δ) : Bool :=
  decide (r.typ < typeMax) && decide (r.byteLen ≠ 0) && r.effects.all (·.isSome) && r.details.isSome

/-- `newInstruction` for a validated instruction -/
def newInstruction {δ : Type} (r : RawIns δ) (d : δ) (addr : Nat) (bytes : List UInt8) : Ins δ :=
  { typ := r.typ, addr := addr, bytes := bytes.take r.byteLen,
    effects := (r.effects.filterMap id).map (Effect.apply constFold), details := d }

/-- `parseIns` -/
def parseIns {ε δ : Type} (dec : Decoder ε δ) (b : Block) (addr : Nat) : Except (Fail ε) (Ins δ) :=
  match blockAddress b addr with
  | .error _ => .error .panic
  | .ok ob =>
    let bytes := ob.getD []                 -- a nil slice has no bytes
    match dec addr bytes with
    | .error e => .error (.parse addr e)
    | .ok r =>
      if !validate r then .error (.invalid addr)
      else match r.details with
        | none => .error (.invalid addr)
        | some d =>
          if r.byteLen > bytes.length then .error .slice
          else .ok (newInstruction r d addr bytes)

/-- the inner loop of `Parse` over one block, from `addr` -/
def parseLoop {ε δ : Type} (dec : Decoder ε δ) (b : Block) : Nat → Nat → Except (Fail ε) (List (Ins δ))
  | 0, addr => if addr < bend b then .error .fuel else .ok []
  | fuel + 1, addr =>
    if addr < bend b then
      match parseIns dec b addr with
      | .error e => .error e
      | .ok ins =>
        match parseLoop dec b fuel ((addr + ins.bytes.length) % M) with
        | .error e => .error e
        | .ok rest => .ok (ins :: rest)
    else .ok []

/-- `Parse(m, p)` on `m.Blocks` -/
def parse {ε δ : Type} (dec : Decoder ε δ) : List Block → Except (Fail ε) (List (Ins δ))
  | [] => .ok []
  | b :: bs =>
    match parseLoop dec b b.2.length b.1 with
    | .error e => .error e
    | .ok is =>
      match parse dec bs with
      | .error e => .error e
      | .ok rest => .ok (is ++ rest)

/-! ### the RISC-V instance -/

inductive RvErr where
  | short      -- "bytes are too short to be a RISCV instruction opcode"
  | unknown    -- "unknown instruction opcode"
  deriving DecidableEq, Repr

/-- `riscv.Parser.Parse` as a `parser.Parser`: `ByteLen = 4`, `Effects = validEffects`,
`Details` = the instruction -/
def rvDecoder (tbl : List Riscv.Entry) : Decoder RvErr (Riscv.Entry × Riscv.Ins) := fun addr bs =>
  match Riscv.parse tbl addr bs with
  | .short => .error .short
  | .unknown => .error .unknown
  | .ok e i => .ok ⟨e.typ, 4, (e.validEffects i).map some, some (e, i)⟩

/-- the table of `riscv.NewParser(riscv.Variant64, riscv.ExtM, riscv.ExtA)` -/
def rv64Table : List Riscv.Entry := Riscv.instructionSet 64 true true

/-- `parser.Parse(code, riscv.NewParser(Variant64, ExtM, ExtA))` -/
def parseRv64 : List Block → Except (Fail RvErr) (List (Ins (Riscv.Entry × Riscv.Ins))) :=
  parse (rvDecoder rv64Table)

end Mltwist.Parse
