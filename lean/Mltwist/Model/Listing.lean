/-
Model of the disassembler mode of the console UI as far as the listing (C23) and the
navigation commands (C31) are concerned:

* `internal/consoleui/internal/lines/{line.go,lines.go,marks.go}`: `newLines`, `blockToLines`,
  `newBlockLine`, `newInstrLine`, `byteStr`, `SetMark`, `UnmarkAll`, `Reload`, `reloadRange`,
  `Lines.Move`, `Lines.Block`, `Lines.Line`;
* `internal/consoleui/internal/cursor/cursor.go`: `Set`/`checkOffset`;
* `internal/consoleui/disassemble/commands.go`: the actions of `down`, `up`, `move`, `bounds`,
  `find`, `goto`, `entrypoint`.

The code model underneath (`deps.Code`) is NOT modelled here.  The listing only sees an
abstract code state `Code` — the blocks in their current order, each with its `Idx()`, `Begin()`,
`End()` and its instructions in current order with `String()`, `Bytes()`, `Idx()`, `Begin()` and the
values of `LowerBound`/`UpperBound` — and two abstract operations `CodeOps.moveIns`
(`Block.Move`) and `CodeOps.moveBlock` (`Code.Move`); `none` = the move is rejected with an
error.  What the listing needs from them is collected in `Spec.Lawful` (Spec/Listing.lean).
`refOps` is a reference instance that follows `internal/deps/moves.go` (`move`, `moveFwd`,
`moveBack`, `checkFromToIndex`, `checkMove`) with the bounds taken from the state; it is lawful
(`Lemmas/ListingRef.lean`); the model driver uses it and refreshes the bounds from the dump of the
implementation after every command.

Go `int` values that are never negative are `Nat`; the `-1` sentinels of `Line.block`/`Line.instr`
are `Option Nat`.  A Go panic is the outcome `none` of the `Option`-valued functions.  `cursor + N`
of `down` is computed in 64-bit two's complement (`wrap64`).  The regular expression library is a
parameter: `find` takes the vector "line i matches" (`none` = the pattern does not compile).
The `marks` map (a set of line numbers) is a list; the iteration order of `UnmarkAll` is irrelevant.
`len(mark) ≤ MaxMarkLen` holds for the eight mark constants, the check of `setMark` is not modelled.
`byteStr` panics on an instruction without bytes (`Grow(-1)`): instructions have ≥ 1 byte (assumption).

REPAIRS (the model follows the repaired code):
* F21: `move` and `bounds` check their line numbers against `Lines.Len()` first (the pinned code
  indexes `l.lines[line]` out of range → panic).
* F22: `find` starts at `(offset + 1) % Len` (the pinned loop starts at `offset + 1` and calls
  `Index(Len)` when the cursor is on the last line → panic).
* F23: after an accepted block move `Lines.Move` rebuilds `lines` and `blockStarts` from the code
  with `newLines` (the pinned code calls `reloadRange`, which writes every block of the range at
  the *old* start of that position: stale rows or a slice-bounds panic).  The pinned behaviour is
  kept as `Lines.movePinned` for the record (`Props/C23.lean`, witness `pinned_F23`).
* F70: the optional words of `find` are joined with single spaces (pinned: without separator, so
  `find add x1, x2, x3` searches for `add x1,x2,x3`).  This only concerns the pattern handed to
  the regular expression library, i.e. the match vector given to `Cmd.find`.
-/
namespace Mltwist.Listing

/-! ### abstract code state -/

/-- an instruction as the listing sees it -/
structure Ins where
  /-- `Instruction.String()` -/
  text : String
  /-- `Bytes()` -/
  bytes : List UInt8
  /-- `Idx()`: index in its basic block -/
  idx : Nat
  /-- `Begin()`: current address -/
  addr : Nat
  /-- `Block.LowerBound(position)` -/
  lower : Nat
  /-- `Block.UpperBound(position)` -/
  upper : Nat
  deriving DecidableEq, Repr, Inhabited

/-- a basic block -/
structure Block where
  /-- `Idx()`: index in the list of blocks -/
  idx : Nat
  /-- `Begin()` -/
  begin : Nat
  /-- `End()` -/
  stop : Nat
  /-- `Instructions()` in current order -/
  ins : List Ins
  deriving DecidableEq, Repr, Inhabited

/-- `deps.Code`: entry point and `Blocks()` in current order -/
structure Code where
  entry : Nat
  blocks : List Block
  deriving DecidableEq, Repr, Inhabited

/-- the two mutating operations of the code model; `none` = rejected (an error is returned and
nothing changes) -/
structure CodeOps where
  /-- `code.Index(block).Move(from, to)` -/
  moveIns : Code → (block src dst : Nat) → Option Code
  /-- `code.Move(from, to)` -/
  moveBlock : Code → (src dst : Nat) → Option Code

/-! ### line.go -/

abbrev Mark := String

def markNone : Mark := ""
def markMovedFrom : Mark := "<"
def markMovedTo : Mark := ">"
def markLowerBound : Mark := "vvv"
def markUpperBound : Mark := "^^^"
def markErrMovedFrom : Mark := "!<"
def markErrMovedTo : Mark := "!>"
def markErr : Mark := "!"

structure Line where
  value : String
  mark : Mark
  /-- `none` = the Go value `-1` -/
  block : Option Nat
  instr : Option Nat
  deriving DecidableEq, Repr, Inhabited

def newEmptyLine : Line := ⟨"", markNone, none, none⟩

/-- `%x` -/
def hexLower (n : Nat) : String := String.ofList (Nat.toDigits 16 n)

def upperHexDigit (n : Nat) : Char :=
  if n < 10 then Char.ofNat (48 + n) else Char.ofNat (55 + n)

/-- `%02X` of a byte -/
def byteHex (b : UInt8) : String :=
  String.ofList [upperHexDigit (b.toNat / 16), upperHexDigit (b.toNat % 16)]

/-- the loop of `byteStr`: `if i > 0 { sb.WriteByte(' ') }; sb.WriteString(fmt.Sprintf("%02X", b))` -/
def byteStrLoop : List UInt8 → (first : Bool) → (sb : String) → String
  | [], _, sb => sb
  | b :: bs, first, sb => byteStrLoop bs false ((if first then sb else sb ++ " ") ++ byteHex b)

/-- `byteStr`: upper-case hex pairs separated by single spaces -/
def byteStr (bs : List UInt8) : String := byteStrLoop bs true ""

/-- `%-<w>s`: padding with spaces on the right up to `w` characters (runes) -/
def padRight (w : Nat) (s : String) : String :=
  s ++ String.ofList (List.replicate (w - s.length) ' ')

def instrMaxLen : Nat := 24

/-- `fmt.Sprintf("%4s %-24s | %s", "", text, bytes)` -/
def instrLineText (text : String) (bytes : List UInt8) : String :=
  "    " ++ " " ++ padRight instrMaxLen text ++ " | " ++ byteStr bytes

/-- `fmt.Sprintf("Block %d: 0x%x", b.Idx()+1, b.Begin())` -/
def blockLineText (b : Block) : String :=
  "Block " ++ toString (b.idx + 1) ++ ": 0x" ++ hexLower b.begin

def newBlockLine (b : Block) : Line := ⟨blockLineText b, markNone, some b.idx, none⟩

def newInstrLine (b : Block) (i : Ins) : Line :=
  ⟨instrLineText i.text i.bytes, markNone, some b.idx, some i.idx⟩

/-! ### lines.go -/

structure Lines where
  lines : List Line
  blockStarts : List Nat
  /-- the key set of the `marks` map -/
  marks : List Nat
  deriving DecidableEq, Repr, Inhabited

def blockToLines (b : Block) : List Line := newBlockLine b :: b.ins.map (newInstrLine b)

/-- the loop of `newLines` over the blocks from position `i` on; `off = len(lns)` so far,
`first ↔ i = 0`.  Returns the appended lines and the entries of `blockStarts`. -/
def buildLines : List Block → (off : Nat) → (first : Bool) → List Line × List Nat
  | [], _, _ => ([], [])
  | b :: bs, off, first =>
    let pre := if first then [] else [newEmptyLine]
    let start := off + pre.length
    let blk := blockToLines b
    let rest := buildLines bs (start + blk.length) false
    (pre ++ blk ++ rest.1, start :: rest.2)

def newLines (code : Code) : Lines :=
  let r := buildLines code.blocks 0 true
  { lines := r.1 ++ [newEmptyLine], blockStarts := r.2, marks := [] }

def Lines.len (l : Lines) : Nat := l.lines.length

/-- `l.lines[lineIdx].setMark(m); l.marks[lineIdx] = struct{}{}` -/
def Lines.setMark (l : Lines) (lineIdx : Nat) (m : Mark) : Option Lines :=
  match l.lines[lineIdx]? with
  | none => none
  | some ln =>
    some { l with lines := l.lines.set lineIdx { ln with mark := m },
                  marks := if lineIdx ∈ l.marks then l.marks else lineIdx :: l.marks }

/-- the loop of `UnmarkAll` over the keys -/
def clearMarks : List Nat → List Line → Option (List Line)
  | [], ls => some ls
  | i :: is, ls =>
    match ls[i]? with
    | none => none
    | some ln => clearMarks is (ls.set i { ln with mark := markNone })

def Lines.unmarkAll (l : Lines) : Option Lines :=
  match clearMarks l.marks l.lines with
  | none => none
  | some ls => some { l with lines := ls, marks := [] }

/-- `copy(lines[start:][:len(new)], new)`; the caller has checked the bounds.  The backing array
made by `newLines` has capacity `len + 1`: the element beyond `len` is invisible. -/
def overwrite (ls : List Line) (start : Nat) (new : List Line) : List Line :=
  (ls.take start ++ new ++ ls.drop (start + new.length)).take ls.length

/-- `Reload(blockIdx)`.  Panics: `code.Index` out of range, `blockStarts[blockIdx]` out of range,
`lines[start:]` with `start > len`, `[:len(newBlock)]` beyond the capacity `len + 1 - start`. -/
def Lines.reload (l : Lines) (code : Code) (blockIdx : Nat) : Option Lines :=
  match code.blocks[blockIdx]?, l.blockStarts[blockIdx]? with
  | some b, some start =>
    let newBlock := blockToLines b
    if start > l.lines.length then none
    else if newBlock.length > l.lines.length + 1 - start then none
    else some { l with lines := overwrite l.lines start newBlock }
  | _, _ => none

/-- `for i := from; i <= to; i++ { l.Reload(i) }` with `cnt = to + 1 - from` rounds -/
def reloadLoop (code : Code) : (cnt : Nat) → (i : Nat) → Lines → Option Lines
  | 0, _, l => some l
  | cnt + 1, i, l =>
    match l.reload code i with
    | none => none
    | some l' => reloadLoop code cnt (i + 1) l'

/-- `reloadRange` (pinned code only; unused after the repair of F23) -/
def Lines.reloadRange (l : Lines) (code : Code) (a b : Nat) : Option Lines :=
  let lo := min a b
  let hi := max a b
  reloadLoop code (hi + 1 - lo) lo l

inductive MoveErr where
  | emptyFrom     -- "from cannot be an empty line"
  | emptyTo       -- "to cannot be an empty line"
  | blockIns      -- "cannot swap block and an instruction"
  | blockMove     -- "block move failed"
  | amongBlocks   -- "instructions cannot be moved among blocks"
  | insMove       -- "instruction move failed"
  deriving DecidableEq, Repr

/-- result of `Lines.Move`: the error (if any), the listing and the code afterwards -/
structure MoveRes where
  err : Option MoveErr
  lines : Lines
  code : Code
  deriving DecidableEq, Repr

/-- `Lines.Move(fromLine, toLine)`; `rebuild = true` is the repaired code (F23), `false` the
pinned one.  Panics: a line index out of range, `code.Index(fromBlock)` out of range, `Reload`. -/
def Lines.moveWith (rebuild : Bool) (ops : CodeOps) (l : Lines) (code : Code) (fromLine toLine : Nat) :
    Option MoveRes :=
  match l.lines[fromLine]?, l.lines[toLine]? with
  | some srcLn, some dstLn =>
    match srcLn.block, dstLn.block with
    | none, _ => some ⟨some .emptyFrom, l, code⟩
    | some _, none => some ⟨some .emptyTo, l, code⟩
    | some fromBlock, some toBlock =>
      match srcLn.instr, dstLn.instr with
      | none, some _ => some ⟨some .blockIns, l, code⟩
      | some _, none => some ⟨some .blockIns, l, code⟩
      | none, none =>
        match ops.moveBlock code fromBlock toBlock with
        | none => some ⟨some .blockMove, l, code⟩
        | some code' =>
          if rebuild then
            let fresh := newLines code'
            some ⟨none, { l with lines := fresh.lines, blockStarts := fresh.blockStarts }, code'⟩
          else
            match l.reloadRange code' fromBlock toBlock with
            | none => none
            | some l' => some ⟨none, l', code'⟩
      | some fromIns, some toIns =>
        if fromBlock ≠ toBlock then some ⟨some .amongBlocks, l, code⟩
        else if code.blocks.length ≤ fromBlock then none
        else
          match ops.moveIns code fromBlock fromIns toIns with
          | none => some ⟨some .insMove, l, code⟩
          | some code' =>
            match l.reload code' fromBlock with
            | none => none
            | some l' => some ⟨none, l', code'⟩
  | _, _ => none

def Lines.move := Lines.moveWith true
def Lines.movePinned := Lines.moveWith false

/-- `Lines.Block(lineIdx)`: `none` = panic; `some none` = `(Block{}, false)` -/
def Lines.block (l : Lines) (code : Code) (lineIdx : Nat) : Option (Option Block) :=
  match l.lines[lineIdx]? with
  | none => none
  | some ln =>
    match ln.block with
    | none => some none
    | some idx =>
      match code.blocks[idx]? with
      | none => none
      | some b => some (some b)

/-- `Lines.Line(block, ins)` -/
def Lines.line (l : Lines) (b : Block) (ins : Nat) : Option Nat :=
  match l.blockStarts[b.idx]? with
  | none => none
  | some blockLine => some (blockLine + 1 + ins)

/-! ### cursor.go -/

structure Cursor where
  maxValue : Nat
  value : Nat
  deriving DecidableEq, Repr, Inhabited

inductive ErrClass where
  | parse
  | move (e : MoveErr)
  | noBlock       -- bounds: "line doesn't belong to a block"
  | notIns        -- bounds: "line is not an instruction"
  | regex         -- find: "invalid regex"
  | tooBig        -- goto (and the repaired move/bounds): "line number too big"
  | negative      -- cursor: "offset cannot be negative"
  | tooHigh       -- cursor: "offset is too high"
  | noBlockAddr   -- entrypoint: "cannot find block at address"
  | noInsAddr     -- entrypoint: "cannot find instruction at address"
  deriving DecidableEq, Repr

/-- `Cursor.Set(v)` with `checkOffset` -/
def Cursor.set (c : Cursor) (v : Int) : Except ErrClass Cursor :=
  if v < 0 then .error .negative
  else if v ≥ (c.maxValue : Int) then .error .tooHigh
  else .ok { c with value := v.toNat }

/-- 64-bit two's complement value of an integer: `(x + 2^63) mod 2^64 - 2^63` (numerals instead of
`Int` powers, which the kernel evaluates very slowly) -/
def wrap64 (x : Int) : Int := (x + 9223372036854775808) % 18446744073709551616 - 9223372036854775808

/-- `math.MaxInt` = `2^63 - 1` -/
def maxInt : Nat := 9223372036854775807

/-! ### address lookups used by `entrypoint` -/

def insertByBegin (b : Block) : List Block → List Block
  | [] => [b]
  | c :: cs => if b.begin ≤ c.begin then b :: c :: cs else c :: insertByBegin b cs

/-- `blocksByAddr`: the blocks in ascending order of `Begin()` (stable insertion sort) -/
def sortByBegin : List Block → List Block
  | [] => []
  | b :: bs => insertByBegin b (sortByBegin bs)

/-- `Code.Address(a)`; `sort.Search` = the first position whose predicate holds -/
def Code.address (c : Code) (a : Nat) : Option Block :=
  match (sortByBegin c.blocks).find? (fun b => b.stop > a) with
  | none => none
  | some b => if b.begin > a then none else some b

/-- `Block.Address(a)` -/
def Block.address (b : Block) (a : Nat) : Option Ins :=
  match b.ins.find? (fun i => i.addr ≥ a) with
  | none => none
  | some i => if i.addr ≠ a then none else some i

/-! ### commands.go -/

inductive Cmd where
  | down (n : Nat)
  | up (n : Nat)
  | move (src dst : Nat)
  | bounds (l : Nat)
  /-- `matches = none`: `regexp.CompilePOSIX` fails; otherwise `matches[i]` = the pattern matches
  the text of line `i` -/
  | find (ms : Option (List Bool))
  | goto (n : Nat)
  | entrypoint
  deriving DecidableEq, Repr

inductive Status where
  | ok
  /-- `find` without a match: a message is shown and `nil` is returned -/
  | noMatch
  | err (e : ErrClass)
  deriving DecidableEq, Repr

/-- state of the disassembler mode -/
structure St where
  code : Code
  lines : Lines
  cursor : Cursor
  deriving DecidableEq, Repr, Inhabited

/-- `disassemble.New(code, _)` -/
def St.init (code : Code) : St :=
  let l := newLines code
  { code, lines := l, cursor := ⟨l.len, 0⟩ }

inductive FindRes where
  | found (i : Nat)
  | notFound
  | panic
  | outOfFuel
  deriving DecidableEq, Repr

/-- `for i := start; i != offset; i = (i + 1) % Len { if match(Index(i)) { line = i; break } }` -/
def findLoop (ms : List Bool) (len offset : Nat) : (fuel : Nat) → (i : Nat) → FindRes
  | 0, _ => .outOfFuel
  | fuel + 1, i =>
    if i = offset then .notFound
    else
      match ms[i]? with
      | none => .panic            -- `Index(i)` out of range
      | some true => .found i
      | some false => findLoop ms len offset fuel ((i + 1) % len)

/-- where the search starts: `(offset + 1) % Len` after the repair of F22, `offset + 1` before -/
def findStart (repaired : Bool) (len offset : Nat) : Nat :=
  if repaired then (offset + 1) % len else offset + 1

def setCursor (st : St) (v : Int) : Status × St :=
  match st.cursor.set v with
  | .ok c => (.ok, { st with cursor := c })
  | .error e => (.err e, st)

/-- the marks of a failed resp. successful `move` -/
def markMove (l : Lines) (src dst : Nat) (failed : Bool) : Option Lines :=
  match l.setMark src (if failed then markErrMovedFrom else markMovedFrom) with
  | none => none
  | some l1 => l1.setMark dst (if failed then markErrMovedTo else markMovedTo)

/-- the action of `move` -/
def cmdMove (ops : CodeOps) (st : St) (src dst : Nat) : Option (Status × St) :=
  if src ≥ st.lines.len ∨ dst ≥ st.lines.len then some (.err .tooBig, st)        -- repair F21
  else
    match st.lines.unmarkAll with
    | none => none
    | some l0 =>
      match l0.move ops st.code src dst with
      | none => none
      | some r =>
        match r.err with
        | some e =>
          match markMove r.lines src dst true with
          | none => none
          | some l2 => some (.err (.move e), { st with lines := l2, code := r.code })
        | none =>
          match markMove r.lines src dst false with
          | none => none
          | some l2 => some (.ok, { st with lines := l2, code := r.code })

/-- the action of `bounds` -/
def cmdBounds (st : St) (l : Nat) : Option (Status × St) :=
  if l ≥ st.lines.len then some (.err .tooBig, st)                                 -- repair F21
  else
    match st.lines.unmarkAll with
    | none => none
    | some l0 =>
      match l0.block st.code l with
      | none => none
      | some none =>
        match l0.setMark l markErr with
        | none => none
        | some l1 => some (.err .noBlock, { st with lines := l1 })
      | some (some block) =>
        match l0.lines[l]? with
        | none => none
        | some ln =>
          match ln.instr with
          | none =>
            match l0.setMark l markErr with
            | none => none
            | some l1 => some (.err .notIns, { st with lines := l1 })
          | some ins =>
            match block.ins[ins]? with          -- `b.index(i)` of LowerBound/UpperBound
            | none => none
            | some i =>
              match l0.line block i.lower, l0.line block i.upper with
              | some lowerLine, some upperLine =>
                match l0.setMark (lowerLine - 1) markLowerBound with
                | none => none
                | some l1 =>
                  match l1.setMark (upperLine + 1) markUpperBound with
                  | none => none
                  | some l2 => some (.ok, { st with lines := l2 })
              | _, _ => none

/-- the action of `find` -/
def cmdFind (st : St) (ms : Option (List Bool)) : Option (Status × St) :=
  match ms with
  | none => some (.err .regex, st)
  | some ms =>
    let len := st.lines.len
    if len = 0 then none                       -- `% 0`
    else
      match findLoop ms len st.cursor.value (len + 1) (findStart true len st.cursor.value) with
      | .found i => some (setCursor st i)
      | .notFound => some (.noMatch, st)
      | .panic => none
      | .outOfFuel => none

/-- the action of `goto` -/
def cmdGoto (st : St) (n : Nat) : Status × St :=
  if n > st.lines.len then (.err .tooBig, st) else setCursor st n

/-- the action of `entrypoint` (the error of `Cursor.Set` is dropped, as in the Go code) -/
def cmdEntrypoint (st : St) : Option (Status × St) :=
  match st.code.address st.code.entry with
  | none => some (.err .noBlockAddr, st)
  | some block =>
    match block.address st.code.entry with
    | none => some (.err .noInsAddr, st)
    | some ins =>
      match st.lines.line block ins.idx with
      | none => none
      | some line => some (.ok, (setCursor st line).2)

/-- one command of the disassembler mode; `none` = the program panics -/
def step (ops : CodeOps) (st : St) : Cmd → Option (Status × St)
  | .down n => some (setCursor st (wrap64 (st.cursor.value + n)))
  | .up n => some (setCursor st (wrap64 (st.cursor.value + -(n : Int))))
  | .move f t => cmdMove ops st f t
  | .bounds l => cmdBounds st l
  | .find ms => cmdFind st ms
  | .goto n => some (cmdGoto st n)
  | .entrypoint => cmdEntrypoint st

/-- a history of commands; `none` = a command panicked -/
def run (ops : CodeOps) : St → List Cmd → Option St
  | st, [] => some st
  | st, c :: cs =>
    match step ops st c with
    | none => none
    | some (_, st') => run ops st' cs

/-! ### reference instance of the code operations (`internal/deps/moves.go`) -/

/-- `move(arr, from, to)` as far as the order is concerned -/
def moveList {α} (l : List α) (src dst : Nat) : List α :=
  match l[src]? with
  | none => l
  | some x => let r := l.eraseIdx src; r.take dst ++ x :: r.drop dst

/-- `setIndex(i)`: the Go loop renumbers the positions between `from` and `to`; all other elements keep
their place and their index, so — indices being positions before the move — every index is its position
afterwards -/
def renumberBlocks (bs : List Block) : List Block := bs.mapIdx fun i b => { b with idx := i }

/-- `setIndex(i)` (see `renumberBlocks`) and `setAddr(a)` on the positions `lo..hi`: the addresses of
these instructions are laid out anew from `a` on -/
def relayIns : (pos lo hi a : Nat) → List Ins → List Ins
  | _, _, _, _, [] => []
  | pos, lo, hi, a, i :: is =>
    if lo ≤ pos ∧ pos ≤ hi then
      { i with idx := pos, addr := a } :: relayIns (pos + 1) lo hi ((a + i.bytes.length) % 2 ^ 64) is
    else { i with idx := pos } :: relayIns (pos + 1) lo hi a is

/-- `Code.Move`: `checkFromToIndex`, then `move` -/
def refMoveBlock (c : Code) (src dst : Nat) : Option Code :=
  if src < c.blocks.length ∧ dst < c.blocks.length then
    some { c with blocks := renumberBlocks (moveList c.blocks src dst) }
  else none

/-- `Block.Move`: `checkMove` (with the bounds stored in the state), then `move` -/
def refMoveInsBlock (b : Block) (src dst : Nat) : Option Block :=
  match b.ins[src]?, b.ins[dst]? with
  | some f, some _ =>
    if src < dst ∧ f.upper < dst then none
    else if dst < src ∧ f.lower > dst then none
    else
      let lo := min src dst
      let a := match b.ins[lo]? with | some i => i.addr | none => 0
      some { b with ins := relayIns 0 lo (max src dst) a (moveList b.ins src dst) }
  | _, _ => none

def refMoveIns (c : Code) (block src dst : Nat) : Option Code :=
  match c.blocks[block]? with
  | none => none
  | some b =>
    match refMoveInsBlock b src dst with
    | none => none
    | some b' => some { c with blocks := c.blocks.set block b' }

def refOps : CodeOps := ⟨refMoveIns, refMoveBlock⟩

end Mltwist.Listing
