import Mltwist.Model.Expr
/-
Model of `internal/exprtransform/internal/expreval`: arithmetic on little-endian byte
strings.  `math/big` is replaced by `Nat` (`bigInt` = `leToNat` of the cut value,
`parseBigInt` = the `w` low bytes, little endian).
-/
namespace Mltwist.Expreval

/-- `Value.setWidth` -/
def setWidth (v : List UInt8) (w : Nat) : List UInt8 :=
  if w ≤ v.length then v.take w else v ++ List.replicate (w - v.length) 0

/-- the carry loop of `Add` -/
def addLoop : List UInt8 → List UInt8 → Bool → List UInt8
  | b1 :: r1, b2 :: r2, carry =>
    let res := b1 + b2
    let newCarry := res < b1 || (carry && res == 255)
    let res' := if carry then res + 1 else res
    res' :: addLoop r1 r2 newCarry
  | _, _, _ => []

def add (v1 v2 : List UInt8) (w : Nat) : List UInt8 :=
  addLoop (setWidth v1 w) (setWidth v2 w) false

/-- `Value.bigInt(w)` -/
def bigInt (v : List UInt8) (w : Nat) : Nat :=
  leToNat (if w < v.length then setWidth v w else v)

/-- `shiftUint64`: `(byteShift, bitShift)` or `none` -/
def shiftUint64 (v : List UInt8) (w : Nat) : Option (Nat × Nat) :=
  let n := bigInt v w
  if n ≥ 2 ^ 64 then none
  else if n / 8 ≥ w then none
  else some (n / 8, n % 8)

/-- `bitLsh` as a left-to-right pass: `prev` is the (old) byte below the current one -/
def bitLshAux (s : Nat) (prev : UInt8) : List UInt8 → List UInt8
  | [] => []
  | b :: bs => ((b <<< UInt8.ofNat s) ||| (prev >>> UInt8.ofNat (8 - s))) :: bitLshAux s b bs

def bitLsh (bs : List UInt8) (s : Nat) : List UInt8 := bitLshAux s 0 bs

/-- `bitRsh` -/
def bitRsh (s : Nat) : List UInt8 → List UInt8
  | [] => []
  | [b] => [b >>> UInt8.ofNat s]
  | b :: c :: bs => ((b >>> UInt8.ofNat s) ||| (c <<< UInt8.ofNat (8 - s))) :: bitRsh s (c :: bs)

def lsh (v1 v2 : List UInt8) (w : Nat) : List UInt8 :=
  match shiftUint64 v2 w with
  | none => List.replicate w 0
  | some (byteShift, bitShift) =>
    let shifted := List.replicate byteShift 0 ++ (setWidth v1 w).take (w - byteShift)
    if bitShift ≠ 0 then bitLsh shifted bitShift else shifted

def rsh (v1 v2 : List UInt8) (w : Nat) : List UInt8 :=
  match shiftUint64 v2 w with
  | none => List.replicate w 0
  | some (byteShift, bitShift) =>
    let live := (setWidth v1 w).drop byteShift
    let live' := if bitShift ≠ 0 then bitRsh bitShift live else live
    live' ++ List.replicate byteShift 0

def mul (v1 v2 : List UInt8) (w : Nat) : List UInt8 :=
  natToLE w (bigInt v1 w * bigInt v2 w)

def div (v1 v2 : List UInt8) (w : Nat) : List UInt8 :=
  if bigInt v2 w = 0 then List.replicate w 255
  else natToLE w (bigInt v1 w / bigInt v2 w)

def nandLoop : List UInt8 → List UInt8 → List UInt8
  | b1 :: r1, b2 :: r2 => ~~~(b1 &&& b2) :: nandLoop r1 r2
  | _, _ => []

def nand (v1 v2 : List UInt8) (w : Nat) : List UInt8 :=
  nandLoop (setWidth v1 w) (setWidth v2 w)

/-- the scan of `Ltu` on the reversed (most significant first) byte strings -/
def ltuLoop : List UInt8 → List UInt8 → Bool
  | b1 :: r1, b2 :: r2 => if b1 < b2 then true else if b1 > b2 then false else ltuLoop r1 r2
  | _, _ => false

def ltu (v1 v2 : List UInt8) (w : Nat) : Bool :=
  ltuLoop (setWidth v1 w).reverse (setWidth v2 w).reverse

/-- `binaryEval` of `constfold.go` (result bytes) -/
def binary (op : BinOp) (c1 c2 : List UInt8) (w : Nat) : List UInt8 :=
  match op with
  | .add => add c1 c2 w
  | .lsh => lsh c1 c2 w
  | .rsh => rsh c1 c2 w
  | .mul => mul c1 c2 w
  | .div => div c1 c2 w
  | .nand => nand c1 c2 w

end Mltwist.Expreval
