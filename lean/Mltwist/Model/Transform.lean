import Mltwist.Model.Expreval
/-
Model of `internal/exprtransform` and of the width gadget of `pkg/expr/exprtools`.

The Go functions thread a `changed` flag whose only use is to return the *same* value
instead of an identical rebuilt one; in value semantics both are equal, so the model is
flag-free (the correspondence run compares the results structurally).
-/
namespace Mltwist
open Expr

/-- `exprtools.NewWidthGadget` -/
def newWidthGadget (e : Expr) (w : Nat) : Expr := .binary .add e Expr.zero w

/-- `exprtools.widthGadget` -/
def isWidthGadget : Expr → Bool
  | .binary .add _ (.const bs) _ => bs == [0]
  | _ => false

/-- `exprtools.WidthGadgetArg` -/
def widthGadgetArg : Expr → Option Expr
  | .binary .add a (.const bs) _ => if bs == [0] then some a else none
  | _ => none

/-- `exprtransform.SetWidth` (with `setWidth` inlined) -/
def setWidth (ex : Expr) (w : Nat) : Expr :=
  if ex.width = w then ex else
  match ex with
  | .const bs => .const (Expreval.setWidth bs w)
  | .regLoad k we => if w > we then newWidthGadget ex w else .regLoad k w
  | _ => newWidthGadget ex w

/-- the four-case analysis of `dropUselessWidthGadget` on the widths
`w` (context), `x` (gadget) and `a` (gadget argument): `some true` = drop,
`some false` = keep, `none` = the `panic("unreachable")`. -/
def dropDecision (w x a : Nat) : Option Bool :=
  if w > x ∧ x < a then some false
  else if w ≥ x ∧ x ≥ a then some true
  else if w ≤ x ∧ x ≤ a then some true
  else if w < x ∧ x > a then some true
  else none

/-- `pruneUselessWidthGadgets` -/
def prune : Expr → Nat → Expr
  | .binary op a b x, w =>
    if isWidthGadget (.binary op a b x) && dropDecision w x a.width == some true
    then prune a w else .binary op a b x
  | e, _ => e

/-- the loop of `purgeWidthGadgetsKeepWidth` -/
def stripSame : Expr → Expr
  | .binary op a b x =>
    if isWidthGadget (.binary op a b x) && a.width == x then stripSame a else .binary op a b x
  | e => e

/-- `purgeWidthGadgets` -/
def purge : Expr → Expr
  | .binary op a b w => .binary op (prune (purge a) w) (prune (purge b) w) w
  | .less a b t f w =>
    .less (prune (purge a) w) (prune (purge b) w) (prune (purge t) w) (prune (purge f) w) w
  | .memLoad k a w => .memLoad k (stripSame (purge a)) w
  | e => e

/-- `PurgeWidthGadgets` -/
def purgeWidthGadgets (e : Expr) : Expr := stripSame (purge e)

/-- `constFold` -/
def constFoldRaw : Expr → Expr
  | .binary op a b w =>
    match constFoldRaw a, constFoldRaw b with
    | .const c1, .const c2 => .const (Expreval.binary op c1 c2 w)
    | a', b' => .binary op a' b' w
  | .less a b t f w =>
    match constFoldRaw a, constFoldRaw b with
    | .const c1, .const c2 =>
      setWidth (if Expreval.ltu c1 c2 w then constFoldRaw t else constFoldRaw f) w
    | a', b' => .less a' b' (constFoldRaw t) (constFoldRaw f) w
  | .memLoad k a w => .memLoad k (constFoldRaw a) w
  | e => e

/-- `exprtransform.ConstFold` -/
def constFold (e : Expr) : Expr := purgeWidthGadgets (constFoldRaw e)

/-- `exprtransform.Possibilities` -/
def possibilities : Expr → List Expr
  | .binary op a b w =>
    (possibilities a).flatMap fun e1 => (possibilities b).map fun e2 => .binary op e1 e2 w
  | .less _ _ t f w =>
    (possibilities t).map (setWidth · w) ++ (possibilities f).map (setWidth · w)
  | .memLoad k a w => (possibilities a).map fun ea => .memLoad k ea w
  | e => [e]

/-- `exprtransform.Equal` -/
def equal : Expr → Expr → Bool
  | .binary op1 a1 b1 w1, .binary op2 a2 b2 w2 =>
    w1 == w2 && op1 == op2 && equal a1 a2 && equal b1 b2
  | .less a1 b1 t1 f1 w1, .less a2 b2 t2 f2 w2 =>
    w1 == w2 && equal a1 a2 && equal b1 b2 && equal t1 t2 && equal f1 f2
  | .const b1, .const b2 => b1 == b2
  | .memLoad k1 a1 w1, .memLoad k2 a2 w2 => w1 == w2 && k1 == k2 && equal a1 a2
  | .regLoad k1 w1, .regLoad k2 w2 => w1 == w2 && k1 == k2
  | _, _ => false

/-- expression kinds, for `FindAll[T]` / `ReplaceAll[T]` -/
inductive Kind where
  | const | binary | less | memLoad | regLoad
  deriving DecidableEq, Repr

def Expr.kind : Expr → Kind
  | .const _ => .const
  | .binary .. => .binary
  | .less .. => .less
  | .memLoad .. => .memLoad
  | .regLoad .. => .regLoad

/-- `exprtransform.FindAll[T]`: pre-order -/
def findAll (k : Kind) : Expr → List Expr
  | e@(.binary _ a b _) => (if e.kind = k then [e] else []) ++ findAll k a ++ findAll k b
  | e@(.less a b t f _) =>
    (if e.kind = k then [e] else []) ++ findAll k a ++ findAll k b ++ findAll k t ++ findAll k f
  | e@(.memLoad _ a _) => (if e.kind = k then [e] else []) ++ findAll k a
  | e => if e.kind = k then [e] else []

/-- `exprtransform.ReplaceAll[T]`: bottom-up; `f` returns `none` for "not replaced" -/
def replaceAll (k : Kind) (f : Expr → Option Expr) : Expr → Expr
  | .binary op a b w =>
    let e := Expr.binary op (replaceAll k f a) (replaceAll k f b) w
    if k = .binary then (f e).getD e else e
  | .less a b t f' w =>
    let e := Expr.less (replaceAll k f a) (replaceAll k f b) (replaceAll k f t) (replaceAll k f f') w
    if k = .less then (f e).getD e else e
  | .memLoad key a w =>
    let e := Expr.memLoad key (replaceAll k f a) w
    if k = .memLoad then (f e).getD e else e
  | e => if e.kind = k then (f e).getD e else e

/-- `exprtransform.Exprs` -/
def Effect.exprs : Effect → List Expr
  | .memStore v _ a _ => [a, v]
  | .regStore v _ _ => [v]

/-- `exprtransform.EffectApply` -/
def Effect.apply (f : Expr → Expr) : Effect → Effect
  | .memStore v k a w => .memStore (f v) k (f a) w
  | .regStore v k w => .regStore (f v) k w

end Mltwist
