import Mltwist.Model.Sparse
import Mltwist.Model.BytesMem
/-
Model of the memory view of the console UI (C32): `internal/consoleui/internal/memview`
(`line.go`, `view.go`, `commands.go`, `mode.go`), after the repairs

* F28 (`memoryLines` truncates the merged slice to `j`),
* F29 (the view always has a cursor; a view without lines reports errors instead of dereferencing
  a nil cursor),
* F80 (`block2Lines` and `formatMemLine` iterate over window numbers / offsets, so that the last
  16-byte window of the address space does not wrap `uint64`).

The `address` command selects the first row one of whose *stored ranges* contains the address (the
reading of the property fixed in DESIGN §6).  The wider reading "the row whose window contains the
address" is kept as an observation (F81, `findLineWindow`/`cmdAddressWindow`); it is not the code.

Addresses are `Nat` (Go: `model.Addr = uint64`).  After F80 no address computation of
`block2Lines`, `memoryLines`, `addEmptyLines` can wrap for blocks with `end ≤ 2^64-1`, except the
two places kept literally: the row label `ln.addr + bytesPerLine` of `Print` and the test
`lns[len-1].addr + bytesPerLine != model.MaxAddress` (both `% 2^64`).

What the view uses of `memory.Memory` is abstracted as `Mem`: the interval list of `Blocks()` and,
per address, the bytes of the constant `ConstFold(Load(a, 1))` (`none` = the `bug: expected
expr.Const` panic: nothing loaded or not a constant).  `ofSparse`/`ofBytes` build it from the
memory models.

Library stand-ins (trusted base): `fmt` verbs `%1s`, `%<k>d`, `%016x`, `%02X` by their documented
meaning (`pad`, `dec`, `hex16`, `hex2`); `strings.Builder` = byte concatenation;
`int(math.Floor(float64(n)/(math.Phi+1)))` = `phiOff n` = `⌊n/φ²⌋` (checked against IEEE doubles
for all `0 ≤ n ≤ 10^6`, see `vcheck/genmemview.py: check_phi`); `cursor.Cursor` as in
`internal/consoleui/internal/cursor`.

Go panics are explicit: the result `none` of `block2Lines`, `memoryLines`, `mergeLoop`,
`newMemoryView`, `fmtLoop`/`formatMemLine`, `printRow`, `print`.  For the commands `none` is the
returned error (the cursor keeps its value).
-/
namespace Mltwist.MemView
open Mltwist

def bytesPerLine : Nat := 16
def bytesSpace : Nat := 8

/-- `interval.Interval[model.Addr]`: `[begin, end)` -/
abbrev Range := Nat × Nat

/-- `memLine`; the ellipsis row is `memLine{}` (no ranges) -/
structure Line where
  addr : Nat
  ranges : List Range
  deriving DecidableEq, Repr, Inhabited

def Line.empty : Line := ⟨0, []⟩

/-- `len(ln.ranges) == 0`: the row is printed as `...` -/
def Line.isEllipsis (l : Line) : Bool := l.ranges.isEmpty

/-- `interval.New(b, e)`: `none` = "begin is greater than end" -/
def newRange (b e : Nat) : Option Range := if b > e then none else some (b, e)

/-! ### `block2Lines` (after F80) -/

/-- body of the loop for window number `w` -/
def windowLine (blk : Range) (last w : Nat) : Option Line :=
  let b := if w * bytesPerLine < blk.1 then blk.1 else w * bytesPerLine
  let e := if w < last then (w + 1) * bytesPerLine else blk.2
  match newRange b e with
  | none => none
  | some r => some ⟨w * bytesPerLine, [r]⟩

/-- `for w := first; w <= last; w++`; the fuel is `last - first + 1` -/
def b2lLoop (blk : Range) (last : Nat) : Nat → Nat → Option (List Line)
  | 0, _ => some []
  | f + 1, w =>
    if w ≤ last then
      match windowLine blk last w, b2lLoop blk last f (w + 1) with
      | some l, some ls => some (l :: ls)
      | _, _ => none
    else some []

/-- `block2Lines(block)`; blocks are non-empty (`interval.Map` holds no empty interval) -/
def block2Lines (blk : Range) : Option (List Line) :=
  let first := blk.1 / bytesPerLine
  let last := (blk.2 - 1) / bytesPerLine
  b2lLoop blk last (last + 1 - first) first

/-- `for _, b := range blocks.Intervals() { lines = append(lines, block2Lines(b)...) }` -/
def allLines : List Range → Option (List Line)
  | [] => some []
  | b :: bs =>
    match block2Lines b, allLines bs with
    | some l, some ls => some (l ++ ls)
    | _, _ => none

/-! ### the merge loop of `memoryLines` -/

/-- `for i, j := 0, 0; i < len(lines); i, j = i+1, j+1 { … }` on the array `lines`; the fuel is
`len(lines) - i`.  Returns the array and `j`.  `none` = index out of range. -/
def mergeLoop : Nat → List Line → Nat → Nat → Option (List Line × Nat)
  | 0, ls, _, j => some (ls, j)
  | f + 1, ls, i, j =>
    match ls[i]? with
    | none => none
    | some li =>
      if j > 0 then
        match ls[j - 1]? with
        | none => none
        | some lp =>
          if lp.addr = li.addr then
            -- lines[j-1].ranges = append(lines[j-1].ranges, lines[i].ranges...); j--
            mergeLoop f (ls.set (j - 1) ⟨lp.addr, lp.ranges ++ li.ranges⟩) (i + 1) j
          else mergeLoop f (ls.set j li) (i + 1) (j + 1)
      else mergeLoop f (ls.set j li) (i + 1) (j + 1)

/-- `addEmptyLines`, the loop: `prev` is `lines[i-1]` (`none` for `i == 0`) -/
def addEmptyLoop : Option Line → List Line → List Line
  | _, [] => []
  | none, ln :: rest =>
    (if ln.addr ≠ 0 then [Line.empty] else []) ++ ln :: addEmptyLoop (some ln) rest
  | some p, ln :: rest =>
    (if p.addr + bytesPerLine < ln.addr then [Line.empty] else []) ++ ln :: addEmptyLoop (some ln) rest

/-- `addEmptyLines` -/
def addEmptyLines (lines : List Line) : List Line :=
  let lns := addEmptyLoop none lines
  match lns.getLast? with
  | some l => if (l.addr + bytesPerLine) % 2 ^ 64 ≠ 2 ^ 64 - 1 then lns ++ [Line.empty] else lns
  | none => lns

/-- `memoryLines(blocks)` (after F28) -/
def memoryLines (blocks : List Range) : Option (List Line) :=
  match allLines blocks with
  | none => none
  | some ls =>
    match mergeLoop ls.length ls 0 0 with
    | none => none
    | some (arr, j) => some (addEmptyLines (arr.take j))

/-- `memoryLines` of the pinned tree (F28): the stale tail of the array is kept -/
def memoryLinesPinned (blocks : List Range) : Option (List Line) :=
  match allLines blocks with
  | none => none
  | some ls =>
    match mergeLoop ls.length ls 0 0 with
    | none => none
    | some (arr, _) => some (addEmptyLines arr)

/-! ### the view -/

/-- what the view reads from a `memory.Memory` -/
structure Mem where
  /-- `Blocks().Intervals()`; `none` = `Blocks()` panics -/
  blocks : Option (List Range)
  /-- bytes of the constant `ConstFold(Load(a, 1))`; `none` = no constant -/
  load1 : Nat → Option (List UInt8)

/-- `memoryView`: lines and cursor (`cursor.New(len(lines))`, after F29 also for no lines) -/
structure View where
  lines : List Line
  cursor : Nat
  deriving DecidableEq, Repr, Inhabited

/-- `newMemoryView(mem)`; `mem = none` is the nil interface; the outer `none` = a panic -/
def newMemoryView (mem : Option Mem) : Option View :=
  match mem with
  | none => some ⟨[], 0⟩
  | some m =>
    match m.blocks with
    | none => none
    | some bl =>
      match memoryLines bl with
      | none => none
      | some ls => some ⟨ls, 0⟩

/-- Go `int` addition/subtraction wraps at 64 bits -/
def wrapInt (x : Int) : Int := (x + 2 ^ 63) % 2 ^ 64 - 2 ^ 63

/-- `Cursor.Set(v)`: `none` = an error, the cursor keeps its value -/
def cursorSet (v : View) (x : Int) : Option View :=
  if x < 0 then none
  else if x ≥ (v.lines.length : Int) then none
  else some { v with cursor := x.toNat }

/-- commands `down <n>`, `up <n>`, `goto <n>` with `0 ≤ n ≤ math.MaxInt` -/
def cmdDown (v : View) (n : Nat) : Option View := cursorSet v (wrapInt ((v.cursor : Int) + n))
def cmdUp (v : View) (n : Nat) : Option View := cursorSet v (wrapInt ((v.cursor : Int) - n))
def cmdGoto (v : View) (n : Nat) : Option View := cursorSet v n

/-- `r.Containts(addr)` -/
def contains (r : Range) (a : Nat) : Bool := decide (r.1 ≤ a) && decide (a < r.2)

/-- the search loop of the `address` command: the first line with a stored range containing `a` -/
def findLine (a : Nat) (lines : List Line) : Option Nat :=
  let idx := lines.findIdx fun l => l.ranges.any fun r => contains r a
  if idx < lines.length then some idx else none

/-- command `address <a>` -/
def cmdAddress (v : View) (a : Nat) : Option View :=
  match findLine a v.lines with
  | none => none
  | some idx => cursorSet v idx

/-- Observation F81 (not the code): the wider reading "the row whose *window* contains `a`",
`len(l.ranges) > 0 && addr-l.addr < bytesPerLine` with `uint64` subtraction -/
def lineHasAddr (a : Nat) (l : Line) : Bool :=
  !l.ranges.isEmpty && decide ((a + 2 ^ 64 - l.addr) % 2 ^ 64 < bytesPerLine)

def findLineWindow (a : Nat) (lines : List Line) : Option Nat :=
  let idx := lines.findIdx (lineHasAddr a)
  if idx < lines.length then some idx else none

def cmdAddressWindow (v : View) (a : Nat) : Option View :=
  match findLineWindow a v.lines with
  | none => none
  | some idx => cursorSet v idx

/-! ### rendering -/

def hexDigitL (n : Nat) : UInt8 := UInt8.ofNat (if n < 10 then 0x30 + n else 0x61 + n - 10)
def hexDigitU (n : Nat) : UInt8 := UInt8.ofNat (if n < 10 then 0x30 + n else 0x41 + n - 10)

/-- `%02X` of a byte -/
def hex2 (b : UInt8) : List UInt8 := [hexDigitU (b.toNat / 16), hexDigitU (b.toNat % 16)]

/-- the `k` low hexadecimal digits of `n`, most significant first -/
def hexLow : Nat → Nat → List UInt8
  | 0, _ => []
  | k + 1, n => hexLow k (n / 16) ++ [hexDigitL (n % 16)]

/-- `%016x` of a `uint64` -/
def hex16 (n : Nat) : List UInt8 := hexLow 16 n

/-- decimal digits of `n` on fuel -/
def decLoop : Nat → Nat → List UInt8
  | 0, _ => []
  | f + 1, n => if n < 10 then [UInt8.ofNat (0x30 + n)] else decLoop f (n / 10) ++ [UInt8.ofNat (0x30 + n % 10)]

/-- `%d` of a non-negative `int` -/
def dec (n : Nat) : List UInt8 := decLoop (n + 1) n

/-- right alignment to width `k` with blanks (`%<k>d`, `%1s`) -/
def pad (k : Nat) (s : List UInt8) : List UInt8 := List.replicate (k - s.length) 0x20 ++ s

/-- `numDigits(num, 10)` for `num ≥ 0` -/
def numDigits (n : Nat) : Nat := (dec n).length

/-- `emptyByte` -/
def emptyCell : List UInt8 := [0x2e, 0x2e]

/-- `if i < len(ln.ranges) && a >= ln.ranges[i].End() { i++ }` -/
def advance (ranges : List Range) (i a : Nat) : Nat :=
  match ranges[i]? with
  | some r => if a ≥ r.2 then i + 1 else i
  | none => i

/-- the cell of address `a`, `i` already advanced; `none` = a panic -/
def cellAt (mem : Mem) (ranges : List Range) (i a : Nat) : Option (List UInt8) :=
  match ranges[i]? with
  | none => some emptyCell
  | some r =>
    if r.1 > a then some emptyCell
    else
      match mem.load1 a with
      | none => none                                -- "bug: expected expr.Const"
      | some [] => none                             -- c.Bytes()[0]
      | some (b :: _) => some (hex2 b)

/-- the blanks written before the cell at offset `off` -/
def sepAt (off : Nat) : List UInt8 :=
  (if off ≠ 0 then [0x20] else []) ++ (if off ≠ 0 ∧ off % bytesSpace = 0 then [0x20, 0x20] else [])

/-- the loop of `formatMemLine` (after F80: `for off := 0; off < bytesPerLine; off++`), `i` is the
index into `ln.ranges`; the fuel is `bytesPerLine - off`.  `none` = a panic. -/
def fmtLoop (mem : Mem) (ln : Line) : Nat → Nat → Nat → Option (List UInt8)
  | 0, _, _ => some []
  | f + 1, off, i =>
    let a := ln.addr + off
    let i' := advance ln.ranges i a
    match cellAt mem ln.ranges i' a, fmtLoop mem ln f (off + 1) i' with
    | some c, some rest => some (sepAt off ++ c ++ rest)
    | _, _ => none

/-- `formatMemLine` -/
def formatMemLine (mem : Mem) (ln : Line) : Option (List UInt8) := fmtLoop mem ln bytesPerLine 0 0

/-- one printed row: `format` / `emptyLineFormat` -/
def printRow (mem : Option Mem) (idw : Nat) (cursor i : Nat) (ln : Line) : Option (List UInt8) :=
  let cur : List UInt8 := pad 1 (if i = cursor then [0x3e] else [])
  let head := cur ++ [0x20] ++ pad idw (dec i) ++ [0x20, 0x20, 0x7c, 0x20]
  if ln.isEllipsis then some (head ++ [0x2e, 0x2e, 0x2e, 0x0a])
  else
    match mem with
    | none => none                                    -- nil interface
    | some m =>
      match formatMemLine m ln with
      | none => none
      | some cells =>
        some (head ++ [0x30, 0x78] ++ hex16 ln.addr ++ [0x20, 0x2d, 0x20, 0x30, 0x78] ++
          hex16 ((ln.addr + bytesPerLine) % 2 ^ 64) ++ [0x20, 0x7c, 0x20] ++ cells ++ [0x0a])

/-- `int(math.Floor(float64(n)/(math.Phi+1)))` for `0 ≤ n ≤ 10^6`: `⌊n/φ²⌋ = ⌊(3n - √(5n²))/2⌋` -/
def phiOff (n : Nat) : Nat := (3 * n - Nat.sqrt (5 * n * n) - 1) / 2

/-- rows `begin ≤ i < end` -/
def printRows (mem : Option Mem) (idw cursor : Nat) : Nat → List Line → Option (List UInt8)
  | _, [] => some []
  | i, ln :: rest =>
    match printRow mem idw cursor i ln, printRows mem idw cursor (i + 1) rest with
    | some r, some rs => some (r ++ rs)
    | _, _ => none

/-- `"\n\n\tNO MEMORY TO SHOW\n\n\n"` -/
def noMemory : List UInt8 :=
  [0x0a, 0x0a, 0x09, 0x4e, 0x4f, 0x20, 0x4d, 0x45, 0x4d, 0x4f, 0x52, 0x59, 0x20, 0x54, 0x4f, 0x20,
   0x53, 0x48, 0x4f, 0x57, 0x0a, 0x0a, 0x0a]

/-- the window of `Print(n)`: `begin`, `end` -/
def window (v : View) (n : Nat) : Nat × Nat :=
  let begin := v.cursor - phiOff n                      -- `if begin < 0 { begin = 0 }`
  let end_ := if begin + n > v.lines.length then v.lines.length else begin + n
  (begin, end_)

/-- `Print(n)` for `n ≥ 0`: the bytes written to stdout; `none` = a panic -/
def print (mem : Option Mem) (v : View) (n : Nat) : Option (List UInt8) :=
  if v.lines.isEmpty then some noMemory
  else
    let (b, e) := window v n
    printRows mem (numDigits v.lines.length) v.cursor b ((v.lines.drop b).take (e - b))

/-! ### the two memories -/

def toRange (i : Interval.Intv) : Range := (i.1.toNat, i.2.toNat)

/-- a sparse memory -/
def ofSparse (t : Sparse.Tree) : Mem where
  blocks := match Sparse.blocks t with
    | .ok m => some (m.map toRange)
    | .error _ => none
  load1 a := match Sparse.load t a 1 with
    | .ok (some e) =>
      match constFold e with
      | .const bs => some bs
      | _ => none
    | _ => none

/-- a byte memory -/
def ofBytes (bs : List BytesMem.Block) : Mem where
  blocks := some ((BytesMem.blocks bs).map toRange)
  load1 a := match BytesMem.load bs a 1 with
    | .ok (some c) =>
      match constFold (.const c) with
      | .const c' => some c'
      | _ => none
    | _ => none

end Mltwist.MemView
