import Mltwist.Model.BytesMem
/-
Heap-level model of `internal/state/memory/bytes.go` (C15, aliasing clause): the SAME functions as
in `Model/BytesMem`, but byte slices are Go slices `(array id, offset, len, cap)` over a heap of
byte arrays, with the semantics of `make`, `copy`, `append` and re-slicing.  What it is for: which
arrays does an operation write?  (The value view of this model — every slice replaced by the bytes
it denotes — is `Model/BytesMem`; the driver cross-checks the two on every case.)

Not modelled at heap level: the slice of block structs `b.blocks` itself (a value list here; it is
created by `NewBytes` and never handed out), interval maps, the interface values `ByteBlock`/`Expr`.
A constant is represented by the slice `c.bs` it wraps.

`Cfg.grow oldcap needed` stands for the capacity chosen by Go's `growslice` (implementation defined;
anything below `needed` is raised to `needed`).  `Cfg.fixF05 = false` gives the pinned behaviour of
`store` (`bytes: bs[:end-addr]`), `true` the repaired one (`append([]byte(nil), bs[:end-addr]...)`).
-/
namespace Mltwist.BytesHeap
open Mltwist.BytesMem (Fail)

/-- the heap: array id ↦ contents -/
abbrev Heap := List (List UInt8)

structure Slice where
  arr : Nat
  off : Nat
  len : Nat
  cap : Nat
  deriving DecidableEq, Repr, Inhabited

structure Cfg where
  grow : Nat → Nat → Nat
  fixF05 : Bool

/-- contents of array `id` -/
def arrOf (h : Heap) (id : Nat) : List UInt8 := (h[id]?).getD []

/-- the bytes a slice denotes -/
def read (h : Heap) (s : Slice) : List UInt8 := ((arrOf h s.arr).drop s.off).take s.len

/-- overwrite array `id` from position `pos` with `data` -/
def writeAt (h : Heap) (id pos : Nat) (data : List UInt8) : Heap :=
  h.set id ((arrOf h id).take pos ++ data ++ (arrOf h id).drop (pos + data.length))

/-- `make([]byte, n)` -/
def alloc (h : Heap) (n : Nat) : Heap × Slice :=
  (h ++ [List.replicate n 0], { arr := h.length, off := 0, len := n, cap := n })

/-- `[]byte(nil)` -/
def nilSlice : Slice := { arr := 0, off := 0, len := 0, cap := 0 }

/-- `s[lo:hi]`; `none` = slice bounds out of range -/
def reslice (s : Slice) (lo hi : Nat) : Option Slice :=
  if lo ≤ hi ∧ hi ≤ s.cap then some { arr := s.arr, off := s.off + lo, len := hi - lo, cap := s.cap - lo }
  else none

/-- builtin `copy(dst, src)` -/
def copyH (h : Heap) (dst src : Slice) : Heap × Nat :=
  let n := min dst.len src.len
  (writeAt h dst.arr dst.off ((read h src).take n), n)

/-- builtin `append(s, src...)` -/
def appendH (cfg : Cfg) (h : Heap) (s src : Slice) : Heap × Slice :=
  let data := read h src
  if s.len + data.length ≤ s.cap then
    (writeAt h s.arr (s.off + s.len) data, { s with len := s.len + data.length })
  else
    let need := s.len + data.length
    let newcap := max (cfg.grow s.cap need) need
    (h ++ [read h s ++ data ++ List.replicate (newcap - need) 0],
      { arr := h.length, off := 0, len := need, cap := newcap })

/-- `byteBlock` -/
abbrev HBlock := Nat × Slice

def hend (b : HBlock) : Nat := b.1 + b.2.len

/-- the loop of `NewBytes` that copies the blocks (empty blocks skipped, F36) -/
def copyBlocks (h : Heap) : List HBlock → Heap × List HBlock
  | [] => (h, [])
  | (b, s) :: rest =>
    if s.len = 0 then copyBlocks h rest
    else
      let (h1, c) := alloc h s.len              -- bytesCopy := make([]byte, len(bytes))
      let (h2, _) := copyH h1 c s               -- copy(bytesCopy, b.Bytes())
      let (h3, r) := copyBlocks h2 rest
      (h3, (b, c) :: r)

def insertByBegin (x : HBlock) : List HBlock → List HBlock
  | [] => [x]
  | y :: ys => if x.1 < y.1 then x :: y :: ys else y :: insertByBegin x ys

def sortByBegin (l : List HBlock) : List HBlock := l.foldl (fun acc x => insertByBegin x acc) []

/-- the loop of `dedupBlocks` (cursors as in `BytesMem.dedupLoop`) -/
def dedupLoopH (cfg : Cfg) : Nat → Heap → List HBlock → Nat → Nat → Heap × Except Fail (List HBlock)
  | 0, h, bs, _, j => (h, .ok (bs.take j))
  | fuel + 1, h, bs, i, j =>
    match bs[j - 1]?, bs[i]? with
    | some p, some c =>
      if hend p > c.1 then (h, .error .overlap)
      else if hend p = c.1 then
        let (h', s') := appendH cfg h p.2 c.2      -- bs[j-1].bytes = append(bs[j-1].bytes, bs[i].bytes...)
        dedupLoopH cfg fuel h' (bs.set (j - 1) (p.1, s')) (i + 1) j
      else dedupLoopH cfg fuel h (bs.set j c) (i + 1) (j + 1)
    | _, _ => (h, .error .index)

def dedupBlocksH (cfg : Cfg) (h : Heap) (bs : List HBlock) : Heap × Except Fail (List HBlock) :=
  if bs.length < 2 then (h, .ok bs) else dedupLoopH cfg (bs.length - 1) h bs 1 1

/-- `NewBytes` -/
def newBytesH (cfg : Cfg) (h : Heap) (input : List HBlock) : Heap × Except Fail (List HBlock) :=
  let (h1, bs) := copyBlocks h input
  dedupBlocksH cfg h1 (sortByBegin bs)

/-- `Bytes.address` -/
def addressH (bs : List HBlock) (addr : Nat) : Option Nat :=
  let idx := bs.findIdx fun b => decide (addr < hend b)
  match bs[idx]? with
  | none => none
  | some b => if addr < b.1 then none else some idx

/-- `expr.NewConst(b, w)`: `bCopy := make([]byte, w); copy(bCopy, b)` -/
def newConstH (h : Heap) (b : Slice) (w : Nat) : Heap × Slice :=
  let (h1, c) := alloc h w
  let (h2, _) := copyH h1 c b
  (h2, c)

/-- `Bytes.Load` -/
def loadH (h : Heap) (bs : List HBlock) (addr w : Nat) : Heap × Except Fail (Option Slice) :=
  let end_ := addr + w
  match addressH bs addr with
  | none => (h, .ok none)
  | some blockIdx =>
    match bs[blockIdx]? with
    | none => (h, .error .index)
    | some block =>
      if hend block < end_ then (h, .ok none)
      else
        let baseIdx := addr - block.1
        match reslice block.2 baseIdx (baseIdx + w) with
        | none => (h, .error .index)
        | some s =>
          let (h', c) := newConstH h s w
          (h', .ok (some c))

/-- `Const.WithWidth` -/
def withWidthH (h : Heap) (c : Slice) (w : Nat) : Heap × Except Fail Slice :=
  if c.len = w then (h, .ok c)
  else if c.len > w then
    match reslice c 0 w with                       -- newConst(c.bs[:w])
    | some s => (h, .ok s)
    | none => (h, .error .index)
  else
    let (h', s) := newConstH h c w
    (h', .ok s)

def cutEndH (next : Option HBlock) (end0 : Nat) : Nat :=
  match next with
  | some nb => if nb.1 < end0 then nb.1 else end0
  | none => end0

/-- `Bytes.store` -/
def storeH (cfg : Cfg) (h : Heap) (bs : List HBlock) (addr : Nat) (data : Slice) :
    Heap × Except Fail (List HBlock × Nat) :=
  match addressH bs addr with
  | some blockIdx =>
    match bs[blockIdx]? with
    | none => (h, .error .index)
    | some block =>
      let beginIdx := addr - block.1
      let endIdx := if beginIdx + data.len > block.2.len then block.2.len else beginIdx + data.len
      match reslice block.2 beginIdx endIdx with
      | none => (h, .error .index)
      | some dst =>
        let (h', _) := copyH h dst data             -- copy(block.bytes[beginIdx:endIdx], bs)
        (h', .ok (bs, endIdx - beginIdx))
  | none =>
    let end0 := addr + data.len
    let idx := bs.findIdx fun b => decide (addr < b.1)
    let end_ := cutEndH bs[idx]? end0
    match reslice data 0 (end_ - addr) with         -- bs[:end-addr]
    | none => (h, .error .index)
    | some piece =>
      let (h', stored) := if cfg.fixF05 then appendH cfg h nilSlice piece else (h, piece)
      let grown := bs ++ [((0 : Nat), nilSlice)]
      let shifted := grown.take (idx + 1) ++ bs.drop idx
      (h', .ok (shifted.set idx (addr, stored), end_ - addr))

/-- the loop of `Store` -/
def storeLoopH (cfg : Cfg) : Nat → Heap → List HBlock → Nat → Slice → Heap × Except Fail (List HBlock)
  | 0, h, bs, _, data => if data.len = 0 then (h, .ok bs) else (h, .error .fuel)
  | fuel + 1, h, bs, addr, data =>
    if data.len = 0 then (h, .ok bs)
    else
      match storeH cfg h bs addr data with
      | (h', .error e) => (h', .error e)
      | (h', .ok (bs', n)) =>
        match reslice data n data.len with          -- bs = bs[n:]
        | none => (h', .error .index)
        | some data' => storeLoopH cfg fuel h' bs' (addr + n) data'

/-- `Bytes.Store` of a constant wrapping the slice `c` -/
def storeConstH (cfg : Cfg) (h : Heap) (bs : List HBlock) (addr w : Nat) (c : Slice) :
    Heap × Except Fail (List HBlock) :=
  match withWidthH h c w with
  | (h1, .error e) => (h1, .error e)
  | (h1, .ok data) =>
    match storeLoopH cfg data.len h1 bs addr data with
    | (h2, .error e) => (h2, .error e)
    | (h2, .ok bs') => dedupBlocksH cfg h2 bs'

/-- the value view: every slice replaced by the bytes it denotes -/
def view (h : Heap) (bs : List HBlock) : List BytesMem.Block := bs.map fun b => (b.1, read h b.2)

/-! ### histories with a monitor of everything the caller holds -/

/-- a constant the caller passes to `Store`: one it held from the start, or the result of the
`k`-th successful `Load` -/
inductive CRef where
  | ext (s : Slice)
  | loaded (k : Nat)
  deriving Repr

inductive HOp where
  | st (addr w : Nat) (c : CRef)
  | ld (addr w : Nat)
  deriving Repr

structure HState where
  heap : Heap
  blocks : List HBlock
  /-- the constants returned by `Load` so far -/
  loaded : List Slice
  /-- every slice handed over or returned, with its contents at that time -/
  mon : List (Slice × List UInt8)

def watch (h : Heap) (s : Slice) (mon : List (Slice × List UInt8)) : List (Slice × List UInt8) :=
  mon ++ [(s, read h s)]

def resolve (st : HState) : CRef → Option Slice
  | .ext s => some s
  | .loaded k => st.loaded[k]?

/-- the observable answer of an operation -/
inductive Ans where
  | ok
  | panic
  | loaded (c : Option Slice)
  | skipped
  deriving Repr

/-- one operation; a panic of `Store` leaves `b.blocks = nil` behind (`b.blocks, err = dedupBlocks(..)`) -/
def stepA (cfg : Cfg) (st : HState) : HOp → HState × Ans
  | .st addr w c =>
    match resolve st c with
    | none => (st, .skipped)
    | some s =>
      let mon := watch st.heap s st.mon
      match storeConstH cfg st.heap st.blocks addr w s with
      | (h', .ok bs') => ({ st with heap := h', blocks := bs', mon := mon }, .ok)
      | (h', .error _) => ({ st with heap := h', blocks := [], mon := mon }, .panic)
  | .ld addr w =>
    match loadH st.heap st.blocks addr w with
    | (h', .ok (some c)) =>
      ({ st with heap := h', loaded := st.loaded ++ [c], mon := watch h' c st.mon }, .loaded (some c))
    | (h', .ok none) => ({ st with heap := h' }, .loaded none)
    | (h', .error _) => ({ st with heap := h' }, .panic)

def stepH (cfg : Cfg) (st : HState) (op : HOp) : HState := (stepA cfg st op).1

/-- `NewBytes` on blocks the caller holds, then a history -/
def runH (cfg : Cfg) (h0 : Heap) (input : List HBlock) (ops : List HOp) : Option HState :=
  let mon0 := input.foldl (fun m b => watch h0 b.2 m) []
  match newBytesH cfg h0 input with
  | (_, .error _) => none
  | (h1, .ok bs) => some (ops.foldl (stepH cfg) { heap := h1, blocks := bs, loaded := [], mon := mon0 })

/-- number of monitored slices whose contents changed -/
def changed (st : HState) : Nat := (st.mon.filter fun m => read st.heap m.1 != m.2).length

end Mltwist.BytesHeap
