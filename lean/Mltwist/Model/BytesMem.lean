import Mltwist.Model.Const
import Mltwist.Model.Interval
/-
Value model of `internal/state/memory/bytes.go` (C15): the byte memory as a list of blocks
`(begin, bytes)`.  Addresses are `Nat` (Go: `model.Addr = uint64`; the property only speaks about
ranges whose end is representable, `addr + w < 2^64`, where no `uint64` operation of the code
wraps).  Byte slices are values here; everything that concerns sharing of backing arrays is the
subject of the second, heap-level model `Mltwist.Model.BytesHeap`.

Library stand-ins (trusted base): `sort.Slice` = stable insertion sort by `begin`;
`sort.Search(n, p)` = the least index satisfying `p` or `n` (`List.findIdx`); the builtin
`copy`/`append` on values = `take`/`drop`/`++`.

Every Go operation that can panic is an explicit failure: `Fail.index` (index or slice bounds out of
range), `Fail.overlap` (`dedupBlocks` returns an error: the error of `NewBytes`, and the
`bug: store resulted in byte overlap` panic of `Store`), `Fail.nonConst` (the documented panic of
`Store` for a non-constant expression).  `Fail.fuel` is the only model artefact (the `for len(bs) > 0`
loop of `Store` runs on fuel `len(bs)`; `Lemmas/BytesMem` proves it is never reported).

The model follows the code after the repairs F32 (element shift by `copy`), F05 (stored bytes are
copied; invisible at value level) and F36 (`NewBytes` skips empty blocks).
-/
namespace Mltwist.BytesMem

/-- `byteBlock{begin, bytes}` -/
abbrev Block := Nat × List UInt8

/-- `byteBlock.end()` -/
def bend (b : Block) : Nat := b.1 + b.2.length

inductive Fail where
  | overlap
  | index
  | nonConst
  | fuel
  deriving DecidableEq, Repr, Inhabited

instance decEqResult {α : Type} [DecidableEq α] : DecidableEq (Except Fail α)
  | .ok a, .ok b => if h : a = b then isTrue (by rw [h]) else isFalse (fun e => by cases e; exact h rfl)
  | .error a, .error b =>
    if h : a = b then isTrue (by rw [h]) else isFalse (fun e => by cases e; exact h rfl)
  | .ok _, .error _ => isFalse (fun e => by cases e)
  | .error _, .ok _ => isFalse (fun e => by cases e)

/-- insertion into a list sorted by `begin`, after all elements with an equal `begin` -/
def insertByBegin (x : Block) : List Block → List Block
  | [] => [x]
  | y :: ys => if x.1 < y.1 then x :: y :: ys else y :: insertByBegin x ys

/-- stable sort by `begin` (stands for `sort.Slice`) -/
def sortByBegin (l : List Block) : List Block := l.foldl (fun acc x => insertByBegin x acc) []

/-- Go slice expression `s[lo:hi]` on a value (`cap = len`); `none` = bounds panic -/
def sliceB (l : List UInt8) (lo hi : Nat) : Option (List UInt8) :=
  if lo ≤ hi ∧ hi ≤ l.length then some ((l.drop lo).take (hi - lo)) else none

/-- the loop of `dedupBlocks` on the array `bs` with its two cursors; the fuel is `len(bs) - i`
(the loop condition `i < len(bs)`).  `j--; continue` followed by the post statement `j+1` leaves
`j` unchanged. -/
def dedupLoop : Nat → List Block → Nat → Nat → Except Fail (List Block)
  | 0, bs, _, j => .ok (bs.take j)
  | fuel + 1, bs, i, j =>
    match bs[j - 1]?, bs[i]? with
    | some p, some c =>
      if bend p > c.1 then .error .overlap
      else if bend p = c.1 then dedupLoop fuel (bs.set (j - 1) (p.1, p.2 ++ c.2)) (i + 1) j
      else dedupLoop fuel (bs.set j c) (i + 1) (j + 1)
    | _, _ => .error .index

/-- `dedupBlocks` -/
def dedupBlocks (bs : List Block) : Except Fail (List Block) :=
  if bs.length < 2 then .ok bs else dedupLoop (bs.length - 1) bs 1 1

/-- `NewBytes`: copy (empty blocks are skipped, F36), sort, `dedupBlocks` -/
def newBytes (l : List Block) : Except Fail (List Block) :=
  dedupBlocks (sortByBegin (l.filter fun b => !b.2.isEmpty))

/-- `Bytes.address`: the index of the block containing `addr` -/
def address (bs : List Block) (addr : Nat) : Option Nat :=
  let idx := bs.findIdx fun b => decide (addr < bend b)
  match bs[idx]? with
  | none => none                                   -- idx == len(b.blocks)
  | some b => if addr < b.1 then none else some idx

/-- `Bytes.Load`; the inner option is the boolean result -/
def load (bs : List Block) (addr w : Nat) : Except Fail (Option (List UInt8)) :=
  let end_ := addr + w
  match address bs addr with
  | none => .ok none
  | some blockIdx =>
    match bs[blockIdx]? with
    | none => .error .index
    | some block =>
      if bend block < end_ then .ok none
      else
        let baseIdx := addr - block.1
        match sliceB block.2 baseIdx (baseIdx + w) with
        | none => .error .index
        | some s => .ok (some (Const.newConst s w))

/-- `if idx != len(b.blocks) && b.blocks[idx].begin < end { end = b.blocks[idx].begin }`;
`next` is `b.blocks[idx]` if `idx != len(b.blocks)` -/
def cutEnd (next : Option Block) (end0 : Nat) : Nat :=
  match next with
  | some nb => if nb.1 < end0 then nb.1 else end0
  | none => end0

/-- `Bytes.store`: writes a prefix of `data` at `addr`, returns the new blocks and the number of
bytes written -/
def store (bs : List Block) (addr : Nat) (data : List UInt8) : Except Fail (List Block × Nat) :=
  match address bs addr with
  | some blockIdx =>
    match bs[blockIdx]? with
    | none => .error .index
    | some block =>
      let beginIdx := addr - block.1
      let endIdx := if beginIdx + data.length > block.2.length then block.2.length
        else beginIdx + data.length
      if beginIdx > endIdx then .error .index          -- block.bytes[beginIdx:endIdx]
      else
        let n := endIdx - beginIdx                       -- copy: min(len dst, len src)
        .ok (bs.set blockIdx
          (block.1, block.2.take beginIdx ++ data.take n ++ block.2.drop endIdx), n)
  | none =>
    let end0 := addr + data.length
    let idx := bs.findIdx fun b => decide (addr < b.1)
    let end_ := cutEnd bs[idx]? end0
    match sliceB data 0 (end_ - addr) with               -- bs[:end-addr]
    | none => .error .index
    | some piece =>
      let grown := bs ++ [((0 : Nat), ([] : List UInt8))] -- append(b.blocks, byteBlock{})
      let shifted := grown.take (idx + 1) ++ bs.drop idx  -- copy(b.blocks[idx+1:], b.blocks[idx:])
      .ok (shifted.set idx (addr, piece), end_ - addr)

/-- the loop `for len(bs) > 0 { n := b.store(addr, bs); bs = bs[n:]; addr += n }` -/
def storeLoop : Nat → List Block → Nat → List UInt8 → Except Fail (List Block)
  | _, bs, _, [] => .ok bs
  | 0, _, _, _ :: _ => .error .fuel
  | fuel + 1, bs, addr, d :: ds =>
    match store bs addr (d :: ds) with
    | .error e => .error e
    | .ok (bs', n) => storeLoop fuel bs' (addr + n) ((d :: ds).drop n)

/-- `Bytes.Store` of a constant with bytes `c` -/
def storeConst (bs : List Block) (addr w : Nat) (c : List UInt8) : Except Fail (List Block) :=
  let data := Const.withWidth c w
  match storeLoop data.length bs addr data with
  | .error e => .error e
  | .ok bs' => dedupBlocks bs'

/-- `Bytes.Store` -/
def storeExpr (bs : List Block) (addr w : Nat) (ex : Expr) : Except Fail (List Block) :=
  match ex with
  | .const c => storeConst bs addr w c
  | _ => .error .nonConst

/-- `Bytes.intervalMap` -/
def intervalMap (bs : List Block) : List Interval.Intv :=
  Interval.newMap (bs.map fun b => ((b.1 : Int), (bend b : Int)))

/-- `Bytes.Missing` -/
def missing (bs : List Block) (addr w : Nat) : List Interval.Intv :=
  Interval.mapComplement (Interval.newMap [((addr : Int), ((addr + w : Nat) : Int))]) (intervalMap bs)

/-- `Bytes.Blocks` -/
def blocks (bs : List Block) : List Interval.Intv := intervalMap bs

/-- a history of constant stores `(addr, w, constant bytes)` -/
def runStores : List Block → List (Nat × Nat × List UInt8) → Except Fail (List Block)
  | bs, [] => .ok bs
  | bs, (a, w, c) :: rest =>
    match storeConst bs a w c with
    | .error e => .error e
    | .ok bs' => runStores bs' rest

end Mltwist.BytesMem
