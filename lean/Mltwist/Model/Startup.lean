import Mltwist.Model.Parse
import Mltwist.Model.BasicBlock
import Mltwist.Model.BytesMem
/-
Model of start-up (C26): `cmd/mltwist/main.go` — `run`, `parseElf`, `runIU` up to, but excluding,
`ui.Run()` — as the composition of the component models:

  `len(os.Args) != 2`                                      → exit 1 (arguments)
  `elf.NewParser`            (C20 `load`: open, type test)  → exit 1 (elf)
  `Parser.MachineCode`       (C20 `machineCode`)            → exit 1 (code)
  `Parser.Memory`            (C20 `memory lim`)             → exit 1 (memory) / crash (allocation, F19)
  `riscv.NewParser(Variant64, ExtM, ExtA)` (C19 `newMatcher` on the regenerated table; a failure is the
                                            `bug: matcher creation failed` panic)
  `parser.Parse`             (C21 `parseRv64`)              → exit 1 (parse)
  `deps.NewCode`             (C08 `newCode`)                → exit 1 (model)
  `memory.NewBytes`          (C15 `newBytes`)               → exit 1 (bytes)
  `disassemble.New`, `consoleui.New`: construction of the UI objects — OUTSIDE the model (they
  depend on nothing that was loaded; the differential check executes them and stops before `Run`).

`parseElf` evaluates `MachineCode` before `Memory` and returns at the first error, so a file without
code never reaches the allocation of `Memory`.

Outside the model (C26 is partial by nature): `debug/elf` and the operating system (the model starts
from the argument count and the `debug/elf` view of the file, `none` when the file cannot be opened:
missing, a directory, not ELF, truncated), the allocator (`lim`), the terminal.
-/
namespace Mltwist.Startup
open Mltwist Mltwist.Elf Mltwist.Parse

inductive Stage where
  | args      -- "unexpected number of arguments"
  | elf       -- "ELF parsing failed: cannot create elf parser"
  | code      -- "ELF parsing failed: machine code cannot be extracted from ELF"
  | memory    -- "ELF parsing failed: cannot extract program memory from ELF"
  | parse     -- "instruction parsing failed"
  | model     -- "cannot parse model"
  | bytes     -- "cannot create byte memory of a program"
  deriving DecidableEq, Repr

inductive Outcome where
  | ui                     -- `ui.Run()` is reached
  | exit1 (s : Stage)      -- `mltwist: <message>` on stderr, exit status 1
  | panic                  -- the process crashes (Go panic or out-of-memory kill)
  deriving DecidableEq, Repr

/-- what `deps.NewCode` sees of a `parser.Instruction`: `Begin()`, `Len()`, `Effects` -/
def codeInput {δ : Type} (is : List (Ins δ)) : List (Nat × Nat × List Effect) :=
  is.map fun i => (i.addr, i.bytes.length, i.effects)

/-- `runIU` up to `ui.Run()` -/
def runIU (mem : List Block) : Outcome :=
  match BytesMem.newBytes mem with
  | .error .overlap => .exit1 .bytes
  | .error _ => .panic
  | .ok _ => .ui

/-- `run()` after the argument check and `parseElf` -/
def runLoaded (entry : Nat) (code mem : List Block) : Outcome :=
  match Opcode.newMatcher (Riscv.patsOf rv64Table) with
  | .error _ => .panic                          -- "bug: matcher creation failed"
  | .ok _ =>
    match parseRv64 code with
    | .error (.parse _ _) => .exit1 .parse
    | .error (.invalid _) => .exit1 .parse
    | .error _ => .panic
    | .ok is =>
      match BasicBlock.newCode entry (codeInput is) with
      | .error .panic => .panic
      | .error _ => .exit1 .model
      | .ok _ => runIU mem

/-- `run()`: `nargs` = number of command line arguments (`len(os.Args) - 1`), `v` = the `debug/elf`
view of the file named by the argument (`none`: it cannot be opened) -/
def run (lim : Nat) (nargs : Nat) (v : Option View) : Outcome :=
  if nargs + 1 ≠ 2 then .exit1 .args
  else match load lim v with
    | .error _ => .exit1 .elf
    | .ok l =>
      match l.code with
      | .error .panic => .panic
      | .error .alloc => .panic
      | .error _ => .exit1 .code
      | .ok code =>
        match l.mem with
        | .error .panic => .panic
        | .error .alloc => .panic
        | .error _ => .exit1 .memory
        | .ok mem => runLoaded l.entry code mem

end Mltwist.Startup
