import Mltwist.Model.BasicBlock
/-
Model of the dependency analysis and the move bookkeeping of `internal/deps`
(`instruction.go`, `block.go`, `code.go`, `moves.go`, `deps_true.go`, `deps_anti.go`,
`deps_output.go`, `deps_control.go`, `deps_special.go`) — properties C05, C06, C07.
Basic-block construction is `Mltwist.BasicBlock` (C08) and is reused unchanged.

Pointers.  Go instructions and blocks are heap objects reached through pointers.  The model
gives every instruction an `id` (its position in the sequence handed to `newBlock`, i.e. in
the ORIGINAL order of its block) and every block a `ptr` (its position in `blocksByAddr`).
`depsFwd`/`depsBack` of all instructions of a block are one set of pairs `(id, id)` kept in
the block (`edges`; a list read as a set: only membership is ever used, `addDep` is a map
insertion).  `Code.blocks` is a list of block pointers into `store` (= `blocksByAddr`).

Go maps.  `regSet` is a duplicate-free list (`keySet`), `keyInsMap` an association list
(`List.lookup`, insertion = consing).  Every `for … range map` loop of the package only reads
a map that is not written in the same loop and inserts into a set, or writes pairwise different
keys, so the iteration order is irrelevant (proved as membership characterisations in
`Lemmas/DepsFinders.lean`).  `findBound` takes a maximum/minimum, which is order independent.

Aliasing in `move`.  `arr[i] = arr[i+1]; arr[i].setIndex(i)` mutates the object that slot `i+1`
still points to; that slot is overwritten by the next iteration or by `arr[to] = f`, so in the
final slice every object occurs once and carries the fields that were assigned to it last.
The value model (`List.set` of updated copies) yields exactly that slice.

Arithmetic.  `model.Addr` is `uint64`: `End()`, the block length and the block end wrap modulo
`2^64`.  Indices are Go `int`s: `from`/`to`/`i` arguments are `Int`, and so are the results of
`LowerBound`/`UpperBound` (`idx - 1` may be `-1`).  `blockIdx` is `-1` between `newInstruction`
and `newBlock`, which overwrites it before anything reads it; the model starts with `0`.

Go panics are explicit: `none` of the `Option`-valued functions below, `MoveErr.panic`,
`Answer.panic`.  REPAIRS (the pinned tree violates C05/C07, see corpus/C05.txt, C07.txt):
F07 `findOutputDepsReg` records every writer as the closest later writer (`regs[r] = ins` also
when a later writer exists), so the writers of a register form a chain; F08 `findControlDeps`
pins every instruction that writes the instruction pointer; F50 `Code.Address` compares with the
last byte of a block (`end - 1 >= a`), so a block that ends at `2^64` is found.
-/
namespace Mltwist.Deps
open Mltwist

/-- `model.Addr` is `uint64` -/
abbrev M : Nat := BasicBlock.M

/-- `expr.IPKey` -/
abbrev ipKey : String := BasicBlock.ipKey

/-! ### `instruction.go` -/

/-- insertion into a Go set (`map[expr.Key]struct{}`) -/
def insertKey (k : String) (s : List String) : List String := if k ∈ s then s else s ++ [k]

/-- the set of the keys of a list -/
def keySet (ks : List String) : List String := ks.foldl (fun s k => insertKey k s) []

/-- `exprtransform.ExprsMany` -/
def exprsMany (efs : List Effect) : List Expr := efs.flatMap Effect.exprs

def regLoadKey : Expr → Option String
  | .regLoad k _ => some k
  | _ => none

def memLoadKey : Expr → Option String
  | .memLoad k _ _ => some k
  | _ => none

/-- `inputRegs`: keys of all `RegLoad`s of all operand expressions -/
def inputRegs (efs : List Effect) : List String :=
  keySet ((exprsMany efs).flatMap fun ex => (findAll .regLoad ex).filterMap regLoadKey)

/-- `outputRegs`: keys of all `RegStore`s -/
def outputRegs (efs : List Effect) : List String :=
  keySet (efs.filterMap fun ef => match ef with
    | .regStore _ k _ => some k
    | .memStore .. => none)

/-- `loads`: all `MemLoad`s of all operand expressions; only `Key()` of them is ever used -/
def loads (efs : List Effect) : List String :=
  (exprsMany efs).flatMap fun ex => (findAll .memLoad ex).filterMap memLoadKey

/-- `stores`: all `MemStore`s; only `Key()` of them is ever used -/
def stores (efs : List Effect) : List String :=
  efs.filterMap fun ef => match ef with
    | .memStore _ k _ _ => some k
    | .regStore .. => none

/-- `deps.instruction` (without bytes/details: only `len(bytes)` matters) -/
structure Ins where
  /-- pointer identity: position in the original order of the block -/
  id : Nat
  typ : Nat
  origAddr : Nat
  len : Nat
  effects : List Effect
  jumpTargets : List Expr
  currAddr : Nat
  blockIdx : Nat
  deriving DecidableEq, Repr, Inhabited

namespace Ins
def inRegs (i : Ins) : List String := inputRegs i.effects
def outRegs (i : Ins) : List String := outputRegs i.effects
def loads (i : Ins) : List String := Deps.loads i.effects
def stores (i : Ins) : List String := Deps.stores i.effects
/-- `End()`: `currAddr + Len()` in `uint64` -/
def end_ (i : Ins) : Nat := (i.currAddr + i.len) % M
/-- `model.Type` bits: `TypeMemOrder = 1`, `TypeCPUStateChange = 2`, `TypeSyscall = 4` -/
def memOrder (i : Ins) : Bool := i.typ % 2 == 1
def cpuStateChange (i : Ins) : Bool := i.typ / 2 % 2 == 1
def syscall (i : Ins) : Bool := i.typ / 4 % 2 == 1
end Ins

/-- `newInstruction` -/
def newInstruction (typ addr len : Nat) (effects : List Effect) : Ins :=
  { id := 0, typ, origAddr := addr, len, effects,
    jumpTargets := BasicBlock.jumps addr len effects, currAddr := addr, blockIdx := 0 }

/-! ### the dependency finders -/

/-- all `depsFwd`/`depsBack` sets of a block: `(first, second)` -/
abbrev Edges := List (Nat × Nat)

/-- `keyInsMap` -/
abbrev KeyMap := List (String × Nat)

/-- `addDep(first, second)` -/
def addDep (first second : Nat) (E : Edges) : Edges := (first, second) :: E

/-- `for _, k := range keys { if dep, ok := m[k]; ok { addDep(dep, ins) } }` -/
def depsFromMap (keys : List String) (m : KeyMap) (ins : Nat) (E : Edges) : Edges :=
  keys.foldl (fun E k => match m.lookup k with
    | some dep => addDep dep ins E
    | none => E) E

/-- `for _, k := range keys { dep, ok := m[k]; if !ok || dep == ins { continue }; addDep(ins, dep) }`
(without the `dep == ins` test when `skipSelf = false`) -/
def depsToMap (skipSelf : Bool) (keys : List String) (m : KeyMap) (ins : Nat) (E : Edges) : Edges :=
  keys.foldl (fun E k => match m.lookup k with
    | some dep => if skipSelf && dep == ins then E else addDep ins dep E
    | none => E) E

/-- `for _, k := range keys { m[k] = ins }` -/
def setAll (keys : List String) (ins : Nat) (m : KeyMap) : KeyMap :=
  keys.foldl (fun m k => (k, ins) :: m) m

/-- `findTrueDepsReg` -/
def findTrueDepsReg (ins : Ins) (regs : KeyMap) (E : Edges) : KeyMap × Edges :=
  (setAll ins.outRegs ins.id regs, depsFromMap ins.inRegs regs ins.id E)

/-- `findTrueDepsMemory` -/
def findTrueDepsMemory (ins : Ins) (memory : KeyMap) (E : Edges) : KeyMap × Edges :=
  (setAll ins.stores ins.id memory, depsFromMap ins.loads memory ins.id E)

/-- body of the loop of `findTrueDeps`; state = (`regs`, `memory`, edges) -/
def trueStep (st : KeyMap × KeyMap × Edges) (ins : Ins) : KeyMap × KeyMap × Edges :=
  let r := findTrueDepsReg ins st.1 st.2.2
  let m := findTrueDepsMemory ins st.2.1 r.2
  (r.1, m.1, m.2)

/-- `findTrueDeps`: forward scan -/
def findTrueDeps (instrs : List Ins) (E : Edges) : Edges :=
  (instrs.foldl trueStep ([], [], E)).2.2

/-- `findAntiDepsReg` -/
def findAntiDepsReg (ins : Ins) (regs : KeyMap) (E : Edges) : KeyMap × Edges :=
  let regs := setAll ins.outRegs ins.id regs
  (regs, depsToMap true ins.inRegs regs ins.id E)

/-- `findAntiDepsMemory` -/
def findAntiDepsMemory (ins : Ins) (memory : KeyMap) (E : Edges) : KeyMap × Edges :=
  let memory := setAll ins.stores ins.id memory
  (memory, depsToMap true ins.loads memory ins.id E)

/-- body of the loop of `findAntiDeps` -/
def antiStep (ins : Ins) (st : KeyMap × KeyMap × Edges) : KeyMap × KeyMap × Edges :=
  let r := findAntiDepsReg ins st.1 st.2.2
  let m := findAntiDepsMemory ins st.2.1 r.2
  (r.1, m.1, m.2)

/-- `findAntiDeps`: backward scan (`foldr` visits the last instruction first) -/
def findAntiDeps (instrs : List Ins) (E : Edges) : Edges :=
  (instrs.foldr antiStep ([], [], E)).2.2

/-- `findOutputDepsReg` with the F07 repair: `regs[r] = ins` in both branches -/
def findOutputDepsReg (ins : Ins) (regs : KeyMap) (E : Edges) : KeyMap × Edges :=
  ins.outRegs.foldl (fun (st : KeyMap × Edges) r =>
    match st.1.lookup r with
    | none => ((r, ins.id) :: st.1, st.2)
    | some dep => ((r, ins.id) :: st.1, addDep ins.id dep st.2)) (regs, E)

/-- `findOutputDepsMemory` -/
def findOutputDepsMemory (ins : Ins) (memory : KeyMap) (E : Edges) : KeyMap × Edges :=
  (setAll ins.stores ins.id memory, depsToMap false ins.stores memory ins.id E)

/-- body of the loop of `findOutputDeps` -/
def outputStep (ins : Ins) (st : KeyMap × KeyMap × Edges) : KeyMap × KeyMap × Edges :=
  let r := findOutputDepsReg ins st.1 st.2.2
  let m := findOutputDepsMemory ins st.2.1 r.2
  (r.1, m.1, m.2)

/-- `findOutputDeps`: backward scan -/
def findOutputDeps (instrs : List Ins) (E : Edges) : Edges :=
  (instrs.foldr outputStep ([], [], E)).2.2

/-- the F08 repair in `findControlDeps`: `for i, ins := range instrs`; `before = instrs[:i]` -/
def pinLoop : List Ins → List Ins → Edges → Edges
  | _, [], E => E
  | before, ins :: after, E =>
    let E :=
      if ipKey ∈ ins.outRegs then
        let E := before.foldl (fun E prev => addDep prev.id ins.id E) E
        after.foldl (fun E next => addDep ins.id next.id E) E
      else E
    pinLoop (before ++ [ins]) after E

/-- `findControlDeps`; `none` = `instrs[len(instrs)-1]` on an empty slice -/
def findControlDeps (instrs : List Ins) (E : Edges) : Option Edges :=
  let E := pinLoop [] instrs E
  match instrs.getLast? with
  | none => none
  | some last =>
    if last.jumpTargets.length = 0 then some E
    else some (instrs.dropLast.foldl (fun E ins => addDep ins.id last.id E) E)

/-- `isMemAccess` -/
def isMemAccess (ins : Ins) : Bool := ins.stores.length > 0 || ins.loads.length > 0
/-- `insMemOrder` -/
def insMemOrder (ins : Ins) : Bool := ins.memOrder
/-- `insSpecial` -/
def insSpecial (ins : Ins) : Bool := ins.syscall || ins.cpuStateChange

/-- the state of both walks of `findSpecialDeps`: `lastMemOrder`, `lastSpecial`, edges -/
structure SpecialState where
  lastMemOrder : Option Nat
  lastSpecial : Option Nat
  edges : Edges

/-- the tail of both loop bodies -/
def specialUpdate (ins : Ins) (st : SpecialState) : SpecialState :=
  let lmo := if insMemOrder ins then some ins.id else st.lastMemOrder
  if insSpecial ins then { lastMemOrder := none, lastSpecial := some ins.id, edges := st.edges }
  else { st with lastMemOrder := lmo }

/-- body of the first (forward) walk -/
def specialFwdStep (st : SpecialState) (ins : Ins) : SpecialState :=
  let E := st.edges
  let E := match st.lastMemOrder with
    | some m => if isMemAccess ins then addDep m ins.id E else E
    | none => E
  let E := match st.lastSpecial with
    | some s => addDep s ins.id E
    | none => E
  specialUpdate ins { st with edges := E }

/-- body of the second (backward) walk -/
def specialBackStep (ins : Ins) (st : SpecialState) : SpecialState :=
  let E := st.edges
  let E := match st.lastMemOrder with
    | some m => if isMemAccess ins || insMemOrder ins then addDep ins.id m E else E
    | none => E
  let E := match st.lastSpecial with
    | some s => addDep ins.id s E
    | none => E
  specialUpdate ins { st with edges := E }

/-- `findSpecialDeps` -/
def findSpecialDeps (instrs : List Ins) (E : Edges) : Edges :=
  let st := instrs.foldl specialFwdStep ⟨none, none, E⟩
  if st.lastMemOrder.isNone && st.lastSpecial.isNone then st.edges
  else (instrs.foldr specialBackStep ⟨none, none, st.edges⟩).edges

/-! ### `block.go` -/

structure Block where
  /-- pointer identity: position in `blocksByAddr` -/
  ptr : Nat
  begin : Nat
  end_ : Nat
  seq : List Ins
  edges : Edges
  idx : Nat
  deriving DecidableEq, Repr, Inhabited

/-- the first loop of `newBlock` (`ins.setIndex(i)`); it also fixes the model's pointer ids -/
def indexFrom : Nat → List Ins → List Ins
  | _, [] => []
  | k, ins :: rest => { ins with id := k, blockIdx := k } :: indexFrom (k + 1) rest

/-- `length += ins.Len()` in `uint64` -/
def seqLength (seq : List Ins) : Nat := seq.foldl (fun l ins => (l + ins.len) % M) 0

/-- the five finders in the order of `newBlock`; `none` = panic of `findControlDeps` -/
def findAllDeps (seq : List Ins) : Option Edges :=
  (findControlDeps seq (findOutputDeps seq (findAntiDeps seq (findTrueDeps seq [])))).map
    (findSpecialDeps seq)

/-- `newBlock`; `none` = panic (`instrs[len(instrs)-1]`, `seq[0]` of an empty sequence) -/
def newBlock (idx : Nat) (seq : List Ins) : Option Block :=
  let seq := indexFrom 0 seq
  match findAllDeps seq, seq with
  | some E, first :: _ =>
    some { ptr := idx, begin := first.currAddr, end_ := (first.currAddr + seqLength seq) % M,
           seq, edges := E, idx }
  | _, _ => none

/-- `ins.blockIdx` through the pointer `id` -/
def blockIdxOf (seq : List Ins) (id : Nat) : Option Nat :=
  (seq.find? (·.id == id)).map (·.blockIdx)

/-- `findBound`; the initial `curr = -1` is `none` -/
def findBound (cmpF : Nat → Nat → Bool) (seq : List Ins) (set : List Nat) : Option Nat :=
  set.foldl (fun curr id =>
    match blockIdxOf seq id with
    | none => curr
    | some bi =>
      match curr with
      | none => some bi
      | some c => if cmpF bi c then some bi else curr) none

/-- `ins.depsBack` -/
def Block.depsBack (b : Block) (id : Nat) : List Nat :=
  b.edges.filterMap fun e => if e.2 = id then some e.1 else none

/-- `ins.depsFwd` -/
def Block.depsFwd (b : Block) (id : Nat) : List Nat :=
  b.edges.filterMap fun e => if e.1 = id then some e.2 else none

/-- `b.index(i)`: `b.seq[i]`, `none` = index out of range -/
def Block.index (b : Block) (i : Int) : Option Ins :=
  if i < 0 then none else b.seq[i.toNat]?

/-- `LowerBound`; `none` = panic -/
def Block.lowerBound (b : Block) (i : Int) : Option Int :=
  (b.index i).map fun ins =>
    match findBound (fun x y => x > y) b.seq (b.depsBack ins.id) with
    | none => 0
    | some idx => (idx : Int) + 1

/-- `UpperBound`; `none` = panic -/
def Block.upperBound (b : Block) (i : Int) : Option Int :=
  (b.index i).map fun ins =>
    match findBound (fun x y => x < y) b.seq (b.depsFwd ins.id) with
    | none => (b.seq.length : Int) - 1
    | some idx => (idx : Int) - 1

/-! ### `moves.go` -/

inductive MoveErr where
  | negFrom | aboveFrom | negTo | aboveTo
  | upper (u : Int)
  | lower (l : Int)
  | panic
  deriving DecidableEq, Repr

/-- `checkFromToIndex` (`validateArrayIndex` twice) -/
def checkFromToIndex (from_ to : Int) (l : Nat) : Except MoveErr Unit :=
  if from_ < 0 then .error .negFrom
  else if from_ ≥ l then .error .aboveFrom
  else if to < 0 then .error .negTo
  else if to ≥ l then .error .aboveTo
  else .ok ()

/-- the `movable` interface -/
structure Movable (α : Type) where
  setIndex : α → Nat → α
  begin : α → Nat
  end_ : α → Nat
  setAddr : α → Nat → α

/-- the loop of `moveFwd`: `k` remaining iterations, loop variable `i`, running address `a` -/
def moveFwdLoop {α} (o : Movable α) : Nat → Nat → Nat → List α → Option (List α × Nat)
  | 0, _, a, arr => some (arr, a)
  | k + 1, i, a, arr =>
    match arr[i + 1]? with
    | none => none
    | some y =>
      let x := o.setAddr (o.setIndex y i) a
      moveFwdLoop o k (i + 1) (o.end_ x) (arr.set i x)

/-- `moveFwd` (`from < to`) -/
def moveFwd {α} (o : Movable α) (arr : List α) (from_ to : Nat) : Option (List α) :=
  match arr[from_]? with
  | none => none
  | some f =>
    match moveFwdLoop o (to - from_) from_ (o.begin f) arr with
    | none => none
    | some (arr, a) =>
      if to < arr.length then some (arr.set to (o.setAddr (o.setIndex f to) a)) else none

/-- the first loop of `moveBack`: `for i := from; i > to; i--` -/
def moveBackShift {α} (o : Movable α) : Nat → Nat → List α → Option (List α)
  | 0, _, arr => some arr
  | k + 1, i, arr =>
    match arr[i - 1]? with
    | none => none
    | some y => if i < arr.length then moveBackShift o k (i - 1) (arr.set i (o.setIndex y i)) else none

/-- the second loop of `moveBack`: `for i := to; i <= from; i++` -/
def moveBackAddr {α} (o : Movable α) : Nat → Nat → Nat → List α → Option (List α)
  | 0, _, _, arr => some arr
  | k + 1, i, a, arr =>
    match arr[i]? with
    | none => none
    | some y =>
      let x := o.setAddr y a
      moveBackAddr o k (i + 1) (o.end_ x) (arr.set i x)

/-- `moveBack` (`from > to`) -/
def moveBack {α} (o : Movable α) (arr : List α) (from_ to : Nat) : Option (List α) :=
  match arr[from_]?, arr[to]? with
  | some f, some t =>
    match moveBackShift o (from_ - to) from_ arr with
    | none => none
    | some arr => moveBackAddr o (from_ - to + 1) to (o.begin t) (arr.set to (o.setIndex f to))
  | _, _ => none

/-- `move` -/
def move {α} (o : Movable α) (arr : List α) (from_ to : Nat) : Option (List α) :=
  if from_ = to then some arr
  else if from_ < to then moveFwd o arr from_ to
  else moveBack o arr from_ to

/-- `*instruction` as `movable` -/
def insMovable : Movable Ins where
  setIndex i k := { i with blockIdx := k }
  begin i := i.currAddr
  end_ i := i.end_
  setAddr i a := { i with currAddr := a }

/-- `*block` as `movable`: `setAddr` is empty -/
def blockMovable : Movable Block where
  setIndex b k := { b with idx := k }
  begin b := b.begin
  end_ b := b.end_
  setAddr b _ := b

/-- `checkMove` -/
def Block.checkMove (b : Block) (from_ to : Int) : Except MoveErr Unit := do
  checkFromToIndex from_ to b.seq.length
  if from_ < to then
    match b.upperBound from_ with
    | none => throw .panic
    | some u => if u < to then throw (.upper u) else pure ()
  else if from_ > to then
    match b.lowerBound from_ with
    | none => throw .panic
    | some l => if l > to then throw (.lower l) else pure ()
  else pure ()

/-- `Block.Move` -/
def Block.move (b : Block) (from_ to : Int) : Except MoveErr Block := do
  b.checkMove from_ to
  match Deps.move insMovable b.seq from_.toNat to.toNat with
  | none => throw .panic
  | some seq => pure { b with seq }

/-- `Block.Address`: `none` = panic, `some none` = not found -/
def Block.address (b : Block) (a : Nat) : Option (Option Ins) :=
  match BasicBlock.search b.seq.length (fun i =>
      match b.seq[i]? with
      | none => .error .panic
      | some x => .ok (decide (x.currAddr ≥ a))) with
  | .error _ => none
  | .ok i =>
    if i = b.seq.length then some none
    else
      match b.seq[i]? with
      | none => none
      | some ins => if ins.currAddr ≠ a then some none else some (some ins)

/-! ### `code.go` -/

structure Code where
  entry : Nat
  /-- the block objects; `blocksByAddr[p]` is the pointer `p` -/
  store : List Block
  /-- `c.blocks`: pointers -/
  blocks : List Nat
  deriving DecidableEq, Repr, Inhabited

/-- the full instruction behind a `basicblock.Instruction` (addresses are pairwise distinct in
well-formed code) -/
def findRaw (raw : List Ins) (x : BasicBlock.Ins) : Option Ins := raw.find? (·.origAddr == x.addr)

/-- the loop `blocks[i] = newBlock(i, seq)` -/
def newBlocks : Nat → List (List Ins) → Option (List Block)
  | _, [] => some []
  | i, seq :: rest =>
    match newBlock i seq, newBlocks (i + 1) rest with
    | some b, some bs => some (b :: bs)
    | _, _ => none

/-- `NewCode` -/
def newCode (entry : Nat) (raw : List (Nat × Nat × Nat × List Effect)) :
    Except BasicBlock.ParseFail Code := do
  let ins := raw.map fun (t, a, l, efs) => newInstruction t a l efs
  let seqs ← BasicBlock.parse entry (ins.map fun i => ⟨i.origAddr, i.len, i.jumpTargets⟩)
  match newBlocks 0 (seqs.map fun s => s.filterMap (findRaw ins)) with
  | none => throw .panic
  | some bs => pure { entry, store := bs, blocks := List.range bs.length }

/-- `c.blocks[i]`; `none` = index out of range -/
def Code.index (c : Code) (i : Int) : Option Block :=
  if i < 0 then none else (c.blocks[i.toNat]?).bind fun p => c.store[p]?

/-- write a mutated block object back to the heap -/
def Code.put (c : Code) (b : Block) : Code := { c with store := c.store.set b.ptr b }

/-- `Code.Move` -/
def Code.move (c : Code) (from_ to : Int) : Except MoveErr Code := do
  checkFromToIndex from_ to c.blocks.length
  match Deps.move blockMovable (c.blocks.filterMap fun p => c.store[p]?) from_.toNat to.toNat with
  | none => throw .panic
  | some arr =>
    pure { c with store := arr.foldl (fun st b => st.set b.ptr b) c.store, blocks := arr.map (·.ptr) }

/-- `Code.Address` with the F50 repair (`end - 1 >= a` in `uint64`); `none` = panic -/
def Code.address (c : Code) (a : Nat) : Option (Option Block) :=
  match BasicBlock.search c.store.length (fun i =>
      match c.store[i]? with
      | none => .error .panic
      | some b => .ok (decide ((b.end_ + (M - 1)) % M ≥ a))) with
  | .error _ => none
  | .ok i =>
    if i = c.store.length then some none
    else
      match c.store[i]? with
      | none => none
      | some b => if b.begin > a then some none else some (some b)

/-! ### histories -/

inductive Op where
  | mv (block from_ to : Int)
  | bmv (from_ to : Int)
  | lb (block i : Int)
  | ub (block i : Int)
  | addr (a : Nat)
  | edges (block : Int)
  deriving DecidableEq, Repr

inductive Answer where
  | panic
  | ok
  | err (e : MoveErr)
  | bound (n : Int)
  | addr (r : Option (Block × Option Ins))
  | edges (b : Block)
  deriving Repr

/-- one operation of the harness on the code -/
def Code.step (c : Code) : Op → Code × Answer
  | .mv bi from_ to =>
    match c.index bi with
    | none => (c, .panic)
    | some b =>
      match b.move from_ to with
      | .ok b' => (c.put b', .ok)
      | .error .panic => (c, .panic)
      | .error e => (c, .err e)
  | .bmv from_ to =>
    match c.move from_ to with
    | .ok c' => (c', .ok)
    | .error .panic => (c, .panic)
    | .error e => (c, .err e)
  | .lb bi i =>
    match (c.index bi).bind (·.lowerBound i) with
    | none => (c, .panic)
    | some n => (c, .bound n)
  | .ub bi i =>
    match (c.index bi).bind (·.upperBound i) with
    | none => (c, .panic)
    | some n => (c, .bound n)
  | .addr a =>
    match c.address a with
    | none => (c, .panic)
    | some none => (c, .addr none)
    | some (some b) =>
      match b.address a with
      | none => (c, .panic)
      | some r => (c, .addr (some (b, r)))
  | .edges bi =>
    match c.index bi with
    | none => (c, .panic)
    | some b => (c, .edges b)

/-- the code after a history -/
def Code.run (c : Code) (ops : List Op) : Code := ops.foldl (fun c op => (c.step op).1) c

end Mltwist.Deps
