import Mltwist.Model.Exprtools
import Mltwist.Model.Const
/-
Model of the hand-written part of `internal/riscv`: `immediate.go`, `register.go`, `csr.go`,
`instruction.go` (`String`), `instruction_type.go` (`validEffects`) and the helper functions of
`opcodes.go`.  The instruction tables (`opcodes32.go`, `opcodes64.go`) are NOT written by hand: they
are regenerated from the Go sources into `Mltwist/Generated/Riscv*.lean` on every run.

Go fixed-width integers: `instruction.value` is `uint32` (a `Nat < 2^32` here), `instruction.addr`
is `uint64`, immediates are `int32` (an `Int` here, always within range).
-/
namespace Mltwist.Riscv
open Mltwist

/-- `instruction` -/
structure Ins where
  addr : Nat
  value : Nat
  deriving Repr, DecidableEq

inductive ImmType where
  | R | I | S | B | U | J | shamt
  deriving DecidableEq, Repr, Inhabited

inductive Reg where
  | rd | rs1 | rs2
  deriving DecidableEq, Repr

def Reg.bitOffset : Reg → Nat
  | .rd => 7 | .rs1 => 15 | .rs2 => 20

/-- `reg.regNum` -/
def regNum (r : Reg) (value : Nat) : Nat := (value / 2 ^ r.bitOffset) % 32

/-- `regNum.String` -/
def regName (n : Nat) : String := "x" ++ toString n

/-- `parseBitRange(value, begin, end)` -/
def bitRange (value b e : Nat) : Nat := (value % 2 ^ e) / 2 ^ b

/-- `signExtend(unsigned, signBitIdx)` for in-range arguments -/
def signExtendImm (u : Nat) (signBit : Nat) : Int :=
  if u / 2 ^ signBit % 2 = 0 then (u : Int) else (u : Int) - (2 ^ (signBit + 1) : Nat)

/-- 32-bit two's-complement reading (Go `int32(uint32)`) -/
def toInt32 (u : Nat) : Int := if u < 2 ^ 31 then (u : Int) else (u : Int) - (2 ^ 32 : Nat)

/-- `immType.parseValue` -/
def immParse (t : ImmType) (v : Nat) : Int × Bool :=
  match t with
  | .R => (0, false)
  | .I => (signExtendImm (bitRange v 20 32) 11, true)
  | .S => (signExtendImm (bitRange v 25 32 * 32 + bitRange v 7 12) 11, true)
  | .B =>
    let u := bitRange v 8 12 * 2 + bitRange v 25 31 * 32 + bitRange v 7 8 * 2048 + bitRange v 31 32 * 4096
    (signExtendImm u 12, true)
  | .U => (toInt32 (bitRange v 12 32 * 4096), true)
  | .J =>
    let u := bitRange v 21 31 * 2 + bitRange v 20 21 * 2048 + bitRange v 12 20 * 4096 + bitRange v 31 32 * 1048576
    (signExtendImm u 20, true)
  | .shamt => ((bitRange v 20 26 : Nat), true)

/-- `expr.ConstFromUint(val)` for a value of a `size`-byte unsigned type -/
def constFromUint (size val : Nat) : Expr := .const (natToLE size val)

/-- `expr.ConstFromInt(val)` / `expr.NewConstInt(val, w)` for a value that fits -/
def constFromInt (size : Nat) (val : Int) : Expr := .const (natToLE size (val % (2 ^ (8 * size) : Nat)).toNat)

/-- `addrAddImm` (uint64 arithmetic) -/
def addrAddImm (a : Nat) (imm : Int) : Nat := ((a : Int) + imm).emod (2 ^ 64 : Nat) |>.toNat

/-- `addrConst`: the address truncated to the address space of width `w` -/
def addrConst (a w : Nat) : Expr := .const (natToLE w (a % 2 ^ 64))

def memoryKey : String := "memory"
def ipKey : String := "#r:w:ip"

/-- `immConst(t, i, w)` -/
def immConst (t : ImmType) (i : Ins) (w : Nat) : Expr := constFromInt w (immParse t i.value).1

/-- `regLoad` -/
def regLoad (r : Reg) (i : Ins) (w : Nat) : Expr :=
  let n := regNum r i.value
  if n = 0 then Expr.zero else .regLoad (regName n) w

abbrev BinF := Expr → Expr → Nat → Expr
abbrev CondF := Expr → Expr → Expr → Expr → Nat → Expr

def binOpFunc (op : BinOp) : BinF := fun a b w => .binary op a b w
def lessFunc : CondF := fun a b t f w => .less a b t f w

def regImmOp (f : BinF) (t : ImmType) (i : Ins) (w : Nat) : Expr :=
  f (regLoad .rs1 i w) (immConst t i w) w

def reg2Op (f : BinF) (i : Ins) (w : Nat) : Expr := f (regLoad .rs1 i w) (regLoad .rs2 i w) w

def maskedRegOp (f : BinF) (i : Ins) (bits w : Nat) : Expr :=
  f (regLoad .rs1 i w) (Tools.maskBits (regLoad .rs2 i w) bits w) w

/-- `regImmShift`: the shift amount is the low `bits` bits of the I-immediate, as a 4-byte constant -/
def regImmShift (f : BinF) (i : Ins) (bits w : Nat) : Expr :=
  let imm := (immParse .I i.value).1
  f (regLoad .rs1 i w) (constFromInt 4 (imm % (2 ^ bits : Nat))) w

/-- `sext(e, signBit uint8, w)` -/
def sext (e : Expr) (signBit w : Nat) : Expr := Tools.signExtend e (constFromUint 1 signBit) w

def sext32To64 (e : Expr) : Expr := sext e 31 8

def jumpTarget (i : Ins) (w : Nat) : Expr :=
  Tools.bitAnd (regImmOp (binOpFunc .add) .I i w) (constFromInt w (-2)) w

def signedRem (r1 r2 : Expr) (w : Nat) : Expr :=
  Tools.sub r1 (.binary .mul (Tools.signedDiv r1 r2 w) r2 w) w

def mulhsu (r1 r2 : Expr) (w : Nat) : Expr :=
  let r1Ext := Tools.signExtend r1 (constFromUint 2 (8 * w - 1)) (2 * w)
  let m := Expr.binary .mul r1Ext r2 (2 * w)
  newWidthGadget (.binary .rsh m (constFromUint 2 (8 * w)) (2 * w)) w

def memLoad (addr : Expr) (w : Nat) : Expr := .memLoad memoryKey addr w
def memStore (e addr : Expr) (w : Nat) : Effect := .memStore e memoryKey addr w

/-- `regStore`: `nil` (here `none`) for `x0` -/
def regStore (e : Expr) (i : Ins) (w : Nat) : Option Effect :=
  let n := regNum .rd i.value
  if n = 0 then none else some (.regStore e (regName n) w)

def addrImmConst (t : ImmType) (i : Ins) (w : Nat) : Expr :=
  addrConst (addrAddImm i.addr (immParse t i.value).1) w

def branchCmp (f : CondF) (branchIfTrue : Bool) (i : Ins) (w : Nat) : Effect :=
  let target := addrImmConst .B i w
  let next := addrConst (i.addr + 4) w
  let (ct, cf) := if branchIfTrue then (target, next) else (next, target)
  .regStore (f (regLoad .rs1 i w) (regLoad .rs2 i w) ct cf w) ipKey w

def atomicMinMax (f : CondF) (negate : Bool) : BinF := fun e1 e2 w =>
  if negate then f e1 e2 e2 e1 w else f e1 e2 e1 e2 w

def atomicOp (f : BinF) (i : Ins) (w : Nat) : List (Option Effect) :=
  let addr := regLoad .rs1 i w
  let ld := memLoad addr w
  [regStore ld i w, some (memStore (f ld (regLoad .rs2 i w) w) addr w)]

def atomicOpWidth (f : BinF) (i : Ins) (addrW opW : Nat) : List (Option Effect) :=
  let addr := regLoad .rs1 i addrW
  let ld := memLoad addr opW
  [regStore (sext32To64 ld) i addrW, some (memStore (f ld (regLoad .rs2 i opW) opW) addr opW)]

/-- `csrKey`: the I-immediate converted to `uint16` -/
def csrKey (i : Ins) : String :=
  "csr" ++ toString (((immParse .I i.value).1 % 65536).toNat)

def csrImm (i : Ins) : Expr := constFromUint 1 ((i.value / 2 ^ 15) % 32)

/-- one entry of an instruction table (`instructionType`) -/
structure Entry where
  name : String
  bytes : List UInt8
  mask : List UInt8
  inputRegCnt : Nat
  hasOutputReg : Bool
  loadBytes : Nat
  storeBytes : Nat
  imm : ImmType
  typ : Nat
  uimm : Bool
  effects : Ins → List (Option Effect)

/-- `instructionType.validEffects` -/
def Entry.validEffects (e : Entry) (i : Ins) : List Effect := (e.effects i).filterMap id

/-- a pattern matches the first bytes of `bs` (`maskGroup.matchInstruction` on a single pattern) -/
def patMatches (bytes mask bs : List UInt8) : Bool :=
  mask.length ≤ bs.length &&
    (List.zipWith (fun b m => b &&& m) bs mask == List.zipWith (fun b m => b &&& m) bytes mask)

/-- little-endian value of the first four bytes (`newInstruction`) -/
def wordOf (bs : List UInt8) : Nat := leToNat (bs.take 4)

inductive ParseResult where
  | short
  | unknown
  | ok (e : Entry) (i : Ins)

/-- `Parser.Parse` over an instruction set `tbl` (the matcher is specified as "the matching
entry"; uniqueness is C19 + the conflict-freedom of the table, see Props/C02) -/
def parse (tbl : List Entry) (addr : Nat) (bs : List UInt8) : ParseResult :=
  if bs.length < 4 then .short
  else match tbl.find? (fun e => patMatches e.bytes e.mask bs) with
    | none => .unknown
    | some e => .ok e ⟨addr, wordOf bs⟩

/-- `instruction.String()` -/
def Entry.text (e : Entry) (i : Ins) : String :=
  let as0 : List String :=
    (if e.hasOutputReg then [regName (regNum .rd i.value)] else []) ++
    (if e.inputRegCnt > 0 then [regName (regNum .rs1 i.value)] else []) ++
    (if e.inputRegCnt > 1 then [regName (regNum .rs2 i.value)] else []) ++
    (if e.uimm then [toString (regNum .rs1 i.value)] else [])
  let as1 : List String :=
    match immParse e.imm i.value with
    | (_, false) => as0
    | (imm, true) =>
      let immStr := toString imm
      -- store: swap the last two arguments
      let sw := if e.storeBytes > 0 then
          match as0.reverse with
          | a :: b :: rest => (b :: a :: rest).reverse
          | l => l.reverse
        else as0
      if e.loadBytes > 0 || e.storeBytes > 0 then
        match sw.reverse with
        | last :: rest => (s!"{immStr}({last})" :: rest).reverse
        | [] => []
      else sw ++ [immStr]
  e.name ++ " " ++ ", ".intercalate as1

end Mltwist.Riscv
