import Mltwist.Model.Exprtools
import Mltwist.Model.Const
/-
Model of the two numeric input parsers of the console UI (C30):

* `parseAddr` of `internal/consoleui/internal/memview/commands.go` (the argument parser of the
  `address` command), after the repair of F27; the pinned code is kept as `parseAddrPinned`
  (its `s[:2]` slice expressions panic on strings shorter than two bytes and its conditions
  parse as `(len(s) > 2 && s[:2] == "0x") || s[:2] == "0X"`);
* `readValue` of `internal/consoleui/emulate/state.go` (the value prompt of the emulator), as a
  function of the line returned by `linereader.ReadLine`.

Go strings are byte strings: `Str = List UInt8`.

Library stand-ins (trusted base), modelled by their documented meaning:

* `strconv.ParseUint(s, base, 64)` for an explicit base 2..36 (`parseUint`): `s` must be non-empty
  and consist of digits `0-9a-zA-Z` (letters case-insensitively, value 10..35) whose value is below
  the base; no sign, no underscore, no prefix; a value above `2^64-1` is a range error.  Both error
  kinds are one outcome here.
* `(*big.Int).SetString(s, 0)` restricted to strings without `_` (`setString0`): optional sign
  `+`/`-`; prefix `0b/0B` (base 2), `0o/0O` (base 8), `0x/0X` (base 16), a `0` followed by at least
  one more byte (base 8); otherwise base 10; at least one digit must follow and the entire string
  must be consumed.  A lone `0` is the decimal number zero.
* `(*big.Int).Bytes()` reversed = the minimal little-endian byte string of `|n|` (`minLE`, on fuel:
  the number of bytes of the line bounds the number of bytes of the value).
-/
namespace Mltwist.NumParse
open Mltwist

abbrev Str := List UInt8

/-- result of a Go function `(value, error)` that might also panic -/
inductive Res (α : Type) where
  | ok (a : α)
  | err
  | panic
  deriving DecidableEq, Repr, Inhabited

/-- the value of a digit byte in `strconv` and `math/big`: `0-9`, `a-z`, `A-Z` -/
def digitVal (c : Nat) : Option Nat :=
  if 0x30 ≤ c ∧ c ≤ 0x39 then some (c - 0x30)
  else if 0x61 ≤ c ∧ c ≤ 0x7a then some (c - 0x61 + 10)
  else if 0x41 ≤ c ∧ c ≤ 0x5a then some (c - 0x41 + 10)
  else none

/-- the digit loop `n = n*base + d`; `none` = a byte that is not a digit of the base -/
def digitsLoop (base : Nat) : Str → Nat → Option Nat
  | [], n => some n
  | c :: cs, n =>
    match digitVal c.toNat with
    | some d => if d < base then digitsLoop base cs (n * base + d) else none
    | none => none

/-- `strconv.ParseUint(s, base, 64)` for `2 ≤ base ≤ 36`; `none` = an error -/
def parseUint (s : Str) (base : Nat) : Option Nat :=
  if s.isEmpty then none
  else
    match digitsLoop base s 0 with
    | some n => if n < 2 ^ 64 then some n else none
    | none => none

/-! ### `parseAddr` -/

/-- `len(s) >= 2 && (s[:2] == p || s[:2] == q)` -/
def hasPrefix2 (s : Str) (p q : Str) : Bool :=
  decide (s.length ≥ 2) && (s.take 2 == p || s.take 2 == q)

/-- `parseAddr` after the repair of F27: the base and the digits handed to `ParseUint` -/
def addrBase (s : Str) : Nat × Str :=
  if hasPrefix2 s [0x30, 0x78] [0x30, 0x58] then (16, s.drop 2)        -- "0x" "0X"
  else if hasPrefix2 s [0x30, 0x62] [0x30, 0x42] then (2, s.drop 2)    -- "0b" "0B"
  else if decide (s.length > 1) && s.head? == some 0x30 then (8, s.drop 1)
  else (10, s)

/-- `parseAddr` (repaired) -/
def parseAddr (s : Str) : Res Nat :=
  let (base, digits) := addrBase s
  match parseUint digits base with
  | some v => .ok v
  | none => .err

/-- Go `s[:2]`: `none` = slice bounds out of range -/
def slice2 (s : Str) : Option Str := if s.length < 2 then none else some (s.take 2)

/-- Go `a && b`, `a || b` on conditions that may panic (`none`), with short circuit -/
def andP (a : Bool) (b : Option Bool) : Option Bool := if a then b else some false
def orP (a b : Option Bool) : Option Bool :=
  match a with
  | none => none
  | some true => some true
  | some false => b

def eq2 (s : Str) (p : Str) : Option Bool := (slice2 s).map (· == p)

/-- `parseAddr` of the pinned tree (F27), literally -/
def parseAddrPinned (s : Str) : Res Nat :=
  -- len(s) > 2 && s[:2] == "0x" || s[:2] == "0X"
  match orP (andP (decide (s.length > 2)) (eq2 s [0x30, 0x78])) (eq2 s [0x30, 0x58]) with
  | none => .panic
  | some true => fin 16 (s.drop 2)
  | some false =>
    -- len(s) == 2 && s[:2] == "0b" || s[:2] == "0B"
    match orP (andP (decide (s.length = 2)) (eq2 s [0x30, 0x62])) (eq2 s [0x30, 0x42]) with
    | none => .panic
    | some true => fin 2 (s.drop 2)
    | some false =>
      -- len(s) > 0 && s[0] == '0'
      if decide (s.length > 0) && s.head? == some 0x30 then fin 8 (s.drop 1) else fin 10 s
where
  fin (base : Nat) (digits : Str) : Res Nat :=
    match parseUint digits base with
    | some v => .ok v
    | none => .err

/-! ### `readValue` -/

/-- `scanSign` -/
def scanSign (s : Str) : Bool × Str :=
  match s with
  | c :: r => if c = 0x2d then (true, r) else if c = 0x2b then (false, r) else (false, s)
  | [] => (false, s)

/-- base prefix of `nat.scan` for `base == 0`: the actual base and the digits -/
def scanPrefix (s : Str) : Nat × Str :=
  match s with
  | c0 :: c :: r =>
    if c0 = 0x30 then
      if c = 0x62 ∨ c = 0x42 then (2, r)
      else if c = 0x6f ∨ c = 0x4f then (8, r)
      else if c = 0x78 ∨ c = 0x58 then (16, r)
      else (8, c :: r)
    else (10, s)
  | _ => (10, s)

/-- `(&big.Int{}).SetString(s, 0)` for `s` without `_`; `none` = `ok == false` -/
def setString0 (s : Str) : Option Int :=
  let (neg, s1) := scanSign s
  let (b, s2) := scanPrefix s1
  if s2.isEmpty then none                  -- no digits
  else
    match digitsLoop b s2 0 with
    | none => none                         -- not the entire string is a number
    | some n => some (if neg then -(n : Int) else (n : Int))

/-- minimal little-endian bytes of `n` (`reverse(num.Bytes())`) on fuel -/
def minLE : Nat → Nat → List UInt8
  | 0, _ => []
  | f + 1, n => if n = 0 then [] else UInt8.ofNat (n % 256) :: minLE f (n / 256)

/-- `readValue(w)` on the line returned by `ReadLine` -/
def readValue (w : Nat) (line : Str) : Res (List UInt8) :=
  if line.isEmpty then .err
  else if line.any (· == 0x5f) then .err
  else
    match setString0 line with
    | none => .err
    | some num =>
      let bs := minLE line.length num.natAbs
      let abs := Const.newConst bs w
      if num ≥ 0 then .ok abs
      else
        match constFold (Tools.sub Expr.zero (.const abs) w) with
        | .const c => .ok c
        | _ => .panic                      -- failed type assertion `.(expr.Const)`

end Mltwist.NumParse
