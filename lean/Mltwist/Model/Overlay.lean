import Mltwist.Model.Sparse
import Mltwist.Model.BytesMem
/-
Model of `internal/state/memory/overlay.go` (`Overlay`), `memory.go` (the `Memory` interface) and
`map.go` (`MemMap`)  — property C16.

The `Memory` interface is a record of the three query methods of a memory *in a given state*
(`View`: `Load`, `Missing`, `Blocks`); `Store` returns the next state.  The generic functions
`Overlay.load/missing/blocks` are written over two arbitrary views, exactly as the Go code is written
over two arbitrary `Memory` values.  The concrete memories of the package are collected in the
inductive `Mem` (`Bytes`, `Sparse`, `Overlay` of two memories, nesting allowed as in Go).

Addresses are `Nat` (Go `model.Addr = uint64`), widths `Nat` (Go `expr.Width = uint8`): `addr +
model.Addr(w)` is `Sparse.endAddr` (wraps), `r.intv.Begin() - addr` is `Sparse.sub64`, the conversion
`expr.Width(x)` is `x % 256`, `Width.Bits()` is `uint16(w) * 8` (no overflow for `w ≤ 255`).
Interval maps are the lists of `Model/Interval.lean` (`Int` pairs); `Map.Equal` is list equality;
`sort.Slice` is a stable insertion sort on `begin` (trusted base).

Go panics are explicit outcomes: every function returns `Except Fail _`.
-/
namespace Mltwist.Overlay
open Mltwist Mltwist.Interval

inductive Fail where
  /-- a panic of the sparse layer (`cut.go`, the interval tree library, `interval.New`) -/
  | sparse (p : Sparse.Panic)
  /-- a failure point of the byte layer (index panics, overlap panic, non-constant store) -/
  | bytes (f : BytesMem.Fail)
  /-- `Overlay.Load`: "bug: read from overlay memory range [..) failed" -/
  | overlayRead
  /-- `interval.New(addr, addr+w)` in `Overlay.Load` / `MemMap.Missing`: "begin is greater than end" -/
  | beginGtEnd
  /-- `reads[0]` on an empty slice (index out of range) -/
  | noReads
  deriving DecidableEq, Repr, Inhabited

/-- the query methods of a `memory.Memory` in a given state; `load = ok none` is `(nil, false)` -/
structure View where
  load : Nat → Nat → Except Fail (Option Expr)
  missing : Nat → Nat → Except Fail (List Intv)
  blocks : Except Fail (List Intv)

/-- `rangeRead` -/
structure RangeRead where
  intv : Intv
  ex : Expr
  deriving DecidableEq, Repr, Inhabited

/-- `intv.Begin()` as an address -/
def ibegin (i : Intv) : Nat := i.1.toNat

/-- `expr.Width(intv.Len())` -/
def ilen (i : Intv) : Nat := (i.2 - i.1).toNat % 256

/-- `offsetExpr(ex, bytes, w)`: `Lsh(ex, ConstFromUint(bytes.Bits()), w)` — the shift amount is a
2-byte constant (`Bits()` returns `uint16`) -/
def offsetExpr (ex : Expr) (bytes w : Nat) : Expr :=
  .binary .lsh ex (Tools.constUint (bytes % 256 * 8) 2) w

/-- `interval.New(begin, end)` on addresses -/
def newIntv (b e : Nat) : Except Fail Intv :=
  if b > e then .error .beginGtEnd else .ok ((b : Int), (e : Int))

/-- the first loop of `Load`: the missing intervals are read from the base; `ok none` is the
`return nil, false` at the first failing read -/
def readBase (base : View) : List Intv → Except Fail (Option (List RangeRead))
  | [] => .ok (some [])
  | i :: is =>
    match base.load (ibegin i) (ilen i) with
    | .error f => .error f
    | .ok none => .ok none
    | .ok (some ex) =>
      match readBase base is with
      | .error f => .error f
      | .ok none => .ok none
      | .ok (some rs) => .ok (some (⟨i, ex⟩ :: rs))

/-- the second loop of `Load`: the other intervals are read from the overlay; a failing read is the
`bug: read from overlay memory range` panic -/
def readOver (over : View) : List Intv → Except Fail (List RangeRead)
  | [] => .ok []
  | i :: is =>
    match over.load (ibegin i) (ilen i) with
    | .error f => .error f
    | .ok none => .error .overlayRead
    | .ok (some ex) =>
      match readOver over is with
      | .error f => .error f
      | .ok rs => .ok (⟨i, ex⟩ :: rs)

/-- insertion into a list sorted by `intv.Begin()`, after all elements with an equal begin -/
def insertRead (x : RangeRead) : List RangeRead → List RangeRead
  | [] => [x]
  | y :: ys => if x.intv.1 < y.intv.1 then x :: y :: ys else y :: insertRead x ys

/-- `sort.Slice(reads, begin <)` -/
def sortReads (l : List RangeRead) : List RangeRead := l.foldl (fun acc x => insertRead x acc) []

/-- the loop over `reads[1:]` -/
def combine (addr w : Nat) : List RangeRead → Expr → Expr
  | [], acc => acc
  | r :: rs, acc =>
    let ex := offsetExpr r.ex (Sparse.sub64 (ibegin r.intv) addr % 256) w
    combine addr w rs (Tools.bitOr acc ex w)

/-- `Overlay.Load` -/
def load (base over : View) (addr w : Nat) : Except Fail (Option Expr) :=
  match over.missing addr w with
  | .error f => .error f
  | .ok missing =>
    if missing.length = 0 then over.load addr w
    else
      match newIntv addr (Sparse.endAddr addr w) with
      | .error f => .error f
      | .ok whole =>
        let wholeRange := newMap [whole]
        if wholeRange = missing then base.load addr w
        else
          let ov := mapComplement wholeRange missing
          match readBase base missing with
          | .error f => .error f
          | .ok none => .ok none
          | .ok (some r1) =>
            match readOver over ov with
            | .error f => .error f
            | .ok r2 =>
              match sortReads (r1 ++ r2) with
              | [] => .error .noReads
              | r0 :: rest => .ok (some (combine addr w rest r0.ex))

/-- `Overlay.Missing` (Go evaluates the base argument first) -/
def missing (base over : View) (addr w : Nat) : Except Fail (List Intv) :=
  match base.missing addr w with
  | .error f => .error f
  | .ok b =>
    match over.missing addr w with
    | .error f => .error f
    | .ok o => .ok (mapIntersect b o)

/-- `Overlay.Blocks` -/
def blocks (base over : View) : Except Fail (List Intv) :=
  match base.blocks with
  | .error f => .error f
  | .ok b =>
    match over.blocks with
    | .error f => .error f
    | .ok o => .ok (mapUnion b o)

/-- the query methods of `NewOverlay(base, overlay)` -/
def view (base over : View) : View where
  load := load base over
  missing := missing base over
  blocks := blocks base over

/-! ### the memories of package `memory` -/

/-- a `memory.Memory` value: `*Bytes`, `*Sparse` or `*Overlay` -/
inductive Mem where
  | bytes (bs : List BytesMem.Block)
  | sparse (t : Sparse.Tree)
  | overlay (base over : Mem)
  deriving DecidableEq, Repr, Inhabited

def liftS {α : Type} : Except Sparse.Panic α → Except Fail α
  | .ok a => .ok a
  | .error p => .error (.sparse p)

def liftB {α : Type} : Except BytesMem.Fail α → Except Fail α
  | .ok a => .ok a
  | .error f => .error (.bytes f)

/-- `Bytes.Load` returns `expr.NewConst(bytes, w)` -/
def bytesLoad (bs : List BytesMem.Block) (a w : Nat) : Except Fail (Option Expr) :=
  match BytesMem.load bs a w with
  | .ok r => .ok (r.map Expr.const)
  | .error f => .error (.bytes f)

def bytesView (bs : List BytesMem.Block) : View where
  load := bytesLoad bs
  missing := fun a w => .ok (BytesMem.missing bs a w)
  blocks := .ok (BytesMem.blocks bs)

def sparseView (t : Sparse.Tree) : View where
  load := fun a w => liftS (Sparse.load t a w)
  missing := fun a w => liftS (Sparse.missing t a w)
  blocks := liftS (Sparse.blocks t)

/-- method dispatch of the interface for the three queries -/
def Mem.view : Mem → View
  | .bytes bs => bytesView bs
  | .sparse t => sparseView t
  | .overlay b o => Overlay.view b.view o.view

/-- `Memory.Store`: `Overlay.Store` writes to the overlay layer only; the base component of the
result is the old base -/
def Mem.store : Mem → Nat → Expr → Nat → Except Fail Mem
  | .bytes bs, a, e, w =>
    match BytesMem.storeExpr bs a w e with
    | .ok bs' => .ok (.bytes bs')
    | .error f => .error (.bytes f)
  | .sparse t, a, e, w =>
    match Sparse.store t a e w with
    | .ok t' => .ok (.sparse t')
    | .error p => .error (.sparse p)
  | .overlay b o, a, e, w =>
    match o.store a e w with
    | .ok o' => .ok (.overlay b o')
    | .error f => .error f

def Mem.load (m : Mem) (a w : Nat) : Except Fail (Option Expr) := m.view.load a w
def Mem.missing (m : Mem) (a w : Nat) : Except Fail (List Intv) := m.view.missing a w
def Mem.blocks (m : Mem) : Except Fail (List Intv) := m.view.blocks

/-- `Overlay.Base()` (the bottom-most layer for nested overlays is reached by iterating) -/
def Mem.base : Mem → Option Mem
  | .overlay b _ => some b
  | _ => none

/-! ### `MemMap` (a Go map as an association list) -/

/-- finite map lookup -/
def assocGet {α : Type} (k : String) : List (String × α) → Option α
  | [] => none
  | (k', v) :: rest => if k' = k then some v else assocGet k rest

/-- finite map update: replace the binding of `k` or add one -/
def assocSet {α : Type} (k : String) (v : α) : List (String × α) → List (String × α)
  | [] => [(k, v)]
  | (k', v') :: rest => if k' = k then (k, v) :: rest else (k', v') :: assocSet k v rest

/-- `memory.MemMap` -/
abbrev MemMap := List (String × Mem)

/-- `MemMap.Load` -/
def MemMap.load (m : MemMap) (key : String) (a w : Nat) : Except Fail (Option Expr) :=
  match assocGet key m with
  | none => .ok none
  | some mem => mem.load a w

/-- `MemMap.Store`: an unknown key gets a fresh `Sparse` -/
def MemMap.store (m : MemMap) (key : String) (a : Nat) (e : Expr) (w : Nat) : Except Fail MemMap :=
  let mem := match assocGet key m with
    | none => Mem.sparse []
    | some mem => mem
  match mem.store a e w with
  | .ok mem' => .ok (assocSet key mem' m)
  | .error f => .error f

/-- `MemMap.Missing` -/
def MemMap.missing (m : MemMap) (key : String) (a w : Nat) : Except Fail (List Intv) :=
  match assocGet key m with
  | none =>
    match newIntv a (Sparse.endAddr a w) with
    | .ok i => .ok (newMap [i])
    | .error f => .error f
  | some mem => mem.missing a w

/-- `MemMap.Blocks` -/
def MemMap.blocks (m : MemMap) (key : String) : Except Fail (List Intv) :=
  match assocGet key m with
  | none => .ok (newMap [])
  | some mem => mem.blocks

end Mltwist.Overlay
