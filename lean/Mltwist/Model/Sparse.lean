import Mltwist.Model.Exprtools
import Mltwist.Model.Interval
/-
Model of `internal/state/memory/sparse.go` and `cut.go` (after the repairs F01/F02 of `Load`
and F31 of `cutExpr.expr`).

Addresses are `Nat` (Go: `model.Addr = uint64`), widths are `Nat` (Go: `expr.Width = uint8`).
Every Go conversion `expr.Width(x)` is written `x % 256`, `uint16(b) * 8` is
`b % 65536 * 8 % 65536`, `addr + model.Addr(w)` is `(addr + w) % 2^64`, and a `uint64`
subtraction `x - y` is `(x + 2^64 - y) % 2^64`.

The interval tree library `github.com/zyedidia/generic/interval` is NOT modelled: a tree is a
list of `(low, high, value)` sorted by `low` with unique `low`s, and `Overlaps`, `Add` (no change
when `low` exists), `Put` (replace), `Remove`, `Each` have their documented meaning, including
the library panic "low cannot be greater than high" of `newIntrvl`.

Go panics are explicit outcomes (`Except Panic`).
-/
namespace Mltwist.Sparse
open Mltwist

inductive Panic where
  /-- `cutBegin`: "bug: expr is not long enough" -/
  | cutBeginShort
  /-- `cutEnd`: "bug: expr is not long enough" -/
  | cutEndShort
  /-- `expr`: "invalid begin and end" -/
  | exprEmpty
  /-- interval tree `newIntrvl`: "low cannot be greater than high" -/
  | lowGtHigh
  /-- `interval.New`: "begin is greater than end" -/
  | beginGtEnd
  deriving DecidableEq, Repr, Inhabited

/-- `cutExpr` -/
structure CutExpr where
  ex : Expr
  begin : Nat
  end_ : Nat
  deriving DecidableEq, Repr, Inhabited

namespace CutExpr

/-- `c.width()`: `c.end - c.begin` in `uint8` -/
def width (c : CutExpr) : Nat := (c.end_ + 256 - c.begin) % 256

/-- `cutBegin(length)`: keep the last `length` bytes -/
def cutBegin (c : CutExpr) (length : Nat) : Except Panic CutExpr :=
  if c.width < length then .error .cutBeginShort
  else .ok { ex := c.ex, begin := (c.end_ + 256 - length) % 256, end_ := c.end_ }

/-- `cutEnd(length)`: keep the first `length` bytes -/
def cutEnd (c : CutExpr) (length : Nat) : Except Panic CutExpr :=
  if c.width < length then .error .cutEndShort
  else .ok { ex := c.ex, begin := c.begin, end_ := (c.begin + length) % 256 }

/-- `expr()` (with the repair of F31: bytes at or above `ex.Width()` are zero extension).
`c.end - c.begin` is a `uint8` subtraction that cannot wrap after the guard. -/
def expr (c : CutExpr) : Except Panic Expr :=
  if c.begin ≥ c.end_ then .error .exprEmpty
  else if c.begin ≥ c.ex.width then .ok (Tools.constUint 0 (c.end_ - c.begin))
  else
    let ex :=
      if c.begin > 0 then
        Expr.binary .rsh c.ex (Tools.constUint (c.begin % 65536 * 8 % 65536) 2) c.ex.width
      else c.ex
    .ok (setWidth ex (c.end_ - c.begin))

end CutExpr

/-- `intervaltree.KV` -/
structure KV where
  low : Nat
  high : Nat
  val : CutExpr
  deriving DecidableEq, Repr, Inhabited

/-- the tree: sorted by `low`, unique `low`s -/
abbrev Tree := List KV

/-! ### the interval tree library (documented meaning) -/

/-- `Overlaps(low, high)`: all intervals `i` with `i.low < high ∧ i.high > low`, sorted by low -/
def overlaps (t : Tree) (low high : Nat) : Except Panic (List KV) :=
  if low > high then .error .lowGtHigh
  else .ok (t.filter fun kv => decide (kv.low < high) && decide (kv.high > low))

/-- sorted insertion; an existing interval with the same `low` is replaced iff `overwrite` -/
def insert (overwrite : Bool) (kv : KV) : Tree → Tree
  | [] => [kv]
  | x :: xs =>
    if kv.low < x.low then kv :: x :: xs
    else if kv.low = x.low then (if overwrite then kv :: xs else x :: xs)
    else x :: insert overwrite kv xs

/-- `Add(low, high, value)` -/
def add (t : Tree) (low high : Nat) (v : CutExpr) : Except Panic Tree :=
  if low > high then .error .lowGtHigh else .ok (insert false ⟨low, high, v⟩ t)

/-- `Put(low, high, value)` -/
def put (t : Tree) (low high : Nat) (v : CutExpr) : Except Panic Tree :=
  if low > high then .error .lowGtHigh else .ok (insert true ⟨low, high, v⟩ t)

/-- `Remove(low)` -/
def remove (t : Tree) (low : Nat) : Tree := t.filter fun kv => decide (kv.low ≠ low)

/-! ### `Sparse` -/

/-- `addr + model.Addr(w)` -/
def endAddr (addr w : Nat) : Nat := (addr + w) % 2 ^ 64

/-- `uint64` subtraction -/
def sub64 (x y : Nat) : Nat := (x + 2 ^ 64 - y) % 2 ^ 64

/-- the loop of `wholeInterval`: `none` = a gap was found, `some lastEnd` otherwise -/
def wholeLoop (lastEnd : Nat) : List KV → Option Nat
  | [] => some lastEnd
  | o :: os => if o.low ≠ lastEnd then none else wholeLoop o.high os

/-- `wholeInterval(begin, end, ints)` -/
def wholeInterval (b e : Nat) : List KV → Bool
  | [] => false
  | i :: rest =>
    if i.low > b then false
    else match wholeLoop i.high rest with
      | none => false
      | some lastEnd => !decide (lastEnd < e)

/-- the tail of the closure `cut`: `if end < o.High { c = c.cutEnd(..) }; return c.expr()` -/
def cutTail (end_ high : Nat) (c : CutExpr) (low : Nat) : Except Panic Expr :=
  if end_ < high then do
    let c' ← c.cutEnd (sub64 end_ low % 256)
    c'.expr
  else c.expr

/-- the closure `cut` of the repaired `Load` -/
def cut (addr end_ : Nat) (o : KV) : Except Panic Expr :=
  if o.low < addr then do
    let c ← o.val.cutBegin (sub64 o.high addr % 256)
    cutTail end_ o.high c addr
  else cutTail end_ o.high o.val o.low

/-- the loop over `ints[1:]` of `Load` -/
def loadLoop (addr end_ w : Nat) : List KV → Expr → Except Panic Expr
  | [], acc => .ok acc
  | o :: os, acc => do
    let c ← cut addr end_ o
    let ex := Expr.binary .lsh c (Tools.constUint (sub64 o.low addr * 8 % 2 ^ 64) 8) w
    loadLoop addr end_ w os (Tools.bitOr acc ex w)

/-- `Sparse.Load`: `ok none` is `(nil, false)` -/
def load (t : Tree) (addr w : Nat) : Except Panic (Option Expr) := do
  let end_ := endAddr addr w
  let ints ← overlaps t addr end_
  if !wholeInterval addr end_ ints then pure none
  else
    match ints with
    | [] => pure none   -- not reachable: `wholeInterval` is false on the empty list
    | i :: rest => do
      let first ← cut addr end_ i
      let e ← loadLoop addr end_ w rest first
      pure (some e)

/-- `if o.Low < addr { m.t.Add(o.Low, addr, o.Val.cutEnd(expr.Width(addr-o.Low))) }` -/
def storeLeft (addr : Nat) (o : KV) (t : Tree) : Except Panic Tree :=
  if o.low < addr then do
    let c ← o.val.cutEnd (sub64 addr o.low % 256)
    add t o.low addr c
  else pure t

/-- `if end < o.High { m.t.Put(end, o.High, o.Val.cutBegin(expr.Width(o.High-end))) }` -/
def storeRight (end_ : Nat) (o : KV) (t : Tree) : Except Panic Tree :=
  if end_ < o.high then do
    let c ← o.val.cutBegin (sub64 o.high end_ % 256)
    put t end_ o.high c
  else pure t

/-- the second loop of `Store` -/
def storeLoop (addr end_ : Nat) : List KV → Tree → Except Panic Tree
  | [], t => .ok t
  | o :: os, t =>
    if addr ≤ o.low ∧ o.high ≤ end_ then storeLoop addr end_ os t
    else do
      let t1 ← storeLeft addr o t
      let t2 ← storeRight end_ o t1
      storeLoop addr end_ os t2

/-- `Sparse.Store` -/
def store (t : Tree) (addr : Nat) (ex : Expr) (w : Nat) : Except Panic Tree := do
  let end_ := endAddr addr w
  let ov ← overlaps t addr end_
  let t0 := ov.foldl (fun t o => remove t o.low) t
  let t1 ← storeLoop addr end_ ov t0
  add t1 addr (endAddr addr w) { ex := ex, begin := 0, end_ := w }

/-- `interval.New(begin, end)` on addresses -/
def newIntv (b e : Nat) : Except Panic Interval.Intv :=
  if b > e then .error .beginGtEnd else .ok ((b : Int), (e : Int))

/-- the loop over `ints[1:]` of `Missing`; returns the gaps found and the last end -/
def missingLoop (lastEnd : Nat) : List KV → List Interval.Intv →
    Except Panic (List Interval.Intv × Nat)
  | [], acc => .ok (acc, lastEnd)
  | o :: os, acc =>
    if o.low ≠ lastEnd then do
      let i ← newIntv lastEnd o.low
      missingLoop o.high os (acc ++ [i])
    else missingLoop o.high os acc

/-- `if low := ints[0].Low; addr < low { intervals = append(intervals, interval.New(addr, low)) }` -/
def missingFirst (addr : Nat) (i0 : KV) : Except Panic (List Interval.Intv) :=
  if addr < i0.low then do
    let i ← newIntv addr i0.low
    pure [i]
  else pure []

/-- `if lastEnd < end { intervals = append(intervals, interval.New(lastEnd, end)) }` -/
def missingLast (lastEnd end_ : Nat) (acc : List Interval.Intv) : Except Panic (List Interval.Intv) :=
  if lastEnd < end_ then do
    let i ← newIntv lastEnd end_
    pure (acc ++ [i])
  else pure acc

/-- `Sparse.Missing` -/
def missing (t : Tree) (addr w : Nat) : Except Panic (List Interval.Intv) := do
  let end_ := endAddr addr w
  let ints ← overlaps t addr end_
  match ints with
  | [] =>
    let i ← newIntv addr end_
    return Interval.newMap [i]
  | i0 :: rest =>
    let first ← missingFirst addr i0
    let r ← missingLoop i0.high rest first
    let intervals ← missingLast r.2 end_ r.1
    return Interval.newMap intervals

/-- the callback of `Each` in `Blocks` -/
def blocksLoop : List KV → Except Panic (List Interval.Intv)
  | [] => .ok []
  | kv :: rest => do
    let i ← newIntv kv.low kv.high
    let is ← blocksLoop rest
    pure (i :: is)

/-- `Sparse.Blocks` (`Each` visits the intervals in order of `low`) -/
def blocks (t : Tree) : Except Panic (List Interval.Intv) := do
  let bs ← blocksLoop t
  return Interval.newMap bs

end Mltwist.Sparse
