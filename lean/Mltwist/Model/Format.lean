/-
Model of `internal/consoleui/format.go` (help-text wrapping), following the Go code line by line.

Strings are `List UInt8`: Go's `len(s)`, `s[i]`, `s[i:]`, `s[:k]` and `sb.WriteString` all work on
*bytes*, not on runes, and so does this model.  A multi-byte UTF-8 character therefore counts as
several "characters" and may be cut in the middle when a word longer than the line is split.

Go `int` is modelled as `Int` (no overflow: `indent*8` and `width - indent*8` are exact for
|indent| < 2^60, far beyond anything the callers pass).

The loop variable `i` of `format` is represented by the remaining input `rest = s[i:]`
(`i += n` is `rest.drop n`; `i < len(s)` is `rest ≠ []`; `s[i] == ' '` is the head of `rest`).
`strings.Builder` is an append-only byte buffer, the accumulator `sb`.

Failure modes of the Go code are explicit outcomes:
* `panic`     a slice expression `str[:chars+1]` / `str[:idx]` with a negative bound
              (`chars < 0` and `s` non-empty);
* `diverges`  a round that does not advance `i`: the only loop state is `i`, the body is
              deterministic, so the Go loop repeats this round forever (the builder grows until the
              process is out of memory).  Happens exactly for `chars = 0` and a non-space byte in `s`;
* `outOfFuel` an artefact of the fuel, proved unreachable for *all* inputs
              (`Lemmas.Format.format_ne_outOfFuel`).
-/
namespace Mltwist.Format

abbrev Str := List UInt8

def space : UInt8 := 32   -- ' '
def tab : UInt8 := 9      -- '\t'
def nl : UInt8 := 10      -- '\n'

/-- `tabWidth = 8` -/
def tabWidth : Int := 8

inductive Outcome where
  | ok (out : Str)
  | panic
  | diverges
  | outOfFuel
deriving DecidableEq, Repr

/-- The loop of `findWordDelimSpace` entered with loop variable `i`:
`for ; i > 0; i-- { if s[i] == ' ' { return i } }; return -1`.
All indices examined are `≤ len(s)-1`, so `s[i]` never fails; `getD` is only a total reading. -/
def findFrom (s : Str) : Nat → Int
  | 0 => -1
  | i + 1 => if s.getD (i + 1) 0 = space then ((i + 1 : Nat) : Int) else findFrom s i

/-- `findWordDelimSpace(s)`: `for i := len(s) - 1; i > 0; i--`
(for `len(s) = 0` Go starts at `-1`, the loop body is not entered: `0 - 1 = 0` in `Nat` does the same). -/
def findWordDelimSpace (s : Str) : Int := findFrom s (s.length - 1)

/-- The line cut of one round, `str := s[i:]` being the argument:
```go
if len(str) > chars {
    idx := findWordDelimSpace(str[:chars+1])
    if idx == -1 { idx = chars }
    str = str[:idx]
}
```
`none` = slice-bounds panic.  Upper bounds are always fine: `chars + 1 ≤ len(str)` by the guard and
`idx ≤ chars`. -/
def cutLine (chars : Int) (str : Str) : Option Str :=
  if (str.length : Int) > chars then
    if chars + 1 < 0 then none                       -- str[:chars+1] with a negative bound
    else
      let idx0 := findWordDelimSpace (str.take (chars + 1).toNat)
      let idx := if idx0 = -1 then chars else idx0
      if idx < 0 then none                           -- str[:idx] with a negative bound
      else some (str.take idx.toNat)
  else some str

/-- `for i < len(s) { tabs; cut; sb.WriteString(str); i += len(str); skip spaces; sb.WriteByte('\n') }` -/
def formatLoop (indent chars : Int) : Nat → Str → Str → Outcome
  | 0, _, _ => .outOfFuel
  | fuel + 1, rest, sb =>
    if rest.length = 0 then .ok sb                                 -- i < len(s) is false
    else
      let sb := sb ++ List.replicate indent.toNat tab              -- for j := 0; j < indent; j++
      match cutLine chars rest with
      | none => .panic
      | some str =>
        let sb := sb ++ str                                        -- sb.WriteString(str)
        let rest' := rest.drop str.length                          -- i += len(str)
        let rest' := rest'.dropWhile (· == space)                  -- for ; i < len(s) && s[i] == ' '; i++ {}
        if rest'.length = rest.length then .diverges               -- same `i` again
        else formatLoop indent chars fuel rest' (sb ++ [nl])       -- post statement sb.WriteByte('\n')

/-- `format(s, indent, width)`; fuel = length of the input + 1 (one round per consumed byte, plus the
final test of the loop condition). -/
def format (s : Str) (indent width : Int) : Outcome :=
  formatLoop indent (width - indent * tabWidth) (s.length + 1) s []

end Mltwist.Format
