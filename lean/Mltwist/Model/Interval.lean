/-
Model of `internal/state/interval` (`map.go`): interval sets as sorted lists of half-open
intervals `(begin, end)`.  The element type is `Int` (the Go code is generic over integer types and
only compares).  `sort.Slice` is modelled by a stable insertion sort on `begin`.

Each function follows the Go loop, including the `cnt`/`j` index bookkeeping of
`complement`/`MapComplement` and `intersect`/`MapIntersect`.
-/
namespace Mltwist.Interval

abbrev Intv := Int × Int

/-- `addInterval`, on a reversed accumulator (head = last interval) -/
def addInterval (acc : List Intv) (i : Intv) : List Intv :=
  match acc with
  | [] => [i]
  | last :: rest =>
    if last.2 < i.1 then i :: last :: rest
    else if i.2 > last.2 then (last.1, i.2) :: rest
    else last :: rest

/-- insertion into a list sorted by `begin`, after all elements with an equal `begin` -/
def insertByBegin (x : Intv) : List Intv → List Intv
  | [] => [x]
  | y :: ys => if x.1 < y.1 then x :: y :: ys else y :: insertByBegin x ys

/-- stable sort by `begin` (stands for `sort.Slice`) -/
def sortByBegin (l : List Intv) : List Intv := l.foldl (fun acc x => insertByBegin x acc) []

/-- `NewMap`: sort by begin, then the in-place compaction loop (which is `addInterval`) -/
def newMap (l : List Intv) : List Intv :=
  ((sortByBegin l).foldl addInterval []).reverse

/-- the merge loop of `MapUnion` -/
def unionMerge : List Intv → List Intv → List Intv → List Intv
  | a :: as, b :: bs, acc =>
    if a.1 < b.1 then unionMerge as (b :: bs) (addInterval acc a)
    else unionMerge (a :: as) bs (addInterval acc b)
  | [], bs, acc => bs.foldl addInterval acc
  | as, [], acc => as.foldl addInterval acc

def mapUnion (i1 i2 : List Intv) : List Intv := (unionMerge i1 i2 []).reverse

/-- `complement`: returns the pieces of `intv` outside `sub` and `cnt - 1` -/
def complement (intv : Intv) : List Intv → List Intv → Nat → List Intv × Int
  | [], acc, cnt => (acc ++ [intv], (cnt : Int) - 1)
  | s :: rest, acc, cnt =>
    if s.2 ≤ intv.1 then complement intv rest acc (cnt + 1)
    else if intv.2 ≤ s.1 then (acc ++ [intv], (cnt : Int))
    else
      let acc' := if intv.1 < s.1 then acc ++ [(intv.1, s.1)] else acc
      if s.2 < intv.2 then complement (s.2, intv.2) rest acc' (cnt + 1)
      else (acc', (cnt : Int))

/-- the loop of `MapComplement` -/
def mapComplementLoop (i2 : List Intv) : List Intv → Nat → List Intv → List Intv
  | [], _, acc => acc
  | i :: is, j, acc =>
    let sub := if j < i2.length then i2.drop j else []
    let (intvs, cnt) := complement i sub [] 0
    let j' := if cnt > 0 then j + cnt.toNat else j
    mapComplementLoop i2 is j' (acc ++ intvs)

def mapComplement (i1 i2 : List Intv) : List Intv := mapComplementLoop i2 i1 0 []

/-- `intersect`: the pieces of `intv` inside `inters` and the number of intervals of `inters`
that end at or before `intv.end` (these cannot meet any later interval) -/
def intersect (intv : Intv) : List Intv → List Intv → Nat → List Intv × Nat
  | [], acc, cnt => (acc, cnt)
  | inter :: rest, acc, cnt =>
    if intv.2 ≤ inter.1 then (acc, cnt)
    else
      let cnt' := if inter.2 ≤ intv.2 then cnt + 1 else cnt
      if inter.2 ≤ intv.1 then intersect intv rest acc cnt'
      else intersect intv rest (acc ++ [(max intv.1 inter.1, min intv.2 inter.2)]) cnt'

/-- the loop of `MapIntersect` -/
def mapIntersectLoop (i2 : List Intv) : List Intv → Nat → List Intv → List Intv
  | [], _, acc => acc
  | i :: is, j, acc =>
    if j ≥ i2.length then acc
    else
      let (intvs, cnt) := intersect i (i2.drop j) [] 0
      mapIntersectLoop i2 is (j + cnt) (acc ++ intvs)

def mapIntersect (i1 i2 : List Intv) : List Intv := mapIntersectLoop i2 i1 0 []

end Mltwist.Interval
