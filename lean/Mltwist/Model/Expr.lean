/-
Model of `pkg/expr`: the expression IR.

`Const` carries its little-endian byte list (width = length), exactly the Go
representation.  Widths are `Nat` here; Go's `expr.Width` is `uint8`, so every value
that comes from the implementation has width < 256.  Keys are plain strings.
-/
namespace Mltwist

inductive BinOp where
  | add | lsh | rsh | mul | div | nand
  deriving DecidableEq, Repr, Inhabited

inductive Expr where
  | const (bs : List UInt8)
  | binary (op : BinOp) (a b : Expr) (w : Nat)
  | less (a b t f : Expr) (w : Nat)
  | memLoad (key : String) (addr : Expr) (w : Nat)
  | regLoad (key : String) (w : Nat)
  deriving DecidableEq, Repr, Inhabited

inductive Effect where
  | memStore (value : Expr) (key : String) (addr : Expr) (w : Nat)
  | regStore (value : Expr) (key : String) (w : Nat)
  deriving DecidableEq, Repr, Inhabited

namespace Expr

/-- `Expr.Width()` -/
def width : Expr → Nat
  | const bs => bs.length
  | binary _ _ _ w => w
  | less _ _ _ _ w => w
  | memLoad _ _ w => w
  | regLoad _ w => w

/-- `expr.Zero` and `expr.One`: one-byte constants. -/
def zero : Expr := const [0]
def one : Expr := const [1]

def isConst : Expr → Bool
  | const _ => true
  | _ => false

/-- number of nodes -/
def size : Expr → Nat
  | const _ => 1
  | binary _ a b _ => 1 + a.size + b.size
  | less a b t f _ => 1 + a.size + b.size + t.size + f.size
  | memLoad _ a _ => 1 + a.size
  | regLoad _ _ => 1

end Expr

namespace Effect
def width : Effect → Nat
  | memStore _ _ _ w => w
  | regStore _ _ w => w
end Effect

/-! ### Reference semantics (from the documentation of package `expr`) -/

/-- little-endian value of a byte string -/
def leToNat : List UInt8 → Nat
  | [] => 0
  | b :: bs => b.toNat + 256 * leToNat bs

/-- the `w` low bytes of `x`, little endian -/
def natToLE : Nat → Nat → List UInt8
  | 0, _ => []
  | w + 1, x => UInt8.ofNat (x % 256) :: natToLE w (x / 256)

/-- truncation to `w` bytes -/
def trunc (w x : Nat) : Nat := x % 2 ^ (8 * w)

/-- A valuation of the free symbols: whole registers and single memory bytes. -/
structure Env where
  reg : String → Nat
  mem : String → Nat → Nat

/-- bitwise and of naturals is `Nat.land`; NAND at `w` bytes -/
def nandW (w x y : Nat) : Nat := (2 ^ (8 * w) - 1) - (x &&& y)

/-- Semantics of a binary operator at width `w` on operands already truncated to `w`. -/
def evalBin (op : BinOp) (w x y : Nat) : Nat :=
  match op with
  | .add => (x + y) % 2 ^ (8 * w)
  | .mul => (x * y) % 2 ^ (8 * w)
  | .nand => nandW w x y
  | .lsh => if y ≥ 8 * w then 0 else (x * 2 ^ y) % 2 ^ (8 * w)
  | .rsh => if y ≥ 8 * w then 0 else x / 2 ^ y
  | .div => if y = 0 then 2 ^ (8 * w) - 1 else x / y

/-- the `w` bytes of memory `mem` at `a`, addresses wrapping at 2^64 -/
def loadBytes (mem : Nat → Nat) (a : Nat) : Nat → Nat
  | 0 => 0
  | w + 1 => (mem (a % 2 ^ 64)) % 256 + 256 * loadBytes mem (a + 1) w

namespace Expr

/-- Reference evaluator. Operands are zero-extended or truncated to the node width. A
memory address keeps its own width and is used modulo 2^64 (`model.Addr` is `uint64`). -/
def eval (ρ : Env) : Expr → Nat
  | const bs => leToNat bs
  | binary op a b w => evalBin op w (trunc w (a.eval ρ)) (trunc w (b.eval ρ))
  | less a b t f w =>
      if trunc w (a.eval ρ) < trunc w (b.eval ρ) then trunc w (t.eval ρ) else trunc w (f.eval ρ)
  | memLoad k a w => loadBytes (ρ.mem k) (a.eval ρ % 2 ^ 64) w
  | regLoad k w => trunc w (ρ.reg k)

end Expr

/-- signed reading of a `w`-byte value -/
def toInt (w : Nat) (x : Nat) : Int :=
  if x < 2 ^ (8 * w - 1) then (x : Int) else (x : Int) - (2 ^ (8 * w) : Nat)

end Mltwist
