import Mltwist.Model.Transform
/-
Model of `pkg/expr/exprtools`: gadgets built from the six primitive operators.
Function for function after the Go sources (`arithm.go`, `bits.go`, `bool.go`,
`cond.go`, `masking.go`, `width.go`).

Go panics that guard the *arguments* (`SignedMul` with `w > 127`, `NewConstUint` with a
value that does not fit) are preconditions here: see `Tools.signedMulOk`, `Tools.bitMaskOk`.
-/
namespace Mltwist.Tools
open Mltwist Expr

/-- `expr.NewConstUint(val, w)` / `ConstFromUint` for a value that fits -/
def constUint (val w : Nat) : Expr := .const (natToLE w val)

def ones (w : Nat) : Expr := .binary .nand Expr.zero Expr.zero w
def bitNot (e : Expr) (w : Nat) : Expr := .binary .nand e (ones w) w
def bitAnd (e1 e2 : Expr) (w : Nat) : Expr := bitNot (.binary .nand e1 e2 w) w
def bitOr (e1 e2 : Expr) (w : Nat) : Expr := .binary .nand (bitNot e1 w) (bitNot e2 w) w
def bitXor (e1 e2 : Expr) (w : Nat) : Expr :=
  let nandInputs := Expr.binary .nand e1 e2 w
  .binary .nand (.binary .nand e1 nandInputs w) (.binary .nand e2 nandInputs w) w

def negate (e : Expr) (w : Nat) : Expr := .binary .add (bitNot e w) Expr.one w
def sub (e1 e2 : Expr) (w : Nat) : Expr := .binary .add e1 (negate e2 w) w

/-- `signBitMask` -/
def signBitMask (w : Nat) : Expr :=
  let signBit := 8 * w - 1
  if signBit < 64 then constUint (2 ^ signBit) w
  else .binary .lsh Expr.one (constUint signBit 2) w

/-- the body of `bitMask` after the bit count has been clamped to the width; needs `bitMaskOk` -/
def bitMaskRaw (bits w : Nat) : Expr :=
  if bits ≤ 64 then constUint (2 ^ bits - 1) w
  else sub (.binary .lsh Expr.one (constUint bits 2) w) Expr.one w

/-- `NewConstUint` inside `bitMaskRaw` does not panic -/
def bitMaskOk (bits w : Nat) : Bool := bits > 64 || 2 ^ bits - 1 < 2 ^ (8 * w)

/-- `bitMask`: a bit count above `w.Bits()` is clamped to it (repair of F34), so `bitMaskOk` always holds
for the clamped count (`bitMaskOk_clamp`) -/
def bitMask (bits w : Nat) : Expr :=
  bitMaskRaw (if bits > 8 * w then 8 * w else bits) w

def maskBits (e : Expr) (cnt w : Nat) : Expr := bitAnd e (bitMask cnt w) w
def intNegative (e : Expr) (w : Nat) : Expr := bitAnd e (signBitMask w) w

/-- unexported `abs(e, mask)` -/
def absMask (e mask : Expr) : Expr :=
  let w := mask.width
  .less e mask e (negate e w) w
def abs (e : Expr) (w : Nat) : Expr := absMask e (signBitMask w)

def mod (e1 e2 : Expr) (w : Nat) : Expr :=
  let d := Expr.binary .div e1 e2 w
  sub e1 (.binary .mul d e2 w) w

def bool (e : Expr) : Expr := newWidthGadget (.less e Expr.one Expr.zero Expr.one e.width) 1
def not (e : Expr) : Expr := newWidthGadget (.less e Expr.one Expr.one Expr.zero e.width) 1
def boolCond (b t f : Expr) (w : Nat) : Expr := .less Expr.zero b t f w

def negativeSignJoin (e1 e2 : Expr) : Expr :=
  bitXor (bool (intNegative e1 e1.width)) (bool (intNegative e2 e2.width)) 1

def signExtend (e signBit : Expr) (w : Nat) : Expr :=
  let signMask := Expr.binary .lsh Expr.one signBit w
  let valueBitsMask := sub signMask Expr.one w
  let valueSignBits := bitAnd e valueBitsMask w
  let signBitsMask := bitNot valueBitsMask w
  boolCond (bitAnd e signMask w) (bitOr e signBitsMask w) valueSignBits w

def signedMulOk (w : Nat) : Bool := w ≤ 127

def signedMul (e1 e2 : Expr) (w : Nat) : Expr :=
  let e1Ext := signExtend e1 (constUint (8 * e1.width - 1) 2) (2 * w)
  let e2Ext := signExtend e2 (constUint (8 * e2.width - 1) 2) (2 * w)
  .binary .mul e1Ext e2Ext (2 * w)

def signedOp (e1 e2 : Expr) (w : Nat) (f : Expr → Expr → Nat → Expr) : Expr :=
  let unsigned := f (abs e1 e1.width) (abs e2 e2.width) w
  boolCond (negativeSignJoin e1 e2) (negate unsigned w) unsigned w

def signedDiv (e1 e2 : Expr) (w : Nat) : Expr :=
  boolCond e2 (signedOp e1 e2 w fun a b w => .binary .div a b w) (ones w) w

def signedMod (e1 e2 : Expr) (w : Nat) : Expr := signedOp e1 e2 w mod

def rshA (e shift : Expr) (w : Nat) : Expr :=
  let o := ones w
  let shiftedMask := Expr.binary .rsh o shift w
  let addedBitMask := sub o shiftedMask w
  let r := Expr.binary .rsh e shift w
  .less e (signBitMask w) r (bitOr r addedBitMask w) w

def eq (a1 a2 t f : Expr) (w : Nat) : Expr := .less (sub a1 a2 w) Expr.one t f w

def lts (a1 a2 t f : Expr) (w : Nat) : Expr :=
  let mask := signBitMask w
  let sign1 := bitAnd a1 mask w
  let sign2 := bitAnd a2 mask w
  let a1Abs := absMask a1 mask
  let a2Abs := absMask a2 mask
  let posLess := Expr.less a1Abs a2Abs t f w
  let negLess := Expr.less a2Abs a1Abs t f w
  let signEqLess := Expr.less Expr.zero sign1 negLess posLess w
  let signNeqLess := Expr.less sign1 sign2 f t w
  let signDiff := bitXor sign1 sign2 w
  .less Expr.zero signDiff signNeqLess signEqLess w

def leu (a1 a2 t f : Expr) (w : Nat) : Expr := .less a1 a2 t (eq a1 a2 t f w) w
def les (a1 a2 t f : Expr) (w : Nat) : Expr := lts a1 a2 t (eq a1 a2 t f w) w

end Mltwist.Tools
