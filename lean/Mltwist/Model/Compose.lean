import Mltwist.Model.Parse
import Mltwist.Model.Deps
import Mltwist.Model.Emulator
import Mltwist.Model.Listing
import Mltwist.Model.MemView
import Mltwist.Model.UI
import Mltwist.Spec.Listing
/-
THE COMPOSED MODEL: the definitions of the composition layer (`Lemmas/Compose*.lean`, `Props/Compose.lean`) that
are EXECUTED — the fully instantiated console session `realSession` and everything underneath it.  They live here,
in a core-only file, so that the compiled model driver (`lean_exe mdriver`, which cannot link Mathlib) runs exactly
the definitions the composition theorems are about (`Driver/UIRealOps.lean`, op `uireal`: the differential check of
the composition against the Go program).  The lemma files import this file; nothing here is proved here.

The declarations keep the namespace `Mltwist.Lemmas.Compose` they had when they were defined next to their lemmas
(every theorem, note and design text refers to them by these names).

* `rawOf`, `emuOf`, `insOf`, `codeViewOf`     (lemmas: `Lemmas/ComposeDeps.lean`)
* `Info`, `listingOf`, `realMoveIns`, `realMoveBlock`, `opsAt`     (`Lemmas/ComposeListing.lean`)
* `movedDeps`, `nextDeps`     (`Lemmas/ComposeListingRun.lean`)
* `ofMem`     (`Lemmas/ComposeMem.lean`)
* `ESt`, `strOf`, `provOf`, `stepTree`, `stepFuel`, `regsOf`, `startState`, `emuOps`     (`Lemmas/ComposeEmu.lean`)
* `paramsAt`, `actDeps`, `uiNextDeps`, `RUI`, `realRunWith`, `realSession`     (`Lemmas/ComposeUI.lean`)
* `infoOfParsed`     (`Props/Compose.lean`)
-/
namespace Mltwist.Lemmas.Compose

/-! ### the code view of the dependency model (`Lemmas/ComposeDeps.lean`) -/

section
open Mltwist Mltwist.Deps

/-- what `deps.NewCode` receives (`cmd/mltwist/main.go`: `deps.NewCode(entrypoint, ins)`): C07's `Raw`
(`Nat × Nat × Nat × List Effect`: type, address, length, effects) of a `parser.Instruction` -/
def rawOf {δ : Type} (is : List (Parse.Ins δ)) : List (Nat × Nat × Nat × List Effect) :=
  is.map fun i => (i.typ, i.addr, i.bytes.length, i.effects)

/-- a `deps.Instruction` as the emulator sees it: `Begin()` (the CURRENT address), `Len()`, `Effects()` -/
def emuOf (i : Deps.Ins) : Emulator.Ins := ⟨i.currAddr, i.len, i.effects⟩

/-- all instructions of the code in the order of `blocksByAddr`, i.e. by address -/
def insOf (c : Code) : List Deps.Ins := c.store.flatMap (·.seq)

/-- THE CODE VIEW of the dependency model: what the emulator can observe of a `deps.Code` -/
def codeViewOf (c : Code) : Emulator.CodeView := (insOf c).map emuOf

end

/-! ### the listing view of the dependency model (`Lemmas/ComposeListing.lean`) -/

section
open Mltwist Mltwist.Deps

/-- text (`Instruction.String()`) and bytes (`Bytes()`) of the instruction with a given original address -/
abbrev Info := Nat → String × List UInt8

/-- a bound as the listing stores it (`LowerBound`/`UpperBound` return non-negative `int`s on valid positions) -/
def boundNat (o : Option Int) : Nat := (o.getD 0).toNat

/-- the instruction at position `pos` of the block `b` as the listing sees it -/
def lIns (info : Info) (b : Deps.Block) (pos : Nat) (i : Deps.Ins) : Listing.Ins :=
  { text := (info i.origAddr).1, bytes := (info i.origAddr).2, idx := i.blockIdx, addr := i.currAddr,
    lower := boundNat (b.lowerBound pos), upper := boundNat (b.upperBound pos) }

def lInsList (info : Info) (b : Deps.Block) : List Listing.Ins := b.seq.mapIdx fun pos i => lIns info b pos i

/-- a block as the listing sees it: `Idx()`, `Begin()`, `End()`, `Instructions()` -/
def lBlock (info : Info) (b : Deps.Block) : Listing.Block := ⟨b.idx, b.begin, b.end_, lInsList info b⟩

/-- `Code.Blocks()`: the block objects in current order -/
def curBlocks (c : Deps.Code) : List Deps.Block := c.blocks.filterMap fun p => c.store[p]?

/-- THE LISTING VIEW of the dependency model -/
def listingOf (info : Info) (c : Deps.Code) : Listing.Code := ⟨c.entry, (curBlocks c).map (lBlock info)⟩

/-- `code.Index(k).Move(s, d)`; `none` = rejected (or a panic, which C07 excludes) -/
def realMoveIns (c : Deps.Code) (k s d : Nat) : Option Deps.Code :=
  match c.index k with
  | none => none
  | some b =>
    match b.move s d with
    | .ok b' => some (c.put b')
    | .error _ => none

/-- `code.Move(s, d)` -/
def realMoveBlock (c : Deps.Code) (s d : Nat) : Option Deps.Code :=
  match c.move s d with
  | .ok c' => some c'
  | .error _ => none

/-- the code operations at the real state `c`: on the view of `c` — the only argument the listing passes while
the real state is `c` — they ARE `code.Index(k).Move(s, d)` and `code.Move(s, d)` of the dependency model, seen
through the view; elsewhere they are the reference transcription (only to be total and lawful on all inputs) -/
def opsAt (info : Info) (c : Deps.Code) : Listing.CodeOps where
  moveIns lc k s d :=
    if lc = listingOf info c then (realMoveIns c k s d).map (listingOf info) else Listing.refOps.moveIns lc k s d
  moveBlock lc s d :=
    if lc = listingOf info c then (realMoveBlock c s d).map (listingOf info) else Listing.refOps.moveBlock lc s d

end

/-! ### the real code after a command of the disassembler mode (`Lemmas/ComposeListingRun.lean`) -/

section
open Mltwist Mltwist.Listing Mltwist.Listing.Spec

/-- the real operation behind `Lines.Move` when the rows at the two line numbers are `rf`, `rt` -/
def movedDeps (c : Deps.Code) (rf rt : Option Row) : Deps.Code :=
  match rf, rt with
  | some a, some b =>
    match a.block, b.block with
    | some fb, some tb =>
      match a.instr, b.instr with
      | none, none => (realMoveBlock c fb tb).getD c
      | some fi, some ti => if fb = tb then (realMoveIns c fb fi ti).getD c else c
      | _, _ => c
    | _, _ => c
  | _, _ => c

/-- the real state after a command of the disassembler mode -/
def nextDeps (c : Deps.Code) (st : St) : Cmd → Deps.Code
  | .move f t =>
    if f ≥ st.lines.len ∨ t ≥ st.lines.len then c
    else movedDeps c ((st.lines.lines[f]?).map rowOf) ((st.lines.lines[t]?).map rowOf)
  | _ => c

end

/-! ### the memory view of a stack of memories (`Lemmas/ComposeMem.lean`) -/

section
open Mltwist Mltwist.Overlay Mltwist.MemView

/-- what the memory view reads from a stack of memories: `Blocks().Intervals()` and, per address, the bytes of the
constant `ConstFold(Load(a, 1))` -/
def ofMem (m : Overlay.Mem) : MemView.Mem where
  blocks := match m.blocks with
    | .ok l => some (l.map toRange)
    | .error _ => none
  load1 a := match m.load a 1 with
    | .ok (some e) =>
      match constFold e with
      | .const bs => some bs
      | _ => none
    | _ => none

end

/-! ### the emulator of the console UI (`Lemmas/ComposeEmu.lean`) -/

section
open Mltwist Mltwist.State Mltwist.Overlay Mltwist.Emulator Mltwist.UI

/-- `*emulator.Emulator`: the code it was created on and its state -/
structure ESt where
  code : Emulator.CodeView
  st : State.State

/-- a Go string (bytes) as a key of the state maps -/
def strOf (s : Str) : String := String.ofList (s.map fun c => Char.ofNat c.toNat)

/-- the values typed in so far, per request -/
abbrev Answers := List (Req × List UInt8)

/-- the `StateProvider` after the answers `ans`: a request that was answered returns its answer -/
def provOf (ans : Answers) : Provider where
  reg k w := ((ans.find? fun p => p.1 == Req.reg k w).map (·.2)).getD []
  mem k a w := ((ans.find? fun p => p.1 == Req.mem k a w).map (·.2)).getD []

/-- the width the prompt asks for -/
def reqWidth : Req → Nat
  | .reg _ w => w
  | .mem _ _ w => w

/-- the first request of the log of a replay that has no answer yet -/
def firstOpen (ans : Answers) (log : List Req) : Option Req := log.find? fun r => !(ans.any fun p => p.1 == r)

/-- `Emulator.Step()` with the console as state provider.  The step is replayed with the answers typed so far
(`fuel` bounds the number of prompts of one step); the first request of its log that has no answer yet is the
next prompt (`expr.Width` is `uint8`).  A step that ends in the access error (REPAIR F45) has asked the provider
as well: its open requests are prompts, then `Step` returns the error and the emulator keeps the answers. -/
def stepTree (e : ESt) : Nat → Answers → StepTree ESt
  | 0, _ => .fail e
  | fuel + 1, ans =>
    match Emulator.step (provOf ans) e.code e.st with
    | .panic _ => .panic
    | .err => .fail e
    | .ok s' _ log =>
      match firstOpen ans log with
      | none => .done ⟨e.code, s'⟩
      | some r => .ask (reqWidth r % 256) fun c => stepTree e fuel (ans ++ [(r, c)])
    | .accessErr s' log _ _ =>
      match firstOpen ans log with
      | none => .fail ⟨e.code, s'⟩
      | some r => .ask (reqWidth r % 256) fun c => stepTree e fuel (ans ++ [(r, c)])

/-- prompts of one step: far beyond what an instruction can ask for -/
def stepFuel : Nat := 4096

/-- the register file as the register view sees it: sorted by key (`regKeys`) -/
def regsOf (m : RegMap) : List Render.Reg :=
  (m.map fun p => (⟨p.1, p.2.width⟩ : Render.Reg)).mergeSort fun a b => !decide (b.key < a.key)

/-- the state `emulF` of `cmd/mltwist` (`runIU`) hands to `emulate.New`: no register, the program image as a byte
memory under an empty sparse memory (`Lemmas.Emulator.toolState [] bs`, definitionally) -/
def startState (bs : List BytesMem.Block) : State.State :=
  { regs := RegMap.empty, mems := [(Riscv.memoryKey, .overlay (.bytes bs) (.sparse []))] }

/-- THE EMULATOR of the console UI over the real emulator model: `bs` the byte memory of the program
(`memory.NewBytes`), `cv` the code view of the dependency model at the time `emulate` is executed -/
def emuOps (bs : List BytesMem.Block) (cv : Emulator.CodeView) : EmuOps ESt where
  init _ ip := ⟨cv, Emulator.new ip (startState bs)⟩
  ip e := match mustIP e.st with
    | .ok a => some a
    | .error _ => none
  step e := stepTree e stepFuel []
  regWidth e k := (assocGet (strOf k) e.st.regs).map fun x => x.width % 256
  regStore e k c :=
    match assocGet (strOf k) e.st.regs with
    | some x => { e with st := { e.st with regs := e.st.regs.store (strOf k) (.const c) (x.width % 256) } }
    | none => e
  mem e k := (assocGet (strOf k) e.st.mems).map ofMem
  regs e := regsOf e.st.regs

end

/-! ### the instantiated UI (`Lemmas/ComposeUI.lean`) -/

section
open Mltwist Mltwist.UI

/-- the parameters of `processCommand` at the real code `d` -/
def paramsAt (info : Info) (bs : List BytesMem.Block) (rx : Str → Option (String → Bool))
    (d : Deps.Code) : Params ESt :=
  ⟨opsAt info d, emuOps bs (codeViewOf d), rx⟩

/-- the real code after the action `act` on `args` in the mode `top`: only `move` of the disassembler mode
touches it -/
def actDeps (d : Deps.Code) (top : NamedMode ESt) (act : Act) (args : List ArgVal) : Deps.Code :=
  match top.mode, args with
  | .dis st, [.num f, .num t] => if act = .dMove then nextDeps d st (.move f t) else d
  | _, _ => d

/-- the real code after one call of `processCommand` -/
def uiNextDeps (d : Deps.Code) (ui : UI ESt) : Input → Deps.Code
  | [] => d
  | line :: _ =>
    match ui.stack with
    | [] => d
    | top :: _ =>
      match parseCommand top.cmdMap line with
      | .ok cmd args => actDeps d top cmd.act args
      | _ => d

/-- the composed state: the real code and the UI -/
structure RUI where
  deps : Deps.Code
  ui : UI ESt

/-- the loop of `UI.Run` over the real models -/
def realRunWith (info : Info) (bs : List BytesMem.Block)
    (rx : Str → Option (String → Bool)) : Nat → RUI → Input → Final
  | 0, _, _ => .outOfFuel
  | fuel + 1, r, inp =>
    match uiStep (paramsAt info bs rx r.deps) r.ui inp with
    | .cont _ ui' rest => realRunWith info bs rx fuel ⟨uiNextDeps r.deps r.ui inp, ui'⟩ rest
    | .exited _ => .exited
    | .eof a => .eof a
    | .hang => .hang
    | .panic => .panic

/-- a whole session on the code `d0`: `consoleui.New(disassemble.New(code, emulF))`, then `Run` -/
def realSession (info : Info) (bs : List BytesMem.Block)
    (rx : Str → Option (String → Bool)) (d0 : Deps.Code) (inp : Input) : Final :=
  match UI.init (listingOf info d0) with
  | none => .panic
  | some ui => realRunWith info bs rx (inp.length + 1) ⟨d0, ui⟩ inp

end

end Mltwist.Lemmas.Compose

/-! ### the texts and bytes of a parsed program (`Props/Compose.lean`) -/

namespace Mltwist.Props.Compose
open Mltwist Mltwist.Lemmas.Compose

/-- the `info` the real program shows: the disassembly text of C25 (`Entry.text`, the model of
`instruction.String()`) and the bytes of the parsed instruction with that original address -/
def infoOfParsed (is : List (Parse.Ins (Riscv.Entry × Riscv.Ins))) : Info := fun a =>
  match is.find? fun i => i.addr == a with
  | some i => (i.details.1.text i.details.2, i.bytes)
  | none => ("", [])

end Mltwist.Props.Compose
