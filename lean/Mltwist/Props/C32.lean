import Mltwist.Lemmas.MemViewRender
import Mltwist.Lemmas.MemViewSparse
/-
C32 — the memory view shows exactly the stored bytes.

Model `MemView` (`Model/MemView.lean`): `memview/{line.go,view.go,commands.go,mode.go}` after the
repairs F28, F29, F80.  Vocabulary (`Lemmas/MemViewLines.lean`, `Lemmas/MemViewRender.lean`,
`Spec/MemView.lean`):

* `NormalR bl`: the interval list `Blocks()` as `interval.Map` delivers it (non-empty intervals,
  ascending, not adjacent; C17).  `MemR a bl`: the address `a` is stored.  `Bounded bl`: all ends
  are addresses (`< 2^64`).
* `Coh mem bl σ`: the memory handed to the view answers `Blocks()` with `bl`, `ConstFold(Load(a, 1))`
  is a constant with first byte `σ a` for every stored `a`, and `σ a = none` for every other `a`.
  `bytes_memory` proves it for the byte memory of C15 in its invariant (`σ` = its byte map) and
  `sparse_memory` for the sparse memory of C14 in its invariant whose stored expressions are closed
  and well-formed (`CW`: no register/memory load, widths 1..255 — constants, what the emulator
  stores), with `σ` = the value of the stored bytes.  A memory holding a non-constant expression
  makes `formatMemLine` panic (`bug: expected expr.Const`); that state is outside `Coh`.
* `viewLines bl`: the lines of the view; `key l`: what a line shows (`none` = ellipsis row,
  `some w` = the row of window `w`); `Spec.MemView.layout ws`: rows of the windows `ws` with an
  ellipsis row between non-consecutive windows, one before the first row unless its window is 0 and
  one after the last row (the two outer ones are allowed by the statement, not demanded).
* `Spec.MemView.rowCells σ w`: text of the 16 cells of window `w`: two upper-case hex digits of
  the stored byte or `..`, one blank between cells, two more before cell 8.

`Option`: `none` is a Go panic for `newMemoryView`/`print`, an error message (cursor unchanged) for
the commands.
-/
namespace Mltwist.Props.C32
open Mltwist Mltwist.MemView Mltwist.Lemmas.MemView

/-- building the view never panics; its lines are `viewLines bl`, the cursor is on line 0 -/
theorem view_total {mem : Mem} {bl : List Range} (hb : mem.blocks = some bl) (h : NormalR bl) :
    newMemoryView (some mem) = some ⟨viewLines bl, 0⟩ :=
  newMemoryView_eq hb h

/-- rows: exactly one per 16-byte aligned window that meets stored memory, in ascending order … -/
theorem rows_are_windows {bl : List Range} (h : NormalR bl) :
    Spec.MemView.Rows (fun a => MemR a bl) ((rowsOf bl).map (·.addr)) :=
  rowsOf_windows h

/-- … laid out with an ellipsis row exactly between non-consecutive rows (and the two outer ones) -/
theorem rows_layout {bl : List Range} (h : NormalR bl) :
    (viewLines bl).map key = Spec.MemView.layout ((rowsOf bl).map (·.addr)) :=
  viewLines_layout h

/-- cells: in the row of a window the ranges hold exactly the stored addresses of the window … -/
theorem cells_stored {bl : List Range} (h : NormalR bl) {l : Line} (hl : l ∈ rowsOf bl) (a : Nat)
    (h1 : l.addr ≤ a) (h2 : a < l.addr + 16) :
    (∃ r ∈ l.ranges, r.1 ≤ a ∧ a < r.2) ↔ MemR a bl :=
  rowsOf_cells h hl a h1 h2

/-- … and the row text shows each stored byte's value and marks every absent byte; the scan of
`formatMemLine` does not panic -/
theorem cells_text {mem : Mem} {bl : List Range} {σ : Nat → Option UInt8} (hc : Coh mem bl σ)
    (h : NormalR bl) {l : Line} (hl : l ∈ rowsOf bl) :
    formatMemLine mem l = some (Spec.MemView.rowCells σ l.addr) :=
  formatMemLine_eq hc h hl

/-- `Print(n)` never panics and writes the rows `begin ≤ i < end` of that layout: index, cursor
mark, window addresses and the exact cells -/
theorem print_rows {mem : Mem} {bl : List Range} {σ : Nat → Option UInt8} (hc : Coh mem bl σ)
    (h : NormalR bl) (c n : Nat) :
    print (some mem) ⟨viewLines bl, c⟩ n =
      some (if (viewLines bl).isEmpty then noMemory
        else
          let w := window ⟨viewLines bl, c⟩ n
          rowsTextF σ (numDigits (viewLines bl).length) c w.1
            ((((viewLines bl).map key).drop w.1).take (w.2 - w.1))) :=
  print_eq hc h c n

/-- `address a`: if `a` is stored, the cursor moves to the row one of whose stored ranges contains
`a` — the row of the window of `a`; otherwise an error is reported and the cursor stays
(`Spec.MemView.addrIndexStored`; `none` = the error) -/
theorem address_cmd {bl : List Range} (h : NormalR bl) (c a : Nat) :
    cmdAddress ⟨viewLines bl, c⟩ a =
      (Spec.MemView.addrIndexStored (decide (MemR a bl)) ((viewLines bl).map key) a).map
        fun i => ⟨viewLines bl, i⟩ :=
  cmdAddress_eq h c a

/-- a stored address is always found … -/
theorem address_stored {bl : List Range} (h : NormalR bl) {a : Nat} (hm : MemR a bl) :
    ∃ i, Spec.MemView.addrIndexStored (decide (MemR a bl)) ((viewLines bl).map key) a = some i :=
  addrIndexStored_some h hm

/-- … the selected row is the first (the only) one that shows the window of `a` … -/
theorem address_found {rows : List (Option Nat)} {a i : Nat}
    (h : Spec.MemView.addrIndex rows a = some i) :
    rows[i]? = some (some (Spec.MemView.windowOf a)) ∧
      ∀ j, j < i → rows[j]? ≠ some (some (Spec.MemView.windowOf a)) :=
  addrIndex_some h

/-- … and an address that is not stored is answered with the error -/
theorem address_absent {bl : List Range} (h : NormalR bl) (c : Nat) {a : Nat} (hm : ¬ MemR a bl) :
    cmdAddress ⟨viewLines bl, c⟩ a = none := by
  rw [address_cmd h c a]
  simp [Spec.MemView.addrIndexStored, hm]

/-- Observation F81 (NOT the code, not demanded by the check): a command searching by window
(`cmdAddressWindow`) would select the row of the window of `a` also for an absent byte inside a
shown window, and report an error exactly when no byte of that window is stored -/
theorem address_window_observation {bl : List Range} (h : NormalR bl) (hb : Bounded bl) (c : Nat)
    {a : Nat} (ha : a < 2 ^ 64) :
    cmdAddressWindow ⟨viewLines bl, c⟩ a =
      (Spec.MemView.addrIndex ((viewLines bl).map key) a).map fun i => ⟨viewLines bl, i⟩ :=
  cmdAddressWindow_eq h hb c ha

theorem address_window_error {bl : List Range} (h : NormalR bl) {a : Nat}
    (he : Spec.MemView.addrIndex ((viewLines bl).map key) a = none) :
    ¬ ∃ x, MemR x bl ∧ Spec.MemView.windowOf a ≤ x ∧ x < Spec.MemView.windowOf a + 16 :=
  addrIndex_none_window h he

/-- cursor commands: inside the rows, or an error that leaves the cursor alone; no panic -/
theorem cursor_cmds (v : View) (x : Int) :
    cursorSet v x = if 0 ≤ x ∧ x < v.lines.length then some ⟨v.lines, x.toNat⟩ else none :=
  cursorSet_spec v x

/-- F29: the view of no memory has no rows, prints the notice, refuses every command, never panics -/
theorem nil_memory :
    newMemoryView none = some ⟨[], 0⟩ ∧ (∀ n, print none ⟨[], 0⟩ n = some noMemory) ∧
    (∀ n, cmdDown ⟨[], 0⟩ n = none ∧ cmdUp ⟨[], 0⟩ n = none ∧ cmdGoto ⟨[], 0⟩ n = none) ∧
    (∀ a, cmdAddress ⟨[], 0⟩ a = none) :=
  nil_view

/-- the byte memory of C15 satisfies the hypotheses: normal blocks, coherent with its byte map -/
theorem bytes_memory (bs : List BytesMem.Block) (h : BytesSpec.Inv bs) :
    ∃ bl, NormalR bl ∧ Coh (ofBytes bs) bl (BytesSpec.ofBlocks bs) ∧
      ∀ a, MemR a bl ↔ BytesSpec.ofBlocks bs a ≠ none :=
  ofBytes_coh bs h

/-- the sparse memory of C14 holding closed well-formed expressions satisfies the hypotheses -/
theorem sparse_memory (t : Sparse.Tree) (hinv : Sparse.Inv t) (hex : ∀ kv ∈ t, CW kv.val.ex) :
    ∃ bl, NormalR bl ∧ Bounded bl ∧ Coh (ofSparse t) bl (sparseBytes t) ∧
      ∀ a, MemR a bl ↔ Sparse.abs t a ≠ none :=
  ofSparse_coh t hinv hex

/-- the merge loop and `block2Lines` never leave their arrays / never call `interval.New` with
`begin > end` -/
theorem memoryLines_total {bl : List Range} (h : NormalR bl) :
    memoryLines bl = some (viewLines bl) :=
  memoryLines_eq h

/-! Non-vacuity and the witnesses of the defects. -/

/-- F28: blocks `[0,4)` and `[8,12)` — the pinned loop shows window 0 twice, the repaired once -/
example :
    memoryLinesPinned [(0, 4), (8, 12)] =
      some [⟨0, [(0, 4), (8, 12)]⟩, ⟨0, [(8, 12)]⟩, Line.empty] ∧
    memoryLines [(0, 4), (8, 12)] = some [⟨0, [(0, 4), (8, 12)]⟩, Line.empty] :=
  f28_witness

/-- F80: a block in the last window of the address space gets its row -/
example : memoryLines [(2 ^ 64 - 16, 2 ^ 64 - 8)] =
    some [Line.empty, ⟨2 ^ 64 - 16, [(2 ^ 64 - 16, 2 ^ 64 - 8)]⟩, Line.empty] := by
  decide

/-- gap of exactly one window, two blocks sharing a window, a block spanning three windows -/
example : (memoryLines [(4, 6), (9, 12), (40, 70)]).map (·.map key) =
    some [some 0, none, some 32, some 48, some 64, none] := by
  decide

/-- `address 20` finds the row of window 16; address 16 lies in that window but is not stored: error
(observation F81: a search by window would select the row) -/
example : findLine 20 [Line.empty, ⟨16, [(20, 22)]⟩, Line.empty] = some 1 ∧
    findLine 16 [Line.empty, ⟨16, [(20, 22)]⟩, Line.empty] = none ∧
    findLineWindow 16 [Line.empty, ⟨16, [(20, 22)]⟩, Line.empty] = some 1 ∧
    findLineWindow 32 [Line.empty, ⟨16, [(20, 22)]⟩, Line.empty] = none := by
  decide

example : NormalR [(4, 6), (9, 12), (40, 70)] ∧ Bounded [(4, 6), (9, 12), (40, 70)] := by
  refine ⟨by simp [NormalR], ?_⟩
  intro b hb
  simp only [List.mem_cons, List.not_mem_nil, or_false] at hb
  rcases hb with rfl | rfl | rfl <;> decide

end Mltwist.Props.C32
