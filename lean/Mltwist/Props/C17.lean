import Mltwist.Lemmas.Interval
/-
C17 — interval sets obey set algebra.

`Mem x m`: the integer `x` lies in the set denoted by the interval list `m`;
`Normal m`: sorted, disjoint, non-adjacent, non-empty intervals.
The model functions are total, so "always succeeds" is part of each statement: the index
bookkeeping (`cnt`, `j`) of the Go loops is followed literally, including `List.drop j`.
-/
namespace Mltwist.Props.C17
open Mltwist.Interval

theorem newMap_normal (l : List Intv) (h : ∀ i ∈ l, i.1 < i.2) : Normal (newMap l) :=
  Lemmas.Interval.newMap_normal l h

theorem newMap_mem (l : List Intv) (h : ∀ i ∈ l, i.1 < i.2) (x : Int) :
    Mem x (newMap l) ↔ Mem x l :=
  Lemmas.Interval.newMap_mem l h x

theorem union_normal (a b : List Intv) (ha : Normal a) (hb : Normal b) : Normal (mapUnion a b) :=
  Lemmas.Interval.union_normal a b ha hb

theorem union_mem (a b : List Intv) (ha : Normal a) (hb : Normal b) (x : Int) :
    Mem x (mapUnion a b) ↔ Mem x a ∨ Mem x b :=
  Lemmas.Interval.union_mem a b ha hb x

theorem complement_normal (a b : List Intv) (ha : Normal a) (hb : Normal b) :
    Normal (mapComplement a b) :=
  Lemmas.Interval.complement_normal a b ha hb

theorem complement_mem (a b : List Intv) (ha : Normal a) (hb : Normal b) (x : Int) :
    Mem x (mapComplement a b) ↔ Mem x a ∧ ¬ Mem x b :=
  Lemmas.Interval.complement_mem a b ha hb x

theorem intersect_normal (a b : List Intv) (ha : Normal a) (hb : Normal b) :
    Normal (mapIntersect a b) :=
  Lemmas.Interval.intersect_normal a b ha hb

theorem intersect_mem (a b : List Intv) (ha : Normal a) (hb : Normal b) (x : Int) :
    Mem x (mapIntersect a b) ↔ Mem x a ∧ Mem x b :=
  Lemmas.Interval.intersect_mem a b ha hb x

/-- non-vacuity: the F33 witness now keeps `[18,21)`, the F04 witness does not fail -/
example : mapIntersect [(1, 3), (8, 14), (18, 23)] [(5, 21), (23, 24)] = [(8, 14), (18, 21)]
    ∧ mapComplement [(0, 2), (4, 6)] [] = [(0, 2), (4, 6)]
    ∧ newMap [(4, 6), (0, 2), (2, 3), (5, 9)] = [(0, 3), (4, 9)] := by decide

end Mltwist.Props.C17
