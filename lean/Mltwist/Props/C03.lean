import Mltwist.Lemmas.EmulatorStart
/-
C03 — emulation agrees step by step with a RISC-V machine.

Model: `Model/Emulator.lean` (`new`, `mustIP`, `step`, `eval`, `regValue`, `evalRegs`, `memValue`, `evalMem`,
`Report.recordOutput`, `run`) over `state.State` with `Overlay(Bytes(image), Sparse)` (the layering of
`cmd/mltwist runIU`), the code as a `CodeView` (the instruction whose current address equals ip —
assumption `LookupExact`: that `deps.Code.Address` + `Block.Address` implement this lookup is C07), the
instructions lifted by the front end (`liftCode`: `Riscv.parse (instructionSet 64 true true)` + `constFold`).
The model follows the REPAIRED code: F03 (`memValue` folds what `Mems.Load` returns before the type
assertion), F70 (a register is requested at the greatest width the code uses it with) and F45 (`checkAccess`:
an access that does not fit the address space, `addr + w ≥ 2^64`, makes `Step` return an error instead of
panicking inside the memories; nothing is applied, the instruction pointer stays).

Reference: `Spec.Rv.exec 64` (`Spec/Riscv.lean`); `Spec.Lift.Rel ρ σ` = the valuation `ρ` of the IR's
registers/memories represents the machine state `σ`; `Agree p code ρ s` = the emulator state `s` and the
not-yet-asked answers of the provider `p` represent `ρ` (on every width the code observes a register with);
`R p code σ s` = both, plus "the emulator's instruction pointer is `σ.pc`" and the invariants.

PROVED here (for every provider, image, state, step count — no sampling):
* `statement`           THE FULL CLAIM (`Statement`): the reference machine runs on its OWN memory (fetch at `pc`,
                        `Spec.Rv.decode`, `Spec.Rv.exec 64`); as long as it leaves the code blocks intact
                        (`Intact`: the program does not modify its code), stays on instructions of the code and
                        keeps its accesses below the top of the address space (`InScope`: `addr + n < 2^64`), the
                        emulator makes the same number of SUCCESSFUL steps (no error, no panic) and the states are
                        related (`R`) after every step; its next step reports exactly `specReport` (the registers
                        and bytes read and written with the reference's values), or is the error exactly when the
                        reference's `pc` is not at an instruction of the code.
  Its parts, each a theorem of its own:
* `never_panics_step`, `never_panics`, `never_panics_of_image`
                        UNCONDITIONAL IN THE ACCESSES (REPAIR F45): from a ready state, for every provider and every
                        instruction, a step is never a panic: it is the error iff no instruction starts at the
                        instruction pointer; otherwise it succeeds, or it is the access error — some access of the
                        instruction has `addr + w ≥ 2^64` — and then the state results from provider fills only
                        (`failed_step_keeps_state`: every register and byte the state held keeps its value, the
                        instruction pointer is the same, nothing of the instruction was applied).  Whole runs too.
                        `never_panics_step_in_domain`: with all accesses in C14's domain there is no access error;
* `load_folds_to_constant` whatever a memory that stores constants returns folds to a constant (REPAIR F03);
* `eval_is_value`       the constant `eval` computes = `Expr.eval` under the represented valuation (C09);
* `step_is_applyEffects` one step = `Spec.Lift.Env.applyEffects` + `nextIp` on the represented valuation;
* `report_exact`        the `Step` report = `specReport ρ effects`;
* `code_of_image_wellformed` every expression the RV64IMA tables lift, before and after `ConstFold`, has
                        widths 1..255 (table-wide: `Lemmas/RiscvLiftWF.lean`, `EmulatorFoldWF.lean`);
* `memory_shape`        every `MemLoad` node and `MemStore` of a lifted instruction (also after folding) addresses
                        exactly the reference's `accessRange` (table-wide: `Lemmas/RiscvLiftNodes.lean`), so the
                        emulator's accesses lie in the domain of C14 whenever the reference's do (`stepDom_of_static`);
* `fetch`               with the code intact the reference fetches the word the instruction was lifted from and
                        its decoder names the entry it was lifted by (C02);
* `refinement_step`, `refinement_run`, `refinement_err`, `related_at_start`
                        composition with C01 (`lift_correct`): `R` is preserved by every step.

What `Statement` still ASSUMES (all outside this model): `LookupExact` — `deps.Code.Address` + `Block.Address`
find exactly the instruction whose current address equals ip (C07); the instructions of `deps.Code` are
`liftCode` of the image's code blocks (C21); the start states are related — `tool_start_related` proves this
for the state the tool starts from whenever the provider answers consistently with one machine state
(`ProviderFor`).  Scope of the claim: programs that do not modify their code,
accesses with `addr + n < 2^64` (C14's domain), code blocks that do not wrap around the address space.
-/
namespace Mltwist.Props.C03
open Mltwist Mltwist.State Mltwist.Overlay Mltwist.Emulator Mltwist.Riscv
open Mltwist.Spec.Rv Mltwist.Spec.Lift
open Mltwist.Lemmas.Emulator

/-! ### the full statement -/

/-- C03 in full over the model (`Statement`, `refStep`, `refRun`, `Intact`, `InScope`, `BlocksOK` are defined in
`Lemmas/EmulatorFull.lean` / `EmulatorFetch.lean`): for every provider `p`, every image `blocks` (not wrapping
around the address space) whose code lifts to `code`, all related start states `σ0`, `s0` and every `n`: if during
the first `n` steps of the reference machine ON ITS OWN MEMORY the code blocks stay intact, the accesses stay
below `2^64` and (before step `n`) the `pc` is at an instruction of the code, then the emulator makes `n`
successful steps, is related to the reference's state, and its next step is the error if the `pc` has left
the instructions of the code and otherwise succeeds with the report `specReport ρ effects` for a valuation
`ρ` representing the reference state. -/
theorem statement : Statement := statement_holds

/-- the statement unfolded, to be read without the definitions -/
example : Statement =
    (∀ (p : Provider) (blocks : List (Nat × List UInt8)) (code : CodeView) (σ0 : St) (s0 : State),
      BlocksOK blocks → liftCode blocks = some code → R p code σ0 s0 →
      ∀ n σn,
        (∀ k σk, k ≤ n → refRun k σ0 = some σk → Intact blocks σk ∧ InScope σk) →
        (∀ k σk, k < n → refRun k σ0 = some σk → code.lookup σk.pc ≠ none) →
        refRun n σ0 = some σn →
        ∃ sn, stateAfter p code n s0 = some sn ∧ R p code σn sn ∧
          (code.lookup σn.pc = none → step p code sn = .err) ∧
          (∀ ins, code.lookup σn.pc = some ins →
            ∃ s' log ρ, Rel ρ σn ∧ step p code sn = .ok s' (specReport ρ ins.effects) log)) := rfl

/-- with the code intact the reference fetches the word the instruction was lifted from, and the reference
decoder (C02) names the table entry it was lifted by -/
theorem fetch {blocks : List (Nat × List UInt8)} {code : CodeView} (hok : BlocksOK blocks)
    (hc : liftCode blocks = some code) {σ : St} (hint : Intact blocks σ) {ins : Emulator.Ins}
    (hl : code.lookup σ.pc = some ins) :
    ∃ e, LiftedFrom ins e (σ.load σ.pc 4) ∧ decode 64 true true (σ.load σ.pc 4) = some e.name :=
  fetch_lifted hok hc hint hl

/-- every load node and every store of a lifted instruction addresses the reference's access range, so the
emulator's accesses lie in the domain of C14 whenever the reference's do -/
theorem memory_shape (p : Provider) (code : CodeView) {σ : St} {s : State} {ins : Emulator.Ins} {e : Entry}
    {word : Nat} (hR : R p code σ s) (hl : code.lookup σ.pc = some ins) (hlift : LiftedFrom ins e word)
    (hs : RefScope e.name word σ) : StepDom p code s ins := by
  obtain ⟨ρ, hrel, hagree⟩ := hR.rep
  exact stepDom_of_static hR.ready.inv hagree (lookup_mem hl) hlift.wf.2
    (effStatic_of_lifted hlift (lookup_addr hl) hR.wf hrel hs)

/-! ### never a panic; an error exactly when no instruction starts at the instruction pointer -/

/-- ONE STEP NEVER PANICS — from any ready state of any well-formed code, whatever the provider answers and
WHATEVER MEMORY THE INSTRUCTION ACCESSES (no `addr + w < 2^64` hypothesis; REPAIR F45).  `Step` returns the
error iff no instruction starts at the instruction pointer.  Otherwise it succeeds (provider fills `log`, then the
program's writes, ready again), or it returns the access error `accessErr s1 log a w`: an access `[a, a+w)` of the
instruction does not fit the address space (`2^64 ≤ a + w`, so the step is outside `StepDom`); the state `s1` it
leaves results from `s` by the provider calls `log` of the failed step alone (`Fill`: each for state unknown at
its moment, its answer stored — these are facts about the environment), no effect was applied, the instruction
pointer holds the same constant, and `s1` is ready: the emulator can be used further. -/
theorem never_panics_step (p : Provider) (code : CodeView) {s : State} (hr : Ready s) (hw : CodeWF code)
    (hs : CodeSW code) :
    ∃ c, assocGet Emulator.ipKey s.regs = some (.const c) ∧
      match code.lookup (leToNat c % 2 ^ 64) with
      | none => step p code s = .err
      | some ins =>
        (∃ s1 s2 log rep,
          step p code s = .ok (finish ins (ins.effects.any isJump) s2) rep log ∧
          Fill p s log s1 ∧ Applied s1 (ins.effects.map (evalEff s1)) s2 ∧
          Ready (finish ins (ins.effects.any isJump) s2)) ∨
        (∃ s1 log a w, step p code s = .accessErr s1 log a w ∧ Fill p s log s1 ∧ Ready s1 ∧
          assocGet Emulator.ipKey s1.regs = some (.const c) ∧ 2 ^ 64 ≤ a + w ∧ ¬ StepDom p code s ins) :=
  step_ready_total p code hr hw hs

/-- … in particular a step is NEVER a panic -/
theorem step_is_no_panic (p : Provider) (code : CodeView) {s : State} (hr : Ready s) (hw : CodeWF code)
    (hs : CodeSW code) (x : Emulator.Panic) : step p code s ≠ .panic x := by
  obtain ⟨c, _, hm⟩ := step_ready_total p code hr hw hs
  intro hx
  cases hl : code.lookup (leToNat c % 2 ^ 64) with
  | none => rw [hl] at hm; simp only at hm; rw [hm] at hx; cases hx
  | some ins =>
    rw [hl] at hm
    rcases hm with ⟨_, _, _, _, h, _⟩ | ⟨_, _, _, _, h, _⟩ <;> (rw [h] at hx; cases hx)

/-- what a failed step leaves behind (the state after `Fill`): every register and every byte the state held —
pre-set, written by the program, supplied earlier — is still there with its value; what was added was unknown
before and is the provider's answer -/
theorem failed_step_keeps_state {p : Provider} {s s1 : State} {log : List Req} (hf : Fill p s log s1)
    (hi : Inv s) :
    (∀ k e, assocGet k s.regs = some e → assocGet k s1.regs = some e) ∧
    (∀ key x b, s.mems.abs key x = some b → s1.mems.abs key x = some b) ∧
    (∀ r ∈ log, Unknown s r ∧ Supplied p s1 r) :=
  ⟨hf.rext, hf.mext hi, fun r hr => ⟨hf.unknown hi r hr, hf.supplied hi r hr⟩⟩

/-- with all accesses of the step in the domain of C14 (`addr + w < 2^64`) there is no access error: the statement
C03 carried before the repair of F45 -/
theorem never_panics_step_in_domain (p : Provider) (code : CodeView) {s : State} (hr : Ready s) (hw : CodeWF code)
    (hd : ∀ c ins, assocGet Emulator.ipKey s.regs = some (.const c) →
      code.lookup (leToNat c % 2 ^ 64) = some ins → StepDom p code s ins) :
    ∃ c, assocGet Emulator.ipKey s.regs = some (.const c) ∧
      match code.lookup (leToNat c % 2 ^ 64) with
      | none => step p code s = .err
      | some ins => ∃ s1 s2 log rep,
          step p code s = .ok (finish ins (ins.effects.any isJump) s2) rep log ∧
          Fill p s log s1 ∧ Applied s1 (ins.effects.map (evalEff s1)) s2 ∧
          Ready (finish ins (ins.effects.any isJump) s2) :=
  step_ready p code hr hw hd

/-- WHOLE RUNS, WHATEVER THE ACCESSES: no outcome of any step is a panic, and the run ends in a ready state (a run
ends with the first error: no instruction at the instruction pointer, or an access outside the address space) -/
theorem never_panics (p : Provider) (code : CodeView) (hw : CodeWF code) (hs : CodeSW code) (n : Nat) (s : State)
    (hr : Ready s) :
    Ready (run p code n s).2 ∧ ∀ o ∈ (run p code n s).1, match o with | .panic _ => False | _ => True :=
  let h := run_total p code hw hs n s hr
  ⟨h.1, h.2.1⟩

/-- … for the code the tool runs on — the lifting of the code blocks of an image — with no hypothesis on the code
at all (`CodeWF` and `CodeSW` are theorems, `code_of_image_wellformed`) -/
theorem never_panics_of_image (p : Provider) {blocks : List (Nat × List UInt8)} {code : CodeView}
    (hc : liftCode blocks = some code) (n : Nat) (s : State) (hr : Ready s) :
    Ready (run p code n s).2 ∧ ∀ o ∈ (run p code n s).1, match o with | .panic _ => False | _ => True :=
  never_panics p code (codeWF_of_liftCode hc) (codeSW_of_liftCode hc) n s hr

/-- whole runs inside the domain of C14 (the statement before the repair of F45; needs no `CodeSW`) -/
theorem never_panics_in_domain (p : Provider) (code : CodeView) (hw : CodeWF code) (n : Nat) (s : State)
    (hr : Ready s) (hd : RunDom p code n s) :
    Ready (run p code n s).2 ∧ ∀ o ∈ (run p code n s).1, match o with | .panic _ => False | _ => True :=
  let h := run_log p code hw n s hr hd
  ⟨h.1, h.2.1⟩

/-- REPAIR F03 in one statement: whatever a memory that stores constants returns for a load in the domain
— a cut piece of a wider store, several stores, image bytes + written bytes — is closed and well formed,
hence folds to a constant of its value; the type assertion of the repaired `memValue` cannot fail -/
theorem load_folds_to_constant {m : MemMap} (hi : m.Inv) (hc : MemsConst m) {key : String} {a w : Nat} {e : Expr}
    (hd : InDom a w) (h : m.load key a w = .ok (some e)) :
    ∃ v, foldConst e = .ok v ∧ v.length = e.width ∧ ∀ ρ, leToNat v = e.eval ρ := by
  obtain ⟨v, h1, _, h3, h4⟩ := foldConst_shape (memmap_shape hi hc hd h)
  exact ⟨v, h1, h3, h4⟩

/-! ### evaluation -/

/-- the constant `eval` returns for an expression of the code (all of whose loads are present in the
state after the provider calls) is the value of the expression under the represented valuation -/
theorem eval_is_value {p : Provider} {code : CodeView} {ρ : Env} {s : State} (hi : Inv s)
    (ha : Agree p code ρ s) {e : Expr} (hp : Present s e) (hle : RegsLe code e) :
    leToNat (valBytes s e) = e.eval ρ :=
  valBytes_eval hi ha hp hle

/-- `eval` computes `valBytes` of the state it ends in, never panics, and only fills unknown state -/
theorem eval_computes (p : Provider) (code : CodeView) (e : Expr) (c : Ctx) (hi : Inv c.st) (hw : e.wf = true)
    (hd : EvalDom p code e c) : ∃ c', eval p code e c = .ok (valBytes c'.st e, c') ∧ EvalOut p code e c c' :=
  eval_spec p code e c hi hw hd

/-! ### one step = the effect list of the instruction -/

/-- If the state and the provider represent `ρ`, a step at an instruction of the code succeeds; the
provider calls `log` extend the state to `s1`, which still represents `ρ` (effects are evaluated against
the PRE-state); the new state represents `ρ` with the effects applied in order and the instruction
pointer at the last instruction-pointer write, else at the end of the instruction. -/
theorem step_is_applyEffects (p : Provider) (code : CodeView) {s : State} {ρ : Env} {c : List UInt8}
    {ins : Emulator.Ins} (hr : Ready s) (ha : Agree p code ρ s)
    (hip : assocGet Emulator.ipKey s.regs = some (.const c))
    (hl : code.lookup (leToNat c % 2 ^ 64) = some ins) (hw : InsWF ins) (hd : StepDom p code s ins) :
    ∃ s1 s' rep log, step p code s = .ok s' rep log ∧ Ready s' ∧
      Fill p s log s1 ∧ Agree p code ρ s1 ∧ PresentAll s1 (evalOrders ins.effects) ∧ Inv s1 ∧
      recordAll (noteExprs s1 {} (evalOrders ins.effects)) (ins.effects.map (evalEff s1)) = some rep ∧
      Agree p code (withIp (Env.applyEffects ρ ins.effects) (nextIp ρ ins.effects ins.end_)) s' ∧
      ∃ c', assocGet Emulator.ipKey s'.regs = some (.const c') ∧ leToNat c' = nextIp ρ ins.effects ins.end_ :=
  step_sound p code hr ha hip hl hw hd

/-- … and its report lists exactly the registers and bytes read and written, with the values of `ρ` -/
theorem report_exact (p : Provider) (code : CodeView) {s : State} {ρ : Env} {c : List UInt8}
    {ins : Emulator.Ins} (hr : Ready s) (ha : Agree p code ρ s)
    (hip : assocGet Emulator.ipKey s.regs = some (.const c))
    (hl : code.lookup (leToNat c % 2 ^ 64) = some ins) (hw : InsWF ins) (hd : StepDom p code s ins) :
    ∃ s' log, step p code s = .ok s' (specReport ρ ins.effects) log := by
  obtain ⟨s1, s', rep, log, h1, _, _, ha1, hpres, hi1, hrec, _⟩ := step_sound p code hr ha hip hl hw hd
  have := report_spec (lookup_mem hl) hi1 ha1 hpres hrec
  subst this
  exact ⟨s', log, h1⟩

/-! ### refinement of the reference machine -/

/-- the instructions of the code view of an image are liftings of its words by entries of the RV64IMA
tables (C02: the decoder is the reference decoder) -/
theorem lifted_instruction {addr : Nat} {bs : List UInt8} {ins : Emulator.Ins} (h : liftIns addr bs = some ins) :
    ∃ e, LiftedFrom ins e (wordOf bs) ∧ ins.addr = addr :=
  liftedFrom_of_liftIns h

/-- the emulator the tool starts is related to the reference state whose registers and memory are "what
the state holds, else what the provider would answer" -/
theorem related_at_start {p : Provider} {code : CodeView} {σ : St} {s0 : State} {ρ : Env} (hi : Inv s0)
    (hwf : St.WF 64 σ) (hrel : Rel ρ σ) (ha : Agree p code ρ s0) : R p code σ (Emulator.new σ.pc s0) :=
  R_new hi hwf hrel ha

/-- every instruction of the code view of an image is lifted from the tables, and all its expressions
(before and after constant folding) are well formed -/
theorem code_of_image_wellformed {blocks : List (Nat × List UInt8)} {code : CodeView}
    (h : liftCode blocks = some code) :
    CodeWF code ∧ CodeSW code ∧ ∀ ins ∈ code, ∃ e word, LiftedFrom ins e word ∧
      ∀ ef ∈ e.validEffects ⟨ins.addr, word⟩, Effect.wfE ef := by
  refine ⟨codeWF_of_liftCode h, codeSW_of_liftCode h, fun ins hins => ?_⟩
  obtain ⟨e, word, hl⟩ := liftCode_lifted blocks code h ins hins
  exact ⟨e, word, hl, hl.wf.1⟩

/-- … concretely: for a provider that answers consistently with one machine state (`ProviderFor`), the
emulator `cmd/mltwist` creates — pre-set registers, the image under an empty sparse memory, `emulator.New` —
is related to the reference machine "pre-set value / image byte, otherwise the provider's answer" -/
theorem tool_start_related {p : Provider} {code : CodeView} {V : String → Nat} {B : String → Nat → Nat}
    (hp : ProviderFor p code V B) (pre : List (String × List UInt8)) {image bs : List BytesMem.Block}
    (h : BytesMem.newBytes image = .ok bs) (entry : Nat) (he : entry < 2 ^ 64)
    (hwf : ∀ k, (startEnv (toolState pre bs) V B).reg k < 2 ^ 64) :
    R p code (stOf (startEnv (toolState pre bs) V B) entry) (Emulator.new entry (toolState pre bs)) :=
  start_related hp pre h entry he hwf

/-- one step: the reference executes the lifted instruction, the emulator's `Step` succeeds, related again;
the only side condition is on the reference (its access lies in the domain of C14) -/
theorem refinement_step (p : Provider) (code : CodeView) {σ : St} {s : State} {ins : Emulator.Ins}
    {e : Entry} {word : Nat} (hR : R p code σ s) (hl : code.lookup σ.pc = some ins)
    (hlift : LiftedFrom ins e word) (hs : RefScope e.name word σ) :
    ∃ σ', exec 64 e.name word σ = some σ' ∧ ∃ s' rep log, step p code s = .ok s' rep log ∧ R p code σ' s' :=
  refine_step'' p code hR hl hlift hs

/-- the emulator fails exactly when the reference's `pc` is not the start of an instruction of the code -/
theorem refinement_err (p : Provider) (code : CodeView) {σ : St} {s : State} (hR : R p code σ s)
    (hl : code.lookup σ.pc = none) : step p code s = .err :=
  refine_err p code hR hl

/-- by induction: after every number of steps -/
theorem refinement_run (p : Provider) (code : CodeView) (n : Nat) (σ σn : St) (s : State)
    (hR : R p code σ s) (hs : RefRunScope code n σ) (hrun : RefSteps code n σ σn) :
    ∃ sn, stateAfter p code n s = some sn ∧ R p code σn sn :=
  refine_run'' p code n σ σn s hR hs hrun

/-! ### non-vacuity -/

/-- `addi x1,x0,5; sd x1,0(x2); lw x3,4(x2)` — the F03 witness (a load that is a cut piece of a wider
store) — at 0x1000 over the tool's layering, `x2 = 0x2000` pre-set -/
def exBlocks : List (Nat × List UInt8) :=
  [(4096, [0x93, 0x00, 0x50, 0x00, 0x23, 0x30, 0x11, 0x00, 0x83, 0x21, 0x41, 0x00])]

def exProv : Provider := ⟨fun _ w => List.replicate w 7, fun _ _ w => List.replicate w 9⟩

def exState : State := Emulator.new 4096 (toolState [("x2", [0, 0x20, 0, 0, 0, 0, 0, 0])] exBlocks)

set_option maxRecDepth 100000 in
set_option synthInstance.maxSize 2048 in
/-- three steps succeed (the third reads the upper half of the stored doubleword: 0), the fourth is the
error: the instruction pointer has left the code -/
example :
    ((liftCode exBlocks).map fun code => (run exProv code 4 exState).1.map fun o => match o with
      | .ok _ rep log => some (log, rep.regStores, rep.memStores)
      | _ => none)
    = some [some ([], [("x1", [5, 0, 0, 0, 0, 0, 0, 0])], []),
        some ([], [], [⟨"memory", 8192, [5, 0, 0, 0, 0, 0, 0, 0]⟩]),
        some ([], [("x3", [0, 0, 0, 0, 0, 0, 0, 0])], []),
        none] := by decide +kernel

/-- the provider of the console scenario of F45: every register is answered with `0xff…ff` -/
def topProv : Provider := ⟨fun _ w => List.replicate w 0xff, fun _ _ w => List.replicate w 9⟩

set_option maxRecDepth 100000 in
set_option synthInstance.maxSize 2048 in
/-- REPAIR F45, non-vacuity of the access error: `lb x3,-1(x0)` (one byte at `2^64 - 1`: the end is exactly
`2^64`) and `lw x3,0(x2)` with `x2` answered `0xff…ff` by the provider (the end wraps) — from the state the tool
starts with, `Step` returns the access error naming the access; the provider call of the second one stays in the
state (`x2` is known afterwards), register `x3` is not written, the instruction pointer is still `0x1000` -/
example :
    [[0x83, 0x01, 0xf0, 0xff], [0x83, 0x21, 0x01, 0x00]].map (fun word =>
      (liftCode [(4096, word)]).map fun code =>
        match step topProv code (Emulator.new 4096 (toolState [] [])) with
        | .accessErr s log a w =>
          some (log, a, w, s.regs.map (·.1), match mustIP s with | .ok ip => some ip | .error _ => none)
        | _ => none)
    = [some (some ([], 2 ^ 64 - 1, 1, [Emulator.ipKey], some 4096)),
       some (some ([.reg "x2" 8], 2 ^ 64 - 1, 4, [Emulator.ipKey, "x2"], some 4096))] := by decide +kernel

end Mltwist.Props.C03
