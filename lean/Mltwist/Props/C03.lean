import Mltwist.Lemmas.EmulatorLifted
/-
C03 — emulation agrees step by step with a RISC-V machine.

Model: `Model/Emulator.lean` (`new`, `mustIP`, `step`, `eval`, `regValue`, `evalRegs`, `memValue`, `evalMem`,
`Report.recordOutput`, `run`) over `state.State` with `Overlay(Bytes(image), Sparse)` (the layering of
`cmd/mltwist runIU`), the code as a `CodeView` (the instruction whose current address equals ip —
assumption `LookupExact`: that `deps.Code.Address` + `Block.Address` implement this lookup is C07), the
instructions lifted by the front end (`liftCode`: `Riscv.parse (instructionSet 64 true true)` + `constFold`).
The model follows the REPAIRED code: F03 (`memValue` folds what `Mems.Load` returns before the type
assertion) and F70 (a register is requested at the greatest width the code uses it with).

Reference: `Spec.Rv.exec 64` (`Spec/Riscv.lean`); `Spec.Lift.Rel ρ σ` = the valuation `ρ` of the IR's
registers/memories represents the machine state `σ`; `Agree p code ρ s` = the emulator state `s` and the
not-yet-asked answers of the provider `p` represent `ρ` (on every width the code observes a register with);
`R p code σ s` = both, plus "the emulator's instruction pointer is `σ.pc`" and the invariants.

PROVED here (each for every provider, code, state, valuation — no sampling):
* `never_panics`        a step from a ready state is an error iff no instruction starts at the
                        instruction pointer, never a panic (in particular not the F03 panic), whole runs;
* `eval_is_value`       the constant `eval` computes = `Expr.eval` under the represented valuation
                        (evaluation of the closed substituted expression, C09);
* `step_is_applyEffects` one step = `Spec.Lift.Env.applyEffects` + `nextIp` on the represented valuation;
* `report_exact`        the `Step` report = `specReport ρ effects`: exactly the loads of the effect
                        expressions and the stores of the effects, with their values;
* `refinement_step`, `refinement_run`, `refinement_err`, `related_at_start`
                        composition with C01 (`lift_correct`): `R` is preserved by every step of an
                        instruction lifted from the tables, hence after every number of steps.

* `code_of_image_wellformed`: every expression the RV64IMA tables lift, before and after `ConstFold`, has
                        widths 1..255 (table-wide: `Lemmas/RiscvLiftWF.lean`, `EmulatorFoldWF.lean`), so the
                        well-formedness side conditions are THEOREMS for the code view of every image.

NOT proved (`Statement` below is the full claim; the theorems above are its parts `…_partial` in the
sense of the framework): the side conditions `Scope'` of `refinement_run` are assumed, not derived —
  (1) `StepDom` from `noWrap`: every memory load the EMULATOR performs (it evaluates all `MemLoad` nodes,
      also in untaken `Less` branches) reads exactly the reference's `accessRange` (a table-wide fact about
      the shape of the lifted expressions), so that `addr + w < 2^64` transfers;
  (2) non-self-modification: that the word the reference fetches from ITS memory at `pc` is the word the
      instruction of the code view was lifted from (`RefSteps` executes the lifted instruction);
  (3) `LookupExact` (C07) and "the instructions of `deps.Code` are `liftCode` of the image" (C21).
-/
namespace Mltwist.Props.C03
open Mltwist Mltwist.State Mltwist.Overlay Mltwist.Emulator Mltwist.Riscv
open Mltwist.Spec.Rv Mltwist.Spec.Lift
open Mltwist.Lemmas.Emulator

/-! ### the full statement -/

/-- the reference machine on its own: fetch four bytes at `pc`, decode, execute -/
def refStep (σ : St) : Option St :=
  match decode 64 true true (σ.load σ.pc 4) with
  | some name => exec 64 name (σ.load σ.pc 4) σ
  | none => none

def refRun : Nat → St → Option St
  | 0, σ => some σ
  | n + 1, σ => match refStep σ with
    | some σ' => refRun n σ'
    | none => none

/-- the code blocks are still in the reference's memory (the program has not modified its code) -/
def Intact (blocks : List (Nat × List UInt8)) (σ : St) : Prop :=
  ∀ b ∈ blocks, ∀ i, (h : i < b.2.length) → σ.mem (b.1 + i) % 256 = (b.2[i]).toNat

/-- the memory access of the next instruction of the reference stays below the top of the address space -/
def InScope (σ : St) : Prop :=
  ∀ name, decode 64 true true (σ.load σ.pc 4) = some name →
    ∀ a n, accessRange 64 name (σ.load σ.pc 4) σ = some (a, n) → a + n < 2 ^ 64

/-- C03 in full: for every provider, every image whose code blocks lift to the code view `code`, every
pair of related start states, and every number `n` of steps during which the program leaves its code
intact and its accesses in scope: if the reference makes `n` steps the emulator makes `n` successful steps
into a related state, each step reporting `specReport`; and then the emulator's next step is the error
exactly when the reference's `pc` is not the start of a lifted instruction; it is never a panic. -/
def Statement : Prop :=
  ∀ (p : Provider) (blocks : List (Nat × List UInt8)) (code : CodeView) (σ0 : St) (s0 : State),
    liftCode blocks = some code → R p code σ0 s0 →
    ∀ n σn, (∀ k σk, k ≤ n → refRun k σ0 = some σk → Intact blocks σk ∧ InScope σk) →
      refRun n σ0 = some σn →
      ∃ sn, stateAfter p code n s0 = some sn ∧ R p code σn sn ∧
        (code.lookup σn.pc = none → step p code sn = .err) ∧
        (∀ ins, code.lookup σn.pc = some ins → ∃ s' rep log ρ, step p code sn = .ok s' rep log ∧
          Rel ρ σn ∧ rep = specReport ρ ins.effects)

/-! ### never a panic; an error exactly when no instruction starts at the instruction pointer -/

/-- one step, from any ready state of any (well-formed) code, whatever the provider answers -/
theorem never_panics_step_partial (p : Provider) (code : CodeView) {s : State} (hr : Ready s) (hw : CodeWF code)
    (hd : ∀ c ins, assocGet Emulator.ipKey s.regs = some (.const c) →
      code.lookup (leToNat c % 2 ^ 64) = some ins → StepDom p code s ins) :
    ∃ c, assocGet Emulator.ipKey s.regs = some (.const c) ∧
      match code.lookup (leToNat c % 2 ^ 64) with
      | none => step p code s = .err
      | some ins => ∃ s1 s2 log rep,
          step p code s = .ok (finish ins (ins.effects.any isJump) s2) rep log ∧
          Fill p s log s1 ∧ Applied s1 (ins.effects.map (evalEff s1)) s2 ∧
          Ready (finish ins (ins.effects.any isJump) s2) :=
  step_ready p code hr hw hd

/-- whole runs: no outcome of any step is a panic, and the run ends in a ready state -/
theorem never_panics_partial (p : Provider) (code : CodeView) (hw : CodeWF code) (n : Nat) (s : State)
    (hr : Ready s) (hd : RunDom p code n s) :
    Ready (run p code n s).2 ∧ ∀ o ∈ (run p code n s).1, match o with | .panic _ => False | _ => True :=
  let h := run_log p code hw n s hr hd
  ⟨h.1, h.2.1⟩

/-- REPAIR F03 in one statement: whatever a memory that stores constants returns for a load in the domain
— a cut piece of a wider store, several stores, image bytes + written bytes — is closed and well formed,
hence folds to a constant of its value; the type assertion of the repaired `memValue` cannot fail -/
theorem load_folds_to_constant {m : MemMap} (hi : m.Inv) (hc : MemsConst m) {key : String} {a w : Nat} {e : Expr}
    (hd : InDom a w) (h : m.load key a w = .ok (some e)) :
    ∃ v, foldConst e = .ok v ∧ v.length = e.width ∧ ∀ ρ, leToNat v = e.eval ρ := by
  obtain ⟨v, h1, _, h3, h4⟩ := foldConst_shape (memmap_shape hi hc hd h)
  exact ⟨v, h1, h3, h4⟩

/-! ### evaluation -/

/-- the constant `eval` returns for an expression of the code (all of whose loads are present in the
state after the provider calls) is the value of the expression under the represented valuation -/
theorem eval_is_value_partial {p : Provider} {code : CodeView} {ρ : Env} {s : State} (hi : Inv s)
    (ha : Agree p code ρ s) {e : Expr} (hp : Present s e) (hle : RegsLe code e) :
    leToNat (valBytes s e) = e.eval ρ :=
  valBytes_eval hi ha hp hle

/-- `eval` computes `valBytes` of the state it ends in, never panics, and only fills unknown state -/
theorem eval_computes (p : Provider) (code : CodeView) (e : Expr) (c : Ctx) (hi : Inv c.st) (hw : e.wf = true)
    (hd : EvalDom p code e c) : ∃ c', eval p code e c = .ok (valBytes c'.st e, c') ∧ EvalOut p code e c c' :=
  eval_spec p code e c hi hw hd

/-! ### one step = the effect list of the instruction -/

/-- If the state and the provider represent `ρ`, a step at an instruction of the code succeeds; the
provider calls `log` extend the state to `s1`, which still represents `ρ` (effects are evaluated against
the PRE-state); the new state represents `ρ` with the effects applied in order and the instruction
pointer at the last instruction-pointer write, else at the end of the instruction. -/
theorem step_is_applyEffects_partial (p : Provider) (code : CodeView) {s : State} {ρ : Env} {c : List UInt8}
    {ins : Emulator.Ins} (hr : Ready s) (ha : Agree p code ρ s)
    (hip : assocGet Emulator.ipKey s.regs = some (.const c))
    (hl : code.lookup (leToNat c % 2 ^ 64) = some ins) (hw : InsWF ins) (hd : StepDom p code s ins) :
    ∃ s1 s' rep log, step p code s = .ok s' rep log ∧ Ready s' ∧
      Fill p s log s1 ∧ Agree p code ρ s1 ∧ PresentAll s1 (evalOrders ins.effects) ∧ Inv s1 ∧
      recordAll (noteExprs s1 {} (evalOrders ins.effects)) (ins.effects.map (evalEff s1)) = some rep ∧
      Agree p code (withIp (Env.applyEffects ρ ins.effects) (nextIp ρ ins.effects ins.end_)) s' ∧
      ∃ c', assocGet Emulator.ipKey s'.regs = some (.const c') ∧ leToNat c' = nextIp ρ ins.effects ins.end_ :=
  step_sound p code hr ha hip hl hw hd

/-- … and its report lists exactly the registers and bytes read and written, with the values of `ρ` -/
theorem report_exact_partial (p : Provider) (code : CodeView) {s : State} {ρ : Env} {c : List UInt8}
    {ins : Emulator.Ins} (hr : Ready s) (ha : Agree p code ρ s)
    (hip : assocGet Emulator.ipKey s.regs = some (.const c))
    (hl : code.lookup (leToNat c % 2 ^ 64) = some ins) (hw : InsWF ins) (hd : StepDom p code s ins) :
    ∃ s' log, step p code s = .ok s' (specReport ρ ins.effects) log := by
  obtain ⟨s1, s', rep, log, h1, _, _, ha1, hpres, hi1, hrec, _⟩ := step_sound p code hr ha hip hl hw hd
  have := report_spec (lookup_mem hl) hi1 ha1 hpres hrec
  subst this
  exact ⟨s', log, h1⟩

/-! ### refinement of the reference machine -/

/-- the instructions of the code view of an image are liftings of its words by entries of the RV64IMA
tables (C02: the decoder is the reference decoder) -/
theorem lifted_instruction {addr : Nat} {bs : List UInt8} {ins : Emulator.Ins} (h : liftIns addr bs = some ins) :
    ∃ e, LiftedFrom ins e (wordOf bs) ∧ ins.addr = addr :=
  liftedFrom_of_liftIns h

/-- the emulator the tool starts is related to the reference state whose registers and memory are "what
the state holds, else what the provider would answer" -/
theorem related_at_start_partial {p : Provider} {code : CodeView} {σ : St} {s0 : State} {ρ : Env} (hi : Inv s0)
    (hwf : St.WF 64 σ) (hrel : Rel ρ σ) (ha : Agree p code ρ s0) : R p code σ (Emulator.new σ.pc s0) :=
  R_new hi hwf hrel ha

/-- every instruction of the code view of an image is lifted from the tables, and all its expressions
(before and after constant folding) are well formed -/
theorem code_of_image_wellformed {blocks : List (Nat × List UInt8)} {code : CodeView}
    (h : liftCode blocks = some code) :
    CodeWF code ∧ ∀ ins ∈ code, ∃ e word, LiftedFrom ins e word ∧
      ∀ ef ∈ e.validEffects ⟨ins.addr, word⟩, Effect.wfE ef := by
  refine ⟨codeWF_of_liftCode h, fun ins hins => ?_⟩
  obtain ⟨e, word, hl⟩ := liftCode_lifted blocks code h ins hins
  exact ⟨e, word, hl, hl.wf.1⟩

/-- one step: the reference executes the lifted instruction, the emulator's `Step` succeeds, related again -/
theorem refinement_step_partial (p : Provider) (code : CodeView) {σ : St} {s : State} {ins : Emulator.Ins}
    {e : Entry} {word : Nat} (hR : R p code σ s) (hl : code.lookup σ.pc = some ins)
    (hlift : LiftedFrom ins e word) (hnw : noWrap 64 e.name word σ = true) (hd : StepDom p code s ins) :
    ∃ σ', exec 64 e.name word σ = some σ' ∧ ∃ s' rep log, step p code s = .ok s' rep log ∧ R p code σ' s' :=
  refine_step' p code hR hl hlift hnw hd

/-- the emulator fails exactly when the reference's `pc` is not the start of an instruction of the code -/
theorem refinement_err_partial (p : Provider) (code : CodeView) {σ : St} {s : State} (hR : R p code σ s)
    (hl : code.lookup σ.pc = none) : step p code s = .err :=
  refine_err p code hR hl

/-- by induction: after every number of steps -/
theorem refinement_run_partial (p : Provider) (code : CodeView) (n : Nat) (σ σn : St) (s : State)
    (hR : R p code σ s) (hs : Scope' p code n σ s) (hrun : RefSteps code n σ σn) :
    ∃ sn, stateAfter p code n s = some sn ∧ R p code σn sn :=
  refine_run' p code n σ σn s hR hs hrun

/-! ### non-vacuity -/

/-- `addi x1,x0,5; sd x1,0(x2); lw x3,4(x2)` — the F03 witness (a load that is a cut piece of a wider
store) — at 0x1000 over the tool's layering, `x2 = 0x2000` pre-set -/
def exBlocks : List (Nat × List UInt8) :=
  [(4096, [0x93, 0x00, 0x50, 0x00, 0x23, 0x30, 0x11, 0x00, 0x83, 0x21, 0x41, 0x00])]

def exProv : Provider := ⟨fun _ w => List.replicate w 7, fun _ _ w => List.replicate w 9⟩

def exState : State := Emulator.new 4096 (toolState [("x2", [0, 0x20, 0, 0, 0, 0, 0, 0])] exBlocks)

set_option maxRecDepth 100000 in
set_option synthInstance.maxSize 2048 in
/-- three steps succeed (the third reads the upper half of the stored doubleword: 0), the fourth is the
error: the instruction pointer has left the code -/
example :
    ((liftCode exBlocks).map fun code => (run exProv code 4 exState).1.map fun o => match o with
      | .ok _ rep log => some (log, rep.regStores, rep.memStores)
      | _ => none)
    = some [some ([], [("x1", [5, 0, 0, 0, 0, 0, 0, 0])], []),
        some ([], [], [⟨"memory", 8192, [5, 0, 0, 0, 0, 0, 0, 0]⟩]),
        some ([], [("x3", [0, 0, 0, 0, 0, 0, 0, 0])], []),
        none] := by decide +kernel

end Mltwist.Props.C03
