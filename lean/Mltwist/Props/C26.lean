import Mltwist.Lemmas.Startup
/-
C26 — start-up is total over input files.  PARTIAL by nature: `debug/elf`, the operating system, the
allocator and the terminal are outside the model.

Model (`Model/Startup.lean`): `run lim nargs view` = `run()`/`parseElf`/`runIU` of
`cmd/mltwist/main.go` up to (excluding) `ui.Run()`, composed of the component models of C20 (`load`,
`machineCode`, `memory`), C19/C02 (`newMatcher` over the regenerated RV64IMA table =
`riscv.NewParser`), C21 (`parseRv64`), C08 (`newCode`) and C15 (`newBytes`).  Its input is the
argument count and the `debug/elf` view of the file (`none` when `elf.Open` fails: missing file,
directory, empty, not ELF, truncated header or tables).  Outcomes: `ui` (the interactive UI is entered),
`exit1 stage` (`mltwist: <message>` on stderr, exit status 1), `panic` (crash).

What the theorem says: for every argument count and every view, the outcome is `ui` or `exit1 _`,
never `panic` — provided the zero fill of every loadable segment is within what the allocator grants
(`lim`).  Without that proviso the claim is FALSE for the code as it is (F19: `Parser.Memory`
allocates `p_memsz` bytes blindly; the binary crashes on such a file) — a known finding, not repaired.
`ViewOK` collects the facts about `debug/elf` values taken for granted (C20).

Not modelled: `disassemble.New`/`consoleui.New` (construction of the UI objects out of constant
command tables — executed by the differential check), `ui.Run()` itself (C22), the conversion of the
file into the view (`debug/elf`; exercised by the differential check on generated, mutated and junk
files, in-process and through the real binary).
-/
namespace Mltwist.Props.C26
open Mltwist Mltwist.Elf Mltwist.Startup

/-- start-up never crashes: the outcome is the UI or an error exit -/
theorem run_total (lim nargs : Nat) (v : Option View) (hv : ∀ w, v = some w → Elf.Spec.ViewOK w)
    (hlim : ∀ w, v = some w → ∀ p ∈ w.progs, p.typ = 1 → p.memsz ≤ lim) :
    run lim nargs v = .ui ∨ ∃ s, run lim nargs v = .exit1 s := by
  have h := Lemmas.Startup.run_total lim nargs v hv hlim
  cases hr : run lim nargs v with
  | ui => exact Or.inl rfl
  | exit1 s => exact Or.inr ⟨s, rfl⟩
  | panic => exact absurd hr h

/-- a wrong number of arguments is an error exit, whatever the files are -/
theorem run_args (lim nargs : Nat) (v : Option View) (h : nargs ≠ 1) : run lim nargs v = .exit1 .args := by
  unfold run
  rw [if_pos (by omega)]

/-- a file that `debug/elf` does not open, or of type none / relocatable / core, is an error exit -/
theorem run_unopened (lim : Nat) : run lim 1 none = .exit1 .elf := rfl

theorem run_wrong_type (lim : Nat) (w : View) (h : w.typ = 0 ∨ w.typ = 1 ∨ w.typ = 4) :
    run lim 1 (some w) = .exit1 .elf := by
  unfold run
  rw [Props.C20.type_rejected lim w h]
  rfl

/-- `riscv.NewParser(Variant64, ExtM, ExtA)` cannot hit its `bug: matcher creation failed` panic -/
theorem newParser_no_panic : ∃ M, Opcode.newMatcher (Riscv.patsOf Parse.rv64Table) = .ok M :=
  Lemmas.Startup.newMatcher_ok

/-- once code and memory are loaded the rest of start-up cannot crash (no allocation proviso needed) -/
theorem runLoaded_total (entry : Nat) (code mem : List Block) (hc : Elf.Spec.Fits code) :
    runLoaded entry code mem ≠ .panic :=
  Lemmas.Startup.runLoaded_total entry code mem hc

/-- `memory.NewBytes` cannot fail on the program memory of a loaded file: "cannot create byte memory"
is unreachable -/
theorem runIU_ui (mem : List Block) (ht : Elf.Spec.Tidy mem) : runIU mem = .ui :=
  Lemmas.Startup.runIU_ui mem ht

/-! ### non-vacuity -/

/-- `addi x1,x0,1 ; jal x0,0` at 0x1000 with entry 0x1000 and one loadable segment reaches the UI;
entry in the middle of an instruction, an undefined word, no code, overlapping segments, too many
arguments exit with an error; an enormous `p_memsz` is the crash F19 -/
def goodView : View :=
  { typ := 2, entry := 4096,
    sections := [⟨1, 6, 4096, 8, 8, some [0x93, 0x00, 0x10, 0x00, 0x6f, 0x00, 0x00, 0x00]⟩],
    progs := [⟨1, 4096, 8, 16, some [0x93, 0x00, 0x10, 0x00, 0x6f, 0x00, 0x00, 0x00]⟩] }

example : run 100 1 (some goodView) = .ui := by decide +kernel
example : run 100 1 (some { goodView with entry := 4098 }) = .exit1 .model := by decide +kernel
example : run 100 1 (some { goodView with
    sections := [⟨1, 6, 4096, 4, 4, some [0xff, 0xff, 0xff, 0xff]⟩] }) = .exit1 .parse := by decide +kernel
example : run 100 1 (some { goodView with sections := [] }) = .exit1 .code := by decide +kernel
example : run 100 1 (some { goodView with
    progs := goodView.progs ++ [⟨1, 4100, 2, 2, some [1, 2]⟩] }) = .exit1 .memory := by decide +kernel
example : run 100 2 (some goodView) = .exit1 .args := by decide +kernel
example : run 100 1 (some { goodView with
    progs := [⟨1, 4096, 8, 4611686018427387904, some [0x93, 0x00, 0x10, 0x00, 0x6f, 0x00, 0x00, 0x00]⟩] }) = .panic := by
  decide +kernel

end Mltwist.Props.C26
