import Mltwist.Lemmas.BytesMemRead
import Mltwist.Lemmas.BytesHeap
/-
C15 — byte memory behaves like byte-addressed memory.

Value model `BytesMem` (blocks = list of `(begin, bytes)`, addresses in `Nat`; it coincides with the
Go code for ranges whose end is representable, `addr + w < 2^64`), abstract meaning `BytesSpec`:
`ofBlocks bs : Nat → Option UInt8` is the byte map of a block list, `write m a data` the map after
writing `data` at `a`, `storeBytes c w = natToLE w (leToNat c)` the bytes a store of constant `c`
with width `w` writes, `Inv` the block invariant (sorted, disjoint, non-adjacent, non-empty),
`Overlap l` = two blocks of `l` cover a common address (an empty block covers nothing).

All model functions return `Except Fail _`; `.ok` in a conclusion therefore says that none of the
failure points of the Go code (index/slice bounds panics, the `bug: store resulted in byte overlap`
panic) is reached.  `Load`/`Missing` are specified for widths `w ≥ 1`.

The aliasing clause ("never modifies a constant or byte slice it was given or returned") is a
statement about backing arrays and is proved on the heap-level model `BytesHeap` of the same
functions (slices `(array, off, len, cap)`, Go `make`/`copy`/`append`/re-slicing), for the repaired
`store` (`Cfg.fixF05 = true`) and every capacity growth function.
-/
namespace Mltwist.Props.C15
open Mltwist Mltwist.BytesMem Mltwist.BytesSpec

/-! ### `NewBytes` -/

/-- `NewBytes` fails iff two initial blocks overlap -/
theorem newBytes_error_iff (l : List Block) : newBytes l = .error .overlap ↔ Overlap l := by
  rcases Lemmas.BytesMem.newBytes_spec l with ⟨he, ho⟩ | ⟨bs, hb, hno, _, _⟩
  · exact ⟨fun _ => ho, fun _ => he⟩
  · exact ⟨fun h => (by rw [hb] at h; cases h), fun h => absurd h hno⟩

/-- … and it fails in no other way -/
theorem newBytes_no_panic (l : List Block) (e : Fail) (h : newBytes l = .error e) : e = .overlap := by
  rcases Lemmas.BytesMem.newBytes_spec l with ⟨he, _⟩ | ⟨bs, hb, _, _, _⟩
  · rw [he] at h; cases h; rfl
  · rw [hb] at h; cases h

/-- on success the block invariant holds and the memory contains exactly the initial bytes -/
theorem newBytes_ok (l : List Block) (bs : List Block) (h : newBytes l = .ok bs) :
    Inv bs ∧ ofBlocks bs = ofBlocks l := by
  rcases Lemmas.BytesMem.newBytes_spec l with ⟨he, _⟩ | ⟨bs', hb, _, hinv, hm⟩
  · rw [he] at h; cases h
  · rw [hb] at h; cases h; exact ⟨hinv, funext hm⟩

/-! ### `Store` -/

/-- a store of a constant succeeds (no panic, in particular not the overlap panic), preserves the
block invariant and writes exactly the `w` bytes of the constant -/
theorem store_spec (bs : List Block) (h : Inv bs) (a w : Nat) (c : List UInt8) :
    ∃ bs', storeExpr bs a w (.const c) = .ok bs' ∧ Inv bs' ∧
      ofBlocks bs' = write (ofBlocks bs) a (storeBytes c w) := by
  obtain ⟨bs', h1, h2, h3⟩ := Lemmas.BytesMem.storeConst_spec bs h a w c
  exact ⟨bs', h1, h2, funext h3⟩

/-- a store of a non-constant is the documented panic and nothing else -/
theorem store_nonConst (bs : List Block) (a w : Nat) (ex : Expr) (h : ex.isConst = false) :
    storeExpr bs a w ex = .error .nonConst := by
  cases ex <;> simp_all [storeExpr, Expr.isConst]

/-- the state after `NewBytes` and any history of constant stores: invariant and byte map -/
theorem history_spec (l : List Block) (bs0 : List Block) (h0 : newBytes l = .ok bs0)
    (hist : List (Nat × Nat × List UInt8)) :
    ∃ bs, BytesMem.runStores bs0 hist = .ok bs ∧ Inv bs ∧
      ofBlocks bs = BytesSpec.runStores (ofBlocks l) hist := by
  obtain ⟨hinv, hm⟩ := newBytes_ok l bs0 h0
  obtain ⟨bs, h1, h2, h3⟩ := Lemmas.BytesMem.runStores_spec hist bs0 hinv
  exact ⟨bs, h1, h2, by rw [← hm]; exact funext h3⟩

/-! ### `Load`, `Missing`, `Blocks` -/

/-- `Load` never panics, succeeds iff all `w` bytes are present, and then returns exactly these bytes
as a `w`-byte constant -/
theorem load_spec (bs : List Block) (h : Inv bs) (a w : Nat) (hw : 1 ≤ w) :
    ∃ r, load bs a w = .ok r ∧ (r.isSome = true ↔ Present (ofBlocks bs) a w) ∧
      ∀ v, r = some v → v.length = w ∧ ∀ i, i < w → v[i]? = ofBlocks bs (a + i) :=
  Lemmas.BytesMem.load_spec bs h a w hw

/-- `Missing` is the normal form of the absent part of `[a, a+w)` -/
theorem missing_spec (bs : List Block) (h : Inv bs) (a w : Nat) (hw : 1 ≤ w) :
    Interval.Normal (missing bs a w) ∧
    ∀ x : Int, Interval.Mem x (missing bs a w) ↔
      (a : Int) ≤ x ∧ x < ((a + w : Nat) : Int) ∧ ofBlocks bs x.toNat = none :=
  Lemmas.BytesMem.missing_spec bs h a w hw

/-- `Blocks` is the normal form of the set of present addresses -/
theorem blocks_spec (bs : List Block) (h : Inv bs) :
    Interval.Normal (blocks bs) ∧
    ∀ x : Int, Interval.Mem x (blocks bs) ↔ 0 ≤ x ∧ ofBlocks bs x.toNat ≠ none :=
  Lemmas.BytesMem.blocks_spec bs h

/-! ### aliasing (heap-level model) -/

open Mltwist.BytesHeap in
/-- `NewBytes` on caller-held slices followed by any history of `Store`s (of constants the caller held
from the start or got from `Load`) and `Load`s: every slice handed over or returned — the initial
block slices, every constant at the time it is passed to `Store`, every constant returned by
`Load` — still denotes, at the end, the bytes it denoted when it was handed over -/
theorem no_write_through (cfg : Cfg) (hfix : cfg.fixF05 = true) (h0 : Heap) (input : List HBlock)
    (ops : List HOp) (hin : ∀ b ∈ input, b.2.arr < h0.length)
    (hops : ∀ op ∈ ops, WfOp h0.length op)
    (st : HState) (hrun : runH cfg h0 input ops = some st) : changed st = 0 := by
  have := Lemmas.BytesHeap.no_write_through cfg hfix h0 input ops hin hops st hrun
  unfold changed
  rw [List.length_eq_zero_iff, List.filter_eq_nil_iff]
  intro m hm
  simp [this m hm]

open Mltwist.BytesHeap in
/-- the frame of one operation: an array into which no live slice of a block points (in particular
every array reachable from a caller-held constant or slice) is not written -/
theorem step_frame (cfg : Cfg) (hfix : cfg.fixF05 = true) (base : Nat) (st : HState)
    (g : Good base st) (op : HOp) (id : Nat) (hid : id < st.heap.length)
    (hno : ¬ Owns st.blocks id) :
    arrOf (stepH cfg st op).heap id = arrOf st.heap id :=
  Lemmas.BytesHeap.step_frame cfg hfix g op id hid hno

open Mltwist.BytesHeap in
/-- `Good` holds after `NewBytes` on slices of existing arrays … -/
theorem good_after_newBytes (cfg : Cfg) (h0 : Heap) (input : List HBlock)
    (hin : ∀ b ∈ input, b.2.arr < h0.length) (bs : List HBlock)
    (hnew : (newBytesH cfg h0 input).2 = .ok bs) :
    Good h0.length { heap := (newBytesH cfg h0 input).1, blocks := bs, loaded := [],
                     mon := input.foldl (fun m b => watch h0 b.2 m) [] } :=
  Lemmas.BytesHeap.good_init cfg h0 input hin bs hnew

open Mltwist.BytesHeap in
/-- … and is preserved by every well-formed operation -/
theorem good_preserved (cfg : Cfg) (hfix : cfg.fixF05 = true) (base : Nat) (st : HState)
    (g : Good base st) (op : HOp) (hop : WfOp base op) : Good base (stepH cfg st op) :=
  Lemmas.BytesHeap.good_step cfg hfix g op hop

/-! ### non-vacuity -/

/-- adjacent blocks are merged, a gap of one stays, overlapping blocks are rejected, empty blocks are
ignored (F36) -/
example :
    newBytes [(12, [3]), (10, [1, 2]), (20, [9]), (14, [])] = .ok [(10, [1, 2, 3]), (20, [9])]
    ∧ newBytes [(10, [1, 2, 3]), (12, [4])] = .error .overlap
    ∧ newBytes [(5, [0, 1, 2, 3, 4, 5, 6, 7, 8, 9]), (10, [])] = .ok [(5, [0, 1, 2, 3, 4, 5, 6, 7, 8, 9])] := by
  decide

/-- the F32 witness: a store in front of three blocks keeps all of them; a store spanning a block
and two gaps merges everything -/
example :
    storeExpr [(10, [0xaa]), (20, [0xbb]), (30, [0xcc])] 0 1 (.const [0x11])
      = .ok [(0, [0x11]), (10, [0xaa]), (20, [0xbb]), (30, [0xcc])]
    ∧ storeExpr [(10, [0xaa]), (20, [0xbb])] 8 4 (.const [1, 2])
      = .ok [(8, [1, 2, 0, 0]), (20, [0xbb])]
    ∧ storeExpr [(10, [0xaa, 0xab]), (14, [0xbb])] 11 4 (.const [1, 2, 3, 4, 5])
      = .ok [(10, [0xaa, 1, 2, 3, 4])] := by
  decide

example :
    load [(10, [1, 2, 3])] 11 2 = .ok (some [2, 3]) ∧ load [(10, [1, 2, 3])] 12 2 = .ok none
    ∧ load [(10, [1, 2, 3])] 13 1 = .ok none
    ∧ missing [(10, [1, 2, 3]), (20, [9])] 8 14 = [(8, 10), (13, 20), (21, 22)]
    ∧ blocks [(10, [1, 2, 3]), (20, [9])] = [(10, 13), (20, 21)] := by
  decide

open Mltwist.BytesHeap in
/-- the F05 witness on the heap model: with the pinned `store` a second store rewrites the constant
of the first one (array 0), with the repaired `store` it does not -/
example :
    let c1 : Slice := { arr := 0, off := 0, len := 4, cap := 4 }
    let c2 : Slice := { arr := 1, off := 0, len := 4, cap := 4 }
    let h0 : Heap := [[1, 2, 3, 4], [5, 6, 7, 8]]
    let ops := [HOp.st 100 4 (.ext c1), HOp.st 100 4 (.ext c2), HOp.ld 100 4]
    (runH { grow := fun _ n => n, fixF05 := false } h0 [] ops).map changed = some 1
    ∧ (runH { grow := fun _ n => n, fixF05 := true } h0 [] ops).map changed = some 0 := by
  decide

end Mltwist.Props.C15
