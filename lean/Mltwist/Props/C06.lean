import Mltwist.Lemmas.DepsIndep
import Mltwist.Lemmas.DepsNew
import Mltwist.Lemmas.DepsFootprint
/-
C06 — independent adjacent instructions may always be swapped.

`Conflict x y` (`Spec/Deps.lean`) for an instruction `x` standing before `y`: the clause list of
the property — they share a register with at least one of them writing it (RAW / WAW / WAR, the
instruction-pointer key included), both access one memory space with at least one store, either is
a system call or CPU-state change, a memory-ordering instruction is paired with a memory access or
a memory-ordering instruction, `y` is the block's terminating jump — plus, because of the F08
repair: one of them writes the instruction pointer (every instruction implicitly reads and
advances the instruction pointer, so an explicit writer shares it with every other instruction).
`Independent` is the negation.  Footprints are read off the effects by structural recursion
(independently of the model's `findAll`-based `inputRegs` …).

* `no_spurious_edge`: every edge the five finders produce joins two conflicting instructions;
* `independent_swap`: in every state reachable by any history from a well-formed code, two adjacent
  instructions that are independent can be swapped (`Move(i, i+1)` succeeds).
-/
namespace Mltwist.Props.C06
open Mltwist Mltwist.Deps Mltwist.Deps.Spec Mltwist.Lemmas.Deps

abbrev Raw := Nat × Nat × Nat × List Effect

def WF (raw : List Raw) : Prop := BasicBlock.Spec.WF (toBB raw)

/-- the finders never fail on a non-empty block -/
theorem finders_total (seq : List Ins) (hne : seq ≠ []) : ∃ E, findAllDeps seq = some E :=
  findAllDeps_isSome seq hne

/-- every edge of the five finders (`findTrueDeps`, `findAntiDeps`, `findOutputDeps`,
`findControlDeps`, `findSpecialDeps`) goes forward and joins two conflicting instructions -/
theorem no_spurious_edge (seq : List Ins) (hid : IdsArePositions seq) (E : Edges)
    (h : findAllDeps seq = some E) (e : Nat × Nat) (he : e ∈ E) :
    ∃ (h1 : e.1 < seq.length) (h2 : e.2 < seq.length), e.1 < e.2 ∧
      Conflict (seq[e.1].toS seq.length) (seq[e.2].toS seq.length) := by
  obtain ⟨h1, h2⟩ := edges_forward seq hid E h e he
  exact ⟨by omega, h2, h1, edge_conflict seq hid E h e he (by omega) h2⟩

/-- the model's footprints (`inputRegs` … via `FindAll`, Go maps as duplicate-free lists) are the
specification's footprints -/
theorem footprints (i : Ins) (n : Nat) (k : String) :
    (k ∈ i.inRegs ↔ k ∈ (i.toS n).regIn) ∧ (k ∈ i.outRegs ↔ k ∈ (i.toS n).regOut) ∧
    (k ∈ i.loads ↔ k ∈ (i.toS n).memIn) ∧ (k ∈ i.stores ↔ k ∈ (i.toS n).memOut) :=
  ⟨mem_inRegs_toS n i k, mem_outRegs_toS n i k, mem_loads_toS n i k, mem_stores_toS n i k⟩

/-- in a block `b` that stems from the freshly analysed block `b0` (`Orig`: same edges, same
instructions up to order) and satisfies the bookkeeping invariant, two adjacent independent
instructions can be swapped -/
theorem independent_swap_block (b0 b : Block) (ho : Orig b0 b) (hb : BInv b) (i : Nat)
    (hi : i + 1 < b.seq.length)
    (hind : Independent (b.seq[i].toS b.seq.length) (b.seq[i + 1].toS b.seq.length)) :
    ∃ b', b.move (i : Int) ((i : Int) + 1) = .ok b' := ho.swap_accepted hb i hi hind

/-- C06 in every reachable state: after any history on a well-formed code, for every block and
every adjacent pair of its current order, `Independent` implies that `Move(i, i+1)` is accepted -/
theorem independent_swap (entry : Nat) (raw : List Raw) (hwf : WF raw) (c0 : Code)
    (h : newCode entry raw = .ok c0) (ops : List Op) (p : Nat) (hp : p < (c0.run ops).store.length)
    (i : Nat) (hi : i + 1 < ((c0.run ops).store[p]).seq.length)
    (hind : Independent (((c0.run ops).store[p]).seq[i].toS ((c0.run ops).store[p]).seq.length)
      (((c0.run ops).store[p]).seq[i + 1].toS ((c0.run ops).store[p]).seq.length)) :
    ∃ b', ((c0.run ops).store[p]).move (i : Int) ((i : Int) + 1) = .ok b' := by
  obtain ⟨hinv0, _, _, hfresh⟩ := newCode_inv entry raw hwf c0 h
  obtain ⟨hinv, hsame⟩ := hinv0.run ops
  have hp0 : p < c0.store.length := by rw [← hsame.len]; exact hp
  have hf := hfresh _ (List.getElem_mem hp0)
  have ho := orig_of_same hf.ids hf.edges (hsame.blocks p hp0 hp)
  exact ho.swap_accepted (hinv.blocks _ (List.getElem_mem hp)) i hi hind

/-! ### non-vacuity -/

/-- `x1 := 1 ; x2 := 2 ; x3 := x1` : the first two are independent, the last two too, the first and
the last conflict (RAW) -/
def exampleSeq : List Ins :=
  indexFrom 0 [newInstruction 0 100 4 [.regStore (.const [1]) "x1" 1],
    newInstruction 0 104 4 [.regStore (.const [2]) "x2" 1],
    newInstruction 0 108 4 [.regStore (.regLoad "x1" 1) "x3" 1]]

example : findAllDeps exampleSeq = some [(0, 2)] ∧
    Independent (exampleSeq[0].toS 3) (exampleSeq[1].toS 3) ∧
    Independent (exampleSeq[1].toS 3) (exampleSeq[2].toS 3) ∧
    Conflict (exampleSeq[0].toS 3) (exampleSeq[2].toS 3) := by decide +kernel

end Mltwist.Props.C06
