import Mltwist.Lemmas.ListingEntry
/-
C31 — navigation commands land on the right line.

For every state of the disassembler mode reachable by any history of commands (`Reachable`; the code
model underneath is abstract as in C23: any `Spec.Lawful` code operations, any well-formed code):
`up N`, `down N`, `goto N`, `find` and `entrypoint` do not panic, change nothing but the cursor, and
either report success with the cursor on the specified line or do not report success and leave the
cursor where it was (`Spec.Lands`).

* numeric arguments are what the argument parser delivers: `0 ≤ N ≤ MaxInt`; the listing has fewer than
  `2^63` lines (a Go slice length); `cursor + N` of `down` is computed in 64-bit two's complement;
* the regular expression library is a parameter: `find` is given the vector "line i matches the pattern"
  (`none`: the pattern does not compile), one entry per line;
* `find` without a match shows a message and returns no error (`Status.noMatch`): not a success.
-/
namespace Mltwist.Props.C31
open Mltwist.Listing Mltwist.Listing.Spec
open Mltwist.Lemmas.Listing (Reachable)

/-- a navigation command leaves listing (marks included) and code alone -/
def OnlyCursor (st st' : St) : Prop := st'.lines = st.lines ∧ st'.code = st.code

/-- `up N`: the line `N` above the cursor, or an error when there are fewer than `N` lines above -/
theorem up_lands (ops : CodeOps) (hl : Lawful ops) (c : Code) (hwf : WF c) (st : St) (h : Reachable ops c st)
    (hfit : st.lines.lines.length ≤ maxInt) (n : Nat) (hn : n ≤ maxInt) :
    ∃ s st', step ops st (.up n) = some (s, st') ∧ OnlyCursor st st' ∧
      Lands (expectUp st.cursor.value n) (s = .ok) st.cursor.value st'.cursor.value := by
  obtain ⟨hinv, _, _⟩ := Lemmas.Listing.reachable_inv ops hl c hwf st h
  obtain ⟨s, st', h1, k, h2⟩ := Lemmas.Listing.up_spec ops st hinv n hn hfit
  exact ⟨s, st', h1, ⟨k.lines, k.code⟩, h2⟩

/-- `down N`: the line `N` below the cursor, or an error when it is beyond the last line — also when
`cursor + N` overflows -/
theorem down_lands (ops : CodeOps) (hl : Lawful ops) (c : Code) (hwf : WF c) (st : St) (h : Reachable ops c st)
    (hfit : st.lines.lines.length ≤ maxInt) (n : Nat) (hn : n ≤ maxInt) :
    ∃ s st', step ops st (.down n) = some (s, st') ∧ OnlyCursor st st' ∧
      Lands (expectDown st.lines.lines.length st.cursor.value n) (s = .ok) st.cursor.value st'.cursor.value := by
  obtain ⟨hinv, _, _⟩ := Lemmas.Listing.reachable_inv ops hl c hwf st h
  obtain ⟨s, st', h1, k, h2⟩ := Lemmas.Listing.down_spec ops st hinv n hn hfit
  exact ⟨s, st', h1, ⟨k.lines, k.code⟩, h2⟩

/-- `goto N`: line `N`, or an error when there is no such line (`N = len` and `N > len` alike) -/
theorem goto_lands (ops : CodeOps) (hl : Lawful ops) (c : Code) (hwf : WF c) (st : St) (h : Reachable ops c st)
    (n : Nat) :
    ∃ s st', step ops st (.goto n) = some (s, st') ∧ OnlyCursor st st' ∧
      Lands (expectGoto st.lines.lines.length n) (s = .ok) st.cursor.value st'.cursor.value := by
  obtain ⟨hinv, _, _⟩ := Lemmas.Listing.reachable_inv ops hl c hwf st h
  obtain ⟨s, st', h1, k, h2⟩ := Lemmas.Listing.goto_spec ops st hinv n
  exact ⟨s, st', h1, ⟨k.lines, k.code⟩, h2⟩

/-- `find`: the first matching line among `cursor+1, …, len-1, 0, …, cursor-1` (`Spec.cyclicAfter`: after
the cursor, cyclically, the cursor line excluded); no success when no such line matches or the pattern
does not compile.  No panic with the cursor on the last line (F22). -/
theorem find_lands (ops : CodeOps) (hl : Lawful ops) (c : Code) (hwf : WF c) (st : St) (h : Reachable ops c st)
    (ms : Option (List Bool)) (hms : ValidCmd st.lines.lines.length (.find ms)) :
    ∃ s st', step ops st (.find ms) = some (s, st') ∧ OnlyCursor st st' ∧
      Lands (expectFind ms st.lines.lines.length st.cursor.value) (s = .ok) st.cursor.value st'.cursor.value := by
  obtain ⟨hinv, _, _⟩ := Lemmas.Listing.reachable_inv ops hl c hwf st h
  obtain ⟨s, st', h1, k, h2⟩ := Lemmas.Listing.find_spec ops st hinv ms (fun v hv => by subst hv; exact hms)
  exact ⟨s, st', h1, ⟨k.lines, k.code⟩, h2⟩

/-- what `cyclicAfter` enumerates: every line but the cursor line, exactly once (`len - 1` lines),
starting right after the cursor -/
theorem cyclicAfter_spec (len cur : Nat) (hc : cur < len) :
    (cyclicAfter len cur).length = len - 1 ∧ cur ∉ cyclicAfter len cur ∧
      ∀ i ∈ cyclicAfter len cur, i < len := by
  refine ⟨by simp [cyclicAfter], ?_, ?_⟩
  · intro hmem
    simp only [cyclicAfter, List.mem_map, List.mem_range] at hmem
    obtain ⟨k, hk, hk2⟩ := hmem
    exact Lemmas.Listing.succ_mod_ne len cur k hc (by omega) hk2
  · intro i hi
    simp only [cyclicAfter, List.mem_map, List.mem_range] at hi
    obtain ⟨k, _, rfl⟩ := hi
    exact Nat.mod_lt _ (by omega)

/-- `entrypoint`: the row, in the current listing, of the entry instruction — the first (and by
`addr_unique` the only) instruction whose current address is the entry point; no success and no change
when there is none.  `Spec.AddrWF` (current addresses ascend inside every block, blocks do not overlap) is
what `Code.Address`/`Block.Address` need; it concerns the code model underneath and is re-checked by the
model driver on every dump of the implementation. -/
theorem entrypoint_lands (ops : CodeOps) (hl : Lawful ops) (c : Code) (hwf : WF c) (st : St)
    (h : Reachable ops c st) (ha : AddrWF st.code) :
    ∃ s st', step ops st .entrypoint = some (s, st') ∧ OnlyCursor st st' ∧ st.code.entry = c.entry ∧
      Lands (expectEntry st.code) (s = .ok) st.cursor.value st'.cursor.value := by
  obtain ⟨hinv, _, he⟩ := Lemmas.Listing.reachable_inv ops hl c hwf st h
  obtain ⟨s, st', h1, k, h2⟩ := Lemmas.Listing.entry_spec ops st hinv ha
  exact ⟨s, st', h1, ⟨k.lines, k.code⟩, he, h2⟩

/-- `entrypoint`, what holds without assumptions on addresses: it succeeds iff the two address
look-ups of the command (`Code.Address`, `Block.Address`) find an instruction; then the cursor is on the
row — in the current listing, i.e. after all block and instruction moves (F23) — of an instruction
whose current address is the entry point; otherwise nothing changes. -/
theorem entrypoint_lands_partial (ops : CodeOps) (hl : Lawful ops) (c : Code) (hwf : WF c) (st : St)
    (h : Reachable ops c st) :
    ∃ s st', step ops st .entrypoint = some (s, st') ∧ OnlyCursor st st' ∧ st.code.entry = c.entry ∧
      ((s = .ok ∧ ∃ (k j : Nat) (b : Block) (x : Ins), st.code.blocks[k]? = some b ∧ b.ins[j]? = some x ∧
          x.addr = st.code.entry ∧ st'.cursor.value = lineOf st.code k j) ∨
       (s ≠ .ok ∧ st'.cursor = st.cursor)) := by
  obtain ⟨hinv, _, he⟩ := Lemmas.Listing.reachable_inv ops hl c hwf st h
  obtain ⟨s, st', h1, k, h2⟩ := Lemmas.Listing.entry_sound ops st hinv
  refine ⟨s, st', h1, ⟨k.lines, k.code⟩, he, ?_⟩
  rcases h2 with ⟨hs, ⟨k', j, b, x, a1, a2, a3, a4⟩, _⟩ | ⟨hs, hst, _⟩
  · exact Or.inl ⟨hs, k', j, b, x, a1, a2, a3, a4⟩
  · exact Or.inr ⟨hs, by rw [hst]⟩

/-! ### Non-vacuity -/

/-- two blocks: `a`,`b` at 0x10 (entry point), and `c` at 0x20; 7 lines -/
def exCode : Code := ⟨16, [
  ⟨0, 16, 24, [⟨"a", [0x1f, 2], 0, 16, 0, 0⟩, ⟨"b", [3], 1, 20, 1, 1⟩]⟩,
  ⟨1, 32, 36, [⟨"c", [0xab], 0, 32, 0, 0⟩]⟩]⟩

/-- status and cursor after every command of a history -/
def trace : St → List Cmd → List (Option (Status × Nat))
  | _, [] => []
  | st, c :: cs =>
    match step refOps st c with
    | none => [none]
    | some (s, st') => some (s, st'.cursor.value) :: trace st' cs

-- lines matching "Block": 0 and 4; blank lines: 3 and 6
example : trace (St.init exCode)
    [.down 6, .down 1, .down maxInt, .up 7, .up 2, .goto 7, .goto 8, .goto 6,
     .find (some [true, false, false, false, true, false, false]),     -- from the last line: wraps to 0
     .find (some [true, false, false, false, true, false, false]),     -- then 4
     .goto 3, .find (some [false, false, false, true, false, false, false]),   -- only the cursor line matches
     .find none,
     .move 0 4, .entrypoint]                                            -- block move, then the entry row: 4
  = [some (.ok, 6), some (.err .tooHigh, 6), some (.err .negative, 6), some (.err .negative, 6), some (.ok, 4),
     some (.err .tooHigh, 4), some (.err .tooBig, 4), some (.ok, 6),
     some (.ok, 0), some (.ok, 4),
     some (.ok, 3), some (.noMatch, 3),
     some (.err .regex, 3),
     some (.ok, 3), some (.ok, 4)] := by decide

example : expectFind (some [true, false, false, false, true, false, false]) 7 6 = .moved 0
    ∧ expectFind (some [false, false, false, true, false, false, false]) 7 3 = .failed
    ∧ expectDown 7 6 maxInt = .failed ∧ expectUp 6 2 = .moved 4 ∧ expectGoto 7 7 = .failed
    ∧ expectEntry exCode = .moved 1 := by decide

-- F22, pinned code: the search started at `offset + 1 = len` and indexed the listing out of range
example : findLoop [true, false, false] 3 2 4 (findStart false 3 2) = .panic
    ∧ findLoop [true, false, false] 3 2 4 (findStart true 3 2) = .found 0 := by decide

end Mltwist.Props.C31
