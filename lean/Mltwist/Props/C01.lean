import Mltwist.Lemmas.RiscvLift
/-
C01 — lifted RISC-V instructions have exactly the RISC-V semantics.

Reference: `Spec/Riscv.lean` (`Spec.Rv.exec`, my transcription of the unprivileged ISA with the
tool's documented approximations); meaning of an effect list and of "a valuation represents a
machine state": `Spec/RiscvLift.lean`.  The tables are regenerated from /repo on every run.
Scope (`noWrap`): memory accesses that wrap around the end of the variant's address space are
excluded; wrapping address arithmetic is in scope.
-/
namespace Mltwist.Props.C01
open Mltwist Mltwist.Riscv Mltwist.Spec.Rv Mltwist.Spec.Lift
open Mltwist.Lemmas.RiscvDecode (Cfg)
open Mltwist.Lemmas.RiscvLift (LiftOK)

/-- every entry of every configuration (RV32/RV64, any subset of M and A) lifts correctly -/
theorem lift_correct (xlen : Nat) (hx : Cfg xlen) (m a : Bool) :
    ∀ e ∈ instructionSet xlen m a, LiftOK xlen e :=
  Lemmas.RiscvLift.lift_correct xlen hx m a

/-- register x0 is never written (and reads as the constant zero: `regLoad` of register 0) -/
theorem x0_never_written (xlen : Nat) (hx : Cfg xlen) (m a : Bool) :
    ∀ e ∈ instructionSet xlen m a, ∀ i : Ins, ∀ v k w,
      Effect.regStore v k w ∈ e.validEffects i → k ≠ xName 0 :=
  Lemmas.RiscvLift.x0_never_written xlen hx m a

theorem x0_reads_zero (r : Reg) (i : Ins) (w : Nat) (h : regNum r i.value = 0) :
    regLoad r i w = Expr.zero := by
  simp [regLoad, h]

/-- CSR instructions use one register per unsigned 12-bit CSR number -/
theorem csrName_injective (n m : Nat) (hn : n < 4096) (hm : m < 4096) (h : csrName n = csrName m) :
    n = m :=
  Lemmas.RiscvLift.csrName_injective n m hn hm h

theorem csrKey_eq (i : Ins) (h : i.value < 2 ^ 32) : csrKey i = csrName (csrNum i.value) :=
  Lemmas.RiscvLift.csrKey_eq i h

/-- non-vacuity: `addi x10, x1, -16` (RV64) at a concrete state -/
example : (Gen.integer64.find? (·.name == "addi")).map (fun e => e.matchesWord 0xff008513) = some true := by
  decide

end Mltwist.Props.C01
