import Mltwist.Lemmas.Transform
/-
C09 — constant folding preserves meaning.
-/
namespace Mltwist.Props.C09
open Mltwist

/-- the folded expression has the width of the original -/
theorem constFold_width (e : Expr) : (constFold e).width = e.width :=
  Lemmas.Transform.constFold_width e

/-- … and denotes the same value under every assignment of registers and memory -/
theorem constFold_eval (ρ : Env) (e : Expr) (h : e.wf = true) :
    (constFold e).eval ρ = e.eval ρ :=
  Lemmas.Transform.constFold_eval ρ e h

/-- an expression built only from constants folds to a single constant -/
theorem constFold_closed (e : Expr) (h : e.closed = true) : (constFold e).isConst = true :=
  Lemmas.Transform.constFold_closed e h

/-- no operation whose operands are all constants remains -/
theorem constFold_noConstOp (e : Expr) : (constFold e).noConstOp = true :=
  Lemmas.Transform.constFold_noConstOp e

/-- folding a folded expression changes nothing -/
theorem constFold_idem (e : Expr) : constFold (constFold e) = constFold e :=
  Lemmas.Transform.constFold_idem e

/-- the `panic("unreachable")` in `dropUselessWidthGadget` cannot be reached -/
theorem dropDecision_total (w x a : Nat) : dropDecision w x a ≠ none :=
  Lemmas.Transform.dropDecision_total w x a

/-- non-vacuity: a well-formed mixed tree that folding really changes -/
example :
    let e : Expr := .binary .add (.regLoad "x1" 4) (.binary .add (.const [1]) (.const [2]) 4) 4
    e.wf = true ∧ constFold e = .binary .add (.regLoad "x1" 4) (.const [3, 0, 0, 0]) 4 := by decide

end Mltwist.Props.C09
