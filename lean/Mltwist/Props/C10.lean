import Mltwist.Lemmas.Expreval
/-
C10 — constant arithmetic is exact for every width.
Statements only; proofs by appeal to `Mltwist.Lemmas.Expreval`.
-/
namespace Mltwist.Props.C10
open Mltwist

/-- every folded operation yields exactly `w` bytes -/
theorem binary_length (op : BinOp) (c1 c2 : List UInt8) (w : Nat) :
    (Expreval.binary op c1 c2 w).length = w :=
  Lemmas.Expreval.binary_length op c1 c2 w

/-- the byte-level algorithms compute the documented width rules: operands zero-extended or
truncated to `w`, add/mul/lsh/nand modulo `2^(8w)`, shift by at least `8w` bits gives zero
(also when the amount exceeds 64 bits), division by zero gives all ones -/
theorem binary_value (op : BinOp) (c1 c2 : List UInt8) (w : Nat) (hw : w ≤ 255) :
    leToNat (Expreval.binary op c1 c2 w) =
      evalBin op w (trunc w (leToNat c1)) (trunc w (leToNat c2)) :=
  Lemmas.Expreval.binary_value op c1 c2 w hw

/-- unsigned comparison selects the correct branch -/
theorem ltu_iff (c1 c2 : List UInt8) (w : Nat) :
    Expreval.ltu c1 c2 w = true ↔ trunc w (leToNat c1) < trunc w (leToNat c2) :=
  Lemmas.Expreval.ltu_iff c1 c2 w

/-- the guards of `bitLsh`/`bitRsh` (`shift >= 8 || shift == 0` panics) are never hit, and the
byte shift stays inside the value -/
theorem shift_in_range (v : List UInt8) (w a b : Nat) (h : Expreval.shiftUint64 v w = some (a, b)) :
    a < w ∧ b < 8 :=
  Lemmas.Expreval.shift_in_range v w a b h

/-- non-vacuity: a concrete 3-byte left shift across a byte boundary -/
example : Expreval.binary .lsh [0x81, 0x01] [9] 3 = [0x00, 0x02, 0x03] := by decide

end Mltwist.Props.C10
