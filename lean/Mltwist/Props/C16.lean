import Mltwist.Lemmas.OverlayInst
/-
C16 — layered memory reads through to its base.

Model (`Model/Overlay.lean`): a `View` is the three query methods (`Load`, `Missing`, `Blocks`) of a
`memory.Memory` in a given state; `Overlay.load/missing/blocks base over` follow `overlay.go` line by
line over two arbitrary views (every Go panic is an `Except.error`, in particular `Fail.overlayRead`
= "bug: read from overlay memory range … failed"); `Mem` collects `Bytes`, `Sparse` and `Overlay` of two
memories (any nesting); `MemMap` is `map.go`.

Vocabulary (`Spec/Overlay.lean`, `Spec/OverlayAbs.lean`): an abstract memory `AbsMem` maps an address to
an optional byte (its value under every valuation); `layer upper base` is "the upper byte if present,
else the base byte"; `MemLaws v m` are the memory laws that C14 and C15 establish (load succeeds iff
all bytes are present, then width `w` and value = little-endian byte sum under every valuation;
`Missing`/`Blocks` exact and in normal form; none panics), for ranges `InDom a w`
(`1 ≤ w ≤ 255`, `a + w < 2^64`).

"The base is never modified": memories are values here, `Store` returns the next state, and the base
component of the result is the old base (`store_spec`, `store_overlay`); no other operation returns a
memory.  For the Go objects this is an aliasing statement; the harness re-reads blocks and content of
every base after each history (`base:unchanged`).
-/
namespace Mltwist.Props.C16
open Mltwist Mltwist.Overlay Mltwist.Interval Mltwist.Spec.Overlay

/-! ### generic: any two lawful memories -/

/-- the overlay of two memories that satisfy the memory laws satisfies the same laws for the layered
byte map; since every conclusion of the laws is an `.ok`, no operation of the overlay panics -/
theorem overlay_laws {b o : View} {mb mo : AbsMem} (hb : MemLaws b mb) (ho : MemLaws o mo) :
    MemLaws (Overlay.view b o) (layer mo mb) :=
  Lemmas.Overlay.overlay_laws hb ho

/-- spelled out for `Load`: it succeeds exactly when every byte is available in some layer, and then
each byte reads as the upper byte if there is one and otherwise as the base byte -/
theorem overlay_load {b o : View} {mb mo : AbsMem} (hb : MemLaws b mb) (ho : MemLaws o mo)
    (a w : Nat) (hd : InDom a w) :
    ∃ r, Overlay.load b o a w = .ok r ∧
      (r ≠ none ↔ ∀ i, i < w → (mo (a + i) ≠ none ∨ mb (a + i) ≠ none)) ∧
      ∀ e, r = some e → e.width = w ∧
        ∀ ρ, e.eval ρ = Spec.Sparse.sumBytes (fun i => byteOf ρ (layer mo mb (a + i))) w := by
  obtain ⟨r, h1, h2, h3⟩ := Lemmas.Overlay.overlay_load hb ho a w hd
  refine ⟨r, h1, ?_, h3⟩
  rw [h2]
  refine forall_congr' fun i => imp_congr_right fun _ => ?_
  rw [Ne, Lemmas.Overlay.layer_none]
  constructor
  · intro h
    by_cases hm : mo (a + i) = none
    · exact Or.inr (fun hb' => h ⟨hm, hb'⟩)
    · exact Or.inl hm
  · rintro (h | h) ⟨h1, h2⟩
    · exact h h1
    · exact h h2

/-- the missing ranges are exactly the bytes of the range available in neither layer -/
theorem overlay_missing {b o : View} {mb mo : AbsMem} (hb : MemLaws b mb) (ho : MemLaws o mo)
    (a w : Nat) (hd : InDom a w) :
    ∃ l, Overlay.missing b o a w = .ok l ∧ Normal l ∧
      ∀ x : Int, Interval.Mem x l ↔
        ((a : Int) ≤ x ∧ x.toNat < a + w ∧ mo x.toNat = none ∧ mb x.toNat = none) := by
  obtain ⟨l, h1, h2, h3⟩ := Lemmas.Overlay.overlay_missing hb ho a w hd
  refine ⟨l, h1, h2, fun x => ?_⟩
  rw [h3 x, Lemmas.Overlay.layer_none]

/-- the stored blocks are the union of both layers -/
theorem overlay_blocks {b o : View} {mb mo : AbsMem} (hb : MemLaws b mb) (ho : MemLaws o mo) :
    ∃ l, Overlay.blocks b o = .ok l ∧ Normal l ∧
      ∀ x : Int, Interval.Mem x l ↔ ((0 : Int) ≤ x ∧ (mo x.toNat ≠ none ∨ mb x.toNat ≠ none)) := by
  obtain ⟨l, h1, h2, h3⟩ := Lemmas.Overlay.overlay_blocks hb ho
  refine ⟨l, h1, h2, fun x => ?_⟩
  rw [h3 x, Ne, Lemmas.Overlay.layer_none]
  constructor
  · rintro ⟨h0, h⟩
    refine ⟨h0, ?_⟩
    by_cases hm : mo x.toNat = none
    · exact Or.inr (fun hb' => h ⟨hm, hb'⟩)
    · exact Or.inl hm
  · rintro ⟨h0, h | h⟩
    · exact ⟨h0, fun hh => h hh.1⟩
    · exact ⟨h0, fun hh => h hh.2⟩

/-- the `bug: read from overlay memory range` panic (and every other failure point) is unreachable -/
theorem overlay_no_panic {b o : View} {mb mo : AbsMem} (hb : MemLaws b mb) (ho : MemLaws o mo)
    (a w : Nat) (hd : InDom a w) (f : Fail) :
    Overlay.load b o a w ≠ .error f ∧ Overlay.missing b o a w ≠ .error f ∧ Overlay.blocks b o ≠ .error f := by
  obtain ⟨_, h1, _⟩ := Lemmas.Overlay.overlay_load hb ho a w hd
  obtain ⟨_, h2, _⟩ := Lemmas.Overlay.overlay_missing hb ho a w hd
  obtain ⟨_, h3, _⟩ := Lemmas.Overlay.overlay_blocks hb ho
  rw [h1, h2, h3]
  exact ⟨nofun, nofun, nofun⟩

/-! ### the memories of the package satisfy the laws -/

/-- C14: a sparse memory satisfying its invariant -/
theorem sparse_laws (t : Sparse.Tree) (hinv : Sparse.Inv t) :
    MemLaws (sparseView t) (ofSparse (Sparse.abs t)) :=
  Lemmas.Overlay.sparse_laws t hinv

/-- C15: a byte memory satisfying its invariant -/
theorem bytes_laws (bs : List BytesMem.Block) (hinv : BytesSpec.Inv bs) :
    MemLaws (bytesView bs) (ofBytes (BytesSpec.ofBlocks bs)) :=
  Lemmas.Overlay.bytes_laws bs hinv

/-- every stack of memories (any nesting of overlays) whose layers satisfy their invariants -/
theorem mem_laws (m : Mem) (h : m.Inv) : MemLaws m.view m.abs := Lemmas.Overlay.mem_laws m h

/-- the layering the tool uses: a writable sparse layer over the read-only byte image -/
theorem sparse_over_bytes (bs : List BytesMem.Block) (t : Sparse.Tree) (hb : BytesSpec.Inv bs)
    (ht : Sparse.Inv t) :
    MemLaws (Mem.overlay (.bytes bs) (.sparse t)).view
      (layer (ofSparse (Sparse.abs t)) (ofBytes (BytesSpec.ofBlocks bs))) :=
  Lemmas.Overlay.mem_laws (.overlay (.bytes bs) (.sparse t)) ⟨hb, ht⟩

/-! ### `Store` -/

/-- `Store` never panics, keeps the invariants, updates the layered byte map by the `w` bytes of the
value, and the base of the resulting overlay is the old base -/
theorem store_spec (m : Mem) (a : Nat) (e : Expr) (w : Nat) (hinv : m.Inv) (hst : m.Storable e)
    (hd : InDom a w) :
    ∃ m', m.store a e w = .ok m' ∧ m'.Inv ∧ m'.abs = m.abs.store a e w ∧ m'.base = m.base := by
  obtain ⟨m', h1, h2, h3, h4, _⟩ := Lemmas.Overlay.mem_store m a e w hinv hst hd
  exact ⟨m', h1, h2, h3, h4⟩

/-- the base is never modified: whatever `Store` on an overlay returns has the same base, and the
write goes to the overlay layer -/
theorem store_overlay (b o : Mem) (a : Nat) (e : Expr) (w : Nat) (m' : Mem)
    (h : (Mem.overlay b o).store a e w = .ok m') : ∃ o', o.store a e w = .ok o' ∧ m' = .overlay b o' := by
  unfold Mem.store at h
  cases ho : o.store a e w with
  | ok o' => rw [ho] at h; cases h; exact ⟨o', rfl, rfl⟩
  | error f => rw [ho] at h; cases h

/-- sparse over bytes: every store of every expression succeeds and leaves the byte image alone -/
theorem sparse_over_bytes_store (bs : List BytesMem.Block) (t : Sparse.Tree) (hb : BytesSpec.Inv bs)
    (ht : Sparse.Inv t) (a : Nat) (e : Expr) (w : Nat) (hd : InDom a w) :
    ∃ t', (Mem.overlay (.bytes bs) (.sparse t)).store a e w = .ok (.overlay (.bytes bs) (.sparse t')) ∧
      Sparse.Inv t' ∧
      (Mem.overlay (.bytes bs) (.sparse t')).abs = (Mem.overlay (.bytes bs) (.sparse t)).abs.store a e w := by
  obtain ⟨m', h1, h2, h3, _⟩ := store_spec (.overlay (.bytes bs) (.sparse t)) a e w ⟨hb, ht⟩ trivial hd
  obtain ⟨o', g1, g2⟩ := store_overlay _ _ a e w m' h1
  subst g2
  cases o' with
  | sparse t' => exact ⟨t', h1, h2.2, h3⟩
  | bytes _ => simp [Mem.store] at g1; split at g1 <;> simp at g1
  | overlay _ _ => simp [Mem.store] at g1; split at g1 <;> simp at g1

/-! ### histories -/

/-- For every base `b`, every upper layer `o` and every history of (supported, in-domain) writes to the
layered memory: nothing panics; the result is an overlay of the SAME base `b` and the upper layer after
the history; its byte map is "the most recent write to the upper layer if there is one, otherwise the
base byte"; and it obeys the memory laws for that map (reads succeed exactly when every byte is in
some layer, missing ranges and blocks are exact). -/
theorem history_spec (b o : Mem) (hb : b.Inv) (ho : o.Inv) (hist : List Sparse.StoreReq)
    (hst : ∀ r ∈ hist, o.Storable r.ex) (hd : ∀ r ∈ hist, InDom r.addr r.w) :
    ∃ o', runStores (.overlay b o) hist = .ok (.overlay b o') ∧ o'.Inv ∧
      o'.abs = absStores o.abs hist ∧
      MemLaws (Mem.overlay b o').view (layer (absStores o.abs hist) b.abs) := by
  obtain ⟨o', h1, h2, h3, _⟩ := Lemmas.Overlay.history_ok hist o ho hst hd
  refine ⟨o', ?_, h2, h3, ?_⟩
  · rw [Lemmas.Overlay.runStores_overlay, h1]
  · rw [← h3]
    exact Lemmas.Overlay.mem_laws (.overlay b o') ⟨hb, h2⟩

/-- the replayed byte map: an address inside the range of a later write holds that write's byte -/
theorem absStores_last (A : AbsMem) (hist : List Sparse.StoreReq) (r : Sparse.StoreReq) (x : Nat) :
    absStores A (hist ++ [r]) x =
      if r.addr ≤ x ∧ x < r.addr + r.w
      then some (fun ρ => (trunc r.w (r.ex.eval ρ) / 256 ^ (x - r.addr)) % 256)
      else absStores A hist x := by
  induction hist generalizing A with
  | nil => rfl
  | cons h t ih => exact ih _

/-! ### `MemMap` -/

/-- the address space of a key obeys the memory laws; an unknown key is an empty memory -/
theorem memmap_laws (m : MemMap) (hinv : m.Inv) (key : String) : MemLaws (m.view key) (m.abs key) :=
  Lemmas.Overlay.memmap_laws m hinv key

/-- `MemMap.Store` updates the address space of its key (creating a sparse memory for an unknown key)
and no other -/
theorem memmap_store (m : MemMap) (hinv : m.Inv) (key : String) (a : Nat) (e : Expr) (w : Nat)
    (hst : m.Storable key e) (hd : InDom a w) :
    ∃ m', m.store key a e w = .ok m' ∧ m'.Inv ∧ m'.abs key = (m.abs key).store a e w ∧
      ∀ key', key' ≠ key → assocGet key' m' = assocGet key' m := by
  obtain ⟨m', h1, h2, h3, h4, _⟩ := Lemmas.Overlay.memmap_store m hinv key a e w hst hd
  exact ⟨m', h1, h2, h3, h4⟩

/-! ### non-vacuity -/

/-- base `[0,5)` = 01..05 and `[10,12)`, upper layer `[3,7)`: a read of `[0,7)` is composed of a base
read and an overlay read; `[0,8)` fails (7 is in no layer) -/
example :
    let m0 := Mem.overlay (.bytes [(0, [1, 2, 3, 4, 5]), (10, [0xaa, 0xbb])]) (.sparse [])
    (m0.store 3 (.regLoad "x" 4) 4).toOption.map (fun m => ((m.load 0 7).toOption, (m.load 0 8).toOption))
      = some (some (some (Tools.bitOr (.const [1, 2, 3])
                (.binary .lsh (.regLoad "x" 4) (.const [24, 0]) 7) 7)), some none) := by
  decide

/-- … missing ranges and the base after the store (`mapUnion` of `Blocks` is defined by well-founded
recursion and does not reduce in the kernel; it is exercised by the correspondence run) -/
example :
    let m0 := Mem.overlay (.bytes [(0, [1, 2, 3, 4, 5]), (10, [0xaa, 0xbb])]) (.sparse [])
    (m0.store 3 (.regLoad "x" 4) 4).toOption.map (fun m => (m.missing 0 16).toOption)
      = some (some [(7, 10), (12, 16)])
    ∧ (m0.store 3 (.regLoad "x" 4) 4).toOption.map (fun m => m.base)
      = some (some (.bytes [(0, [1, 2, 3, 4, 5]), (10, [0xaa, 0xbb])])) := by
  decide

/-- the F33 shape: the missing sets `{[1,3),[8,14),[18,23)}` of the base and `{[5,21),[23,24)}` of the
upper layer: a gap of the upper layer spans two gaps of the base -/
example :
    let m0 := Mem.overlay (.bytes [(0, [9]), (3, [9, 9, 9, 9, 9]), (14, [9, 9, 9, 9]), (23, [9])]) (.sparse [])
    ((m0.store 0 (.const [1]) 5).toOption.bind fun m1 => (m1.store 21 (.const [2]) 2).toOption).map
        (fun m => ((m.missing 0 24).toOption, (m.load 3 5).toOption.map (·.isSome),
          (m.load 20 2).toOption.map (·.isSome)))
      = some (some [(8, 14), (18, 21)], some true, some false) := by
  decide

end Mltwist.Props.C16
