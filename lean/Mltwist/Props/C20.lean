import Mltwist.Lemmas.ElfLoad
/-
C20 — ELF images are loaded faithfully.  PARTIAL by construction: `debug/elf`, the operating system
and the Go allocator are outside the model.

Model (`Model/Elf.lean`): `load lim view` = `NewParser` (type test) + `Entrypoint`, `MachineCode`
(`skipMachineCodeSection`, the size check), `Memory` (PT_LOAD only, `Memsz < Filesz`, zero fill),
`nonEmptyMemory`, `newMemory` (stable sort, overlap loop), `Memory.Address` (`sort.Search` literally)
and `Block.Address`, all starting from the `debug/elf` VIEW of the file (`View`: type, entry,
sections, program headers, the bytes `debug/elf` reads) — what happens between the file bytes and
this view is `debug/elf`'s business and is only exercised by the differential check, where an
independent ELF reader (`Spec/Elf.lean`, part 2) recomputes the expected images from the file bytes.

Spec (`Spec/Elf.lean`, part 1): `Covers`, `Meet`, `NoOverlap`, `Fits`, `Tidy` (ends representable,
sorted, non-overlapping), `lookup`, `Qualifies`, `codeImages`, `segImage`/`loadImages`, `Readable`,
`Loadable lim`, and `ViewOK` — the facts taken for granted about a view (fields are `uint64`
values, slice lengths are machine integers, a program header's reader delivers at most `Filesz` bytes).

Allocation: `lim` is the largest zero fill the allocator grants.  All "no panic" statements are
relative to it: `memory lim v = .error .alloc` (the Go runtime panics or the process is killed) exactly
when a reached PT_LOAD header asks for more — finding F19, a known defect that is not repaired.

The model follows the code with one repair, F60: `newMemory` rejects a block whose exclusive end is
not representable (`Err.wrap`); the pinned code accepts it and then neither finds it in `Address`
nor sees overlaps with it.
-/
namespace Mltwist.Props.C20
open Mltwist Mltwist.Elf Mltwist.Elf.Spec

/-! ### `NewParser`: file types -/

theorem open_failed (lim : Nat) : load lim none = .error .open := rfl

/-- untyped, relocatable and core files are rejected -/
theorem type_rejected (lim : Nat) (v : View) (h : v.typ = 0 ∨ v.typ = 1 ∨ v.typ = 4) :
    load lim (some v) = .error .type := by
  have hp : newParser v = .error .type := by
    unfold newParser etExec
    rcases h with h | h | h <;> rw [h] <;> rfl
  simp only [load, hp]

/-- executables and shared objects are accepted; entry point, code image and program memory are then
what `Entrypoint`, `MachineCode` and `Memory` deliver -/
theorem type_accepted (lim : Nat) (v : View) (h : v.typ = 2 ∨ v.typ = 3) :
    load lim (some v) = .ok ⟨v.entry, machineCode v, memory lim v⟩ := by
  have hp : newParser v = .ok () := by
    unfold newParser etExec
    rcases h with h | h <;> rw [h] <;> rfl
  simp only [load, hp, entrypoint]

/-! ### `MachineCode`: the code image -/

/-- a successful `MachineCode` is exactly the qualifying sections (non-empty, executable,
address-bearing PROGBITS), each with the bytes `debug/elf` read, in address order, as tidy blocks -/
theorem machineCode_ok (v : View) (hv : ViewOK v) (bs : List Block) (h : machineCode v = .ok bs) :
    Readable v.sections ∧ bs = sortByBegin (codeImages v) ∧ bs.Perm (codeImages v) ∧ Tidy bs ∧ bs ≠ [] := by
  rcases Lemmas.Elf.machineCode_cases v hv with ⟨_, he | he⟩ | ⟨hr, ⟨_, he⟩ | ⟨hne, he, ht⟩ | ⟨_, he, _⟩ | ⟨_, he, _⟩⟩
  all_goals rw [he] at h
  all_goals cases h
  refine ⟨hr, rfl, Lemmas.Elf.sortByBegin_perm _, ht, ?_⟩
  intro hnil
  have hp := Lemmas.Elf.sortByBegin_perm (codeImages v)
  rw [hnil] at hp
  exact hne hp.symm.eq_nil

/-- overlapping sections are rejected -/
theorem machineCode_rejects_overlap (v : View) (hv : ViewOK v) (h : ¬ NoOverlap (codeImages v)) :
    ∃ e, machineCode v = .error e := by
  cases hm : machineCode v with
  | error e => exact ⟨e, rfl⟩
  | ok bs =>
    obtain ⟨_, _, hp, ht, _⟩ := machineCode_ok v hv bs hm
    exact absurd ((Lemmas.Elf.noOverlap_perm hp).1 (Lemmas.Elf.noOverlap_of_tidy ht)) h

/-- conversely, readable non-empty sections that fit below `2^64` and do not overlap are accepted -/
theorem machineCode_accepts (v : View) (hv : ViewOK v) (hr : Readable v.sections)
    (hne : codeImages v ≠ []) (hb : ∀ b ∈ codeImages v, b.2 ≠ []) (hf : Fits (codeImages v))
    (hno : NoOverlap (codeImages v)) : machineCode v = .ok (sortByBegin (codeImages v)) := by
  have ht := Lemmas.Elf.sorted_tidy_of_noOverlap _ hf hb hno
  rcases Lemmas.Elf.machineCode_cases v hv with ⟨hnr, _⟩ | ⟨_, ⟨he, _⟩ | ⟨_, he, _⟩ | ⟨_, _, hnf⟩ | ⟨_, _, _, hnt⟩⟩
  · exact absurd hr hnr
  · exact absurd he hne
  · exact he
  · exact absurd hf hnf
  · exact absurd ht hnt

/-- `MachineCode` fails only with one of its error messages: never a panic, never an allocation -/
theorem machineCode_errors (v : View) (hv : ViewOK v) (e : Err) (h : machineCode v = .error e) :
    e = .read ∨ e = .size ∨ e = .empty ∨ e = .wrap ∨ e = .overlap := by
  rcases Lemmas.Elf.machineCode_cases v hv with ⟨_, he | he⟩ | ⟨_, ⟨_, he⟩ | ⟨_, he, _⟩ | ⟨_, he, _⟩ | ⟨_, he, _⟩⟩
  all_goals rw [he] at h
  all_goals cases h
  all_goals simp

/-! ### `Memory`: the program memory -/

/-- the image of a loadable segment is the file bytes followed by zeros up to the in-memory size -/
theorem segImage_spec (p : Prog) (d : List UInt8) (hd : p.data = some d) (hle : d.length ≤ p.memsz) :
    (segImage p).1 = p.vaddr ∧ (segImage p).2.length = p.memsz ∧ (segImage p).2.take d.length = d ∧
      ∀ i, d.length ≤ i → i < p.memsz → (segImage p).2[i]? = some 0 := by
  unfold segImage
  simp only [hd, Option.getD_some]
  refine ⟨trivial, (by simp; omega), (by simp), ?_⟩
  intro i h1 h2
  rw [List.getElem?_append_right h1, List.getElem?_replicate]
  simp; omega

/-- a successful `Memory` is exactly the PT_LOAD images in address order, as tidy blocks -/
theorem memory_ok (lim : Nat) (v : View) (hv : ViewOK v) (bs : List Block) (h : memory lim v = .ok bs) :
    Loadable lim v.progs ∧ bs = sortByBegin (loadImages v) ∧ bs.Perm (loadImages v) ∧ Tidy bs ∧ bs ≠ [] := by
  rcases Lemmas.Elf.memory_cases lim v hv with ⟨_, he | he | ⟨he, _⟩⟩ | ⟨hr, ⟨_, he⟩ | ⟨hne, he, ht⟩ | ⟨_, he, _⟩ | ⟨_, he, _⟩⟩
  all_goals rw [he] at h
  all_goals cases h
  refine ⟨hr, rfl, Lemmas.Elf.sortByBegin_perm _, ht, ?_⟩
  intro hnil
  have hp := Lemmas.Elf.sortByBegin_perm (loadImages v)
  rw [hnil] at hp
  exact hne hp.symm.eq_nil

/-- overlapping segments are rejected (or the load does not get that far) -/
theorem memory_rejects_overlap (lim : Nat) (v : View) (hv : ViewOK v) (h : ¬ NoOverlap (loadImages v)) :
    ∃ e, memory lim v = .error e := by
  cases hm : memory lim v with
  | error e => exact ⟨e, rfl⟩
  | ok bs =>
    obtain ⟨_, _, hp, ht, _⟩ := memory_ok lim v hv bs hm
    exact absurd ((Lemmas.Elf.noOverlap_perm hp).1 (Lemmas.Elf.noOverlap_of_tidy ht)) h

/-- conversely, loadable non-empty segments that fit below `2^64` and do not overlap are accepted -/
theorem memory_accepts (lim : Nat) (v : View) (hv : ViewOK v) (hl : Loadable lim v.progs)
    (hne : loadImages v ≠ []) (hb : ∀ b ∈ loadImages v, b.2 ≠ []) (hf : Fits (loadImages v))
    (hno : NoOverlap (loadImages v)) : memory lim v = .ok (sortByBegin (loadImages v)) := by
  have ht := Lemmas.Elf.sorted_tidy_of_noOverlap _ hf hb hno
  rcases Lemmas.Elf.memory_cases lim v hv with ⟨hnr, _⟩ | ⟨_, ⟨he, _⟩ | ⟨_, he, _⟩ | ⟨_, _, hnf⟩ | ⟨_, _, _, hnt⟩⟩
  · exact absurd hl hnr
  · exact absurd he hne
  · exact he
  · exact absurd hf hnf
  · exact absurd ht hnt

/-- `Memory` fails only with one of its error messages, or because of the allocator (F19) — and the
latter only if some PT_LOAD header really asks for a zero fill beyond `lim`; never an index panic -/
theorem memory_errors (lim : Nat) (v : View) (hv : ViewOK v) (e : Err) (h : memory lim v = .error e) :
    e = .memsz ∨ e = .read ∨ e = .empty ∨ e = .wrap ∨ e = .overlap ∨
    (e = .alloc ∧ ∃ p ∈ v.progs, p.typ = 1 ∧ ∃ d, p.data = some d ∧ p.memsz - d.length > lim) := by
  rcases Lemmas.Elf.memory_cases lim v hv with ⟨_, he | he | ⟨he, hw⟩⟩ | ⟨_, ⟨_, he⟩ | ⟨_, he, _⟩ | ⟨_, he, _⟩ | ⟨_, he, _⟩⟩
  all_goals rw [he] at h
  all_goals cases h
  all_goals simp
  exact hw

/-- no crash given that allocation succeeds: if every loadable segment's size is within `lim`, the
outcome of `Memory` is a result or one of its own errors -/
theorem memory_no_crash (lim : Nat) (v : View) (hv : ViewOK v)
    (hlim : ∀ p ∈ v.progs, p.typ = 1 → p.memsz ≤ lim) :
    memory lim v ≠ .error .alloc ∧ memory lim v ≠ .error .panic := by
  constructor
  · intro h
    rcases memory_errors lim v hv _ h with h' | h' | h' | h' | h' | ⟨_, p, hp, h1, d, _, hgt⟩
    all_goals first | cases h' | skip
    have := hlim p hp h1
    omega
  · intro h
    rcases memory_errors lim v hv _ h with h' | h' | h' | h' | h' | ⟨h', _⟩
    all_goals cases h'

/-! ### `Memory.Address` -/

/-- on the blocks of a loaded memory, `Address a` is the suffix from `a` of the block covering `a`,
or nothing if `a` is unmapped; it never panics -/
theorem address_spec (bs : List Block) (ht : Tidy bs) (a : Nat) : address bs a = .ok (lookup bs a) :=
  Lemmas.Elf.address_spec bs ht a

theorem lookup_some_iff (bs : List Block) (ht : Tidy bs) (a : Nat) (r : List UInt8) :
    lookup bs a = some r ↔ ∃ b ∈ bs, Covers b a ∧ r = b.2.drop (a - b.1) :=
  Lemmas.Elf.lookup_eq_some_iff bs ht a r

theorem lookup_none_iff (bs : List Block) (a : Nat) : lookup bs a = none ↔ ∀ b ∈ bs, ¬ Covers b a :=
  Lemmas.Elf.lookup_eq_none_iff bs a

/-- both memories the loader hands out satisfy the premise of `address_spec` -/
theorem loaded_tidy (lim : Nat) (v : View) (hv : ViewOK v) (l : Loaded) (h : load lim (some v) = .ok l) :
    (∀ bs, l.code = .ok bs → Tidy bs) ∧ (∀ bs, l.mem = .ok bs → Tidy bs) := by
  simp only [load] at h
  cases hp : newParser v with
  | error e => rw [hp] at h; cases h
  | ok u =>
    rw [hp] at h
    cases h
    exact ⟨fun bs hb => (machineCode_ok v hv bs hb).2.2.2.1, fun bs hb => (memory_ok lim v hv bs hb).2.2.2.1⟩

/-- `Address` does not panic on any block list made of machine integers, tidy or not -/
theorem address_never_panics (bs : List Block) (hs : ∀ b ∈ bs, b.1 < 2 ^ 64 ∧ b.2.length < 2 ^ 64) (a : Nat) :
    address bs a ≠ .error .panic :=
  Lemmas.Elf.address_no_panic bs hs a

/-! ### non-vacuity -/

/-- `.text` at 0x1000 (8 bytes), a non-executable section, a PT_LOAD segment with 4 file bytes and
memsz 8, a PT_NOTE header -/
def exampleView : View :=
  { typ := 2, entry := 4096,
    sections := [⟨1, 6, 4096, 8, 8, some [1, 2, 3, 4, 5, 6, 7, 8]⟩, ⟨1, 3, 8192, 2, 2, some [9, 9]⟩,
                 ⟨8, 3, 8200, 16, 16, none⟩],
    progs := [⟨4, 0, 4, 4, some [0, 0, 0, 0]⟩, ⟨1, 8192, 4, 8, some [9, 9, 7, 7]⟩] }

example : machineCode exampleView = .ok [(4096, [1, 2, 3, 4, 5, 6, 7, 8])] ∧
    memory 100 exampleView = .ok [(8192, [9, 9, 7, 7, 0, 0, 0, 0])] ∧
    address [(8192, [9, 9, 7, 7, 0, 0, 0, 0])] 8194 = .ok (some [7, 7, 0, 0, 0, 0]) ∧
    address [(8192, [9, 9, 7, 7, 0, 0, 0, 0])] 8200 = .ok none ∧
    memory 3 exampleView = .error .alloc := by decide

/-- overlapping and unsorted segments; a zero-length block; the top of the address space (F60) -/
example : newMemory [(16, [1, 2]), (8, [3, 4])] = .ok [(8, [3, 4]), (16, [1, 2])] ∧
    newMemory [(8, [1, 2, 3]), (10, [4])] = .error .overlap ∧
    newMemory [(8, []), (8, [1])] = .ok [(8, []), (8, [1])] ∧
    newMemory [(8, [1]), (8, [])] = .error .overlap ∧
    newMemory [(18446744073709551614, [1, 2])] = .error .wrap ∧
    newMemory [(18446744073709551613, [1, 2])] = .ok [(18446744073709551613, [1, 2])] := by decide

example : (load 0 (some { exampleView with typ := 1 })).toOption.isNone ∧
    (load 0 (some { exampleView with typ := 3 })).toOption.isSome := by decide

end Mltwist.Props.C20
