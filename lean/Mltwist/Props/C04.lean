import Mltwist.Lemmas.EmulatorLifted
/-
C04 — the emulator asks for unknown state only, once.

Model: `Model/Emulator.lean` (`regValue`, `memValue`, `evalRegs`, `evalMem`, `eval`, `step`, `run`) over
`state.State` with the memories of C14–C16; the `StateProvider` is an arbitrary oracle `p : Provider`
(no consistency is assumed of its answers) and every call is logged (`Req`).  The model follows the
REPAIRED code (F03: `ConstFold` before the type assertions of `memValue`; F70: a register is requested
at the greatest width the code uses it with; F45: an access that does not fit the address space makes `Step`
return an error — the provider calls made before the failing access belong to the log, and the claims of C04
hold for them too).

Vocabulary (`Lemmas/EmulatorBasic.lean`, `EmulatorFill.lean`, `EmulatorRun.lean`):
* `Inv s`   the memories satisfy the invariants of C14/C15, registers and memories hold constants;
            `Ready s` = `Inv s` + the instruction pointer is in the register map
            (`inv_toolState`, `ready_new`: the state `cmd/mltwist` starts from).
* `Unknown s r`  the request `r` is for state `s` does not have: a register absent from the register map;
            a non-empty byte range none of whose bytes is present in any memory layer (image or written).
* `KnownReq s r` the register is in the map / every byte of the range is present.
* `Supplied p s r` the state holds, for that register / those bytes, the (width-adjusted) answer of `p`.
* `Fill p s l s'` `s'` results from `s` by the requests `l` in order, each `Unknown` at its moment.
* `Applied s efs s'` `s'` results from `s` by the writes of the evaluated effects.
* `StepDom`/`RunDom` every memory access performed lies in the domain of C14 (`1 ≤ w ≤ 255`,
            `addr + w < 2^64`); `CodeWF` every expression of the code has widths between 1 and 255; `CodeSW`
            every store of the code has a width between 1 and 255 (both are theorems for the code of an image).
-/
namespace Mltwist.Props.C04
open Mltwist Mltwist.State Mltwist.Overlay Mltwist.Emulator Mltwist.Spec.Overlay
open Mltwist.Lemmas.Emulator

/-! ### where emulations start -/

/-- the state the tool starts from (pre-set constant registers, `Overlay(Bytes(image), Sparse)`), after
`emulator.New`, is ready -/
theorem tool_start_ready (pre : List (String × List UInt8)) {image bs : List BytesMem.Block}
    (h : BytesMem.newBytes image = .ok bs) (ip : Nat) : Ready (Emulator.new ip (toolState pre bs)) :=
  ready_new (inv_toolState pre h) ip

/-! ### one step -/

/-- WHATEVER THE INSTRUCTION ACCESSES (REPAIR F45: no domain hypothesis): a step from a ready state returns the
error exactly when no instruction starts at the instruction pointer; otherwise it succeeds — the provider calls
`log` of the step are a `Fill` (each call is for state unknown at its moment, and its answer is stored), all of
them precede the program's writes (`Applied`), and the resulting state is ready again — or it returns the access
error (some access has `addr + w ≥ 2^64`): then, too, the provider calls `log` made before the failing access are
a `Fill`, nothing else changed the state, and it is ready again.  Never a panic. -/
theorem step_shape (p : Provider) (code : CodeView) {s : State} (hr : Ready s) (hw : CodeWF code)
    (hs : CodeSW code) :
    ∃ c, assocGet ipKey s.regs = some (.const c) ∧
      match code.lookup (leToNat c % 2 ^ 64) with
      | none => step p code s = .err
      | some ins =>
        (∃ s1 s2 log rep,
          step p code s = .ok (finish ins (ins.effects.any isJump) s2) rep log ∧
          Fill p s log s1 ∧ Applied s1 (ins.effects.map (evalEff s1)) s2 ∧
          Ready (finish ins (ins.effects.any isJump) s2)) ∨
        (∃ s1 log a w, step p code s = .accessErr s1 log a w ∧ Fill p s log s1 ∧ Ready s1 ∧
          assocGet ipKey s1.regs = some (.const c) ∧ 2 ^ 64 ≤ a + w ∧ ¬ StepDom p code s ins) :=
  step_ready_total p code hr hw hs

/-- … and inside the domain of C14 there is no access error (the statement before the repair of F45) -/
theorem step_shape_in_domain (p : Provider) (code : CodeView) {s : State} (hr : Ready s) (hw : CodeWF code)
    (hd : ∀ c ins, assocGet ipKey s.regs = some (.const c) → code.lookup (leToNat c % 2 ^ 64) = some ins →
      StepDom p code s ins) :
    ∃ c, assocGet ipKey s.regs = some (.const c) ∧
      match code.lookup (leToNat c % 2 ^ 64) with
      | none => step p code s = .err
      | some ins => ∃ s1 s2 log rep,
          step p code s = .ok (finish ins (ins.effects.any isJump) s2) rep log ∧
          Fill p s log s1 ∧ Applied s1 (ins.effects.map (evalEff s1)) s2 ∧
          Ready (finish ins (ins.effects.any isJump) s2) :=
  step_ready p code hr hw hd

/-- a request is issued only for state that, at that moment, is in neither the register map nor any
memory layer; right after it the state holds the supplied value -/
theorem request_unknown_at_its_moment {p : Provider} {s s' : State} {l1 l2 : List Req} {r : Req}
    (hf : Fill p s (l1 ++ r :: l2) s') (hi : Inv s) :
    ∃ sm sm', Fill p s l1 sm ∧ Unknown sm r ∧ Fill p sm [r] sm' ∧ Supplied p sm' r ∧ Fill p sm' l2 s' :=
  hf.split hi

/-- … in particular it was unknown when the step began (knowledge only grows) -/
theorem request_unknown_at_step_begin {p : Provider} {s s' : State} {l : List Req} (hf : Fill p s l s')
    (hi : Inv s) : ∀ r ∈ l, Unknown s r :=
  hf.unknown hi

/-- `asked ⊆ known`, with values: after the provider calls of a step every requested register / byte
is in the state, with the supplied value -/
theorem asked_then_known {p : Provider} {s s' : State} {l : List Req} (hf : Fill p s l s') (hi : Inv s) :
    ∀ r ∈ l, Supplied p s' r ∧ KnownReq s' r :=
  fun r hr => ⟨hf.supplied hi r hr, known_of_supplied (hf.supplied hi r hr)⟩

/-- nothing is requested twice within a step: the requests concern pairwise different registers and
pairwise disjoint byte ranges -/
theorem no_duplicates_in_step {p : Provider} {s s' : State} {l : List Req} (hf : Fill p s l s') (hi : Inv s) :
    l.Pairwise Req.Disjoint :=
  hf.pairwise hi

/-- the missing ranges requested for one load are exactly the maximal runs of bytes of the loaded range
that no memory layer has (`Missing` is exact, C16): each lies inside the range, is unknown, and afterwards
every byte of the range is present and the value read is the little-endian value of the bytes -/
theorem memValue_requests (p : Provider) (c : Ctx) (key : String) (addr w : Nat) (hi : Inv c.st)
    (hd : InDom addr w) : ∃ v c', memValue p c key addr w = .ok (v, c') ∧ MemValOut p key addr w c v c' :=
  memValue_spec p c key addr w hi hd

/-- a register is requested at the greatest width the code uses it with, so that it never has to be
requested again (REPAIR F70); a known register is not requested -/
theorem regValue_requests (p : Provider) (code : CodeView) (c : Ctx) (key : String) (w : Nat)
    (hr : RegsConst c.st.regs) :
    (∃ v, assocGet key c.st.regs = some (.const v) ∧ regValue p code c key w = .ok (cw v w, c)) ∨
    (assocGet key c.st.regs = none ∧
      regValue p code c key w =
        .ok (Const.withWidth (Const.withWidth (p.reg key (max w (code.regWidth key))) (max w (code.regWidth key))) w,
          { c with st := fillReg p c.st key (max w (code.regWidth key))
                   log := c.log ++ [.reg key (max w (code.regWidth key))] })) :=
  regValue_spec p code c key w hr

/-! ### whole runs -/

/-- For every provider, every well-formed code, every ready state and every number of steps — WHATEVER MEMORY THE
PROGRAM ACCESSES (REPAIR F45: no domain hypothesis; a run ends with the first error, and the provider calls of a
last step that fails with the access error belong to the log): the run never panics and ends in a ready state;
over the WHOLE provider log no register is requested twice and no byte is requested twice; every request was
for state unknown when the run began — and, since this holds for the run from any intermediate state as well
and knowledge only grows, unknown at every moment before it was issued; everything requested is known at
the end of the run. -/
theorem run_requests (p : Provider) (code : CodeView) (hw : CodeWF code) (hs : CodeSW code) (n : Nat) (s : State)
    (hr : Ready s) :
    Ready (run p code n s).2 ∧
    (∀ o ∈ (run p code n s).1, match o with | .panic _ => False | _ => True) ∧
    (logOf (run p code n s).1).Pairwise Req.Disjoint ∧
    (∀ r ∈ logOf (run p code n s).1, Unknown s r ∧ KnownReq (run p code n s).2 r) :=
  run_total p code hw hs n s hr

/-- … and for the code the tool runs on — the lifting of the code blocks of an image by the RV64IMA front
end — well-formedness is a theorem, not a hypothesis: no hypothesis on the program is left -/
theorem run_requests_of_image (p : Provider) {blocks : List (Nat × List UInt8)} {code : CodeView}
    (hc : liftCode blocks = some code) (n : Nat) (s : State) (hr : Ready s) :
    Ready (run p code n s).2 ∧
    (∀ o ∈ (run p code n s).1, match o with | .panic _ => False | _ => True) ∧
    (logOf (run p code n s).1).Pairwise Req.Disjoint ∧
    (∀ r ∈ logOf (run p code n s).1, Unknown s r ∧ KnownReq (run p code n s).2 r) :=
  run_total p code (codeWF_of_liftCode hc) (codeSW_of_liftCode hc) n s hr

/-- the same inside the domain of C14 (the statement before the repair of F45; needs no `CodeSW`) -/
theorem run_requests_in_domain (p : Provider) (code : CodeView) (hw : CodeWF code) (n : Nat) (s : State)
    (hr : Ready s) (hd : RunDom p code n s) :
    Ready (run p code n s).2 ∧
    (∀ o ∈ (run p code n s).1, match o with | .panic _ => False | _ => True) ∧
    (logOf (run p code n s).1).Pairwise Req.Disjoint ∧
    (∀ r ∈ logOf (run p code n s).1, Unknown s r ∧ KnownReq (run p code n s).2 r) :=
  run_log p code hw n s hr hd

/-! ### later reads observe the supplied value until the program overwrites it -/

/-- a read of a known register returns the value the state holds (cut or zero extended to the read width)
and asks nothing -/
theorem known_register_read (p : Provider) (code : CodeView) (c : Ctx) (key : String) (w : Nat) (v : List UInt8)
    (h : assocGet key c.st.regs = some (.const v)) : regValue p code c key w = .ok (cw v w, c) :=
  regValue_known p code c key w v h

/-- a read of a range whose bytes are all known returns their little-endian value and asks nothing -/
theorem known_memory_read (p : Provider) (c : Ctx) (key : String) (addr w : Nat) (hi : Inv c.st)
    (hd : InDom addr w) (hp : ∀ i, i < w → c.st.mems.abs key (addr + i) ≠ none) :
    ∃ v, memValue p c key addr w = .ok (v, c) ∧ v.length = w ∧
      ∀ ρ, leToNat v = loadVal ρ (c.st.mems.abs key) addr w :=
  memValue_known p c key addr w hi hd hp

/-- between requests nothing changes what the state holds (`Fill` only adds) … -/
theorem fills_keep_values {p : Provider} {s s' : State} {l : List Req} (hf : Fill p s l s') (hi : Inv s) :
    (∀ k e, assocGet k s.regs = some e → assocGet k s'.regs = some e) ∧
    (∀ key x b, s.mems.abs key x = some b → s'.mems.abs key x = some b) :=
  ⟨hf.rext, hf.mext hi⟩

/-- … and a step changes only what the program writes: a register that is neither written by an effect of
the instruction nor the instruction pointer, and a byte outside the stored ranges, keep the value they had
after the provider calls of the step -/
theorem values_until_overwritten {s1 s2 : State} {efs : List Effect}
    (ha : Applied s1 (efs.map (evalEff s1)) s2) (hi : Inv s1) (ins : Ins) (j : Bool) :
    (∀ k e, assocGet k s1.regs = some e → k ∉ writtenRegs efs → k ≠ ipKey →
      assocGet k (finish ins j s2).regs = some e) ∧
    (∀ key x b, s1.mems.abs key x = some b → ¬ WrittenByte key x (efs.map (evalEff s1)) →
      (finish ins j s2).mems.abs key x = some b) :=
  step_keeps ha hi ins j

/-! ### non-vacuity -/

/-- a two-instruction code over `Overlay(Bytes, Sparse)`: the image holds bytes 16 and 17 -/
def exCode : CodeView :=
  [⟨0, 4, [.regStore (.binary .add (.regLoad "a" 8) (.memLoad "m" (.const [16, 0, 0, 0, 0, 0, 0, 0]) 4) 8) "c" 8]⟩,
   ⟨4, 4, [.regStore (.regLoad "a" 8) "d" 8, .memStore (.regLoad "c" 8) "m" (.const [17, 0, 0, 0, 0, 0, 0, 0]) 2]⟩,
   ⟨8, 4, [.regStore (.memLoad "m" (.const [16, 0, 0, 0, 0, 0, 0, 0]) 4) "e" 8]⟩]

def exProv : Provider := ⟨fun _ w => List.replicate w 1, fun _ _ w => List.replicate w 2⟩

def exState : State :=
  Emulator.new 0 { regs := [], mems := [("m", .overlay (.bytes [(16, [9, 9])]) (.sparse []))] }

set_option synthInstance.maxSize 1024 in
/-- step 1 asks for register `a` and for the two bytes behind the image only (the load straddles image
bytes and unknown bytes); step 2 reads `a` and `c` again and asks nothing; step 3 re-reads the range —
image byte, two written bytes, one supplied byte — and asks nothing; step 4 is the error -/
example :
    (run exProv exCode 4 exState).1.map (fun o => match o with
      | .ok _ rep log => some (log, rep.regLoads, rep.memLoads)
      | _ => none)
    = [some ([.reg "a" 8, .mem "m" 18 2], [("a", [1, 1, 1, 1, 1, 1, 1, 1])], [⟨"m", 16, [9, 9, 2, 2]⟩]),
       some ([], [("a", [1, 1, 1, 1, 1, 1, 1, 1]), ("c", [10, 10, 3, 3, 1, 1, 1, 1])], []),
       some ([], [], [⟨"m", 16, [9, 10, 10, 2]⟩]),
       none] := by decide

/-- REPAIR F45, non-vacuity: the second instruction stores 2 bytes at `2^64 - 1` (the end wraps); its value register
`c` and nothing else is asked before the check of the stores fails; the run ends with the access error, its
request is in the log of the run, and the state keeps `a`, `c` and the instruction pointer 4 -/
def exCodeTop : CodeView :=
  [⟨0, 4, [.regStore (.regLoad "a" 8) "d" 8]⟩,
   ⟨4, 4, [.regStore (.regLoad "a" 8) "e" 8,
           .memStore (.regLoad "c" 8) "m" (.const [0xff, 0xff, 0xff, 0xff, 0xff, 0xff, 0xff, 0xff]) 2]⟩]

set_option synthInstance.maxSize 2048 in
example :
    (logOf (run exProv exCodeTop 3 exState).1,
     (run exProv exCodeTop 3 exState).1.map (fun o => match o with
      | .ok _ _ log => some (log, none)
      | .accessErr s log a w => some (log, some (a, w, s.regs.map (·.1)))
      | _ => none))
    = ([.reg "a" 8, .reg "c" 8],
       [some ([.reg "a" 8], none), some ([.reg "c" 8], some (2 ^ 64 - 1, 2, [ipKey, "a", "d", "c"]))]) := by decide

end Mltwist.Props.C04
