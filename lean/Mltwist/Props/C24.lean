import Mltwist.Lemmas.RenderFits
import Mltwist.Lemmas.RenderPhi
/-
C24 — screen rendering fits the granted space.

For every view state (listing and cursor, registers, memory rows and cursor) and every granted height of
at least the view's declared minimum, rendering never crashes and never writes more lines than granted,
and a view that declares a fixed height writes exactly that many lines.

The model (`Model/Render.lean`) follows `view/composite.go`, `lines/view.go`, `memview/view.go`,
`emulate/reg_view.go`, `prompt.go` literally; what a `Print(n)` call writes is reduced to `Out`: the
number of `\n` bytes and whether the output ends with an unterminated row.

Accounting (`Spec/Render.lean`): rows used = number of `\n`, plus 2 if the output ends with an
unterminated row.  Only the command prompt ends that way: it declares `MinLines = MaxLines = 2` and
writes `"Enter command: "` without `\n` — its two rows are the prompt row and the row the cursor reaches
when the user ends the command with Enter.  `Composite.MinLines` adds one row per separator `\n`
between two elements.  With this accounting "rows used ≤ n" for the whole screen means the terminal
does not scroll.

`FitsView v n` is the property for one view state and one height:
  `n ≥ MinLines → no panic ∧ rows used ≤ n`, and `MinLines = MaxLines = n → returned nil → rows used = n`.

The model follows the tree with the two repairs C24 required (F24: listing window clamped, F25: the
register view does not print the instruction pointer row it does not count); `linesViewPinned`,
`regViewPinned` are the code before them, for which the property fails — see "The two defects".
The property is stated for the views the tool builds: listing, memory view, register view, prompt, and
the composites `NewComposite(lineView, regView)` and `NewComposite(mode.View(), commandPrompt{})`, nested as
the tool nests them.  Two peculiarities of the code are modelled as they are and recorded as
*observations* (last section), not as violations: `lines.View.MinLines` is the constant 5 (> `MaxLines`
for a listing of 3 or 4 lines) and `distributeLines` never decrements `remLines` (over-grants only with two
growable elements, which the tool never builds).

Outside the model (trusted base, `vcheck/props_render.py`): the text of the rows (every row is one
`fmt.Printf` ending in `\n` whose arguments contain no `\n`), the float64 evaluation of
`math.Floor(float64(n)/(math.Phi+1))` (validated against `phiCut` for all `n ≤ 100000`), how memory
blocks become rows of the memory view (C32; the state here is the number of rows and the cursor), and
`terminal.GetSize` of screen.go (`screenHeight` takes the terminal height as a parameter).
-/
namespace Mltwist.Props.C24
open Mltwist.Render
open Mltwist.Lemmas.Render (FitsView Good OneIP)

/-! ## The golden-ratio cut -/

/-- `phiCut n ≤ n` — the only fact about the cut the height logic depends on … -/
theorem phiCut_le (n : Nat) : phiCut n ≤ n := Lemmas.Render.phiCut_le n

/-- … `phiCut n < n` for `n ≥ 1` keeps the cursor row inside the window … -/
theorem phiCut_lt (n : Nat) (hn : 1 ≤ n) : phiCut n < n := Lemmas.Render.phiCut_lt n hn

/-- … and its exact meaning: the integer part of `n/(φ+1)`, `φ` the golden ratio (`math.Phi`). -/
theorem phiCut_eq_floor (n : Nat) : (phiCut n : ℤ) = ⌊(n : ℝ) / (Real.goldenRatio + 1)⌋ :=
  Lemmas.Render.phiCut_eq_floor n

/-- the oracle used on the Go results (`phicut`, `phisweep`) accepts exactly this value -/
theorem phiCut_oracle (n k : Nat) : Spec.Render.isPhiCut n k = true ↔ k = phiCut n :=
  ⟨Lemmas.Render.isPhiCut_unique n k, fun h => h ▸ Lemmas.Render.isPhiCut_phiCut n⟩

/-! ## The views -/

/-- **Listing** (`lines.View`), any number of lines `L`, any cursor, any height: `Print` returns nil
having written `min n L` complete rows. -/
theorem listing_rows (L c n : Nat) : (linesView L c).print n = ⟨.ok, ⟨Spec.Render.linesRows L n, false⟩⟩ :=
  Lemmas.Render.linesPrint_eq L c n

/-- the property for the listing (`MinLines = 5`, `MaxLines = L`: a fixed height exactly when `L = 5`;
for `L < 5` the bounds are inconsistent — observation O-F24b — and the property only asks for `≤ n`) -/
theorem listing_fits (L c n : Nat) : FitsView (linesView L c) n := Lemmas.Render.linesView_fits L c n

/-- more than the property asks: the window always shows the cursor row -/
theorem listing_shows_cursor (L c n : Nat) (hc : c < L) (hn : 1 ≤ n) :
    linesBegin L c n ≤ c ∧ c < linesBegin L c n + Spec.Render.linesRows L n :=
  Lemmas.Render.linesBegin_cursor L c n hc hn

/-- **Memory view** with `R > 0` rows and cursor `c < R`: the rows of the window, clamped to `R`. -/
theorem memory_rows (R c n : Nat) (hR : R ≠ 0) (hc : c < R) :
    (memView R c).print n = ⟨.ok, ⟨Spec.Render.memRows R (c - phiCut n) n, false⟩⟩ :=
  Lemmas.Render.memPrint_eq R c n hR hc

/-- without rows (no cursor) it writes its fixed text of five rows -/
theorem memory_empty (c n : Nat) : (memView 0 c).print n = ⟨.ok, ⟨5, false⟩⟩ :=
  Lemmas.Render.memPrint_nocursor c n

/-- the property for the memory view (`MinLines = 5`, unbounded: never a fixed height) -/
theorem memory_fits (R c : Nat) (h : R = 0 ∨ c < R) (n : Nat) : FitsView (memView R c) n :=
  Lemmas.Render.memView_fits R c h n

/-- **Register view** of a register file (`OneIP`: at most one entry is the instruction pointer — keys
of a map are distinct): it never panics; it returns nil with exactly `lines()` complete rows, or an error
(a value too wide for the 80 columns) with fewer.  `MinLines = MaxLines = lines()`: always fixed. -/
theorem registers_rows (regs : List Reg) (h : OneIP regs) (n : Nat) :
    (((regView regs).print n).status = .ok ∧ ((regView regs).print n).out = ⟨regLines regs, false⟩) ∨
    (((regView regs).print n).status = .err ∧ ((regView regs).print n).out.op = false ∧
      ((regView regs).print n).out.nl < regLines regs) :=
  Lemmas.Render.regPrint_spec regs h n

theorem registers_fits (regs : List Reg) (h : OneIP regs) (n : Nat) : FitsView (regView regs) n :=
  Lemmas.Render.regView_fits regs h n

/-- **Command prompt**: fixed height 2, no `\n`, one unterminated row = 2 rows used. -/
theorem prompt_rows (n : Nat) : promptView.print n = ⟨.ok, ⟨0, true⟩⟩ := rfl

theorem prompt_fits (n : Nat) : FitsView promptView n := Lemmas.Render.promptView_fits n

/-! ## Composite -/

/-- **`distributeLines` terminates** — for every list of elements (any bounds, also inconsistent ones)
and every `remLines`, as the code is (`dec = false`) and with `remLines--` (`dec = true`): the fuel of the
model never runs out. -/
theorem distribute_terminates (dec : Bool) (els : List View) (remLines : Int) :
    (distributeLines dec els remLines).isSome = true :=
  Lemmas.Render.distributeLines_isSome dec els remLines

/-- **The grants for the shape of the tool's composites** — two elements, the second of fixed height
(register table, prompt) — for `remLines ≥ 0` (what `Composite.Print` passes): one grant per element, at
least the minimum, at most minimum + difference (hence at most the maximum of a bounded element,
`grant_le_max`), together at most `remLines` above the minimums: grants + separator ≤ height. -/
theorem grants (a b : View) (hb : b.maxLines = b.minLines) (hb0 : 0 ≤ b.minLines)
    (remLines : Int) (h : 0 ≤ remLines) :
    ∃ gs, distributeLines false [a, b] remLines = some gs ∧ gs.length = 2 ∧
      (∀ j, (mins [a, b]).getD j 0 ≤ gs.getD j 0 ∧
            gs.getD j 0 ≤ (mins [a, b]).getD j 0 + (diffLinesMax [a, b] (mins [a, b]) remLines).getD j 0) ∧
      sumInts gs ≤ sumInts (mins [a, b]) + remLines :=
  Lemmas.Render.grants_two_fixed a b hb hb0 remLines h

/-- minimum + difference never exceeds the maximum of a bounded element (a maximum below the minimum
counts as the minimum, view.go) -/
theorem grant_le_max (min max remLines : Int) (hm : 0 ≤ max) :
    min + diffOf min max remLines ≤ (if max < min then min else max) :=
  Lemmas.Render.diffOf_max min max remLines hm

/-- **A composite of the tool's shape inherits the bound from its elements**: two good views (non-negative
minimum; for every height ≥ the minimum no panic and rows used ≤ height), the second of fixed height:
for every `n ≥ MinLines` of the composite `Print(n)` does not panic and uses at most `n` rows — and the
composite is again a good view (the tool nests one composite as first element of another). -/
theorem composite_good (a b : View) (ha : Good a) (hb : Good b) (hfix : b.maxLines = b.minLines) :
    Good (composite [a, b]) := Lemmas.Render.composite_two_good a b ha hb hfix

/-- below `MinLines` `Composite.Print` returns an error and writes nothing -/
theorem composite_below_min (els : List View) (n : Int) (h : n < compMinLines els) :
    (composite els).print n.toNat = ⟨.err, .none⟩ ∨ n < 0 := by
  by_cases hn : n < 0
  · right; exact hn
  · left
    show compPrint false els ((n.toNat : Nat) : Int) = _
    rw [Int.toNat_of_nonneg (by omega)]
    exact Lemmas.Render.comp_below_min false els n h

/-- a composite of fixed-height elements declares a fixed height -/
theorem composite_fixed (els : List View) (h : ∀ e ∈ els, e.maxLines = e.minLines ∧ 0 ≤ e.minLines) :
    (composite els).maxLines = (composite els).minLines := Lemmas.Render.comp_fixed els h

/-! ## The composites the tool builds -/

/-- `view.NewComposite(lineView, regView)` of the emulation mode -/
theorem emulation_view_fits (L c : Nat) (regs : List Reg) (h : OneIP regs) (n : Nat) :
    FitsView (emuView L c regs) n := Lemmas.Render.emuView_fits L c regs h n

/-- `view.NewComposite(mode.View(), commandPrompt{})` for the disassembly mode -/
theorem screen_disassemble_fits (L c n : Nat) : FitsView (uiScreen (linesView L c)) n :=
  Lemmas.Render.screen_disassemble_fits' L c n

/-- … for the emulation mode (nested composite) -/
theorem screen_emulate_fits (L c : Nat) (regs : List Reg) (h : OneIP regs) (n : Nat) :
    FitsView (uiScreen (emuView L c regs)) n := Lemmas.Render.screen_emulate_fits' L c regs h n

/-- … for the memory mode -/
theorem screen_memory_fits (R c : Nat) (h : R = 0 ∨ c < R) (n : Nat) :
    FitsView (uiScreen (memView R c)) n := Lemmas.Render.screen_memory_fits' R c h n

/-- … for any mode whose view is good and, when it declares a fixed height, writes exactly that many
complete rows -/
theorem screen_fits (v : View) (hg : Good v)
    (hex : v.minLines = v.maxLines → (v.print v.minLines.toNat).status = .ok →
      (v.print v.minLines.toNat).out = ⟨v.minLines.toNat, false⟩) (n : Nat) : FitsView (uiScreen v) n :=
  Lemmas.Render.uiScreen_fits v hg hex n

/-- screen.go (read off the code, the terminal height is a parameter): a view whose `MaxLines` is
unbounded or at least its `MinLines` is printed with a height between its minimum and the terminal
height — so by the theorems above (which need `n ≥ MinLines` only) the screen does not scroll — or not
at all if the terminal is too small. -/
theorem screen_height (e : View) (screenLines : Int) (hwf : e.maxLines < 0 ∨ e.minLines ≤ e.maxLines) :
    (screenLines < e.minLines → screenHeight e screenLines = none) ∧
    (e.minLines ≤ screenLines →
      ∃ n, screenHeight e screenLines = some n ∧ e.minLines ≤ n ∧ n ≤ screenLines) :=
  ⟨Lemmas.Render.screenHeight_none e screenLines, Lemmas.Render.screenHeight_spec e screenLines hwf⟩

/-- the executable oracle applied to the Go results decides exactly the property -/
theorem oracle_iff (min max n : Int) (o : Spec.Render.Outcome) (nl : Nat) (op : Bool) :
    Spec.Render.check min max n o nl op = none ↔ Spec.Render.Fits min max n o nl op :=
  Lemmas.Render.check_none_iff min max n o nl op

/-! ## The two defects (repaired by `fix:` commits)

F24 — the listing window was not clamped; F25 — the register view printed the instruction pointer row it
does not count. -/

/-- F24: the listing before the repair panics exactly when the window reaches behind the last line, e.g.
whenever the cursor is on the last line (`n ≥ 5`: `phiCut n < n − 1`). -/
theorem F24_panic_iff (L c n : Nat) (hc : c < L) :
    ((linesViewPinned L c).print n).status = .panic ↔ L < (c - phiCut n) + n :=
  Lemmas.Render.linesPrintPinned_panic_iff L c n hc

/-- F25: the register view before the repair writes the rows of all registers: one more than `lines()`
exactly when the instruction pointer is present and the number of other registers is even. -/
theorem F25_rows (regs : List Reg) (h : OneIP regs) (n : Nat)
    (hok : ((regViewPinned regs).print n).status = .ok) :
    ((regViewPinned regs).print n).out.nl = regLines regs +
      (if regs.any (·.key == ipKey) ∧ (regs.filter (fun r => !(r.key == ipKey))).length % 2 = 0 then 1 else 0) := by
  have h1 := Lemmas.Render.regPrintPinned_spec regs n hok
  have h2 := Lemmas.Render.regPinned_rows regs h
  show (regPrint false regs n).out.nl = _
  rw [h1]; exact h2

/-! ## Observations (theorems about the model of the code as it is; NOT violations of C24)

O-F26 — `distributeLines` never decrements `remLines`; O-F24b — `lines.View.MinLines` is the constant 5. -/

/-- O-F26, what the loop computes for `remLines > 0`: *every* element gets its full difference (up to
`remLines` each) — with two growable elements the grants exceed the height (example below). -/
theorem obs_F26_grants (els : List View) (remLines : Int) (h : 0 < remLines) :
    ∃ gs, distributeLines false els remLines = some gs ∧ gs.length = els.length ∧
      ∀ j, gs.getD j 0 = (mins els).getD j 0 + (diffLinesMax els (mins els) remLines).getD j 0 := by
  obtain ⟨gs, h1, h2, _, _, h5, _⟩ := Lemmas.Render.distributeLines_spec false els remLines (by omega)
  exact ⟨gs, h1, h2, h5 rfl h⟩

/-- O-F26 cannot show in the tool: both composites it builds have two elements the second of which has
a fixed height (register table, prompt); then at most one element can grow and the loop computes the
same grants as the variant with `remLines--` … -/
theorem obs_F26_unreachable (a b : View) (hb : b.maxLines = b.minLines) (hb0 : 0 ≤ b.minLines)
    (remLines : Int) (h : 0 ≤ remLines) :
    distributeLines false [a, b] remLines = distributeLines true [a, b] remLines :=
  Lemmas.Render.distribute_two_fixed a b hb hb0 remLines h

/-- … for which the general statement holds: grants of *any* list of elements sum to at most
`remLines` above the minimums (and to exactly that unless every element has all it can take), and a
composite of *any* non-empty list of good views is a good view. -/
theorem obs_F26_with_decrement (els : List View) (remLines : Int) (h : 0 ≤ remLines) :
    ∃ gs, distributeLines true els remLines = some gs ∧ gs.length = els.length ∧
      (∀ j, (mins els).getD j 0 ≤ gs.getD j 0 ∧
            gs.getD j 0 ≤ (mins els).getD j 0 + (diffLinesMax els (mins els) remLines).getD j 0) ∧
      sumInts gs ≤ sumInts (mins els) + remLines ∧
      (sumInts gs = sumInts (mins els) + remLines ∨
        ∀ j, gs.getD j 0 = (mins els).getD j 0 + (diffLinesMax els (mins els) remLines).getD j 0) := by
  obtain ⟨gs, h1, h2, h3, h4, _, _⟩ := Lemmas.Render.distributeLines_spec true els remLines h
  exact ⟨gs, h1, h2, h3, (h4 rfl).1, (h4 rfl).2⟩

theorem obs_F26_composite_with_decrement (els : List View) (hne : els ≠ []) (hgood : ∀ e ∈ els, Good e) :
    Good (compositeDec els) := Lemmas.Render.comp_good els hne hgood

/-- O-F24b: composites of views with consistent bounds have consistent bounds (so `screen_height`
applies to every screen of the tool whose listing has at least five lines); a listing of 3 or 4 lines
breaks the premise — see the example below. -/
theorem obs_F24b_consistent (els : List View) (h : ∀ e ∈ els, e.maxLines < 0 ∨ e.minLines ≤ e.maxLines) :
    (composite els).maxLines < 0 ∨ (composite els).minLines ≤ (composite els).maxLines :=
  Lemmas.Render.comp_consistent els h

/-! ## Non-vacuity and witnesses -/

/-- a view that prints exactly the height it is given (the stub of the harness) -/
def stub (min max : Int) : View := ⟨min, max, fun n => ⟨.ok, ⟨n, false⟩⟩⟩

-- the code (with the repairs of F24, F25) on the witnesses of the two defects
example : (linesView 10 9).print 5 = ⟨.ok, ⟨5, false⟩⟩ ∧ linesBegin 10 9 5 = 5
    ∧ (linesView 10 0).print 11 = ⟨.ok, ⟨10, false⟩⟩
    ∧ (linesView 5 4).print 5 = ⟨.ok, ⟨5, false⟩⟩
    ∧ (linesView 3 0).print 5 = ⟨.ok, ⟨3, false⟩⟩ := by decide

example : (regView [⟨ipKey, 8⟩]).print 0 = ⟨.ok, ⟨0, false⟩⟩
    ∧ (regView [⟨ipKey, 8⟩, ⟨"x1", 4⟩, ⟨"x2", 4⟩]).print 1 = ⟨.ok, ⟨1, false⟩⟩
    ∧ (regView [⟨"x1", 4⟩, ⟨"x2", 32⟩]).print 1 = ⟨.err, ⟨0, false⟩⟩
    ∧ (regView [⟨"x1", 16⟩]).print 1 = ⟨.ok, ⟨1, false⟩⟩
    ∧ (regView [⟨"x10", 16⟩]).print 1 = ⟨.err, ⟨0, false⟩⟩ := by decide

-- the screens of the tool
example : ((uiScreen (linesView 10 0)).print 9).out = ⟨7, true⟩
    ∧ (uiScreen (linesView 10 0)).minLines = 8 ∧ (uiScreen (linesView 10 0)).maxLines = 13
    ∧ ((uiScreen (emuView 10 0 [⟨ipKey, 8⟩, ⟨"x1", 8⟩, ⟨"x2", 8⟩])).print 12) = ⟨.ok, ⟨10, true⟩⟩
    ∧ ((uiScreen (emuView 5 0 [⟨ipKey, 8⟩])).print 9) = ⟨.ok, ⟨7, true⟩⟩
    ∧ (uiScreen (emuView 5 0 [⟨ipKey, 8⟩])).minLines = 9 ∧ (uiScreen (emuView 5 0 [⟨ipKey, 8⟩])).maxLines = 9
    ∧ ((uiScreen (memView 4 3)).print 8).out = ⟨3, true⟩ := by decide

-- F24 before the repair: cursor on the last line; more rows than lines
example : ((linesViewPinned 10 9).print 5).status = .panic
    ∧ ((linesViewPinned 10 0).print 11).status = .panic
    ∧ ((linesViewPinned 5 4).print 5).status = .panic := by decide

-- F25 before the repair: only the instruction pointer: MaxLines = 0, one row written; in the emulation
-- view at its minimum height 6: seven rows
example : (regViewPinned [⟨ipKey, 8⟩]).maxLines = 0 ∧ ((regViewPinned [⟨ipKey, 8⟩]).print 0).out.nl = 1
    ∧ (composite [linesView 10 0, regViewPinned [⟨ipKey, 8⟩]]).minLines = 6
    ∧ ((composite [linesView 10 0, regViewPinned [⟨ipKey, 8⟩]]).print 6).out.nl = 7 := by decide

-- O-F26: two unbounded elements, height 10: both get 9 rows, 19 rows written; with `remLines--`: 5 + 4
example : distributeLines false [stub 0 (-1), stub 0 (-1)] 9 = some [9, 9]
    ∧ ((composite [stub 0 (-1), stub 0 (-1)]).print 10).out.nl = 19
    ∧ distributeLines true [stub 0 (-1), stub 0 (-1)] 9 = some [5, 4]
    ∧ ((compositeDec [stub 0 (-1), stub 0 (-1)]).print 10).out = ⟨10, false⟩
    ∧ distributeLines true [stub 1 3, stub 2 2, stub 0 (-1)] 5 = some [3, 2, 3] := by decide

-- O-F24b: a listing of three lines declares MinLines 5 > MaxLines 3; the property holds (3 rows ≤ 5), but
-- screen.go on a terminal of 24 rows asks for MaxLines = 6 < MinLines = 8 and `Print` returns an error
example : (linesView 3 0).minLines = 5 ∧ (linesView 3 0).maxLines = 3
    ∧ ((uiScreen (linesView 3 0)).print 8) = ⟨.ok, ⟨4, true⟩⟩
    ∧ (uiScreen (linesView 3 0)).minLines = 8 ∧ (uiScreen (linesView 3 0)).maxLines = 6
    ∧ screenHeight (uiScreen (linesView 3 0)) 24 = some 6
    ∧ (uiScreen (linesView 3 0)).print 6 = ⟨.err, .none⟩ := by decide

end Mltwist.Props.C24
