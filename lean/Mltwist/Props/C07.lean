import Mltwist.Lemmas.DepsCode
import Mltwist.Lemmas.DepsNew
/-
C07 — move bookkeeping stays consistent across any history.

Model (`Model/Deps.lean`): `Block.move` (`checkMove`, `LowerBound`/`UpperBound` = `findBound` over
`depsBack`/`depsFwd` with the current `blockIdx`, `move`/`moveFwd`/`moveBack` with index and
address reassignment), `Block.address` (binary search on current addresses), `Code.move` (blocks
permuted, `blocksByAddr` = `store` keeps every address), `Code.address`, `Code.step` (one operation
of a history), `Code.run`.  Go panics are explicit outcomes.

Invariant: `BInv b` (`Lemmas/DepsInv.lean`) — indices are positions, the ids are a permutation of
`0 … n-1`, the instructions tile `[begin, begin + bytes)` in their current order with positive
lengths, nothing wraps, `end = (begin + bytes) mod 2^64`, every edge points forward — and `CInv c`
(`Lemmas/DepsCodeInv.lean`): every block object satisfies `BInv`, pointers are positions in
`blocksByAddr`, `blocks` is a permutation of all pointers, block indices are positions, the block
objects are sorted by address and disjoint.  `BInv`/`CInv` imply the specification's `VBlock.Inv` /
`VCode.Inv` (`Spec/Deps.lean`) on the view of the state.

Well-formed input (`WF`, as for C08): positive lengths, `addr + len ≤ 2^64`, no two instructions
overlap.  The model follows the code with the repairs F07, F08 (dependency finders) and F50
(`Code.Address` compares with the last byte of a block, so a block ending at `2^64` is found).
-/
namespace Mltwist.Props.C07
open Mltwist Mltwist.Deps Mltwist.Deps.Spec Mltwist.Lemmas.Deps

/-- a raw instruction: type bits, address, length, effects -/
abbrev Raw := Nat × Nat × Nat × List Effect

/-- well-formed code (the `WF` of C08 on the instructions as `basicblock` sees them) -/
def WF (raw : List Raw) : Prop := BasicBlock.Spec.WF (toBB raw)

instance (raw : List Raw) : Decidable (WF raw) := by unfold WF; infer_instance

/-! ### instruction moves -/

/-- a move succeeds exactly when both positions are valid and the target lies within the bounds
the tool reports for that instruction -/
theorem move_accepted_iff (b : Block) (hb : BInv b) (f t : Int) :
    (∃ b', b.move f t = .ok b') ↔
      0 ≤ f ∧ f < b.seq.length ∧ 0 ≤ t ∧ t < b.seq.length ∧
      ∃ lo up : Int, b.lowerBound f = some lo ∧ b.upperBound f = some up ∧ lo ≤ t ∧ t ≤ up := by
  rw [← hb.checkMove_iff]
  constructor
  · rintro ⟨b', h⟩; exact move_ok_check h
  · intro h; obtain ⟨b', h', _⟩ := hb.move_ok f t h; exact ⟨b', h'⟩

/-- a rejected move is an index or bound error — the tool never panics on a move -/
theorem move_never_panics (b : Block) (hb : BInv b) (f t : Int) : b.move f t ≠ .error .panic :=
  fun h => hb.move_err f t _ h rfl

/-- an operation that is rejected (or panics) changes nothing -/
theorem rejected_unchanged (c : Code) (op : Op) (h : ∀ b, (c.step op).2 ≠ .edges b)
    (h1 : (c.step op).2 ≠ .ok) (h2 : ∀ n, (c.step op).2 ≠ .bound n) (h3 : ∀ r, (c.step op).2 ≠ .addr r) :
    (c.step op).1 = c := by
  cases op with
  | mv bi f t =>
    simp only [Code.step] at h1 ⊢
    cases hi : c.index bi with
    | none => rfl
    | some b =>
      simp only [hi] at h1 ⊢
      cases hm : b.move f t with
      | ok b' => simp [hm] at h1
      | error e => cases e <;> rfl
  | bmv f t =>
    simp only [Code.step] at h1 ⊢
    cases hm : c.move f t with
    | ok c' => simp [hm] at h1
    | error e => cases e <;> rfl
  | lb bi i => simp only [Code.step]; cases (c.index bi).bind (·.lowerBound i) <;> rfl
  | ub bi i => simp only [Code.step]; cases (c.index bi).bind (·.upperBound i) <;> rfl
  | addr a =>
    simp only [Code.step]
    cases c.address a with
    | none => rfl
    | some r =>
      cases r with
      | none => rfl
      | some b => simp only; cases b.address a <;> rfl
  | edges bi => simp only [Code.step]; cases c.index bi <;> rfl

/-- lookups and bound queries never change the state -/
theorem query_unchanged (c : Code) (op : Op) (h : ∀ bi f t, op ≠ .mv bi f t) (h' : ∀ f t, op ≠ .bmv f t) :
    (c.step op).1 = c := by
  cases op with
  | mv bi f t => exact absurd rfl (h bi f t)
  | bmv f t => exact absurd rfl (h' f t)
  | lb bi i => simp only [Code.step]; cases (c.index bi).bind (·.lowerBound i) <;> rfl
  | ub bi i => simp only [Code.step]; cases (c.index bi).bind (·.upperBound i) <;> rfl
  | addr a =>
    simp only [Code.step]
    cases c.address a with
    | none => rfl
    | some r =>
      cases r with
      | none => rfl
      | some b => simp only; cases b.address a <;> rfl
  | edges bi => simp only [Code.step]; cases c.index bi <;> rfl

/-- an accepted move is the rotation of the segment between the two positions (the instruction
at `from` is taken out and put back at `to`, the others shift by one); begin, end, edges, index and
identity of the block are unchanged, and the invariant holds again -/
theorem move_is_rotation (b b' : Block) (hb : BInv b) (f t : Int) (h : b.move f t = .ok b') :
    b'.seq.map Ins.static = rotate (b.seq.map Ins.static) f.toNat t.toNat ∧
    b'.begin = b.begin ∧ b'.end_ = b.end_ ∧ b'.edges = b.edges ∧ b'.idx = b.idx ∧ b'.ptr = b.ptr ∧
    BInv b' := by
  obtain ⟨b'', h'', h1, h2, h3, h4, h5, h6, h7, _, _⟩ := hb.move_ok f t (move_ok_check h)
  rw [h] at h''; cases h''
  exact ⟨h7, h2, h3, h4, h5, h6, h1⟩

/-! ### what the invariant gives -/

/-- every instruction lies within its own reported bounds -/
theorem bounds_contain (b : Block) (hb : BInv b) (i : Nat) (hi : i < b.seq.length) :
    ∃ lo up : Int, b.lowerBound i = some lo ∧ b.upperBound i = some up ∧ lo ≤ i ∧ (i : Int) ≤ up := by
  obtain ⟨lo, hlo, h1, _⟩ := hb.lowerBound_spec i hi
  obtain ⟨up, hup, h2, _⟩ := hb.upperBound_spec i hi
  exact ⟨lo, up, hlo, hup, by omega, by omega⟩

/-- the bounds are given by the dependencies: everything the instruction depends on stands before
the lower bound, everything that depends on it behind the upper bound, and both bounds are tight -/
theorem bounds_by_edges (b : Block) (hb : BInv b) (i : Nat) (hi : i < b.seq.length) :
    ∃ lo up : Nat, b.lowerBound i = some (lo : Int) ∧ b.upperBound i = some (up : Int) ∧
      (∀ e ∈ b.edges, e.2 = b.seq[i].id → (idsOf b.seq).idxOf e.1 < lo) ∧
      (lo = 0 ∨ ∃ e ∈ b.edges, e.2 = b.seq[i].id ∧ (idsOf b.seq).idxOf e.1 + 1 = lo) ∧
      (∀ e ∈ b.edges, e.1 = b.seq[i].id → up < (idsOf b.seq).idxOf e.2) ∧
      (up + 1 = b.seq.length ∨ ∃ e ∈ b.edges, e.1 = b.seq[i].id ∧ (idsOf b.seq).idxOf e.2 = up + 1) := by
  obtain ⟨lo, hlo, _, h1, h2⟩ := hb.lowerBound_spec i hi
  obtain ⟨up, hup, _, _, h3, h4⟩ := hb.upperBound_spec i hi
  exact ⟨lo, up, hlo, hup, h1, h2, h3, h4⟩

/-- the instructions occupy contiguous addresses from the block start in their current order -/
theorem addresses_contiguous (b : Block) (hb : BInv b) (k : Nat) (hk : k < b.seq.length) :
    b.seq[k].currAddr = b.begin + bytesI (b.seq.take k) ∧ b.seq[k].blockIdx = k := by
  refine ⟨tilesI_getElem b.begin b.seq hb.tiles k hk, ?_⟩
  have := idxFrom_getElem 0 b.seq hb.idx k hk
  omega

/-- every instruction still follows all instructions it depends on -/
theorem edges_forward (b : Block) (hb : BInv b) :
    ∀ e ∈ b.edges, e.1 ∈ idsOf b.seq ∧ e.2 ∈ idsOf b.seq ∧ (idsOf b.seq).idxOf e.1 < (idsOf b.seq).idxOf e.2 :=
  hb.fwd

/-- `Block.Address a` finds exactly the instruction whose current address is `a` (never panics) -/
theorem block_lookup_exact (b : Block) (hb : BInv b) (a : Nat) :
    b.address a = some (b.seq.find? fun i => i.currAddr == a) := hb.address_exact a

/-- `Code.Address a` finds exactly the block whose (original) address range contains `a` -/
theorem code_lookup_exact (c : Code) (hc : CInv c) (a : Nat) :
    c.address a = some (c.store.find? fun b => decide (b.begin ≤ a ∧ a < b.begin + bytesI b.seq)) :=
  hc.address_exact a

/-- the model's invariant is the specification's invariant on the view of the state -/
theorem inv_view (c : Code) (hc : CInv c) : c.view.Inv := hc.view_inv

theorem block_inv_view (b : Block) (hb : BInv b) : b.view.Inv := hb.view_inv

/-! ### block moves -/

/-- a block move is accepted exactly when both positions are valid -/
theorem block_move_accepted_iff (c : Code) (hc : CInv c) (f t : Int) :
    (∃ c', c.move f t = .ok c') ↔ 0 ≤ f ∧ f < c.blocks.length ∧ 0 ≤ t ∧ t < c.blocks.length :=
  hc.move_iff f t

/-- block moves only permute the block order: `blocks` is rotated, and `blocksByAddr` keeps every
block with all its addresses, instructions and edges (only block indices change) -/
theorem block_move_permutes (c c' : Code) (hc : CInv c) (f t : Int) (h : c.move f t = .ok c') :
    c'.blocks = rotate c.blocks f.toNat t.toNat ∧ c'.store.map frozen = c.store.map frozen ∧ CInv c' := by
  obtain ⟨h1, h2, h3, _⟩ := hc.move_ok f t h
  exact ⟨h2, h3, h1⟩

/-- … hence no address lookup changes -/
theorem block_move_lookup (c c' : Code) (hc : CInv c) (f t : Int) (h : c.move f t = .ok c') (a : Nat) :
    (c'.address a).map (·.map frozen) = (c.address a).map (·.map frozen) := by
  obtain ⟨h1, _, h3, _⟩ := hc.move_ok f t h
  rw [h1.address_exact, hc.address_exact]
  simp only [Option.map_some, Option.some.injEq]
  have key : ∀ (l l' : List Block), l.map frozen = l'.map frozen →
      (l.find? (inBlock a)).map frozen = (l'.find? (inBlock a)).map frozen := by
    intro l
    induction l with
    | nil => intro l' h; cases l' with
      | nil => rfl
      | cons y ys => simp at h
    | cons x xs ih =>
      intro l' h
      cases l' with
      | nil => simp at h
      | cons y ys =>
        simp only [List.map_cons, List.cons.injEq] at h
        have hxy : inBlock a x = inBlock a y := by
          have := h.1
          simp only [frozen, Prod.mk.injEq] at this
          simp [inBlock, this.2.1, this.2.2.2.1]
        simp only [List.find?_cons, hxy]
        cases inBlock a y with
        | true => simp [h.1]
        | false => exact ih ys h.2
  exact key _ _ h3

theorem block_move_never_panics (c : Code) (hc : CInv c) (f t : Int) : c.move f t ≠ .error .panic :=
  fun h => hc.move_err f t _ h rfl

/-! ### any history -/

/-- the invariant holds initially -/
theorem inv_initial (entry : Nat) (raw : List Raw) (hwf : WF raw) (c : Code)
    (h : newCode entry raw = .ok c) : CInv c := (newCode_inv entry raw hwf c h).1

/-- building the code never panics on well-formed input (no empty block: C08) -/
theorem newCode_never_panics (entry : Nat) (raw : List Raw) (hwf : WF raw) :
    newCode entry raw ≠ .error .panic := newCode_nopanic entry raw hwf

/-- every operation (instruction move, block move, lookup, bound query) keeps the invariant and
changes neither the edges nor the set of instructions nor the address range of any block -/
theorem inv_step (c : Code) (hc : CInv c) (op : Op) : CInv (c.step op).1 ∧ SameCode c (c.step op).1 :=
  hc.step op

/-- after any history of instruction moves, block moves and lookups on a well-formed code: the
invariant holds (every instruction within its bounds, contiguous addresses, exact lookups, every
edge forward) and every block still has its edges, its instructions and its address range -/
theorem inv_history (entry : Nat) (raw : List Raw) (hwf : WF raw) (c0 : Code)
    (h : newCode entry raw = .ok c0) (ops : List Op) :
    CInv (c0.run ops) ∧ (c0.run ops).view.Inv ∧ SameCode c0 (c0.run ops) := by
  obtain ⟨h1, h2⟩ := (inv_initial entry raw hwf c0 h).run ops
  exact ⟨h1, h1.view_inv, h2⟩

/-! ### non-vacuity -/

/-- `w x1; w x1; x2 := x1; w x1` (the F07 shape) with lengths 4, 2, 6, 4 -/
def exampleRaw : List Raw :=
  [(0, 100, 4, [.regStore (.const [1]) "x1" 1]), (0, 104, 2, [.regStore (.const [2]) "x3" 1]),
   (0, 106, 6, [.regStore (.regLoad "x1" 1) "x2" 1]), (0, 112, 4, [.regStore (.const [3]) "x1" 1])]

def exampleCode : Code := (newCode 100 exampleRaw).toOption.getD default

def dump (c : Code) : List (List (Nat × Nat × Nat)) :=
  c.store.map fun b => b.seq.map fun i => (i.origAddr, i.currAddr, i.blockIdx)

example : WF exampleRaw := by decide

/-- edges: RAW 100→106, WAW 100→112, WAR 106→112; `Move(1,3)` of the independent instruction 104
is accepted and rotates the segment with fresh addresses; `Move(0,2)` is then rejected by the upper
bound 0; lookups are exact -/
example :
    (exampleCode.store.map fun b => (b.edges.all fun e => [(0, 2), (0, 3), (2, 3)].contains e) &&
      ([(0, 2), (0, 3), (2, 3)].all fun e => b.edges.contains e)) = [true] ∧
    dump (exampleCode.run [.mv 0 1 3]) = [[(100, 100, 0), (106, 104, 1), (112, 110, 2), (104, 114, 3)]] ∧
    ((exampleCode.run [.mv 0 1 3]).step (.mv 0 0 2)).2.ctorIdx = (Answer.err (.upper 0)).ctorIdx ∧
    dump (exampleCode.run [.mv 0 1 3, .mv 0 0 2]) = dump (exampleCode.run [.mv 0 1 3]) ∧
    dump (exampleCode.run [.mv 0 1 3, .mv 0 3 0]) = [[(104, 100, 0), (100, 102, 1), (106, 106, 2), (112, 112, 3)]] := by
  decide +kernel

end Mltwist.Props.C07
