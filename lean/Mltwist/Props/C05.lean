import Mltwist.Lemmas.DepsRun
/-
C05 — accepted instruction reorderings preserve block behaviour.

Behaviour of a block (`Spec/Deps.lean`): `runSeq l ρ` executes the instructions of the current
order at their CURRENT addresses with the rule of the emulator — all effects of an instruction are
evaluated in its pre-state and applied in order (`Spec.Lift.applyEffects`), a write of the
instruction pointer is a jump, otherwise execution falls through to `addr + len` (`nextIp`) — and
stops as soon as the instruction pointer leaves the straight-line order; the result is the final
valuation of all registers and memories and the final instruction pointer.  `Block.toS` is the
specification's view of a block of the model (`Lemmas/DepsView.lean`).

The proof follows DESIGN.md §6: (a) edge soundness — two conflicting instructions are joined by a
dependency path; (b) frame — evaluation only looks at the footprint; (c) two non-conflicting
instructions commute; (d) an accepted move passes only instructions that are not related to the
moved one, so it is a product of commuting adjacent swaps; induction over the history.
Everything is proved (nothing is `_partial`).  Trusted, outside the theorems: the execution
semantics is the IR-level reference semantics, not the Go emulator (tied to it by C03/C04), and
an instruction cannot read the instruction-pointer key (`expr.NewRegLoad(expr.IPKey)` panics: the
key is write-only), so "evaluated at another address" can only matter through the fall-through
address and through instruction-pointer writes, both of which are modelled.

The model contains the repairs F07 (register output dependencies form a chain) and F08 (an
instruction that writes the instruction pointer is pinned); the pinned tree violates (a) and (d).
-/
namespace Mltwist.Props.C05
open Mltwist Mltwist.Deps Mltwist.Deps.Spec Mltwist.Lemmas.Deps Mltwist.Spec.Lift

abbrev Raw := Nat × Nat × Nat × List Effect

def WF (raw : List Raw) : Prop := BasicBlock.Spec.WF (toBB raw)

/-! ### (a) edge soundness -/

/-- two instructions `i < j` of a block (original order) that conflict are joined by a dependency
path `i → … → j` in the edge set of the five finders -/
theorem edge_soundness (seq : List Ins) (hid : IdsArePositions seq) (E : Edges)
    (h : findAllDeps seq = some E) (i j : Nat) (hij : i < j) (hj : j < seq.length)
    (hc : Conflict (seq[i].toS seq.length) (seq[j].toS seq.length)) : Path E i j :=
  conflict_path seq hid E h i j hij hj hc

/-- in every state with the bookkeeping invariant, dependency paths go forward -/
theorem paths_forward (b : Block) (hb : BInv b) (x y : Nat) (h : Path b.edges x y) :
    (idsOf b.seq).idxOf x < (idsOf b.seq).idxOf y := path_fwd hb.fwd h

/-! ### (b) frame -/

theorem frame_eval (e : Expr) (ρ ρ' : Env) (hr : ∀ k ∈ regReads e, ρ.reg k = ρ'.reg k)
    (hm : ∀ k ∈ memReads e, ρ.mem k = ρ'.mem k) : e.eval ρ = e.eval ρ' := eval_congr e ρ ρ' hr hm

theorem frame_writes_reg (ρ : Env) (efs : List Effect) (k : String) (h : k ∉ efs.flatMap effRegWrites) :
    (Env.applyEffects ρ efs).reg k = ρ.reg k := applyEffects_reg_of_not_mem ρ efs k h

theorem frame_writes_mem (ρ : Env) (efs : List Effect) (k : String) (h : k ∉ efs.flatMap effMemWrites) :
    (Env.applyEffects ρ efs).mem k = ρ.mem k := applyEffects_mem_of_not_mem ρ efs k h

/-! ### (c) commutation -/

/-- two non-conflicting instructions commute on valuations -/
theorem commute (x y : SIns) (h : ¬ Conflict x y) (ρ : Env) :
    Env.applyEffects (Env.applyEffects ρ x.effects) y.effects =
      Env.applyEffects (Env.applyEffects ρ y.effects) x.effects := applyEffects_comm x y h ρ

/-- … and, laid out contiguously, as programs (up to the fall-through instruction pointer, which
is the same after both of them) -/
theorem commute_run (P S : List SIns) (x y : SIns) (h : ¬ Conflict x y) (a : Nat)
    (htop : a + bytes (P ++ x :: y :: S) ≤ 2 ^ 64) (ρ : Env) (hpos : ∀ i ∈ P ++ x :: y :: S, 0 < i.len) :
    runFrom (layout a (P ++ y :: x :: S)) ρ a = runFrom (layout a (P ++ x :: y :: S)) ρ a :=
  runFrom_swap P S x y h a htop ρ hpos

/-! ### (d) accepted moves -/

/-- an accepted forward move passes only instructions the moved one does not conflict with -/
theorem move_passes_fwd (b0 b : Block) (ho : Orig b0 b) (hb : BInv b) (f t : Nat) (hft : f < t)
    (ht : t < b.seq.length) (b' : Block) (hm : b.move (f : Int) (t : Int) = .ok b')
    (k : Nat) (hfk : f < k) (hkt : k ≤ t) :
    ¬ Conflict ((b.seq[f]'(by omega)).toS b.seq.length) ((b.seq[k]'(by omega)).toS b.seq.length) := by
  have hc := move_ok_check hm
  obtain ⟨_, _, _, _, lo, up, _, hup, _, htu⟩ := (hb.checkMove_iff _ _).1 hc
  obtain ⟨up', hup', _, _, hup3, _⟩ := hb.upperBound_spec f (by omega)
  rw [hup] at hup'; cases hup'
  exact ho.passes_fwd hb f t hft ht (fun e he h => by have := hup3 e he h; omega) k hfk hkt

/-- an accepted backward move passes only instructions that do not conflict with the moved one -/
theorem move_passes_back (b0 b : Block) (ho : Orig b0 b) (hb : BInv b) (f t : Nat) (htf : t < f)
    (hf : f < b.seq.length) (b' : Block) (hm : b.move (f : Int) (t : Int) = .ok b')
    (k : Nat) (htk : t ≤ k) (hkf : k < f) :
    ¬ Conflict ((b.seq[k]'(by omega)).toS b.seq.length) (b.seq[f].toS b.seq.length) := by
  have hc := move_ok_check hm
  obtain ⟨_, _, _, _, lo, up, hlo, _, hlt, _⟩ := (hb.checkMove_iff _ _).1 hc
  obtain ⟨lo', hlo', _, hlo3, _⟩ := hb.lowerBound_spec f hf
  rw [hlo] at hlo'; cases hlo'
  exact ho.passes_back hb f t htf hf (fun e he h => by have := hlo3 e he h; omega) k htk hkf

/-- an accepted move does not change the behaviour of its block -/
theorem move_preserves_behaviour (b0 b b' : Block) (ho : Orig b0 b) (hb : BInv b) (f t : Int)
    (hm : b.move f t = .ok b') (ρ : Env) : runSeq b'.toS ρ = runSeq b.toS ρ :=
  ho.move_run hb f t hm ρ

/-! ### the property -/

/-- C05: for every well-formed code, every history of operations (accepted and rejected
instruction moves, block moves, lookups) and every initial valuation, running the current order of
any block ends in the same registers, memory and control transfer as running the original block -/
theorem reorderings_preserve_behaviour (entry : Nat) (raw : List Raw) (hwf : WF raw) (c0 : Code)
    (h : newCode entry raw = .ok c0) (ops : List Op) (p : Nat) (hp0 : p < c0.store.length)
    (hp : p < (c0.run ops).store.length) (ρ : Env) :
    SameBehaviour (runSeq ((c0.run ops).store[p]).toS ρ) (runSeq (c0.store[p]).toS ρ) := by
  obtain ⟨hinv0, _, _, hfresh⟩ := newCode_inv entry raw hwf c0 h
  have := run_run hfresh hinv0 (SameCode.refl c0) ops p hp0 hp ρ
  rw [this]
  exact ⟨fun _ => rfl, fun _ _ => rfl, rfl⟩

/-- reordering blocks never changes any instruction's address or behaviour: a block move keeps
every block object of `blocksByAddr` with its addresses, instructions (current addresses
included) and edges -/
theorem block_moves_change_nothing (c c' : Code) (hc : CInv c) (f t : Int) (h : c.move f t = .ok c') :
    c'.store.map frozen = c.store.map frozen ∧
    ∀ p (hp : p < c.store.length) (hp' : p < c'.store.length) (ρ : Env),
      runSeq (c'.store[p]).toS ρ = runSeq (c.store[p]).toS ρ := by
  obtain ⟨_, _, hfro, _⟩ := hc.move_ok f t h
  refine ⟨hfro, ?_⟩
  intro p hp hp' ρ
  have h1 : (c'.store.map frozen)[p]'(by simpa using hp') = (c.store.map frozen)[p]'(by simpa using hp) := by
    simp only [hfro]
  simp only [List.getElem_map, frozen, Prod.mk.injEq] at h1
  rw [toS_of_seq h1.2.2.2.1]

/-! ### non-vacuity -/

/-- `x1 := 1 ; x2 := 2 ; x3 := x1`: `Move(1, 0)` and then `Move(2, 1)` are accepted (the order
becomes `x2 := 2 ; x1 := 1 ; x3 := x1` and stays that way: `x3 := x1` cannot pass `x1 := 1`) -/
def exampleRaw : List Raw :=
  [(0, 100, 4, [.regStore (.const [1]) "x1" 1]), (0, 104, 2, [.regStore (.const [2]) "x2" 1]),
   (0, 106, 4, [.regStore (.regLoad "x1" 1) "x3" 1])]

def exampleCode : Code := (newCode 100 exampleRaw).toOption.getD default

example : BasicBlock.Spec.WF (toBB exampleRaw) ∧
    (exampleCode.run [.mv 0 1 0]).store.map (·.seq.map fun i => (i.origAddr, i.currAddr)) =
      [[(104, 100), (100, 102), (106, 106)]] ∧
    (exampleCode.run [.mv 0 1 0, .mv 0 2 1]).store.map (·.seq.map fun i => (i.origAddr, i.currAddr)) =
      [[(104, 100), (100, 102), (106, 106)]] := by decide +kernel

end Mltwist.Props.C05
