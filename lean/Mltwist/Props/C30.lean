import Mltwist.Lemmas.NumParse
/-
C30 — numeric user input is parsed exactly.

Strings are byte strings (`List UInt8`).  `Spec.NumParse.AddrDenotes s v`: `s` is an address
numeral with value `v` (decimal | `0x`/`0X` hex | `0b`/`0B` binary | `0`-prefixed octal; a lone `0`
is zero).  `Spec.NumParse.ValueDenotes line n`: `line` is an integer accepted at a value prompt
(optional sign, the same bases plus `0o`/`0O`; no underscore, no blank, never empty).
`natToLE w (Spec.ofInt w n)` is the `w`-byte little-endian constant of the residue of `n` modulo
`2^(8w)` (`encoding_residue`).

`NumParse.parseAddr` is the model of `memview.parseAddr` after the repair of F27,
`NumParse.parseAddrPinned` the model of the pinned code (the witnesses at the end show it crashing),
`NumParse.readValue w` the model of `emulate.readValue(w)` on the line handed over by the line
reader.  Go's `expr.Width` is `uint8`, hence `w ≤ 255`.
-/
namespace Mltwist.Props.C30
open Mltwist Mltwist.NumParse Mltwist.Spec.NumParse

/-- an argument of the address grammar denotes exactly its value, provided it fits 64 bits -/
theorem parseAddr_ok_iff (s : List UInt8) (v : Nat) :
    parseAddr s = .ok v ↔ AddrDenotes s v ∧ v < 2 ^ 64 :=
  Lemmas.NumParse.parseAddr_ok_iff s v

/-- every other argument is answered with an error … -/
theorem parseAddr_err_iff (s : List UInt8) :
    parseAddr s = .err ↔ ¬ ∃ v, AddrDenotes s v ∧ v < 2 ^ 64 :=
  Lemmas.NumParse.parseAddr_err_iff s

/-- … and the parser never crashes -/
theorem parseAddr_no_panic (s : List UInt8) : parseAddr s ≠ .panic :=
  Lemmas.NumParse.parseAddr_no_panic s

/-- the grammar is unambiguous, and the executable oracle used by the differential check decides it -/
theorem addrDenotes_unique {s : List UInt8} {n m : Nat} (h1 : AddrDenotes s n)
    (h2 : AddrDenotes s m) : n = m :=
  Lemmas.NumParse.addrDenotes_unique h1 h2

theorem addrValue_iff (s : List UInt8) (v : Nat) : addrValue s = some v ↔ AddrDenotes s v :=
  Lemmas.NumParse.addrValue_iff s v

/-- a typed integer becomes its residue modulo `2^(8w)` as a `w`-byte constant -/
theorem readValue_ok_iff (w : Nat) (hw : w ≤ 255) (line c : List UInt8) :
    readValue w line = .ok c ↔ ∃ n, ValueDenotes line n ∧ c = natToLE w (Spec.ofInt w n) :=
  Lemmas.NumParse.readValue_ok_iff w hw line c

/-- everything else is rejected … -/
theorem readValue_err_iff (w : Nat) (hw : w ≤ 255) (line : List UInt8) :
    readValue w line = .err ↔ ¬ ∃ n, ValueDenotes line n :=
  Lemmas.NumParse.readValue_err_iff w hw line

/-- … without a crash (the type assertion `.(expr.Const)` after `ConstFold` cannot fail) -/
theorem readValue_no_panic (w : Nat) (hw : w ≤ 255) (line : List UInt8) :
    readValue w line ≠ .panic :=
  Lemmas.NumParse.readValue_no_panic w hw line

/-- empty input and underscores are rejected -/
theorem readValue_empty (w : Nat) : readValue w [] = .err := Lemmas.NumParse.readValue_empty w

theorem readValue_underscore (w : Nat) (line : List UInt8) (h : (0x5f : UInt8) ∈ line) :
    readValue w line = .err :=
  Lemmas.NumParse.readValue_underscore w line h

theorem valueDenotes_unique {s : List UInt8} {n m : Int} (h1 : ValueDenotes s n)
    (h2 : ValueDenotes s m) : n = m :=
  Lemmas.NumParse.valueDenotes_unique h1 h2

theorem lineValue_iff (s : List UInt8) (n : Int) : lineValue s = some n ↔ ValueDenotes s n :=
  Lemmas.NumParse.lineValue_iff s n

/-- meaning of the constant: `w` bytes whose little-endian value is `n mod 2^(8w)`
(two's complement for negative `n`) -/
theorem encoding_residue (w : Nat) (n : Int) :
    (natToLE w (Spec.ofInt w n)).length = w ∧
    (leToNat (natToLE w (Spec.ofInt w n)) : Int) = n % (2 ^ (8 * w) : Nat) :=
  Lemmas.NumParse.encoding_residue w n

/-! Non-vacuity and the F27 witnesses.  Strings: `5`, `0`, `0b101`, `0x1F`, `017`, `0x`,
`18446744073709551615` (= 2^64-1), `18446744073709551616`. -/

example : parseAddr [0x35] = .ok 5 ∧ parseAddr [0x30] = .ok 0
    ∧ parseAddr [0x30, 0x62, 0x31, 0x30, 0x31] = .ok 5
    ∧ parseAddr [0x30, 0x78, 0x31, 0x46] = .ok 31
    ∧ parseAddr [0x30, 0x31, 0x37] = .ok 15
    ∧ parseAddr [0x30, 0x78] = .err ∧ parseAddr [] = .err ∧ parseAddr [0x30, 0x39] = .err := by
  decide

example : parseAddr [0x31, 0x38, 0x34, 0x34, 0x36, 0x37, 0x34, 0x34, 0x30, 0x37, 0x33, 0x37, 0x30,
      0x39, 0x35, 0x35, 0x31, 0x36, 0x31, 0x35] = .ok (2 ^ 64 - 1)
    ∧ parseAddr [0x31, 0x38, 0x34, 0x34, 0x36, 0x37, 0x34, 0x34, 0x30, 0x37, 0x33, 0x37, 0x30,
      0x39, 0x35, 0x35, 0x31, 0x36, 0x31, 0x36] = .err := by
  decide

/-- F27: the pinned parser crashes on `5`, `0` and the empty string and rejects `0b101` -/
example : parseAddrPinned [0x35] = .panic ∧ parseAddrPinned [0x30] = .panic
    ∧ parseAddrPinned [] = .panic
    ∧ parseAddrPinned [0x30, 0x62, 0x31, 0x30, 0x31] = .err := by
  decide

/-- `-1` at width 4, `0x123456` truncated to 2 bytes, `-0b1` at width 1, `1_0` and `-` rejected -/
example : readValue 4 [0x2d, 0x31] = .ok [0xff, 0xff, 0xff, 0xff]
    ∧ readValue 2 [0x30, 0x78, 0x31, 0x32, 0x33, 0x34, 0x35, 0x36] = .ok [0x56, 0x34]
    ∧ readValue 1 [0x2d, 0x30, 0x62, 0x31] = .ok [0xff]
    ∧ readValue 1 [0x31, 0x5f, 0x30] = .err ∧ readValue 1 [0x2d] = .err
    ∧ readValue 1 [0x30] = .ok [0] := by
  decide

example : AddrDenotes [0x30, 0x78, 0x31, 0x46] 31 := (addrValue_iff _ _).mp (by decide)
example : ValueDenotes [0x2d, 0x30, 0x6f, 0x37] (-7) := (lineValue_iff _ _).mp (by decide)

end Mltwist.Props.C30
