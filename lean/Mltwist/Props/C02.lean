import Mltwist.Lemmas.RiscvDecode
/-
C02 — the decoder accepts exactly the supported RISC-V instruction set.

`instructionSet xlen m a` is the REGENERATED table (from /repo on every run); `Spec.Rv.rows` /
`Spec.Rv.decode` are the reference encodings (`Spec/Riscv.lean`).  `parse` specifies the decoder as
"the entry whose pattern matches"; `parseM` is the literal model that goes through the opcode
matcher of C19; `parseM_eq_parse` ties them (and shows the `bug: matcher creation failed` panic of
`NewParser` cannot happen for any configuration).
-/
namespace Mltwist.Props.C02
open Mltwist Mltwist.Riscv Mltwist.Lemmas.RiscvDecode

/-- the table and the reference contain the same (mnemonic, match, mask) rows, for both variants
and every extension subset -/
theorem table_eq_spec (xlen : Nat) (hx : Cfg xlen) (m a : Bool) (r : String × Nat × Nat) :
    r ∈ (instructionSet xlen m a).map (fun e => (e.name, e.wordMatch, e.wordMask)) ↔
    r ∈ (Spec.Rv.rows xlen m a).map (fun e => (e.name, e.mtch, e.mask)) :=
  Lemmas.RiscvDecode.table_eq_spec xlen hx m a r

/-- inputs shorter than four bytes are rejected -/
theorem parse_short (tbl : List Entry) (addr : Nat) (bs : List UInt8) (h : bs.length < 4) :
    parse tbl addr bs = .short :=
  Lemmas.RiscvDecode.parse_short tbl addr bs h

/-- a word is rejected exactly when the specification defines no instruction of the configuration -/
theorem parse_unknown_iff (xlen : Nat) (hx : Cfg xlen) (m a : Bool) (addr : Nat) (bs : List UInt8)
    (h : 4 ≤ bs.length) :
    parse (instructionSet xlen m a) addr bs = .unknown ↔ Spec.Rv.decode xlen m a (wordOf bs) = none :=
  Lemmas.RiscvDecode.parse_unknown_iff xlen hx m a addr bs h

/-- … and accepted, with the right name, exactly when it defines one -/
theorem parse_ok_iff (xlen : Nat) (hx : Cfg xlen) (m a : Bool) (addr : Nat) (bs : List UInt8)
    (h : 4 ≤ bs.length) (n : String) :
    (∃ e, e ∈ instructionSet xlen m a ∧ e.name = n ∧
        parse (instructionSet xlen m a) addr bs = .ok e ⟨addr, wordOf bs⟩) ↔
      Spec.Rv.decode xlen m a (wordOf bs) = some n :=
  Lemmas.RiscvDecode.parse_ok_iff xlen hx m a addr bs h n

/-- bytes after the first four never influence decoding -/
theorem parse_trailing (xlen : Nat) (hx : Cfg xlen) (m a : Bool) (addr : Nat) (bs : List UInt8)
    (h : 4 ≤ bs.length) :
    parse (instructionSet xlen m a) addr bs = parse (instructionSet xlen m a) addr (bs.take 4) :=
  Lemmas.RiscvDecode.parse_trailing xlen hx m a addr bs h

/-- the literal model (through the C19 matcher) agrees with the specification-style decoder -/
theorem parseM_eq_parse (xlen : Nat) (hx : Cfg xlen) (m a : Bool) (addr : Nat) (bs : List UInt8) :
    parseM (instructionSet xlen m a) addr bs = some (parse (instructionSet xlen m a) addr bs) :=
  Lemmas.RiscvDecode.parseM_eq_parse xlen hx m a addr bs

/-- non-vacuity: `addi x1, x0, 1` decodes in RV64I, `mul` needs M -/
example : Spec.Rv.decode 64 false false 0x00100093 = some "addi"
    ∧ Spec.Rv.decode 64 false false 0x02000033 = none
    ∧ Spec.Rv.decode 64 true false 0x02000033 = some "mul" := by decide

end Mltwist.Props.C02
