import Mltwist.Lemmas.SparseHistory
/-
C14 — sparse memory behaves like byte-addressed memory.

Model: `Mltwist.Sparse` (`Model/Sparse.lean`): `store`, `load`, `missing`, `blocks` follow
`internal/state/memory/sparse.go` and `cut.go` line by line (after the repairs F01/F02 and F31),
with every Go panic as an explicit `Except.error`.  The interval tree library is a list sorted by
`low` (trusted base).  Vocabulary (`Spec/SparseAbs.lean`, `Spec/Sparse.lean`):

* `Inv t`: the tree list is sorted, its intervals are disjoint, non-empty, end below `2^64`, and each
  is exactly as long as the byte range `[begin, end)` it keeps of its expression, `end ≤ 255`
  (hence `1 ≤ high - low ≤ 255`);
* `abs t : SpecMem`: address ↦ (expression, byte index, width);  `SpecEq`: pointwise "same
  expression, same byte index, index inside both widths" — which implies equal presence and equal
  byte values under every valuation (`specEq_sound`).  Equality of the width component cannot be
  demanded: a cut interval does not remember the width of the store that created it, and byte
  `i < w` of `trunc w v` does not depend on `w`;
* `InDom a w`: `1 ≤ w ≤ 255 ∧ a + w < 2^64` — the non-wrapping ranges whose exclusive end is a
  `uint64`.  (For `a + w = 2^64` the Go code computes `end = 0` and the tree library panics; for
  `w = 0` `Load` answers `false`.  Both are outside the property as stated.)

The clause "no operation alters a value previously handed to or returned by the memory" is about
Go slices sharing; values of the model are immutable, so it is not a theorem here: the harness
monitors it at run time (`alias:ok`).
-/
namespace Mltwist.Props.C14
open Mltwist Mltwist.Sparse Mltwist.Spec.Sparse Mltwist.Interval

/-- `SpecEq` is sound: equal presence and equal byte values under every valuation -/
theorem specEq_sound {s s' : SpecMem} (h : SpecEq s s') (x : Nat) :
    (s x = none ↔ s' x = none) ∧ ∀ ρ, byteAt ρ (s x) = byteAt ρ (s' x) :=
  ⟨Lemmas.Sparse.cellEq_none_iff (h x), Lemmas.Sparse.cellEq_byteAt (h x)⟩

/-- the empty memory satisfies the invariant, and under the invariant every stored interval has
between 1 and 255 bytes and is as long as the byte range it keeps of its expression -/
theorem inv_nil : Inv [] := ⟨List.Pairwise.nil, fun _ h => nomatch h⟩

theorem inv_len (t : Tree) (hinv : Inv t) (kv : KV) (h : kv ∈ t) :
    1 ≤ kv.high - kv.low ∧ kv.high - kv.low ≤ 255 ∧
      kv.high - kv.low = kv.val.end_ - kv.val.begin := by
  have := hinv.2 kv h
  unfold KV.Good at this
  omega

/-- `Store` does not panic, preserves the invariant and commutes with the abstraction -/
theorem store_spec (t : Tree) (hinv : Inv t) (a : Nat) (ex : Expr) (w : Nat) (hd : InDom a w) :
    ∃ t', store t a ex w = .ok t' ∧ Inv t' ∧ SpecEq (abs t') ((abs t).store a ex w) :=
  Lemmas.Sparse.store_ok t hinv a ex w hd

/-- `Load` does not panic, succeeds exactly when every byte of `[a, a+w)` is present, and then
returns a `w`-byte expression whose value under every valuation is the little-endian sum of the
stored bytes -/
theorem load_spec (t : Tree) (hinv : Inv t) (a w : Nat) (hd : InDom a w) :
    ∃ r, load t a w = .ok r ∧ (r ≠ none ↔ ∀ i, i < w → abs t (a + i) ≠ none) ∧
      ∀ e, r = some e → e.width = w ∧
        ∀ ρ, e.eval ρ = sumBytes (fun i => byteAt ρ (abs t (a + i))) w :=
  Lemmas.Sparse.load_ok t hinv a w hd

/-- `Missing` does not panic and returns, in normal form, exactly the unwritten part of `[a, a+w)` -/
theorem missing_spec (t : Tree) (hinv : Inv t) (a w : Nat) (hd : InDom a w) :
    ∃ m, missing t a w = .ok m ∧ Normal m ∧
      ∀ x : Int, Mem x m ↔ ((a : Int) ≤ x ∧ (x.toNat < a + w ∧ abs t x.toNat = none)) :=
  Lemmas.Sparse.missing_ok t hinv a w hd

/-- `Blocks` does not panic and returns, in normal form, exactly the written address set -/
theorem blocks_spec (t : Tree) (hinv : Inv t) :
    ∃ m, blocks t = .ok m ∧ Normal m ∧
      ∀ x : Int, Mem x m ↔ ((0 : Int) ≤ x ∧ abs t x.toNat ≠ none) :=
  Lemmas.Sparse.blocks_ok t hinv

/-- none of the panics of `cut.go` ("bug: expr is not long enough" twice, "invalid begin and end"),
of the tree library or of `interval.New` is reachable from a state satisfying `Inv` -/
theorem no_panic (t : Tree) (hinv : Inv t) (a w : Nat) (hd : InDom a w) (ex : Expr) (p : Panic) :
    store t a ex w ≠ .error p ∧ load t a w ≠ .error p ∧ missing t a w ≠ .error p ∧
      blocks t ≠ .error p := by
  obtain ⟨_, h1, _⟩ := store_spec t hinv a ex w hd
  obtain ⟨_, h2, _⟩ := load_spec t hinv a w hd
  obtain ⟨_, h3, _⟩ := missing_spec t hinv a w hd
  obtain ⟨_, h4, _⟩ := blocks_spec t hinv
  rw [h1, h2, h3, h4]
  exact ⟨nofun, nofun, nofun, nofun⟩

/-! ### histories: the implementation state against the replayed byte map -/

/-- any history of in-domain stores (most recent first) runs without panic, ends in a state that
satisfies the invariant and denotes the byte map replayed by the specification -/
theorem history_spec (h : List StoreReq) (hd : ∀ r ∈ h, InDom r.addr r.w) :
    ∃ t, implOf h = .ok t ∧ Inv t ∧ SpecEq (abs t) (specOf h) :=
  Lemmas.Sparse.history_ok h hd

/-- reading after any history: success iff every byte was written, width `w`, and the value is the
little-endian sum of the most recently written bytes (each written value zero-extended or truncated
to its write width: `byteVal`) -/
theorem history_load (h : List StoreReq) (hd : ∀ r ∈ h, InDom r.addr r.w) (a w : Nat)
    (hw : InDom a w) :
    ∃ t r, implOf h = .ok t ∧ load t a w = .ok r ∧
      (r ≠ none ↔ ∀ i, i < w → specOf h (a + i) ≠ none) ∧
      ∀ e, r = some e → e.width = w ∧ ∀ ρ, e.eval ρ = loadVal ρ (specOf h) a w := by
  obtain ⟨t, h1, h2, h3⟩ := history_spec h hd
  obtain ⟨r, h4, h5, h6⟩ := load_spec t h2 a w hw
  refine ⟨t, r, h1, h4, ?_, fun e he => ⟨(h6 e he).1, fun ρ => ?_⟩⟩
  · rw [h5]
    constructor
    · intro hp i hi hn
      exact hp i hi ((specEq_sound h3 (a + i)).1.2 hn)
    · intro hp i hi hn
      exact hp i hi ((specEq_sound h3 (a + i)).1.1 hn)
  · rw [(h6 e he).2 ρ]
    exact Lemmas.Sparse.SpecEq.loadVal h3 ρ a w

/-- `Missing` after any history: the normal form of the never-written part of the range -/
theorem history_missing (h : List StoreReq) (hd : ∀ r ∈ h, InDom r.addr r.w) (a w : Nat)
    (hw : InDom a w) :
    ∃ t m, implOf h = .ok t ∧ missing t a w = .ok m ∧ Normal m ∧
      ∀ x : Int, Mem x m ↔ ((a : Int) ≤ x ∧ (x.toNat < a + w ∧ specOf h x.toNat = none)) := by
  obtain ⟨t, h1, h2, h3⟩ := history_spec h hd
  obtain ⟨m, h4, h5, h6⟩ := missing_spec t h2 a w hw
  refine ⟨t, m, h1, h4, h5, fun x => ?_⟩
  rw [h6 x, (specEq_sound h3 x.toNat).1]

/-- `Blocks` after any history: the normal form of the set of written addresses -/
theorem history_blocks (h : List StoreReq) (hd : ∀ r ∈ h, InDom r.addr r.w) :
    ∃ t m, implOf h = .ok t ∧ blocks t = .ok m ∧ Normal m ∧
      ∀ x : Int, Mem x m ↔ ((0 : Int) ≤ x ∧ specOf h x.toNat ≠ none) := by
  obtain ⟨t, h1, h2, h3⟩ := history_spec h hd
  obtain ⟨m, h4, h5, h6⟩ := blocks_spec t h2
  refine ⟨t, m, h1, h4, h5, fun x => ?_⟩
  rw [h6 x, Ne, (specEq_sound h3 x.toNat).1]

/-! ### non-vacuity -/

/-- the F01 witness: 8 bytes at 0, read 4 bytes at 1 → bytes 1..4 of the value -/
example :
    (implOf [⟨0, .const [1, 2, 3, 4, 5, 6, 7, 8], 8⟩]).toOption.map (fun t => (load t 1 4).toOption)
      = some (some (some (.binary .add
          (.binary .rsh (.const [1, 2, 3, 4, 5, 6, 7, 8]) (.const [8, 0]) 8) (.const [0]) 4))) := by
  decide

/-- a store splitting an earlier one leaves three intervals -/
example :
    (implOf [⟨2, .regLoad "x" 2, 2⟩, ⟨0, .regLoad "y" 8, 8⟩]).toOption.map
        (fun t => t.map fun kv => (kv.low, kv.high, kv.val.begin, kv.val.end_))
      = some [(0, 2, 0, 2), (2, 4, 0, 2), (4, 8, 4, 8)] := by
  decide

/-- … `Missing`/`Blocks` on that state, and a load across the end of the written part fails -/
example :
    (implOf [⟨2, .regLoad "x" 2, 2⟩, ⟨0, .regLoad "y" 8, 8⟩]).toOption.map
        (fun t => ((missing t 6 4).toOption, (blocks t).toOption))
      = some (some [(8, 10)], some [(0, 8)]) := by
  decide

example :
    (implOf [⟨2, .regLoad "x" 2, 2⟩, ⟨0, .regLoad "y" 8, 8⟩]).toOption.map
        (fun t => ((load t 6 4).toOption.map Option.isSome, (load t 1 6).toOption.map Option.isSome))
      = some (some false, some true) := by
  decide

/-- the F31 witness: a 1-byte value stored 40 bytes wide reads as 0 at byte 32 -/
example :
    (implOf [⟨0, .const [0xab], 40⟩]).toOption.map (fun t => (load t 32 1).toOption)
      = some (some (some (.const [0]))) := by
  decide

/-- the library panic at the top of the address space is outside `InDom` -/
example : (match store [] (2 ^ 64 - 8) (.const [1]) 8 with | .error .lowGtHigh => true | _ => false) = true := by
  decide

end Mltwist.Props.C14
