import Mltwist.Lemmas.Format
/-
C29 — help text wrapping keeps every character within the width.

`format s indent width` (Model/Format.lean) follows `internal/consoleui/format.go` literally, on
*bytes* (`List UInt8`), as the Go code does.  `chars = width − 8·indent` is the remaining width.
Precondition of the property: `chars ≥ 1` and `Pre s` (no leading space, no `\n` in `s`).
`indent` ranges over all integers; a negative indentation writes no tabs (`indent.toNat = 0`), exactly
like the Go loop `for j := 0; j < indent; j++`.

The specification (Spec/Format.lean) talks about the output *bytes*: they are split at `\n`
(`splitLines`), every line must be `indent` tabs plus `1 … chars` bytes (`LineOK`), the line bodies
without spaces must concatenate to the text without spaces (`noSpace`), and a word of the text may be
spread over several word pieces of the lines only if it is longer than `chars` (`WordsKept`).
-/
namespace Mltwist.Props.C29
open Mltwist.Format
open Mltwist.Spec.Format (Pre Wrapped splitLines LineOK body noSpace WordsKept check)

/-- Termination, part 1: the fuel `len(s) + 1` of the model never runs out — for every text, indentation
and width, also outside the precondition (a round either ends the loop, panics, provably repeats for
ever, or consumes at least one byte). -/
theorem fuel_suffices (s : Str) (indent width : Int) : format s indent width ≠ .outOfFuel :=
  Lemmas.Format.format_ne_outOfFuel s indent width

/-- Termination, part 2: with room for at least one character the wrapping ends normally (no panic, no
endless loop) — for every text, even with leading spaces or newlines. -/
theorem terminates (s : Str) (indent width : Int) (hc : 1 ≤ width - indent * tabWidth) :
    ∃ out, format s indent width = .ok out :=
  Lemmas.Format.format_terminates s indent width hc

/-- The property: the output consists of `\n`-terminated lines, each exactly `indent` tabs followed by
`1 … chars` bytes; the bodies contain all non-space bytes of the text in order; a word is split only
if it alone is longer than `chars`. -/
theorem wrapped (s : Str) (indent width : Int) (hc : 1 ≤ width - indent * tabWidth) (hs : Pre s)
    (out : Str) (h : format s indent width = .ok out) :
    Wrapped s indent.toNat (width - indent * tabWidth).toNat out :=
  Lemmas.Format.format_wrapped s indent width hc hs out h

/-- clause 1: every emitted line starts with `indent` tabs and its body has `1 … chars` bytes -/
theorem lines_fit (s : Str) (indent width : Int) (hc : 1 ≤ width - indent * tabWidth) (hs : Pre s)
    (out : Str) (h : format s indent width = .ok out) :
    ∃ ls, splitLines out = some ls ∧
      ∀ l ∈ ls, LineOK indent.toNat (width - indent * tabWidth).toNat l := by
  obtain ⟨ls, h1, h2, _, _⟩ := wrapped s indent width hc hs out h
  exact ⟨ls, h1, h2⟩

/-- clause 2: the bodies with spaces removed concatenate to the text with spaces removed -/
theorem content_kept (s : Str) (indent width : Int) (hc : 1 ≤ width - indent * tabWidth) (hs : Pre s)
    (out : Str) (h : format s indent width = .ok out) :
    ∃ ls, splitLines out = some ls ∧
      noSpace (ls.map (body indent.toNat)).flatten = noSpace s := by
  obtain ⟨ls, h1, _, h3, _⟩ := wrapped s indent width hc hs out h
  exact ⟨ls, h1, h3⟩

/-- clause 3: a word is split across lines only if it is longer than `chars` -/
theorem words_kept (s : Str) (indent width : Int) (hc : 1 ≤ width - indent * tabWidth) (hs : Pre s)
    (out : Str) (h : format s indent width = .ok out) :
    ∃ ls, splitLines out = some ls ∧
      WordsKept (width - indent * tabWidth).toNat s (ls.map (body indent.toNat)) := by
  obtain ⟨ls, h1, _, _, h4⟩ := wrapped s indent width hc hs out h
  exact ⟨ls, h1, h4⟩

/-- more than the property asks: no line body starts with a space -/
theorem bodies_start_nonspace (s : Str) (indent width : Int) (hc : 1 ≤ width - indent * tabWidth)
    (hs : Pre s) (out : Str) (h : format s indent width = .ok out) :
    ∃ ls, splitLines out = some ls ∧ ∀ l ∈ ls, (body indent.toNat l).head? ≠ some space :=
  Lemmas.Format.format_bodies_nonspace s indent width hc hs out h

/-- The executable oracle that judges the Go output accepts every output of the model … -/
theorem oracle_accepts (s : Str) (indent width : Int) (hc : 1 ≤ width - indent * tabWidth) (hs : Pre s)
    (out : Str) (h : format s indent width = .ok out) :
    check s indent.toNat (width - indent * tabWidth).toNat out = none :=
  Lemmas.Format.format_check s indent width hc hs out h

/-- … and whatever it accepts (for any producer of `out`) is a correct wrapping. -/
theorem oracle_sound (s : Str) (indent chars : Nat) (out : Str) (h : check s indent chars out = none) :
    Wrapped s indent chars out :=
  Lemmas.Format.check_sound s indent chars out h

/-! ### Outside the precondition (why `chars ≥ 1` is required) -/

/-- the empty text gives the empty output whatever the parameters -/
theorem empty_text (indent width : Int) : format [] indent width = .ok [] :=
  Lemmas.Format.format_nil indent width

/-- `chars < 0`: slice-bounds panic in the first round on every non-empty text -/
theorem negative_width_panics (s : Str) (indent width : Int) (hc : width - indent * tabWidth < 0)
    (hs : s ≠ []) : format s indent width = .panic :=
  Lemmas.Format.format_panics s indent width hc hs

/-- `chars = 0`: the Go loop never ends as soon as the text has a byte other than a space -/
theorem zero_width_diverges (s : Str) (indent width : Int) (hc : width - indent * tabWidth = 0)
    (hs : ∃ c ∈ s, c ≠ space) : format s indent width = .diverges :=
  Lemmas.Format.format_diverges s indent width hc hs

/-- `chars = 0` on a non-empty text of spaces: one empty line -/
theorem zero_width_spaces (s : Str) (indent width : Int) (hc : width - indent * tabWidth = 0)
    (hne : s ≠ []) (hs : ∀ c ∈ s, c = space) :
    format s indent width = .ok (List.replicate indent.toNat tab ++ [nl]) :=
  Lemmas.Format.format_zero_spaces s indent width hc hne hs

/-! ### Non-vacuity and the excluded inputs -/

/-- "ab cd efgh" (indent 1, width 13, chars 5) → "\tab cd\n\tefgh\n"; exact fit with the space at index
`chars`: "abc de" (chars 3) → "abc\nde\n"; a long word is cut: "abcdefg" (chars 3) → "abc\ndef\ng\n";
a line may end with a space: "a  b" (chars 3) → "a \nb\n". -/
example :
    format [97, 98, 32, 99, 100, 32, 101, 102, 103, 104] 1 13
      = .ok [9, 97, 98, 32, 99, 100, 10, 9, 101, 102, 103, 104, 10]
    ∧ format [97, 98, 99, 32, 100, 101] 0 3 = .ok [97, 98, 99, 10, 100, 101, 10]
    ∧ format [97, 98, 99, 100, 101, 102, 103] 0 3 = .ok [97, 98, 99, 10, 100, 101, 102, 10, 103, 10]
    ∧ format [97, 32, 32, 98] 0 3 = .ok [97, 32, 10, 98, 10] := by decide

/-- the oracle accepts these and rejects wrong wrappings: a line that is too long, a lost byte,
a fitting word that is split, a missing final newline, a missing tab -/
example :
    check [97, 98, 32, 99, 100, 32, 101, 102, 103, 104] 1 5
        [9, 97, 98, 32, 99, 100, 10, 9, 101, 102, 103, 104, 10] = none
    ∧ check [97, 98, 99, 100, 101, 102, 103] 0 3 [97, 98, 99, 10, 100, 101, 102, 10, 103, 10] = none
    ∧ check [97, 98, 99, 32, 100, 101] 0 3 [97, 98, 99, 32, 10, 100, 101, 10] ≠ none
    ∧ check [97, 98, 99, 32, 100, 101] 0 3 [97, 98, 99, 10, 100, 10] ≠ none
    ∧ check [97, 98, 99, 32, 100, 101] 0 3 [97, 98, 99, 10, 100, 10, 101, 10] ≠ none
    ∧ check [97, 98, 99, 32, 100, 101] 0 3 [97, 98, 99, 10, 100, 101] ≠ none
    ∧ check [97, 98, 99, 32, 100, 101] 1 3 [9, 97, 98, 99, 10, 100, 101, 10] ≠ none := by decide

/-- The precondition on the text is needed.  Leading space: " ab" with chars 2 → " a\nb\n", the word
"ab" fits but is split, and "  a" with chars 2 gives a line consisting of one space.  Newline inside the
text: "a\nb" (indent 1) → "\ta\n\n\tb\n", whose second line is empty and has no tab. -/
example :
    format [32, 97, 98] 0 2 = .ok [32, 97, 10, 98, 10]
    ∧ check [32, 97, 98] 0 2 [32, 97, 10, 98, 10] ≠ none
    ∧ format [32, 32, 97] 0 2 = .ok [32, 10, 97, 10]
    ∧ format [97, 10, 98] 1 10 = .ok [9, 97, 10, 10, 9, 98, 10]
    ∧ check [97, 10, 98] 1 2 [9, 97, 10, 10, 9, 98, 10] ≠ none := by decide

/-- the failure modes for `chars ≤ 0` on concrete inputs -/
example :
    format [97] 1 8 = .diverges ∧ format [32, 97] 0 0 = .diverges ∧ format [32, 32] 1 8 = .ok [9, 10]
    ∧ format [97] 1 7 = .panic ∧ format [97] 1 5 = .panic ∧ format [] 1 5 = .ok [] := by decide

end Mltwist.Props.C29
