import Mltwist.Lemmas.Opcode
/-
C19 — opcode matching is unambiguous and exact.

A pattern (`Pat`) is a pair of byte lists (bytes, mask); what identifies a pattern in a matcher is
its *position* in the list given to `newMatcher` (so a pattern listed twice conflicts with itself).

* `WellFormed p`  : non-empty, `bytes` and `mask` of equal length, last mask byte non-zero;
* `Matches p bs`  : `bs` is at least as long as the pattern and agrees with it on all masked bits;
* `Conflict p q`  : some byte string matches both;  `conflictB p q` is the executable criterion
  "the patterns agree on the bits selected by both masks over the common prefix".

The model follows the Go pipeline (`Validate` all, `newOpcodes`, sort by mask, runs of equal masks,
per group sort by masked bytes + adjacent duplicates, `checkConflicts`, `Match` = first group whose
binary search succeeds) with `checkConflicts` in its repaired form (finding F17, see
`Model/Opcode.lean`).  All statements are for all pattern lists and all byte strings.
-/
namespace Mltwist.Props.C19
open Mltwist.Opcode

/-- no two patterns at different positions are matched by a common byte string -/
def NoConflict (ps : List Pat) : Prop :=
  ∀ (i j : Nat) (p q : Pat), i ≠ j → ps[i]? = some p → ps[j]? = some q → ¬ Conflict p q

/-- The "∃ byte string" of the property is decidable: two patterns are matched by a common byte
string iff they agree on their common mask over the common prefix. -/
theorem conflict_iff_criterion (p q : Pat) : Conflict p q ↔ conflictB p q = true :=
  Lemmas.Opcode.conflict_iff p q

/-- Building a matcher succeeds exactly when every pattern is well formed and no byte string
matches two patterns (at different positions). -/
theorem newMatcher_ok_iff (ps : List Pat) :
    (∃ m, newMatcher ps = .ok m) ↔ (∀ p ∈ ps, WellFormed p) ∧ NoConflict ps :=
  ⟨fun ⟨m, h⟩ =>
      have hb := Lemmas.Opcode.built_of_ok ps m h
      ⟨hb.wf, fun i j p q hij hp hq => hb.no_conflict i j p q hij hp hq⟩,
    fun ⟨hwf, hnc⟩ => Lemmas.Opcode.newMatcher_ok_of ps hwf hnc⟩

/-- The failures are classified: `invalid` iff some pattern is ill-formed … -/
theorem newMatcher_invalid_iff (ps : List Pat) :
    newMatcher ps = .error .invalid ↔ ¬ ∀ p ∈ ps, WellFormed p :=
  Lemmas.Opcode.newMatcher_invalid_iff ps

/-- … and the Go run-time panic / fuel exhaustion of the model is unreachable (so the remaining
outcome `ambiguous` occurs iff all patterns are well formed and two of them conflict). -/
theorem newMatcher_ne_panic (ps : List Pat) : newMatcher ps ≠ .error .panic :=
  Lemmas.Opcode.newMatcher_ne_panic ps

theorem newMatcher_ambiguous_iff (ps : List Pat) :
    newMatcher ps = .error .ambiguous ↔ (∀ p ∈ ps, WellFormed p) ∧ ¬ NoConflict ps := by
  have h1 := newMatcher_ok_iff ps
  have h2 := newMatcher_invalid_iff ps
  have h3 := newMatcher_ne_panic ps
  cases h : newMatcher ps with
  | ok m =>
    have := h1.1 ⟨m, h⟩
    simp [this.2]
  | error e =>
    have hno : ¬ ∃ m, newMatcher ps = .ok m := by simp [h]
    rw [h1] at hno
    rw [h] at h2 h3
    cases e with
    | invalid =>
      have := h2.1 rfl
      simp [this]
    | ambiguous =>
      have hwf : ∀ p ∈ ps, WellFormed p := Classical.not_not.1 (fun hn => by simpa using h2.2 hn)
      simp only [true_iff]
      exact ⟨hwf, fun hnc => hno ⟨hwf, hnc⟩⟩
    | panic => exact absurd rfl h3

/-- Soundness and completeness of `Match`: a successful matcher answers `some i` exactly when the
pattern at position `i` matches the byte string. -/
theorem match_some_iff (ps : List Pat) (m : Matcher) (h : newMatcher ps = .ok m)
    (bs : List UInt8) (i : Nat) :
    m.match bs = some i ↔ ∃ p, ps[i]? = some p ∧ Matches p bs :=
  have hb := Lemmas.Opcode.built_of_ok ps m h
  ⟨fun hm => hb.match_sound bs i hm, fun ⟨p, hp, hmt⟩ => hb.match_complete bs i p hp hmt⟩

/-- Uniqueness: at most one position of an accepted list matches a given byte string. -/
theorem match_unique (ps : List Pat) (m : Matcher) (h : newMatcher ps = .ok m) (bs : List UInt8)
    (i j : Nat) (p q : Pat) (hp : ps[i]? = some p) (hq : ps[j]? = some q) (h1 : Matches p bs)
    (h2 : Matches q bs) : i = j := by
  have a := (match_some_iff ps m h bs i).2 ⟨p, hp, h1⟩
  have b := (match_some_iff ps m h bs j).2 ⟨q, hq, h2⟩
  rw [a] at b
  exact Option.some.inj b

/-- "No match" is reported exactly when no pattern matches. -/
theorem match_none_iff (ps : List Pat) (m : Matcher) (h : newMatcher ps = .ok m)
    (bs : List UInt8) : m.match bs = none ↔ ∀ p ∈ ps, ¬ Matches p bs := by
  constructor
  · intro hn p hp hmt
    obtain ⟨i, hi⟩ := List.mem_iff_getElem?.1 hp
    have := (match_some_iff ps m h bs i).2 ⟨p, hi, hmt⟩
    rw [hn] at this
    cases this
  · intro hall
    cases hm : m.match bs with
    | none => rfl
    | some i =>
      obtain ⟨p, hp, hmt⟩ := (match_some_iff ps m h bs i).1 hm
      exact absurd hmt (hall p (List.mem_of_getElem? hp))

/-! Non-vacuity: the F17 witness (`0F/01` and `F0/10`, both matched by `11`) is rejected, the
same masks with disagreeing common bits are accepted and looked up, a pattern listed twice
conflicts with itself, prefixes conflict, ill-formed patterns are reported. -/
def err? : Except ErrClass Matcher → Option ErrClass
  | .error e => some e
  | .ok _ => none

example : err? (newMatcher [⟨[0x01], [0x0f]⟩, ⟨[0x10], [0xf0]⟩]) = some .ambiguous := by decide
example : conflictB ⟨[0x01], [0x0f]⟩ ⟨[0x10], [0xf0]⟩ = true
    ∧ matchesB ⟨[0x01], [0x0f]⟩ [0x11] = true ∧ matchesB ⟨[0x10], [0xf0]⟩ [0x11] = true := by decide
example : (newMatcher [⟨[0x01], [0x0f]⟩, ⟨[0x18], [0xf8]⟩]).toOption.map
      (fun m => [m.match [0x11], m.match [0x19], m.match [0x01, 0xff], m.match []]) =
    some [some 0, some 1, some 0, none] := by decide
example : err? (newMatcher [⟨[0x01], [0xff]⟩, ⟨[0x01], [0xff]⟩]) = some .ambiguous := by decide
example : err? (newMatcher [⟨[0x01, 0x02], [0xff, 0xff]⟩, ⟨[0x01], [0xff]⟩]) = some .ambiguous := by
  decide
example : err? (newMatcher [⟨[0x01], [0xff]⟩, ⟨[0x01, 0x00], [0xff, 0x00]⟩]) = some .invalid
    ∧ err? (newMatcher [⟨[], []⟩]) = some .invalid
    ∧ err? (newMatcher [⟨[0x01, 0x02], [0xff]⟩]) = some .invalid := by decide
example : (newMatcher []).toOption.map (fun m => m.match [0x00]) = some none := by decide

end Mltwist.Props.C19
