import Mltwist.Lemmas.BasicBlock
/-
C08 — basic blocks partition the code exactly where control flow requires.

Model: `BasicBlock.parse entry ins` (`basicblock.Parse` with `sort.Slice`, `splitByAddress`,
`splitByJumps`, `splitByJumpTargets`, `blocks.split`, binary searches, insertion shift) and
`BasicBlock.jumps` (`deps.jumps`); `newCode` = `deps.NewCode` + `Code.Blocks()`.
Spec (`Spec/BasicBlock.lean`): `realTargets`, `WF`, `Fails`, `Cut`, `blocks`, `IsPartition`.

Well-formedness `WF ins` (decidable): every instruction has positive length, `addr + len ≤ 2^64`
(an instruction may end exactly at the top of the address space), no two instructions overlap
(hence pairwise distinct addresses).  The absence of panics is proved for ALL instruction lists.
Outside `WF` (duplicate addresses, overlaps, zero lengths, wrap-around) nothing else is
claimed; there the model is tied to the implementation by the differential check only.

The model follows the code with two repairs of the pinned tree: F09 (`splitByAddress` on an
empty sequence) and F48 (`blocks.split`/`contains` compare with the last byte of a block, so
that a block ending exactly at `2^64` is found).
-/
namespace Mltwist.Props.C08
open Mltwist Mltwist.BasicBlock Mltwist.BasicBlock.Spec

/-! ### jump targets, sorting -/

/-- `deps.jumps`: the possibilities of every value stored to the instruction pointer, constant
folded, except the constants denoting the address of the next instruction -/
theorem jumps_spec (addr len : Nat) (efs : List Effect) :
    jumps addr len efs = realTargets addr len efs := Lemmas.BasicBlock.jumps_spec addr len efs

/-- the constants `splitByJumpTargets` splits at are the constants that fit 64 bits -/
theorem constTarget_spec (e : Expr) : constTarget e = constAddr e := Lemmas.BasicBlock.constTarget_eq e

theorem sortIns_perm (l : List Ins) : (sortIns l).Perm l := Lemmas.BasicBlock.sortIns_perm l

theorem sortIns_sorted (l : List Ins) : (sortIns l).Pairwise fun a b => a.addr ≤ b.addr :=
  Lemmas.BasicBlock.sortIns_sorted l

/-- on well-formed code the sort of the model is the sort of the specification -/
theorem sortIns_eq (ins : List Ins) (h : WF ins) : sortIns ins = sortByAddr ins :=
  Lemmas.BasicBlock.sortIns_eq_sortByAddr ins h

/-! ### never a panic (all instruction lists) -/

theorem parse_never_panics (entry : Nat) (ins : List Ins) : parse entry ins ≠ .error .panic :=
  (Lemmas.BasicBlock.parse_nopanic entry ins).1

/-- no block is ever empty (all instruction lists) -/
theorem parse_blocks_nonempty (entry : Nat) (ins : List Ins) (bs : List (List Ins))
    (h : parse entry ins = .ok bs) : ∀ b ∈ bs, b ≠ [] :=
  (Lemmas.BasicBlock.parse_nopanic entry ins).2 bs h

/-- `NewCode` + `Blocks()` is `Parse` on the instructions with their `jumps` -/
theorem newCode_eq (entry : Nat) (raw : List (Nat × Nat × List Effect)) :
    newCode entry raw = parse entry (raw.map fun (a, l, efs) => mkIns a l efs) :=
  Lemmas.BasicBlock.newCode_eq entry raw

theorem newCode_never_panics (entry : Nat) (raw : List (Nat × Nat × List Effect)) :
    newCode entry raw ≠ .error .panic := by
  rw [newCode_eq]; exact parse_never_panics _ _

/-! ### failure -/

/-- building fails exactly when the entry point or a constant 64-bit real jump target is not the
start of an instruction -/
theorem parse_fails_iff (entry : Nat) (ins : List Ins) (h : WF ins) :
    (∃ f, parse entry ins = .error f) ↔ Fails entry ins := by
  obtain ⟨h1, h2, h3⟩ := Lemmas.BasicBlock.parse_wf entry ins h
  constructor
  · rintro ⟨f, hf⟩
    apply Classical.byContradiction
    intro hn
    have ha : ∀ t ∈ constTargets ins, t ∈ starts ins := by
      intro t ht
      apply Classical.byContradiction
      intro hnt
      exact hn (Or.inr ⟨t, ht, hnt⟩)
    have he : entry ∈ starts ins := by
      apply Classical.byContradiction
      intro hne
      exact hn (Or.inl hne)
    rw [h3 ha he] at hf
    cases hf
  · intro hF
    by_cases hb : ∃ t ∈ constTargets ins, t ∉ starts ins
    · obtain ⟨c, hc⟩ := h1 hb
      exact ⟨_, hc⟩
    · have ha : ∀ t ∈ constTargets ins, t ∈ starts ins := by
        intro t ht
        apply Classical.byContradiction
        intro hnt
        exact hb ⟨t, ht, hnt⟩
      rcases hF with he | hb'
      · obtain ⟨c, hc⟩ := h2 ha he
        exact ⟨_, hc⟩
      · exact absurd hb' hb

/-- which stage reports the error: a bad jump target is found first -/
theorem parse_error_stage (entry : Nat) (ins : List Ins) (h : WF ins) :
    ((∃ t ∈ constTargets ins, t ∉ starts ins) → ∃ c, parse entry ins = .error (.jumpTarget c)) ∧
    ((∀ t ∈ constTargets ins, t ∈ starts ins) → entry ∉ starts ins →
      ∃ c, parse entry ins = .error (.entry c)) :=
  ⟨(Lemmas.BasicBlock.parse_wf entry ins h).1, (Lemmas.BasicBlock.parse_wf entry ins h).2.1⟩

/-! ### success: the partition -/

/-- otherwise the result is the specified partition of the address-sorted instructions -/
theorem parse_ok (entry : Nat) (ins : List Ins) (h : WF ins) (hf : ¬ Fails entry ins) :
    parse entry ins = .ok (blocks entry ins) := by
  apply (Lemmas.BasicBlock.parse_wf entry ins h).2.2
  · intro t ht
    apply Classical.byContradiction
    intro hnt
    exact hf (Or.inr ⟨t, ht, hnt⟩)
  · apply Classical.byContradiction
    intro hne
    exact hf (Or.inl hne)

/-- the specified blocks: concatenation = sorted instructions, no empty block, and a boundary
between `sorted[k]` and `sorted[k+1]` exactly when `Cut` holds -/
theorem blocks_isPartition (entry : Nat) (ins : List Ins) :
    IsPartition (Cut entry ins) (sortByAddr ins) (blocks entry ins) :=
  Lemmas.BasicBlock.blocks_isPartition entry ins

/-- this characterisation determines the partition -/
theorem isPartition_unique (cut : Ins → Ins → Prop) (l : List Ins) (bs bs' : List (List Ins))
    (h : IsPartition cut l bs) (h' : IsPartition cut l bs') : bs = bs' :=
  Lemmas.BasicBlock.isPartition_unique cut l bs bs' h h'

theorem blocks_contiguous (entry : Nat) (ins : List Ins) (h : WF ins) :
    ∀ b ∈ blocks entry ins, Contiguous b := Lemmas.BasicBlock.blocks_contiguous entry ins h

/-- the property: whenever `Parse` succeeds on well-formed code, its blocks concatenate to the
address-sorted instructions, are non-empty and contiguous, and end exactly after each instruction
with a real jump target, at address gaps, before constant jump targets and before the entry point -/
theorem parse_partition (entry : Nat) (ins : List Ins) (h : WF ins) (bs : List (List Ins))
    (hp : parse entry ins = .ok bs) :
    IsPartition (Cut entry ins) (sortByAddr ins) bs ∧ ∀ b ∈ bs, Contiguous b := by
  have hf : ¬ Fails entry ins := by
    intro hF
    obtain ⟨f, hf⟩ := (parse_fails_iff entry ins h).2 hF
    rw [hf] at hp; cases hp
  rw [parse_ok entry ins h hf] at hp
  cases hp
  exact ⟨blocks_isPartition entry ins, blocks_contiguous entry ins h⟩

/-! ### non-vacuity -/

/-- equality of results is decidable (for the examples below) -/
instance decEqResult {α ε : Type} [DecidableEq α] [DecidableEq ε] : DecidableEq (Except ε α) :=
  fun a b =>
    match a, b with
    | .ok x, .ok y => if h : x = y then isTrue (by rw [h]) else isFalse (by intro e; cases e; exact h rfl)
    | .error x, .error y =>
      if h : x = y then isTrue (by rw [h]) else isFalse (by intro e; cases e; exact h rfl)
    | .ok _, .error _ => isFalse (by intro e; cases e)
    | .error _, .ok _ => isFalse (by intro e; cases e)

/-- a backward jump out of 80 (the block ends there), a gap before 96, the entry point 76 -/
def exampleCode : List Ins :=
  [⟨80, 4, [.const [72, 0, 0, 0, 0, 0, 0, 0]]⟩, ⟨72, 4, []⟩, ⟨76, 4, []⟩, ⟨96, 4, []⟩, ⟨84, 2, []⟩]

example : WF exampleCode ∧ ¬ Fails 76 exampleCode ∧
    parse 76 exampleCode =
      .ok [[⟨72, 4, []⟩], [⟨76, 4, []⟩, ⟨80, 4, [.const [72, 0, 0, 0, 0, 0, 0, 0]]⟩],
        [⟨84, 2, []⟩], [⟨96, 4, []⟩]] := by decide

/-- failures: entry point inside an instruction, jump target in a gap -/
example : parse 77 [⟨72, 4, []⟩, ⟨76, 4, []⟩] = .error (.entry .notFound) ∧
    parse 72 [⟨72, 4, [.const [80]]⟩, ⟨76, 4, []⟩, ⟨96, 4, []⟩] = .error (.jumpTarget .noBlock) ∧
    Fails 77 [⟨72, 4, []⟩, ⟨76, 4, []⟩] := by decide

/-- F09: the empty code is rejected (the pinned `splitByAddress` panics);
F48: code ending exactly at `2^64` can be built -/
example : parse 0 [] = .error (.entry .noBlock) ∧
    parse 18446744073709551612 [⟨18446744073709551612, 4, []⟩] = .ok [[⟨18446744073709551612, 4, []⟩]] ∧
    WF [⟨18446744073709551612, 4, []⟩] := by decide

/-- `jumps`: a conditional branch whose fall-through is the next instruction keeps only the target;
a constant that does not fit 64 bits stays a real target but is not split at -/
example : jumps 80 4 [.regStore (.less (.regLoad "x1" 8) (.regLoad "x2" 8)
      (.const [72, 0, 0, 0, 0, 0, 0, 0]) (.const [84, 0, 0, 0, 0, 0, 0, 0]) 8) "#r:w:ip" 8] =
      [.const [72, 0, 0, 0, 0, 0, 0, 0]] ∧
    constTarget (.const [72, 0, 0, 0, 0, 0, 0, 0, 1]) = none := by decide

end Mltwist.Props.C08
