import Mltwist.Lemmas.Const
/-
C27 — constants encode integers exactly.

`natToLE w x` is the `w`-byte little-endian encoding of `x mod 2^(8w)`; `Spec.ofInt w i` is the
two's-complement residue of `i`.  The last clause of the property ("a constant never changes when
the caller later modifies the bytes it was created from") is a statement about Go slice aliasing:
values are immutable here, and the real constructor is exercised by the `newconst` correspondence
operation, which overwrites the caller's slice after construction.
-/
namespace Mltwist.Props.C27
open Mltwist

/-- the encoding is a bijection between `w`-byte strings and residues mod `2^(8w)` -/
theorem natToLE_length (w x : Nat) : (natToLE w x).length = w := Lemmas.Const.natToLE_length w x
theorem leToNat_natToLE (w x : Nat) : leToNat (natToLE w x) = x % 2 ^ (8 * w) :=
  Lemmas.Const.leToNat_natToLE w x
theorem natToLE_leToNat (bs : List UInt8) : natToLE bs.length (leToNat bs) = bs :=
  Lemmas.Const.natToLE_leToNat bs

/-- `NewConstUint`: the `w`-byte encoding, failing exactly outside `[0, 2^(8w))` -/
theorem newConstUint_spec (val w : Nat) :
    Const.newConstUint val w = if val < 2 ^ (8 * w) then some (natToLE w val) else none :=
  Lemmas.Const.newConstUint_spec val w

/-- `NewConstInt`: the `w`-byte two's-complement encoding, failing exactly outside
`[-2^(8w-1), 2^(8w-1))` -/
theorem newConstInt_spec (val : Int) (w : Nat) (hw : 1 ≤ w) :
    Const.newConstInt val w =
      if -(2 ^ (8 * w - 1) : Int) ≤ val ∧ val < (2 ^ (8 * w - 1) : Int)
      then some (natToLE w (Spec.ofInt w val)) else none :=
  Lemmas.Const.newConstInt_spec val w hw

/-- `ConstUint[T]`: the low `sizeof(T)` bytes and whether the value fits -/
theorem constUint_spec (size : Nat) (bs : List UInt8) (hs : 1 ≤ size) (hb : bs ≠ []) :
    Const.constUint size bs =
      (leToNat bs % 2 ^ (8 * size), decide (leToNat bs < 2 ^ (8 * size))) :=
  Lemmas.Const.constUint_spec size bs hs hb

theorem withWidth_spec (bs : List UInt8) (w : Nat) :
    Const.withWidth bs w = natToLE w (leToNat bs) := Lemmas.Const.withWidth_spec bs w

theorem newConst_spec (b : List UInt8) (w : Nat) :
    Const.newConst b w = natToLE w (leToNat b) := Lemmas.Const.newConst_spec b w

/-- non-vacuity / the F18 witness: 200 does not fit one signed byte, -56 does -/
example : Const.newConstInt 200 1 = none ∧ Const.newConstInt (-56) 1 = some [0xc8] := by decide

end Mltwist.Props.C27
