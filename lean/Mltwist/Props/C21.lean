import Mltwist.Lemmas.ParseRv
/-
C21 — code parsing tiles the code image.

Model (`Model/Parse.lean`): `parse dec blocks` = `parser.Parse` (block loop, `parseIns`,
`Instruction.Validate`, `newInstruction`) generic over the platform decoder `dec`, with `uint64`
address arithmetic, the loop running on fuel = block length; `parseRv64` = its instance for
`riscv.NewParser(Variant64, ExtM, ExtA)`, the parser `cmd/mltwist` uses, over the REGENERATED
instruction tables.

Spec (`Spec/Parse.lean`): `Tiling dec a bytes is` — the instructions tile the bytes at `a`
contiguously, each one being what the decoder makes of the bytes from its address on (`IsIns`:
own bytes, `constFold`ed effects); `Stuck dec a bytes pos` — the walk reaches the instruction
position `pos`, which holds no valid instruction (`Bad`); `TilingAll` — block after block.
For RISC-V the positions are `begin + 4k`, `RvBadAt bytes k` says that the `k`-th word is truncated
or undefined for the reference decoder `Spec.Rv.decode 64 true true` (C02), and `rvTile` is the
tiling in closed form.

Code images are the block lists of an `elf.Memory` (C20: `Tidy`, in particular `Fits`: no block
reaches `2^64` — the F60 repair of `newMemory`; the pinned code silently skipped a block ending at
`2^64`).  The generic theorems assume a decoder that honours the contract of `parser.Parser`
(`Honest`: the reported length lies within the given bytes); `rv_honest` shows it for RISC-V.
-/
namespace Mltwist.Props.C21
open Mltwist Mltwist.Elf Mltwist.Parse Mltwist.Parse.Spec

variable {ε δ : Type}

/-! ### generic decoder -/

/-- success = the instructions tile every block, in memory order -/
theorem parse_ok_iff (dec : Decoder ε δ) (hh : Honest dec) (bs : List Block) (hf : Elf.Spec.Fits bs)
    (is : List (Ins δ)) : parse dec bs = .ok is ↔ TilingAll dec bs is := by
  rcases Lemmas.Parse.parse_spec dec hh bs hf with ⟨js, hok, ht⟩ | ⟨b, hb, pos, hs, he⟩
  · rw [hok]
    constructor
    · intro h; cases h; exact ht
    · intro h; rw [Lemmas.Parse.tilingAll_unique dec ht h]
  · constructor
    · intro h
      rcases he with ⟨e, he⟩ | he <;> rw [he] at h <;> cases h
    · intro h
      exact absurd hs (fun hs => Lemmas.Parse.tilingAll_not_stuck dec h hb hs)

/-- failure ⇔ the walk over some block reaches a position that holds no valid instruction
(undecodable, truncated — whatever the decoder rejects — or an improper `model.Instruction`) -/
theorem parse_error_iff (dec : Decoder ε δ) (hh : Honest dec) (bs : List Block) (hf : Elf.Spec.Fits bs) :
    (∃ f, parse dec bs = .error f) ↔ ∃ b ∈ bs, ∃ pos, Stuck dec b.1 b.2 pos := by
  rcases Lemmas.Parse.parse_spec dec hh bs hf with ⟨js, hok, ht⟩ | ⟨b, hb, pos, hs, he⟩
  · constructor
    · rintro ⟨f, h⟩; rw [hok] at h; cases h
    · rintro ⟨b, hb, pos, hs⟩
      exact absurd hs (fun hs => Lemmas.Parse.tilingAll_not_stuck dec ht hb hs)
  · constructor
    · intro _; exact ⟨b, hb, pos, hs⟩
    · intro _
      rcases he with ⟨e, he⟩ | he
      · exact ⟨_, he⟩
      · exact ⟨_, he⟩

/-- the reported error names such a position; `Parse` never panics, never reads beyond a block, and
the fuel of the model always suffices (termination: every accepted instruction has `ByteLen ≥ 1`) -/
theorem parse_error_kind (dec : Decoder ε δ) (hh : Honest dec) (bs : List Block) (hf : Elf.Spec.Fits bs)
    (f : Fail ε) (h : parse dec bs = .error f) :
    ∃ b ∈ bs, ∃ pos, Stuck dec b.1 b.2 pos ∧ ((∃ e, f = .parse pos e) ∨ f = .invalid pos) := by
  rcases Lemmas.Parse.parse_spec dec hh bs hf with ⟨js, hok, _⟩ | ⟨b, hb, pos, hs, he⟩
  · rw [hok] at h; cases h
  · refine ⟨b, hb, pos, hs, ?_⟩
    rcases he with ⟨e, he⟩ | he
    · rw [he] at h; cases h; exact Or.inl ⟨e, rfl⟩
    · rw [he] at h; cases h; exact Or.inr rfl

theorem parse_never_panics (dec : Decoder ε δ) (hh : Honest dec) (bs : List Block) (hf : Elf.Spec.Fits bs) :
    parse dec bs ≠ .error .panic ∧ parse dec bs ≠ .error .slice ∧ parse dec bs ≠ .error .fuel := by
  refine ⟨fun h => ?_, fun h => ?_, fun h => ?_⟩ <;>
  · obtain ⟨_, _, _, _, h' | h'⟩ := parse_error_kind dec hh bs hf _ h
    · obtain ⟨_, h'⟩ := h'; cases h'
    · cases h'

/-- what a tiling says, spelled out: the first instruction starts where the bytes start, every
instruction carries the bytes at its address and the folded effects of the decoder's lifting, the next
one starts where it ends, and the lengths add up to the length of the block -/
theorem tiling_head (dec : Decoder ε δ) (a : Nat) (bytes : List UInt8) (i : Ins δ) (rest : List (Ins δ))
    (h : Tiling dec a bytes (i :: rest)) :
    ∃ r, dec a bytes = .ok r ∧ Valid r ∧ i.addr = a ∧ i.bytes = bytes.take r.byteLen ∧ i.bytes.length = r.byteLen ∧
      i.effects = (r.effects.filterMap id).map (Effect.apply constFold) ∧
      Tiling dec (a + i.bytes.length) (bytes.drop i.bytes.length) rest := by
  cases h with
  | step _ _ r _ _ _ hd hv hle hins ht =>
    obtain ⟨_, h2, h3, h4, _⟩ := hins
    have hl : i.bytes.length = r.byteLen := by rw [h3, List.length_take]; omega
    exact ⟨r, hd, hv, h2, h3, hl, h4, by rw [hl]; exact ht⟩

theorem tiling_nil (dec : Decoder ε δ) (a : Nat) (bytes : List UInt8) (h : Tiling dec a bytes []) : bytes = [] := by
  cases h; rfl

/-! ### the RISC-V front end of `cmd/mltwist` -/

theorem rv_honest (tbl : List Riscv.Entry) : Honest (rvDecoder tbl) := Lemmas.Parse.rv_honest tbl

/-- parsing fails exactly when some instruction position (`begin + 4k` of some block) holds a
truncated word or a word that RV64IMA does not define -/
theorem parseRv64_error_iff (bs : List Block) (hf : Elf.Spec.Fits bs) :
    (∃ f, parseRv64 bs = .error f) ↔ ∃ b ∈ bs, ∃ k, RvBadAt b.2 k := by
  unfold parseRv64
  rw [parse_error_iff _ (rv_honest _) bs hf]
  constructor
  · rintro ⟨b, hb, pos, hs⟩
    obtain ⟨k, hk, _⟩ := Lemmas.Parse.stuck_rv_bad hs
    exact ⟨b, hb, k, hk⟩
  · rintro ⟨b, hb, k, hk⟩
    obtain ⟨pos, hs⟩ := Lemmas.Parse.bad_rv_stuck k b.1 b.2 hk
    exact ⟨b, hb, pos, hs⟩

/-- the error is reported for such a position: `short`/`unknown` at `begin + 4k` -/
theorem parseRv64_error_at (bs : List Block) (hf : Elf.Spec.Fits bs) (f : Fail RvErr)
    (h : parseRv64 bs = .error f) :
    ∃ b ∈ bs, ∃ k, RvBadAt b.2 k ∧ ((∃ e, f = .parse (b.1 + 4 * k) e) ∨ f = .invalid (b.1 + 4 * k)) := by
  obtain ⟨b, hb, pos, hs, hk⟩ := parse_error_kind _ (rv_honest _) bs hf f h
  obtain ⟨k, hbad, rfl⟩ := Lemmas.Parse.stuck_rv_bad hs
  exact ⟨b, hb, k, hbad, hk⟩

/-- otherwise the result is the closed-form tiling of every block, all block lengths are multiples
of four and no position is bad -/
theorem parseRv64_ok (bs : List Block) (hf : Elf.Spec.Fits bs) (is : List (Ins (Riscv.Entry × Riscv.Ins)))
    (h : parseRv64 bs = .ok is) :
    is = bs.flatMap (fun b => rvTile rv64Table b.1 b.2) ∧ (∀ b ∈ bs, b.2.length % 4 = 0) ∧
      ∀ b ∈ bs, ∀ k, ¬ RvBadAt b.2 k := by
  have ht := (parse_ok_iff _ (rv_honest _) bs hf is).1 h
  refine ⟨?_, ?_, ?_⟩
  · clear h hf
    induction ht with
    | nil => rfl
    | cons b bs is rest hb _ ih =>
      rw [List.flatMap_cons, (Lemmas.Parse.tiling_rv hb).1, ih]
  · clear h hf
    induction ht with
    | nil => intro b hb; cases hb
    | cons b bs is rest hb _ ih =>
      intro x hx
      rcases List.mem_cons.1 hx with rfl | hx
      · exact (Lemmas.Parse.tiling_rv hb).2
      · exact ih x hx
  · intro b hb k hk
    have := (parseRv64_error_iff bs hf).2 ⟨b, hb, k, hk⟩
    obtain ⟨f, hf'⟩ := this
    rw [h] at hf'; cases hf'

/-- the `k`-th instruction of a block's tiling sits at `begin + 4k`, carries the four bytes of the
image at that address and the constant-folded lifting of exactly these bytes at that address
(`rvIns`); there is one instruction per word -/
theorem rvTile_spec (a : Nat) (bytes : List UInt8)
    (hall : ∀ j, 4 * j + 4 ≤ bytes.length → (rvIns rv64Table (a + 4 * j) ((bytes.drop (4 * j)).take 4)).isSome) :
    (rvTile rv64Table a bytes).length = bytes.length / 4 ∧
    ∀ k, 4 * k + 4 ≤ bytes.length →
      (rvTile rv64Table a bytes)[k]? = rvIns rv64Table (a + 4 * k) ((bytes.drop (4 * k)).take 4) :=
  Lemmas.Parse.rvTile_getElem rv64Table bytes.length a bytes (Nat.le_refl _) hall

/-- `rvIns`: address, bytes and effects of an instruction are those of its own word -/
theorem rvIns_spec (a : Nat) (w : List UInt8) (i : Ins (Riscv.Entry × Riscv.Ins)) (h : rvIns rv64Table a w = some i) :
    i.addr = a ∧ i.bytes = w ∧ Riscv.parse rv64Table a w = .ok i.details.1 i.details.2 ∧
      i.effects = (i.details.1.validEffects i.details.2).map (Effect.apply constFold) ∧ i.typ = i.details.1.typ := by
  unfold rvIns at h
  cases hp : Riscv.parse rv64Table a w with
  | short => rw [hp] at h; cases h
  | unknown => rw [hp] at h; cases h
  | ok e j =>
    rw [hp] at h
    cases h
    exact ⟨rfl, rfl, rfl, rfl, rfl⟩

/-! ### non-vacuity -/

/-- a comparable digest of a result: (address, bytes, mnemonic) per instruction, or the error -/
def digest : Except (Fail RvErr) (List (Ins (Riscv.Entry × Riscv.Ins))) →
    List (Nat × List UInt8 × String) ⊕ (Nat × String)
  | .ok is => .inl (is.map fun i => (i.addr, i.bytes, i.details.1.name))
  | .error (.parse a .short) => .inr (a, "short")
  | .error (.parse a .unknown) => .inr (a, "unknown")
  | .error (.invalid a) => .inr (a, "invalid")
  | .error _ => .inr (0, "crash")

/-- `addi x1,x0,1 ; jal x0,0` at 0x1000 is tiled by two instructions at 0x1000 and 0x1004; a
truncated tail and an undefined word are rejected at their positions -/
example :
    digest (parseRv64 [(4096, [0x93, 0x00, 0x10, 0x00, 0x6f, 0x00, 0x00, 0x00])]) =
      .inl [(4096, [0x93, 0x00, 0x10, 0x00], "addi"), (4100, [0x6f, 0x00, 0x00, 0x00], "jal")] ∧
    digest (parseRv64 [(4096, [0x93, 0x00, 0x10, 0x00, 0x6f, 0x00])]) = .inr (4100, "short") ∧
    digest (parseRv64 [(4096, [0x93, 0x00, 0x10, 0x00]), (8192, [0xff, 0xff, 0xff, 0xff])]) = .inr (8192, "unknown") ∧
    RvBadAt [0x93, 0x00, 0x10, 0x00, 0x6f, 0x00] 1 ∧ ¬ RvBadAt [0x93, 0x00, 0x10, 0x00, 0x6f, 0x00] 0 := by
  refine ⟨?_, ?_, ?_, ?_, ?_⟩ <;> decide +kernel

end Mltwist.Props.C21
