import Mltwist.Lemmas.Transform
/-
C12 — width adaptation preserves value.
-/
namespace Mltwist.Props.C12
open Mltwist

theorem setWidth_width (e : Expr) (w : Nat) : (setWidth e w).width = w :=
  Lemmas.Transform.setWidth_width e w

/-- re-widthing yields the original value zero-extended or truncated to the new width -/
theorem setWidth_eval (ρ : Env) (e : Expr) (w : Nat) :
    (setWidth e w).eval ρ = trunc w (e.eval ρ) :=
  Lemmas.Transform.setWidth_eval ρ e w

theorem purge_width (e : Expr) : (purgeWidthGadgets e).width = e.width :=
  Lemmas.Transform.purge_width e

/-- removing redundant width adapters never changes the denoted value; since `eval` of a
`MemLoad` reads at the value of its address, this includes load addresses -/
theorem purge_eval (ρ : Env) (e : Expr) : (purgeWidthGadgets e).eval ρ = e.eval ρ :=
  Lemmas.Transform.purge_eval ρ e

/-- non-vacuity: a truncating adapter above a load address is kept, a redundant one is removed -/
example :
    purgeWidthGadgets (.memLoad "m" (newWidthGadget (.regLoad "x1" 8) 4) 1)
      = .memLoad "m" (newWidthGadget (.regLoad "x1" 8) 4) 1
    ∧ purgeWidthGadgets (.binary .add (newWidthGadget (.regLoad "x1" 8) 4) (.const [1]) 2)
      = .binary .add (.regLoad "x1" 8) (.const [1]) 2 := by decide

end Mltwist.Props.C12
