import Mltwist.Lemmas.StateMem
/-
C18 — register state holds whole-register values.

Model: `Mltwist.State` (`Model/State.lean`): `RegMap` (a Go map as an association list), `State`,
`State.apply` after `internal/state/regs.go` and `state.go`.  Vocabulary (`Spec/State.lean`): a write
history `RegHist` (oldest first), `lastWrite k h`, and the value a read must have,
`readVal ρ r w' = trunc w' (trunc r.w ⟦r.value⟧ρ)`.  `runWrites m h` replays a history on the model.

`State.apply` returns `Except Fail (State × Bool)`: `.error` is a panic of the memory underneath
(C14: a store touching the top of the address space or of width 0), the boolean is the result of
`Apply`.  The "fits" flag of `expr.ConstUint` is ignored by the code: a constant address wider than 8
bytes is reduced modulo `2^64` (stated in `apply_memStore_const`).
-/
namespace Mltwist.Props.C18
open Mltwist Mltwist.State Mltwist.Overlay Mltwist.Spec.State Mltwist.Spec.Overlay
open Mltwist.Lemmas.State (runWrites Good)

/-! ### the register map -/

/-- a register that was never written reads as absent -/
theorem load_empty (k : String) (w : Nat) : RegMap.load RegMap.empty k w = none := rfl

/-- reading the register just written: the value adjusted to the write width, then to the read width -/
theorem load_store_same (m : RegMap) (k : String) (e : Expr) (w w' : Nat) :
    (m.store k e w).load k w' = some (setWidth (setWidth e w) w') :=
  Lemmas.State.load_store_same m k e w w'

/-- writes to other registers do not interfere -/
theorem load_store_other (m : RegMap) (k k2 : String) (e : Expr) (w w' : Nat) (h : k2 ≠ k) :
    (m.store k e w).load k2 w' = m.load k2 w' :=
  Lemmas.State.load_store_other m k k2 e w w' h

/-- after any history of writes of any widths, a read of `k` at width `w'` is absent iff `k` was never
written, and otherwise is a `w'`-byte expression whose value under every valuation is the last value
written to `k`, adjusted to its write width and then zero-extended or truncated to `w'` -/
theorem history_read (h : RegHist) (k : String) (w' : Nat) :
    match lastWrite k h with
    | none => (runWrites RegMap.empty h).load k w' = none
    | some r => ∃ e, (runWrites RegMap.empty h).load k w' = some e ∧ e.width = w' ∧
        ∀ ρ, e.eval ρ = readVal ρ r w' := by
  have := Lemmas.State.runWrites_load k w' h RegMap.empty
  cases hl : lastWrite k h with
  | none => rw [hl] at this; exact this
  | some r =>
    rw [hl] at this
    refine ⟨_, this, Lemmas.Transform.setWidth_width _ _, fun ρ => ?_⟩
    rw [Lemmas.Transform.setWidth_eval, Lemmas.Transform.setWidth_eval]
    rfl

/-- `lastWrite` is what its name says: absent iff no write to `k` occurs, otherwise a write to `k`
of the history, and it only depends on the writes to `k` -/
theorem lastWrite_none_iff (k : String) (h : RegHist) : lastWrite k h = none ↔ ∀ r ∈ h, r.key ≠ k :=
  Lemmas.State.lastWrite_none_iff k h

theorem lastWrite_some_mem (k : String) (h : RegHist) (r : RegWrite) (hr : lastWrite k h = some r) :
    r ∈ h ∧ r.key = k :=
  Lemmas.State.lastWrite_some_mem k h r hr

theorem lastWrite_append_same (k : String) (r : RegWrite) (hk : r.key = k) (h : RegHist) :
    lastWrite k (h ++ [r]) = some r :=
  Lemmas.State.lastWrite_append_same k r hk h

theorem lastWrite_append_other (k : String) (r : RegWrite) (hk : r.key ≠ k) (h : RegHist) :
    lastWrite k (h ++ [r]) = lastWrite k h :=
  Lemmas.State.lastWrite_append_other k r hk h

/-! ### `Apply` -/

/-- a register store is a write to the register map (and nothing else) -/
theorem apply_regStore (s : State) (v : Expr) (k : String) (w : Nat) :
    s.apply (.regStore v k w) = .ok ({ s with regs := s.regs.store k v w }, true) := rfl

/-- a memory store whose folded address is not a constant is refused and leaves the state equal -/
theorem apply_memStore_refused (s : State) (v : Expr) (key : String) (addr : Expr) (w : Nat)
    (h : (constFold addr).isConst = false) : s.apply (.memStore v key addr w) = .ok (s, false) :=
  Lemmas.State.apply_memStore_refused s v key addr w h

/-- conversely, whenever `Apply` answers `false` the state is unchanged, and the effect was a memory
store whose address does not fold to a constant -/
theorem apply_false (s s' : State) (ef : Effect) (h : s.apply ef = .ok (s', false)) :
    s' = s ∧ ∃ v key addr w, ef = .memStore v key addr w ∧ (constFold addr).isConst = false :=
  Lemmas.State.apply_false s s' ef h

/-- with a constant address the effect is `MemMap.Store` at the address formed by the low 8 bytes of
the constant (the registers are untouched) -/
theorem apply_memStore_const (s : State) (v : Expr) (key : String) (addr : Expr) (w : Nat)
    (c : List UInt8) (h : constFold addr = .const c) :
    s.apply (.memStore v key addr w) =
      match s.mems.store key (leToNat c % 2 ^ 64) v w with
      | .ok mems' => .ok ({ s with mems := mems' }, true)
      | .error f => .error f :=
  Lemmas.State.apply_memStore_const s v key addr w c h

/-- … and that constant is the value of the address expression under every valuation -/
theorem const_is_value (addr : Expr) (hwf : addr.wf = true) (c : List UInt8)
    (h : constFold addr = .const c) (ρ : Env) : leToNat c = addr.eval ρ :=
  Lemmas.State.const_is_value addr hwf c h ρ

/-- a closed address always reduces to a constant, so such a store is never refused (C09) -/
theorem closed_is_const (addr : Expr) (h : addr.closed = true) : (constFold addr).isConst = true :=
  Lemmas.Transform.constFold_closed addr h

/-- in a state whose memories satisfy their invariants (`Good`; holds for `state.New()` and is
preserved), an accepted store is the store of C14/C16 on the byte map of its address space: bytes
`[a, a+w)` of the address space `key` become the bytes of the value, every other address space and
the registers are unchanged, and nothing panics -/
theorem apply_memStore_spec (s : State) (hg : Good s) (v : Expr) (key : String) (addr : Expr) (w : Nat)
    (c : List UInt8) (hc : constFold addr = .const c) (hd : InDom (leToNat c % 2 ^ 64) w) :
    ∃ s', s.apply (.memStore v key addr w) = .ok (s', true) ∧ s'.regs = s.regs ∧ Good s' ∧
      s'.mems.abs key = (s.mems.abs key).store (leToNat c % 2 ^ 64) v w ∧
      ∀ key', key' ≠ key → s'.mems.abs key' = s.mems.abs key' :=
  Lemmas.State.apply_memStore_spec s hg v key addr w c hc hd

theorem good_new : Good State.new := Lemmas.State.good_new

theorem good_apply (s : State) (hg : Good s) (ef : Effect)
    (hd : ∀ v key addr w c, ef = .memStore v key addr w → constFold addr = .const c →
      InDom (leToNat c % 2 ^ 64) w) :
    ∃ s' b, s.apply ef = .ok (s', b) ∧ Good s' :=
  Lemmas.State.good_apply s hg ef hd

/-- reads of the memories of a good state obey the memory laws of C16 for `mems.abs key` -/
theorem good_reads (s : State) (hg : Good s) (key : String) : MemLaws (s.mems.view key) (s.mems.abs key) :=
  Lemmas.Overlay.memmap_laws s.mems hg.1 key

/-! ### non-vacuity -/

/-- write 5 bytes 4 wide, read 8 wide: truncated to 4, then zero-extended -/
example :
    (RegMap.empty.store "x1" (.const [1, 2, 3, 4, 5]) 4).load "x1" 8
      = some (.const [1, 2, 3, 4, 0, 0, 0, 0])
    ∧ (RegMap.empty.store "x1" (.const [1, 2, 3, 4, 5]) 4).load "x2" 8 = none
    ∧ ((RegMap.empty.store "x1" (.regLoad "a" 8) 4).store "x1" (.regLoad "b" 2) 2).load "x1" 4
      = some (.binary .add (.regLoad "b" 2) (.const [0]) 4) := by decide

/-- a symbolic address is refused, a foldable one and a 9-byte constant are applied at the low 8 bytes -/
example :
    (State.new.apply (.memStore (.const [1]) "m" (.regLoad "x1" 8) 1)).toOption.map (·.2) = some false
    ∧ (State.new.apply (.memStore (.const [0xaa]) "m"
        (.binary .add (.const [16, 0, 0, 0, 0, 0, 0, 0]) (.const [4, 0, 0, 0, 0, 0, 0, 0]) 8) 1)).toOption.map
        (fun r => (r.2, (r.1.mems.load "m" 20 1).toOption)) = some (true, some (some (.const [0xaa])))
    ∧ (State.new.apply (.memStore (.const [0xbb]) "m" (.const [7, 0, 0, 0, 0, 0, 0, 0, 1]) 1)).toOption.map
        (fun r => (r.2, (r.1.mems.load "m" 7 1).toOption)) = some (true, some (some (.const [0xbb]))) := by decide

end Mltwist.Props.C18
