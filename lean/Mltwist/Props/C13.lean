import Mltwist.Lemmas.Transform
/-
C13 — enumerated branch possibilities cover every outcome.
-/
namespace Mltwist.Props.C13
open Mltwist

/-- under every assignment the value equals the value of at least one alternative -/
theorem possibilities_cover (ρ : Env) (e : Expr) :
    ∃ p ∈ possibilities e, p.eval ρ = e.eval ρ :=
  Lemmas.Transform.possibilities_cover ρ e

/-- every alternative has the expression's width and contains no conditional -/
theorem possibilities_shape (e : Expr) :
    ∀ p ∈ possibilities e, p.width = e.width ∧ p.noLess = true :=
  Lemmas.Transform.possibilities_shape e

example : (possibilities (.less (.regLoad "a" 1) (.regLoad "b" 1) (.const [1]) (.const [2, 0]) 2)).length = 2 := by
  decide

end Mltwist.Props.C13
