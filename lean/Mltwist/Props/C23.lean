import Mltwist.Lemmas.ListingRun
import Mltwist.Lemmas.ListingRef
/-
C23 — the disassembly listing always reflects the current code.

`Model/Listing.lean` follows `internal/consoleui/internal/lines` and the `move`/`bounds` commands of
`internal/consoleui/disassemble/commands.go` (with the repairs F21, F23).  The code model underneath is
abstract: any code operations `ops` that satisfy `Spec.Lawful` (an accepted instruction move permutes
the instructions of that block and keeps the other blocks, an accepted block move permutes the
blocks, `Idx()` is the position afterwards, the entry point is constant; a rejected move yields no new
state) and any well-formed start code.

`Spec.rows code` is the fresh rendering the property speaks of: per block, in current order, the header
`Block <position+1>: 0x<start>` and one row per instruction in current order (text padded to 24
columns, bytes as upper-case hex pairs), single blank rows between blocks and one at the end.
`Spec.shown lines` is the listing apart from the marks (text, block and instruction of every line).
-/
namespace Mltwist.Props.C23
open Mltwist.Listing Mltwist.Listing.Spec
open Mltwist.Lemmas.Listing (Reachable)

/-- a history of `move` commands, accepted or rejected, on arbitrary line numbers -/
def moves (h : List (Nat × Nat)) : List Cmd := h.map fun p => .move p.1 p.2

/-- The property: after any history of accepted and rejected instruction and block moves nothing has
panicked, the listing equals — apart from the marks — the fresh rendering of the current code, and
`Lines.Line` gives the row of every instruction. -/
theorem listing_reflects_code (ops : CodeOps) (hl : Lawful ops) (c : Code) (hwf : WF c)
    (h : List (Nat × Nat)) :
    ∃ st, run ops (St.init c) (moves h) = some st ∧ WF st.code ∧
      shown st.lines = rows st.code ∧
      ∀ (k : Nat) (b : Block), st.code.blocks[k]? = some b →
        ∀ i, st.lines.line b i = some (lineOf st.code k i) := by
  obtain ⟨st, hrun, hinv, _, _⟩ := Lemmas.Listing.run_spec ops hl (St.init c) (Lemmas.Listing.inv_init c hwf)
    (moves h) (fun x hx => by
      simp only [moves, List.mem_map] at hx
      obtain ⟨p, _, rfl⟩ := hx
      trivial)
  exact ⟨st, hrun, hinv.wf, (Lemmas.Listing.inv_shows st hinv).1, (Lemmas.Listing.inv_shows st hinv).2⟩

/-- The same for histories of all commands of the mode (`move`, `bounds`, `up`, `down`, `goto`, `find`,
`entrypoint`) in any order; the number of lines never changes. -/
theorem listing_reflects_code_all (ops : CodeOps) (hl : Lawful ops) (c : Code) (hwf : WF c) (st : St)
    (h : Reachable ops c st) :
    WF st.code ∧ shown st.lines = rows st.code ∧
      (∀ (k : Nat) (b : Block), st.code.blocks[k]? = some b →
        ∀ i, st.lines.line b i = some (lineOf st.code k i)) ∧
      st.lines.lines.length = (rows c).length := by
  obtain ⟨hinv, hlen, _⟩ := Lemmas.Listing.reachable_inv ops hl c hwf st h
  refine ⟨hinv.wf, (Lemmas.Listing.inv_shows st hinv).1, (Lemmas.Listing.inv_shows st hinv).2, ?_⟩
  rw [hlen, ← Lemmas.Listing.shown_newLines c hwf]; simp [shown]

/-- No command panics in a reachable state (line numbers beyond the listing included — F21), and a
command that does not report success — in particular a rejected move — changes nothing but marks:
the shown listing, the code and the cursor stay as they are. -/
theorem rejected_changes_nothing (ops : CodeOps) (hl : Lawful ops) (c : Code) (hwf : WF c) (st : St)
    (h : Reachable ops c st) (cmd : Cmd) (hv : ValidCmd st.lines.lines.length cmd) :
    ∃ s st', step ops st cmd = some (s, st') ∧
      (s ≠ .ok → shown st'.lines = shown st.lines ∧ st'.code = st.code ∧ st'.cursor = st.cursor) := by
  obtain ⟨hinv, _, _⟩ := Lemmas.Listing.reachable_inv ops hl c hwf st h
  obtain ⟨s, st', h1, _, h2⟩ := Lemmas.Listing.step_spec ops hl st hinv cmd hv
  exact ⟨s, st', h1, h2⟩

/-- The assumptions are satisfiable: the transcription of `internal/deps/moves.go` (`move`, `moveFwd`,
`moveBack`, `checkFromToIndex`, `checkMove` with the bounds stored in the state) is lawful.  This is the
instance the model driver runs against the implementation on every check. -/
theorem refOps_lawful : Lawful refOps := Lemmas.Listing.refOps_lawful

/-! ### Non-vacuity, and the pinned behaviour (F21, F23) for the record

`refOps` (the transcription of `internal/deps/moves.go` with the bounds stored in the state) on small
codes. -/

/-- two blocks: `a`,`b` (`b` must stay behind `a`: lower bound 1) at 0x10, and `c` at 0x20 -/
def exCode : Code := ⟨16, [
  ⟨0, 16, 24, [⟨"a", [0x1f, 2], 0, 16, 0, 0⟩, ⟨"b", [3], 1, 20, 1, 1⟩]⟩,
  ⟨1, 32, 36, [⟨"c", [0xab], 0, 32, 0, 0⟩]⟩]⟩

example : rows exCode = [
    ⟨"Block 1: 0x10", some 0, none⟩,
    ⟨"     a                        | 1F 02", some 0, some 0⟩,
    ⟨"     b                        | 03", some 0, some 1⟩,
    ⟨"", none, none⟩,
    ⟨"Block 2: 0x20", some 1, none⟩,
    ⟨"     c                        | AB", some 1, some 0⟩,
    ⟨"", none, none⟩] := by decide

/-- a history of `move` commands; `pinned`: with the pinned `Lines.Move` (no marks); `none` = panic -/
def runMoves (pinned : Bool) : St → List (Nat × Nat) → Option St
  | st, [] => some st
  | st, (f, t) :: r =>
    if pinned then
      match st.lines.movePinned refOps st.code f t with
      | none => none
      | some m => runMoves pinned { st with lines := m.lines, code := m.code } r
    else
      match step refOps st (.move f t) with
      | none => none
      | some (_, st') => runMoves pinned st' r

/-- what a history leaves behind: start addresses of the blocks in current order, "the listing is the
fresh rendering", the marks -/
def after (pinned : Bool) (cmds : List (Nat × Nat)) : Option (List Nat × Bool × List String) :=
  (runMoves pinned (St.init exCode) cmds).map fun st =>
    (st.code.blocks.map (·.begin), shown st.lines == rows st.code, st.lines.lines.map (·.mark))

-- block move over blocks of different sizes
example : after false [(0, 4)] = some ([32, 16], true, ["<", "", "", "", ">", "", ""]) := by decide
-- then an instruction move in the block that is now second: rejected (`b` has to stay behind `a`)
example : after false [(0, 4), (5, 4)] = some ([32, 16], true, ["", "", "", "", "!>", "!<", ""]) := by decide
-- line numbers outside the listing (F21)
example : after false [(7, 0), (0, 999999)] = some ([16, 32], true, ["", "", "", "", "", "", ""]) := by decide
-- F23, pinned code: the same block move leaves a stale listing ...
example : after true [(0, 4)] = some ([32, 16], false, ["", "", "", "", "", "", ""]) := by decide
-- ... and on a code of 4 + 1 instructions it panics (slice bounds out of range [:5] with capacity 4)
def exCode41 : Code := ⟨0, [
  ⟨0, 0, 16, [⟨"p", [1], 0, 0, 0, 3⟩, ⟨"q", [2], 1, 4, 0, 3⟩, ⟨"r", [3], 2, 8, 0, 3⟩, ⟨"s", [4], 3, 12, 0, 3⟩]⟩,
  ⟨1, 16, 20, [⟨"t", [5], 0, 16, 0, 0⟩]⟩]⟩
example : (St.init exCode41).lines.movePinned refOps exCode41 0 6 = none := by decide
example : ((St.init exCode41).lines.move refOps exCode41 0 6).map (fun m => shown m.lines == rows m.code) = some true := by
  decide

end Mltwist.Props.C23
