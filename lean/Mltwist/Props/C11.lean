import Mltwist.Lemmas.Gadgets
/-
C11 — expression gadgets compute their documented functions (`Spec/Gadgets.lean`),
for every width and all operand values, in terms of the reference evaluator.
-/
namespace Mltwist.Props.C11
open Mltwist

theorem eval_negate (ρ : Env) (e : Expr) (w : Nat) :
    (Tools.negate e w).eval ρ = Spec.neg w (e.eval ρ) :=
  Lemmas.Gadgets.eval_negate ρ e w

theorem eval_sub (ρ : Env) (a b : Expr) (w : Nat) :
    (Tools.sub a b w).eval ρ = Spec.sub w (trunc w (a.eval ρ)) (trunc w (b.eval ρ)) :=
  Lemmas.Gadgets.eval_sub ρ a b w

theorem eval_abs (ρ : Env) (e : Expr) (w : Nat) (hw : 1 ≤ w) (hw' : w ≤ 255) :
    (Tools.abs e w).eval ρ = Spec.abs w (e.eval ρ) :=
  Lemmas.Gadgets.eval_abs ρ e w hw hw'

theorem eval_ones (ρ : Env) (w : Nat) :
    (Tools.ones w).eval ρ = Spec.ones w :=
  Lemmas.Gadgets.eval_ones ρ w

theorem eval_mod (ρ : Env) (a b : Expr) (w : Nat) :
    (Tools.mod a b w).eval ρ = Spec.umod w (a.eval ρ) (b.eval ρ) :=
  Lemmas.Gadgets.eval_mod ρ a b w

theorem eval_signedMul (ρ : Env) (a b : Expr) (w : Nat) (hw : w ≤ 127)
    (ha : 1 ≤ a.width ∧ a.width ≤ 2 * w) (hb : 1 ≤ b.width ∧ b.width ≤ 2 * w) :
    (Tools.signedMul a b w).eval ρ = Spec.smul w a.width b.width (a.eval ρ) (b.eval ρ) :=
  Lemmas.Gadgets.eval_signedMul ρ a b w hw ha hb

theorem eval_signedDiv (ρ : Env) (a b : Expr) (w : Nat) (hw : 1 ≤ w) (hw' : w ≤ 255)
    (ha : a.width = w) (hb : b.width = w) :
    (Tools.signedDiv a b w).eval ρ = Spec.sdiv w (a.eval ρ) (b.eval ρ) :=
  Lemmas.Gadgets.eval_signedDiv ρ a b w hw hw' ha hb

theorem eval_signedMod (ρ : Env) (a b : Expr) (w : Nat) (hw : 1 ≤ w) (hw' : w ≤ 255)
    (ha : a.width = w) (hb : b.width = w) :
    (Tools.signedMod a b w).eval ρ = Spec.smod w (a.eval ρ) (b.eval ρ) :=
  Lemmas.Gadgets.eval_signedMod ρ a b w hw hw' ha hb

theorem eval_signExtend (ρ : Env) (e sb : Expr) (w : Nat)
    (hbit : trunc w (sb.eval ρ) < 8 * w) :
    (Tools.signExtend e sb w).eval ρ = Spec.sext w (trunc w (e.eval ρ)) (trunc w (sb.eval ρ)) :=
  Lemmas.Gadgets.eval_signExtend ρ e sb w hbit

theorem eval_rshA (ρ : Env) (e s : Expr) (w : Nat) (hw : 1 ≤ w) (hw' : w ≤ 255) :
    (Tools.rshA e s w).eval ρ = Spec.rsha w (e.eval ρ) (trunc w (s.eval ρ)) :=
  Lemmas.Gadgets.eval_rshA ρ e s w hw hw'

theorem eval_bitNot (ρ : Env) (e : Expr) (w : Nat) :
    (Tools.bitNot e w).eval ρ = Spec.bnot w (e.eval ρ) :=
  Lemmas.Gadgets.eval_bitNot ρ e w

theorem eval_bitAnd (ρ : Env) (a b : Expr) (w : Nat) :
    (Tools.bitAnd a b w).eval ρ = Spec.band w (a.eval ρ) (b.eval ρ) :=
  Lemmas.Gadgets.eval_bitAnd ρ a b w

theorem eval_bitOr (ρ : Env) (a b : Expr) (w : Nat) :
    (Tools.bitOr a b w).eval ρ = Spec.bor w (a.eval ρ) (b.eval ρ) :=
  Lemmas.Gadgets.eval_bitOr ρ a b w

theorem eval_bitXor (ρ : Env) (a b : Expr) (w : Nat) :
    (Tools.bitXor a b w).eval ρ = Spec.bxor w (a.eval ρ) (b.eval ρ) :=
  Lemmas.Gadgets.eval_bitXor ρ a b w

theorem eval_bool (ρ : Env) (e : Expr) (he : 1 ≤ e.width) :
    (Tools.bool e).eval ρ = if e.eval ρ = 0 then 0 else 1 :=
  Lemmas.Gadgets.eval_bool ρ e he

theorem eval_not (ρ : Env) (e : Expr) (he : 1 ≤ e.width) :
    (Tools.not e).eval ρ = if e.eval ρ = 0 then 1 else 0 :=
  Lemmas.Gadgets.eval_not ρ e he

theorem eval_boolCond (ρ : Env) (c t f : Expr) (w : Nat) :
    (Tools.boolCond c t f w).eval ρ =
      if trunc w (c.eval ρ) ≠ 0 then trunc w (t.eval ρ) else trunc w (f.eval ρ) :=
  Lemmas.Gadgets.eval_boolCond ρ c t f w

theorem eval_eq (ρ : Env) (a b t f : Expr) (w : Nat) (hw : 1 ≤ w) :
    (Tools.eq a b t f w).eval ρ =
      if trunc w (a.eval ρ) = trunc w (b.eval ρ) then trunc w (t.eval ρ) else trunc w (f.eval ρ) :=
  Lemmas.Gadgets.eval_eq ρ a b t f w hw

theorem eval_lts (ρ : Env) (a b t f : Expr) (w : Nat) (hw : 1 ≤ w) (hw' : w ≤ 255) :
    (Tools.lts a b t f w).eval ρ =
      if toInt w (trunc w (a.eval ρ)) < toInt w (trunc w (b.eval ρ))
      then trunc w (t.eval ρ) else trunc w (f.eval ρ) :=
  Lemmas.Gadgets.eval_lts ρ a b t f w hw hw'

theorem eval_leu (ρ : Env) (a b t f : Expr) (w : Nat) (hw : 1 ≤ w) :
    (Tools.leu a b t f w).eval ρ =
      if trunc w (a.eval ρ) ≤ trunc w (b.eval ρ) then trunc w (t.eval ρ) else trunc w (f.eval ρ) :=
  Lemmas.Gadgets.eval_leu ρ a b t f w hw

theorem eval_les (ρ : Env) (a b t f : Expr) (w : Nat) (hw : 1 ≤ w) (hw' : w ≤ 255) :
    (Tools.les a b t f w).eval ρ =
      if toInt w (trunc w (a.eval ρ)) ≤ toInt w (trunc w (b.eval ρ))
      then trunc w (t.eval ρ) else trunc w (f.eval ρ) :=
  Lemmas.Gadgets.eval_les ρ a b t f w hw hw'

/-- bit masking, for EVERY bit count (no side condition since the repair of F34: `bitMask` clamps the count to
the width, so neither the truncated two-byte count at width 1 nor the constructor panic for
`8w < cnt ≤ 64` exists any more) -/
theorem eval_maskBits (ρ : Env) (e : Expr) (cnt w : Nat) (hw : w ≤ 255) :
    (Tools.maskBits e cnt w).eval ρ = Spec.mask w (e.eval ρ) cnt :=
  Lemmas.Gadgets.eval_maskBits ρ e cnt w hw

/-- the clamped count never makes `NewConstUint` inside `bitMask` panic -/
theorem bitMask_never_panics (cnt w : Nat) :
    Tools.bitMaskOk (if cnt > 8 * w then 8 * w else cnt) w = true :=
  Lemmas.Gadgets.bitMaskOk_clamp cnt w

theorem eval_intNegative (ρ : Env) (e : Expr) (w : Nat) (hw : 1 ≤ w) (hw' : w ≤ 255) :
    (Tools.intNegative e w).eval ρ =
      if toInt w (trunc w (e.eval ρ)) < 0 then 2 ^ (8 * w - 1) else 0 :=
  Lemmas.Gadgets.eval_intNegative ρ e w hw hw'

theorem eval_widthGadget (ρ : Env) (e : Expr) (w : Nat) :
    (newWidthGadget e w).eval ρ = trunc w (e.eval ρ) :=
  Lemmas.Gadgets.eval_widthGadget ρ e w

theorem widthGadgetArg_newWidthGadget (e : Expr) (w : Nat) :
    widthGadgetArg (newWidthGadget e w) = some e :=
  Lemmas.Gadgets.widthGadgetArg_newWidthGadget e w

/-- non-vacuity: signed division of -7 by 2 at one byte is -3 (0xfd) under the real folding -/
example : constFold (Tools.signedDiv (.const [0xf9]) (.const [2]) 1) = .const [0xfd] := by decide

/-- F34 (fixed): `MaskBits(0xff, 259, 1)` used to keep only 3 bits (the two-byte count was truncated to one
byte by the enclosing `Lsh`); with the clamp it keeps all eight, as documented. -/
example : (Tools.maskBits (.const [0xff]) 259 1).eval ⟨fun _ => 0, fun _ _ => 0⟩ = 255
    ∧ Spec.mask 1 0xff 259 = 255 := by decide

/-- `MaskBits(e, 40, 4)` used to panic in `NewConstUint`; now it is the 4-byte all-ones mask -/
example : constFold (Tools.maskBits (.const [1, 2, 3, 4]) 40 4) = .const [1, 2, 3, 4] := by decide

end Mltwist.Props.C11
