import Mltwist.Lemmas.RiscvText
/-
C25 — disassembly text is faithful.  `Entry.text` is the model of `instruction.String()`
(`Model/Riscv.lean`), compared byte for byte with the implementation on every run.
-/
namespace Mltwist.Props.C25
open Mltwist Mltwist.Riscv
open Mltwist.Lemmas.RiscvDecode (Cfg)

/-- the text starts with the mnemonic -/
theorem text_prefix (e : Entry) (i : Ins) : ∃ rest, e.text i = e.name ++ " " ++ rest :=
  Lemmas.RiscvText.text_prefix e i

/-- two accepted words at the same address that are shown with identical text have identical
lifted effects (so words whose lifted behaviour differs are never shown alike) -/
theorem text_faithful (xlen : Nat) (hx : Cfg xlen) (m a : Bool)
    (e1 e2 : Entry) (h1 : e1 ∈ instructionSet xlen m a) (h2 : e2 ∈ instructionSet xlen m a)
    (addr w1 w2 : Nat) (hw1 : w1 < 2 ^ 32) (hw2 : w2 < 2 ^ 32)
    (hm1 : e1.matchesWord w1 = true) (hm2 : e2.matchesWord w2 = true)
    (ht : e1.text ⟨addr, w1⟩ = e2.text ⟨addr, w2⟩) :
    e1.validEffects ⟨addr, w1⟩ = e2.validEffects ⟨addr, w2⟩ :=
  Lemmas.RiscvText.text_faithful xlen hx m a e1 e2 h1 h2 addr w1 w2 hw1 hw2 hm1 hm2 ht

end Mltwist.Props.C25
