import Mltwist.Lemmas.UISession
import Mltwist.Lemmas.ListingRef
/-
C22 — console input never crashes the UI.

For every sequence of input lines in the disassembler, emulator and memory-view modes, each line is
either executed as a command or answered with an error message, and the program never crashes,
whatever the spacing, number of arguments or numeric range of the input.

`Model/UI.lean` follows `UI.parseCommand`, `UI.processCommand` (`uiStep`), `quitMode`, `AddMode`,
`newCmdMap`, the standard commands and the command tables of the three modes literally, after the
repairs of F20 (all-space line) and F43 (surplus word after a command without optional arguments);
the actions are expressed through the component models of C23/C31 (listing, cursor, moves), C32
(memory view), C30 (numbers), C29 (help text), C24 (rendering).  Input is the list of lines the line
reader hands out, the empty list is the end of the input.

Used from the component properties (imported theorems, not hypotheses): every disassembler command
succeeds or reports an error in every state satisfying the listing invariant (`Lemmas.Listing.step_spec`:
C23 `rejected_changes_nothing`, C31 `*_lands`; F21–F23 repaired); value prompts and address arguments never
panic (C30 `readValue_no_panic`, `parseAddr_no_panic`; F27 repaired); the memory view is built and its rows
print without a panic, its cursor commands are total (C32 `view_total`, `print_rows`, `cursor_cmds`,
`nil_memory`; F28, F29, F42 repaired); listing, emulation and memory screens print without a panic at every
height (C24 `listing_rows`, `emulation_view_fits`, `memory_rows`; F24, F25 repaired); the help texts wrap
(C29 `terminates`).

PARTIAL BY NATURE in the parameters of the model — everything inside the model is proved:

* `p.cops` — the code model underneath (`deps`): any `Listing.Spec.Lawful` operations (as in C23/C31;
  `refOps_lawful`: the transcription of `internal/deps/moves.go` is lawful; C05–C07 are about the real one);
* `p.rx` — `regexp.CompilePOSIX`/`MatchString`: any function;
* `p.eops` — the emulator: any operations satisfying `EmuLawful` (`Lemmas/UIInv.lean`), whose fields
  name what is taken from other properties: `step_safe` = **StepNeverPanics** (C03), `ip_some`
  (C03/C04), `width_byte`, `regs_oneIP` (C18), `mem_ok` (C14/C15/C16/C32);
* the start code is well-formed (`Listing.Spec.WF`: `Idx()` = position, bounds inside the block; C08);
* outside the model altogether: the terminal (`view.Print` asks for its size; `renderTop` takes the
  height), `fmt`, `bufio.Scanner` (a line longer than 64 KiB ends the session with an error message),
  and what the operating system does at the end of the input.

Observation (not a crash, kept in the model as the outcome `hang`): at the end of the input a value
prompt never returns — `readValueNoErr` prints the error and asks again for ever (`prompt_hang_iff`,
`hang_only_in_value_prompts`).
-/
namespace Mltwist.Props.C22
open Mltwist Mltwist.UI
open Mltwist.Listing.Spec (Lawful WF)
open Mltwist.Lemmas.UI

/-- the UI states a session can be in: the state after `consoleui.New`, and every state
`processCommand` returns to `Run` -/
inductive Reachable {σ : Type} (p : Params σ) (code : Listing.Code) : UI σ → Prop where
  | init {ui : UI σ} : UI.init code = some ui → Reachable p code ui
  | step {ui ui' : UI σ} {inp rest : Input} {a : Answer} :
      Reachable p code ui → uiStep p ui inp = .cont a ui' rest → Reachable p code ui'

/-- `consoleui.New` succeeds: the command keys of every mode are distinct (`AddMode` never fails) -/
theorem ui_starts {σ : Type} (code : Listing.Code) : ∃ ui : UI σ, UI.init code = some ui := by
  have hs := newCmdMap_isSome .dis
  cases hc : newCmdMap (commandsOf .dis) with
  | none => simp [hc] at hs
  | some cm => exact ⟨_, by simp [UI.init, addMode, Mode.kind, hc]; rfl⟩

/-- every reachable state satisfies the invariant the proofs run on -/
theorem reachable_inv {σ : Type} {Good : σ → Prop} (p : Params σ) (hl : Lawful p.cops)
    (he : EmuLawful p.eops Good) (code : Listing.Code) (hwf : WF code) (ui : UI σ)
    (h : Reachable p code ui) : UIInv Good ui := by
  induction h with
  | init hi =>
    obtain ⟨ui0, h0, hinv⟩ := init_inv Good code hwf
    rw [h0] at hi
    cases hi
    exact hinv
  | @step ui1 ui2 inp rest a _ hs ih =>
    have := uiStep_safe p hl he ui1 ih inp
    rw [hs] at this
    exact this.1

/-- **Parsing never panics**: whatever the line — all spaces (F20), tabs, any number of words (F43), any
digits — `parseCommand` yields a command with arguments or an error … -/
theorem parse_never_panics (m : CmdMap) (line : Str) : parseCommand m line ≠ .panic :=
  parseCommand_no_panic m line

/-- … and the arguments it hands to the action have the types the command declares, plus one string
if it joined optional words: no type assertion of an action can fail -/
theorem parse_args_typed (m : CmdMap) (line : Str) (cmd : Command) (args : List ArgVal)
    (h : parseCommand m line = .ok cmd args) :
    args.map kindOfVal = cmd.args ∨ (cmd.opt = true ∧ args.map kindOfVal = cmd.args ++ [.str]) :=
  (parseCommand_ok m line cmd args h).2

/-- **Every line is answered and nothing panics.**  In every reachable state, for every input:
`processCommand` does not panic; if it returns nil, at least the command line was consumed and the
line was ignored exactly if it is empty — otherwise it was executed, answered with an error message,
or it left a mode (`Answer`); the other outcomes are the end of the session by `quit` in the first
mode, the end of the input, and the starving value prompt. -/
theorem line_answered {σ : Type} {Good : σ → Prop} (p : Params σ) (hl : Lawful p.cops)
    (he : EmuLawful p.eops Good) (code : Listing.Code) (hwf : WF code) (ui : UI σ)
    (h : Reachable p code ui) (inp : Input) :
    uiStep p ui inp ≠ .panic ∧
    ∀ a ui' rest, uiStep p ui inp = .cont a ui' rest →
      rest.length < inp.length ∧ (a = .skipped ↔ inp.head? = some []) := by
  have hs := uiStep_safe p hl he ui (reachable_inv p hl he code hwf ui h) inp
  refine ⟨fun hp => by rw [hp] at hs; exact hs, fun a ui' rest hc => ?_⟩
  rw [hc] at hs
  exact hs.2

/-- the empty line is ignored: nothing changes, one line is consumed -/
theorem empty_line_ignored {σ : Type} (p : Params σ) (ui : UI σ) (rest : Input) :
    uiStep p ui ([] :: rest) = .cont .skipped ui rest := rfl

/-- the end of the input is reported, not a panic -/
theorem end_of_input {σ : Type} (p : Params σ) (ui : UI σ) : uiStep p ui [] = .eof .command := rfl

/-- a call starves only in the value prompts of `step` and `regmod` of the emulator mode … -/
theorem hang_only_in_value_prompts {σ : Type} {Good : σ → Prop} (p : Params σ) (hl : Lawful p.cops)
    (he : EmuLawful p.eops Good) (code : Listing.Code) (hwf : WF code) (ui : UI σ)
    (h : Reachable p code ui) (inp : Input) (hh : uiStep p ui inp = .hang) :
    ∃ top below line rest cmd args, ui.stack = top :: below ∧ inp = line :: rest ∧
      parseCommand top.cmdMap line = .ok cmd args ∧ (cmd.act = .eStep ∨ cmd.act = .eRegmod) ∧
      runAct p top below cmd.act args rest = .hang :=
  uiStep_hang p hl he ui (reachable_inv p hl he code hwf ui h) inp hh

/-- … and a value prompt starves exactly when the input ends before a line arrives that `readValue`
accepts (every second line is shown to it: a rejected line is followed by an acknowledgement) -/
theorem prompt_hang_iff (w : Nat) (inp : Input) : readValueNoErr w inp = .hang ↔ Starved w inp :=
  readValueNoErr_hang_iff w inp

/-- a value prompt never panics (C30) and consumes what it reads -/
theorem prompt_never_panics (w : Nat) (hw : w ≤ 255) (inp : Input) : readValueNoErr w inp ≠ .panic := by
  have := readValueNoErr_safe w hw inp
  intro hp
  rw [hp] at this
  exact this

/-- **Whole sessions never panic**: the loop of `UI.Run` over any script, from any reachable state, ends
by `quit`, at the end of the input, or in a starving value prompt — never in a panic (and the fuel of
the model, one round per input line, suffices) -/
theorem session_never_panics {σ : Type} {Good : σ → Prop} (p : Params σ) (hl : Lawful p.cops)
    (he : EmuLawful p.eops Good) (code : Listing.Code) (hwf : WF code) (ui : UI σ)
    (h : Reachable p code ui) (inp : Input) :
    session p ui inp = .exited ∨ (∃ a, session p ui inp = .eof a) ∨ session p ui inp = .hang :=
  session_safe p hl he ui (reachable_inv p hl he code hwf ui h) inp

/-- **The screen of every reachable state prints without a panic**, for every height (C24 for the
views, C32 for the rows of the memory view) -/
theorem view_prints {σ : Type} {Good : σ → Prop} (p : Params σ) (hl : Lawful p.cops)
    (he : EmuLawful p.eops Good) (code : Listing.Code) (hwf : WF code) (ui : UI σ)
    (h : Reachable p code ui) (n : Nat) :
    (renderTop p.eops ui n).status ≠ .panic ∧ (renderTop p.eops ui n).status ≠ .outOfFuel :=
  renderTop_safe p.eops he ui (reachable_inv p hl he code hwf ui h) n

/-- the assumption on the code operations is satisfiable (C23) -/
theorem refOps_lawful : Lawful Listing.refOps := Lemmas.Listing.refOps_lawful

/-! ### the two defects of the pinned code -/

/-- F20: the pinned `parseCommand` panics on every line of spaces, in every mode -/
theorem F20_pinned (m : CmdMap) (n : Nat) : parseCommandPinned m (List.replicate n 0x20) = .panic :=
  pinned_F20 m n

/-- the command map of a mode (`[]` cannot happen: `newCmdMap_isSome`) -/
def mapOf (k : UI.Kind) : CmdMap := (newCmdMap (commandsOf k)).getD []

/-- F43: a surplus word after a command without optional arguments: `goto 1 2`, `quit now`, `s 1`,
`a 5 6` make the pinned `parseCommand` panic; repaired they are answered with an error; `find a b`
(optional words) is accepted by both -/
example : parseCommandPinned (mapOf .dis) (b "goto 1 2") = .panic ∧ parseCommand (mapOf .dis) (b "goto 1 2") = .err
    ∧ parseCommandPinned (mapOf .dis) (b "quit now") = .panic ∧ parseCommand (mapOf .dis) (b "quit now") = .err
    ∧ parseCommandPinned (mapOf .emu) (b "s 1") = .panic ∧ parseCommand (mapOf .emu) (b "s 1") = .err
    ∧ parseCommandPinned (mapOf .mem) (b "a 5 6") = .panic ∧ parseCommand (mapOf .mem) (b "a 5 6") = .err := by
  decide

example : parseCommandPinned (mapOf .dis) (b "   ") = .panic ∧ parseCommand (mapOf .dis) (b "   ") = .err := by
  decide

/-! ### non-vacuity -/

/-- what `parseCommand` makes of a line in a mode: the action and the arguments; `none` = an error -/
def parsed (k : UI.Kind) (line : String) : Option (Act × List ArgVal) :=
  match parseCommand (mapOf k) (b line) with
  | .ok c args => some (c.act, args)
  | _ => none

example : parsed .dis "  goto   12 " = some (.dGoto, [.num 12])
    ∧ parsed .dis "/ add x1,  x2" = some (.dFind, [.str (b "add"), .str (b "x1, x2")])
    ∧ parsed .dis "goto" = none
    ∧ parsed .dis "goto 9223372036854775808" = none
    ∧ parsed .dis "goto 9223372036854775807" = some (.dGoto, [.num 9223372036854775807])
    ∧ parsed .dis "goto -1" = none ∧ parsed .dis "goto -0" = some (.dGoto, [.num 0])
    ∧ parsed .dis "goto +7" = some (.dGoto, [.num 7])
    ∧ parsed .dis "GOTO 1" = none ∧ parsed .dis "\tgoto 1" = none ∧ parsed .dis "got 1" = none
    ∧ parsed .dis "q" = some (.quit, []) ∧ parsed .emu "h" = some (.help, [])
    ∧ parsed .emu "m memory" = some (.eMemory, [.str (b "memory")])
    ∧ parsed .mem "a 0x10" = some (.mAddress, [.addr 16]) ∧ parsed .mem "a 5x" = none := by
  decide

/-- a toy emulator: the state is the instruction pointer; a step asks for one 8-byte value and moves 4
bytes on; register `x1` is set, 8 bytes wide; there is no memory -/
def toyOps : EmuOps Nat where
  init _ ip := ip
  ip s := some s
  step s := if s < 24 then .ask 8 fun _ => .done (s + 4) else .fail s
  regWidth _ k := if k = b "x1" then some 8 else none
  regStore s _ _ := s
  mem _ _ := none
  regs _ := [⟨Render.ipKey, 8⟩, ⟨"x1", 8⟩]

/-- the assumptions on the emulator are satisfiable -/
theorem toyOps_lawful : EmuLawful toyOps (fun _ => True) where
  init_good _ _ := trivial
  ip_some _ _ := rfl
  step_safe s _ := by
    show TreeSafe _ (if s < 24 then _ else _)
    split
    · exact .ask (by omega) fun _ => .done trivial
    · exact .fail trivial
  store_good _ _ _ _ := trivial
  width_byte s k w _ h := by
    simp only [toyOps] at h
    split at h
    · cases h; omega
    · cases h
  regs_oneIP _ _ := by
    show ([⟨Render.ipKey, 8⟩, ⟨"x1", 8⟩].filter Lemmas.Render.isIP).length ≤ 1
    decide
  mem_ok _ _ _ _ h := by simp [toyOps] at h

def toy : Params Nat := ⟨Listing.refOps, toyOps, fun _ => some fun t => t == "Block 2: 0x20"⟩

/-- two blocks: `a`,`b` at 0x10 (entry point), and `c` at 0x20; 7 lines -/
def exCode : Listing.Code := ⟨16, [
  ⟨0, 16, 24, [⟨"a", [0x1f, 2], 0, 16, 0, 0⟩, ⟨"b", [3], 1, 20, 1, 1⟩]⟩,
  ⟨1, 32, 36, [⟨"c", [0xab], 0, 32, 0, 0⟩]⟩]⟩

def start : UI Nat := (UI.init exCode).getD ⟨[]⟩

/-- what a script does: the answer and the depth of the mode stack after every call, and how it ends -/
def trace : Nat → UI Nat → Input → List (Answer × Nat) × Final
  | 0, _, _ => ([], .outOfFuel)
  | f + 1, ui, inp =>
    match uiStep toy ui inp with
    | .cont a ui' rest => let r := trace f ui' rest; ((a, ui'.stack.length) :: r.1, r.2)
    | .exited _ => ([], .exited)
    | .eof w => ([], .eof w)
    | .hang => ([], .hang)
    | .panic => ([], .panic)

def script (ls : List String) : Input := ls.map b

-- all-space line, unknown command, emulate on a header (error), goto an instruction, emulate, step with a
-- rejected and an accepted value, regmod, memory view of an unknown key, errors there, quit three times
example : trace 40 start (script [" ", "", "foo", "", "e", "", "g 1", "e", "s", "zz", "", "0x10", "regmod x1", "-1",
      "regmod x9", "", "m nokey", "d 1", "", "a 5 6", "", "q", "", "q", "", "q", ""]) =
    ([(.error, 1), (.error, 1), (.error, 1), (.executed, 1), (.executed, 2), (.executed, 2), (.executed, 2),
      (.error, 2), (.executed, 3), (.error, 3), (.error, 3), (.left, 2), (.left, 1)], .exited) := by
  decide

-- the end of the input: after a command, in an acknowledgement, in `quit`, in a value prompt
example : (trace 9 start (script ["g 1"])).2 = .eof .command
    ∧ (trace 9 start (script ["foo"])).2 = .eof .ack
    ∧ (trace 9 start (script ["q"])).2 = .eof .quitAck
    ∧ (trace 9 start (script ["g 1", "e", "s", "zz"])).2 = .hang
    ∧ (trace 9 start (script ["g 1", "e", "s"])).2 = .hang := by
  decide

-- find with optional words, no match (message + ENTER), block move, entrypoint, emulate there
example : trace 20 start (script ["find Block 2:  0x20", "f nothing", "", "move 0 4", "entry", "e", "s", "1", "q", "",
      "q", ""]) =
    ([(.executed, 1), (.executed, 1), (.executed, 1), (.executed, 1), (.executed, 2), (.executed, 2), (.left, 1)],
      .exited) := by
  decide

example : WF exCode := by
  refine ⟨fun i blk h => ?_, fun blk hb i x h => ?_, fun blk hb x hx => ?_⟩
  · rcases i with _ | _ | i <;> simp [exCode] at h <;> subst h <;> rfl
  · simp only [exCode, List.mem_cons, List.not_mem_nil, or_false] at hb
    rcases hb with rfl | rfl
    · rcases i with _ | _ | i <;> simp at h <;> subst h <;> rfl
    · rcases i with _ | i <;> simp at h; subst h; rfl
  · simp only [exCode, List.mem_cons, List.not_mem_nil, or_false] at hb
    rcases hb with rfl | rfl <;> simp at hx
    · rcases hx with rfl | rfl <;> decide
    · subst hx; decide

end Mltwist.Props.C22
