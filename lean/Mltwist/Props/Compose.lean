import Mltwist.Lemmas.ComposeStartup
import Mltwist.Lemmas.ComposeListingRun
import Mltwist.Lemmas.ComposeUI
import Mltwist.Lemmas.ComposeUICoupled
import Mltwist.Lemmas.ComposeAddr
import Mltwist.Props.C03
import Mltwist.Props.C23
import Mltwist.Props.C31
/-
COMPOSITION — end-to-end corollaries across the component slices.

The property files `Props/Cnn.lean` were written one per component, in parallel; several of their theorems carry
ASSUMPTIONS that are theorems of another slice, or are stated over a stand-in for a component that has a real
model elsewhere.  This file instantiates the stand-ins with the real models and discharges those assumptions.
The bridge lemmas between the vocabularies of two slices live in `Lemmas/Compose*.lean`.

Vocabulary (all in `Lemmas/Compose*.lean`, namespace `Mltwist.Lemmas.Compose`):
* `rawOf is`            the `Raw` instructions (C07) that `deps.NewCode` receives for the parser's `is` (C21);
* `codeViewOf c`        the `Emulator.CodeView` (C03) of a `Deps.Code` (C05/C06/C07): its instructions in address
                        order with their CURRENT addresses, lengths and effects;
* `instruction c ip`    the body of `Emulator.instruction`: `Code.Address ip`, then `Block.Address ip` on the real
                        dependency model (`none` = a Go panic, `some none` = the "cannot find" error);
* `Started lim w code mem is c bs`   start-up reached the UI with these intermediate results (C26).

SEAM 5 (C21 ⇒ C08 ⇒ C07): `parsed_is_wellformed`, `newCode_establishes_inv`, `history_inv`.
SEAM 4 (C26 over the real `Deps.newCode`): `startup_real_eq`, `startup_real_total`, `startup_ui_started`.
SEAM 1 (C03 over the real code model): `lookup_exact`, `code_view_is_lifting`, `emulator_refines`,
        `emulator_refines_after_startup`.
SEAM 2 (C22 over the real code model and the real emulator): `memory_coherence`, `real_emulator_lawful`,
        `step_at_the_top_is_an_error`, `session_never_panics_real`, `session_never_panics_after_startup`,
        `view_prints_real`, `session_invariants`, `ui_listing_reflects_real_code`,
        `ui_emulator_runs_on_current_code`.  All of them are about the emulator AS IT IS: since the repair of F45
        (`Step` returns an error when an access leaves the address space) `Emulator.step` never panics from a good
        state (C03 `never_panics_step`, unconditional in the accesses), so the former "scoped" emulator, the
        counterexample `step_never_panics_is_false` and the escape clause `session_panics_only_out_of_domain`
        (`SessionOOD`) are gone.
        More vocabulary: `ofMem m` the `MemView.Mem` of a stack of memories; `ESt` the emulator object;
        `emuOps bs cv` the emulator parameter; `EGood`; `paramsAt`; `RUI`, `realSession`.
SEAM 3 (C23/C31 over the real code model): `real_ops_lawful`, `real_step_tracks`, `listing_reflects_real_code`,
        `rejected_changes_nothing_real`, `navigation_lands_real`, `entrypoint_lands_real`, `noTop_real`.
        More vocabulary: `listingOf info c` the `Listing.Code` a `Deps.Code` shows; `opsAt info c` the code
        operations at the real state `c`; `nextDeps c st cmd` the real state after a command; `RSt`/`realStep`/
        `realRun`/`RInv` the disassembler mode over the real model.
-/
namespace Mltwist.Props.Compose
open Mltwist Mltwist.State Mltwist.Overlay Mltwist.Emulator Mltwist.Riscv
open Mltwist.Spec.Rv Mltwist.Spec.Lift
open Mltwist.Lemmas.Emulator Mltwist.Lemmas.Compose Mltwist.Lemmas.Deps

/-! ### seam 5: parse ⇒ well-formed (C08) ⇒ invariant of the dependency model (C07) -/

/-- C21 ⇒ C08.  `parse image = ok is` on a tidy image (C20: what `MachineCode` returns) ⇒ the instructions handed
to `deps.NewCode` are well formed in the sense of C08 = the `WF` that C07 assumes -/
theorem parsed_is_wellformed {image : List Elf.Block} (ht : Elf.Spec.Tidy image)
    {is : List (Parse.Ins (Riscv.Entry × Riscv.Ins))} (h : Parse.parseRv64 image = .ok is) :
    Props.C07.WF (rawOf is) ∧ BasicBlock.Spec.WF (toBB (rawOf is)) :=
  ⟨(wf_of_parse ht h).1, (wf_of_parse ht h).1⟩

/-- … ⇒ C07: the code `deps.NewCode` builds satisfies `CInv` (`Props.C07.inv_initial` without its `WF` premise) -/
theorem newCode_establishes_inv {image : List Elf.Block} (ht : Elf.Spec.Tidy image)
    {is : List (Parse.Ins (Riscv.Entry × Riscv.Ins))} (h : Parse.parseRv64 image = .ok is) (entry : Nat)
    (c : Deps.Code) (hc : Deps.newCode entry (rawOf is) = .ok c) : CInv c :=
  inv_of_parse ht h entry c hc

/-- … and after any history of instruction moves, block moves and queries (`Props.C07.inv_history` without its
`WF` premise) -/
theorem history_inv {image : List Elf.Block} (ht : Elf.Spec.Tidy image)
    {is : List (Parse.Ins (Riscv.Entry × Riscv.Ins))} (h : Parse.parseRv64 image = .ok is) (entry : Nat)
    (c0 : Deps.Code) (hc : Deps.newCode entry (rawOf is) = .ok c0) (ops : List Deps.Op) :
    CInv (c0.run ops) ∧ (c0.run ops).view.Inv ∧ SameCode c0 (c0.run ops) :=
  Props.C07.inv_history entry (rawOf is) (wf_of_parse ht h).1 c0 hc ops

/-- `deps.NewCode` cannot panic on what the parser returns -/
theorem newCode_never_panics {image : List Elf.Block} (ht : Elf.Spec.Tidy image)
    {is : List (Parse.Ins (Riscv.Entry × Riscv.Ins))} (h : Parse.parseRv64 image = .ok is) (entry : Nat) :
    Deps.newCode entry (rawOf is) ≠ .error .panic :=
  Props.C07.newCode_never_panics entry (rawOf is) (wf_of_parse ht h).1

/-! ### seam 4: start-up over the real dependency model -/

/-- C26's `run` uses C08's model of `deps.NewCode`; with C07's (`Deps.newCode`, which also builds the block
objects and runs the dependency finders) the outcome is the same, for every argument count and every view -/
theorem startup_real_eq (lim nargs : Nat) (v : Option Elf.View) (hv : ∀ w, v = some w → Elf.Spec.ViewOK w) :
    runReal lim nargs v = Startup.run lim nargs v :=
  runReal_eq lim nargs v hv

/-- C26 restated over the real dependency model -/
theorem startup_real_total (lim nargs : Nat) (v : Option Elf.View) (hv : ∀ w, v = some w → Elf.Spec.ViewOK w)
    (hlim : ∀ w, v = some w → ∀ p ∈ w.progs, p.typ = 1 → p.memsz ≤ lim) :
    runReal lim nargs v = .ui ∨ ∃ s, runReal lim nargs v = .exit1 s := by
  rw [startup_real_eq lim nargs v hv]
  exact Props.C26.run_total lim nargs v hv hlim

/-- reaching the UI means that every stage produced its result: tidy images (C20), instructions (C21), the
dependency model (C08/C07) and the byte memory (C15) -/
theorem startup_ui_started (lim nargs : Nat) (v : Option Elf.View) (hv : ∀ w, v = some w → Elf.Spec.ViewOK w)
    (h : Startup.run lim nargs v = .ui) :
    nargs = 1 ∧ ∃ w code mem is c bs, v = some w ∧ Started lim w code mem is c bs :=
  run_ui_inv lim nargs v hv h

/-! ### seam 1: C03 over the real code model -/

/-- `LookupExact` (the assumption of C03) is a theorem of C07: on every `Deps.Code` satisfying the invariant —
initially and after any history of moves — `Code.Address` + `Block.Address` do not panic and return exactly the
instruction the emulator model looks up in the code view -/
theorem lookup_exact (c : Deps.Code) (hc : CInv c) (ip : Nat) :
    (instruction c ip).map (·.map emuOf) = some ((codeViewOf c).lookup ip) :=
  instruction_exact c hc ip

/-- "the instructions of `deps.Code` are `liftCode` of the image's code blocks" (the second assumption of C03) is
a theorem of C21 + C08 + C07: before any move, the code view of the dependency model is the list of the parser's
instructions, which is `liftCode image` -/
theorem code_view_is_lifting {image : List Elf.Block} (ht : Elf.Spec.Tidy image)
    {is : List (Parse.Ins (Riscv.Entry × Riscv.Ins))} (h : Parse.parseRv64 image = .ok is) (entry : Nat)
    (c : Deps.Code) (hc : Deps.newCode entry (rawOf is) = .ok c) :
    liftCode image = some (codeViewOf c) ∧ BlocksOK image ∧ CodeWF (codeViewOf c) :=
  have h1 := (codeViewOf_newCode ht h entry c hc).2
  ⟨h1, blocksOK_of_fits ht.1, codeWF_of_liftCode h1⟩

/-- C03's `Statement` with `LookupExact`, `liftCode blocks = some code` and `BlocksOK` discharged.
For every tidy code image that the parser accepts and every entry point for which `deps.NewCode` succeeds, the
emulator over the code view of the REAL dependency model refines the reference machine: for all related start
states and every `n`, if during the first `n` steps of the reference machine on its own memory the code blocks stay
intact, the accesses stay below `2^64` and (before step `n`) `Emulator.instruction` — `Code.Address` +
`Block.Address` on the dependency model — finds an instruction at `pc`, then the emulator makes `n` successful
steps and is related to the reference state; its next step is the error if the lookup on the dependency model
fails at `pc`, and otherwise succeeds with the report `specReport ρ effects` of the instruction found. -/
theorem emulator_refines (p : Provider) {image : List Elf.Block} (ht : Elf.Spec.Tidy image)
    {is : List (Parse.Ins (Riscv.Entry × Riscv.Ins))} (h : Parse.parseRv64 image = .ok is) (entry : Nat)
    (c : Deps.Code) (hc : Deps.newCode entry (rawOf is) = .ok c) (σ0 : St) (s0 : State)
    (hR : R p (codeViewOf c) σ0 s0) (n : Nat) (σn : St)
    (h1 : ∀ k σk, k ≤ n → refRun k σ0 = some σk → Intact image σk ∧ InScope σk)
    (h2 : ∀ k σk, k < n → refRun k σ0 = some σk → instruction c σk.pc ≠ some none)
    (hrun : refRun n σ0 = some σn) :
    ∃ sn, stateAfter p (codeViewOf c) n s0 = some sn ∧ R p (codeViewOf c) σn sn ∧
      (instruction c σn.pc = some none → step p (codeViewOf c) sn = .err) ∧
      (∀ i, instruction c σn.pc = some (some i) →
        ∃ s' log ρ, Rel ρ σn ∧ step p (codeViewOf c) sn = .ok s' (specReport ρ i.effects) log) := by
  have hinv := inv_of_parse ht h entry c hc
  obtain ⟨hl, hok, _⟩ := code_view_is_lifting ht h entry c hc
  obtain ⟨sn, g1, g2, g3, g4⟩ := Props.C03.statement p image (codeViewOf c) σ0 s0 hok hl hR n σn h1
    (fun k σk hk hr hnone => h2 k σk hk hr ((lookup_none_iff c hinv _).1 hnone)) hrun
  refine ⟨sn, g1, g2, fun hn => g3 ((lookup_none_iff c hinv _).2 hn), fun i hi => ?_⟩
  exact g4 (emuOf i) ((lookup_some_iff c hinv _ _).2 ⟨i, hi, rfl⟩)

/-- THE END-TO-END STATEMENT OF C03.  For every argument count and every `debug/elf` view of a file such that
start-up succeeds (C26's outcome `ui`): the file was loaded, parsed and turned into a dependency model `c`
satisfying C07's invariant and a byte memory `bs`; and for every provider that answers consistently with one
machine state (`ProviderFor`) and every pre-set register file, the emulator the tool creates — over the code view
of `c`, starting at the entry point on `Overlay(Bytes(bs), Sparse)` — refines the reference RISC-V machine that
starts from "pre-set value / image byte, otherwise the provider's answer", in the sense of `emulator_refines`.

What is still assumed is C03's scope only: the 64-bit start values (`hwf`), and along the reference run `Intact`
(at `k = 0`: the loaded memory image contains the code sections; later: the program does not modify its code)
and `InScope` (accesses below the top of the address space). -/
theorem emulator_refines_after_startup (lim nargs : Nat) (v : Option Elf.View)
    (hv : ∀ w, v = some w → Elf.Spec.ViewOK w) (hui : Startup.run lim nargs v = .ui) :
    ∃ w code mem is c bs, v = some w ∧ Started lim w code mem is c bs ∧ CInv c ∧
      liftCode code = some (codeViewOf c) ∧
      ∀ (p : Provider) (V : String → Nat) (B : String → Nat → Nat) (pre : List (String × List UInt8)),
        ProviderFor p (codeViewOf c) V B →
        (∀ k, (startEnv (toolState pre bs) V B).reg k < 2 ^ 64) →
        ∀ (n : Nat) (σn : St),
          (∀ k σk, k ≤ n → refRun k (stOf (startEnv (toolState pre bs) V B) w.entry) = some σk →
            Intact code σk ∧ InScope σk) →
          (∀ k σk, k < n → refRun k (stOf (startEnv (toolState pre bs) V B) w.entry) = some σk →
            instruction c σk.pc ≠ some none) →
          refRun n (stOf (startEnv (toolState pre bs) V B) w.entry) = some σn →
          ∃ sn, stateAfter p (codeViewOf c) n (Emulator.new w.entry (toolState pre bs)) = some sn ∧
            R p (codeViewOf c) σn sn ∧
            (instruction c σn.pc = some none → step p (codeViewOf c) sn = .err) ∧
            (∀ i, instruction c σn.pc = some (some i) →
              ∃ s' log ρ, Rel ρ σn ∧ step p (codeViewOf c) sn = .ok s' (specReport ρ i.effects) log) := by
  obtain ⟨_, w, code, mem, is, c, bs, rfl, hs⟩ := run_ui_inv lim nargs v hv hui
  refine ⟨w, code, mem, is, c, bs, rfl, hs, inv_of_parse hs.code_tidy hs.parsed _ c hs.built,
    (codeViewOf_newCode hs.code_tidy hs.parsed _ c hs.built).2, ?_⟩
  intro p V B pre hp hwf n σn h1 h2 hrun
  have he : w.entry < 2 ^ 64 := entry_lt w.entry is (wf_of_parse hs.code_tidy hs.parsed).1 c hs.built
  have hR := Props.C03.tool_start_related hp pre hs.bytes w.entry he hwf
  exact emulator_refines p hs.code_tidy hs.parsed w.entry c hs.built _ _ hR n σn h1 h2 hrun

/-! ### seam 3: the listing (C23) and the navigation commands (C31) over the real dependency model -/

/-- `Spec.Lawful` — the assumption of C22/C23/C31 on the code model underneath — holds for the operations of the
REAL dependency model at every state satisfying C07's invariant: an accepted `Block.Move` keeps all other blocks
and permutes the instructions of that block, an accepted `Code.Move` permutes the blocks, `Idx()` is the position
afterwards, the entry point is constant, the bounds are positions (C05/C06/C07 ⇒ the premise of C23/C31) -/
theorem real_ops_lawful (info : Info) {c : Deps.Code} (hc : CInv c) :
    Listing.Spec.Lawful (opsAt info c) ∧ Listing.Spec.WF (listingOf info c) :=
  ⟨opsAt_lawful info hc, listingOf_wf info hc⟩

/-- … and they ARE the real operations on the only argument the listing passes while the real state is `c` -/
theorem real_ops_are_real (info : Info) (c : Deps.Code) :
    (∀ k s d, (opsAt info c).moveIns (listingOf info c) k s d = (realMoveIns c k s d).map (listingOf info)) ∧
    (∀ s d, (opsAt info c).moveBlock (listingOf info c) s d = (realMoveBlock c s d).map (listingOf info)) :=
  ⟨opsAt_moveIns info c, opsAt_moveBlock info c⟩

/-- COUPLING: every command of the disassembler mode, executed on a listing state that shows the real code `c`,
ends in a listing state that shows the real successor `nextDeps c st cmd` (which `move` computes by
`code.Move` / `code.Index(b).Move` on the dependency model, and every other command leaves alone) -/
theorem real_step_tracks (info : Info) (r : RSt) (hr : RInv info r) (cmd : Listing.Cmd)
    (hv : Listing.Spec.ValidCmd r.st.lines.lines.length cmd) :
    ∃ s r', realStep info r cmd = some (s, r') ∧ RInv info r' ∧ SameCode r.deps r'.deps ∧
      r'.deps = nextDeps r.deps r.st cmd := by
  obtain ⟨s, r', h, hi, hs, _, _⟩ := realStep_spec info r hr cmd hv
  refine ⟨s, r', h, hi, hs, ?_⟩
  unfold realStep at h
  cases hst : Listing.step (opsAt info r.deps) r.st cmd with
  | none => rw [hst] at h; cases h
  | some p => rw [hst] at h; cases h; rfl

/-- C23 OVER THE REAL CODE.  After any history of commands (accepted and rejected instruction and block moves,
bounds, navigation) on the code `deps.NewCode` built (any `Deps.Code` satisfying C07's invariant): nothing has
panicked; the real code still satisfies the invariant and has its instructions, edges and block ranges; and the
listing equals — apart from the marks — the fresh rendering of the view of the CURRENT real code, `Lines.Line`
gives the row of every instruction, the number of lines never changes. -/
theorem listing_reflects_real_code (info : Info) (c0 : Deps.Code) (hc : CInv c0) (cmds : List Listing.Cmd)
    (hv : ∀ x ∈ cmds, Listing.Spec.ValidCmd (Listing.newLines (listingOf info c0)).lines.length x) :
    ∃ r, realRun info (RSt.init info c0) cmds = some r ∧ CInv r.deps ∧ SameCode c0 r.deps ∧
      r.st.code = listingOf info r.deps ∧
      Listing.Spec.shown r.st.lines = Listing.Spec.rows (listingOf info r.deps) ∧
      (∀ (k : Nat) (b : Listing.Block), (listingOf info r.deps).blocks[k]? = some b →
        ∀ i, r.st.lines.line b i = some (Listing.Spec.lineOf (listingOf info r.deps) k i)) ∧
      r.st.lines.lines.length = (Listing.Spec.rows (listingOf info c0)).length := by
  obtain ⟨r, h, hi, hs, hl⟩ := realRun_spec info (RSt.init info c0) (rinv_init info hc) cmds hv
  have hsh := Lemmas.Listing.inv_shows r.st hi.listing
  rw [hi.coupled] at hsh
  refine ⟨r, h, hi.deps, hs, hi.coupled, hsh.1, hsh.2, ?_⟩
  rw [hl]
  show (Listing.newLines (listingOf info c0)).lines.length = _
  rw [← Lemmas.Listing.shown_newLines _ (listingOf_wf info hc)]
  simp [Listing.Spec.shown]

/-- … with the code taken from the start-up chain: parse (C21) ⇒ `deps.NewCode` (C08/C07) ⇒ listing (C23) -/
theorem listing_reflects_parsed_code (info : Info) {image : List Elf.Block} (ht : Elf.Spec.Tidy image)
    {is : List (Parse.Ins (Riscv.Entry × Riscv.Ins))} (h : Parse.parseRv64 image = .ok is) (entry : Nat)
    (c0 : Deps.Code) (hc : Deps.newCode entry (rawOf is) = .ok c0) (cmds : List Listing.Cmd)
    (hv : ∀ x ∈ cmds, Listing.Spec.ValidCmd (Listing.newLines (listingOf info c0)).lines.length x) :
    ∃ r, realRun info (RSt.init info c0) cmds = some r ∧ CInv r.deps ∧ SameCode c0 r.deps ∧
      Listing.Spec.shown r.st.lines = Listing.Spec.rows (listingOf info r.deps) := by
  obtain ⟨r, h1, h2, h3, _, h5, _⟩ := listing_reflects_real_code info c0 (inv_of_parse ht h entry c0 hc) cmds hv
  exact ⟨r, h1, h2, h3, h5⟩

/-- C23 `rejected_changes_nothing` over the real code: no command panics, and a command that does not report
success — in particular a move the dependency model rejects — changes neither the shown listing, nor the cursor,
nor the REAL code -/
theorem rejected_changes_nothing_real (info : Info) (r : RSt) (hr : RInv info r) (cmd : Listing.Cmd)
    (hv : Listing.Spec.ValidCmd r.st.lines.lines.length cmd) :
    ∃ s r', realStep info r cmd = some (s, r') ∧
      (s ≠ .ok → Listing.Spec.shown r'.st.lines = Listing.Spec.shown r.st.lines ∧ r'.st.cursor = r.st.cursor ∧
        listingOf info r'.deps = listingOf info r.deps) := by
  obtain ⟨s, r', h, hi, _, _, hu⟩ := realStep_spec info r hr cmd hv
  refine ⟨s, r', h, fun hs => ?_⟩
  obtain ⟨h1, h2, h3⟩ := hu hs
  exact ⟨h1, h3, by rw [← hi.coupled, ← hr.coupled, h2]⟩

/-- C31 over the real code: in every state of the composed system the navigation commands do not panic, change
nothing but the cursor (in particular not the real code) and land where the specification says — `goto`, `find`
and (without assumptions on addresses) `entrypoint`, whose target is the row of an instruction of the CURRENT real
code whose current address is the entry point -/
theorem navigation_lands_real (info : Info) (r : RSt) (hr : RInv info r) :
    (∀ n, ∃ s st', Listing.step (opsAt info r.deps) r.st (.goto n) = some (s, st') ∧ st'.code = r.st.code ∧
      Listing.Spec.Lands (Listing.Spec.expectGoto r.st.lines.lines.length n) (s = .ok) r.st.cursor.value
        st'.cursor.value) ∧
    (∀ ms, Listing.Spec.ValidCmd r.st.lines.lines.length (.find ms) →
      ∃ s st', Listing.step (opsAt info r.deps) r.st (.find ms) = some (s, st') ∧ st'.code = r.st.code ∧
      Listing.Spec.Lands (Listing.Spec.expectFind ms r.st.lines.lines.length r.st.cursor.value) (s = .ok)
        r.st.cursor.value st'.cursor.value) ∧
    (∃ s st', Listing.step (opsAt info r.deps) r.st .entrypoint = some (s, st') ∧ st'.code = r.st.code ∧
      ((s = .ok ∧ ∃ (k j : Nat) (b : Listing.Block) (x : Listing.Ins),
          (listingOf info r.deps).blocks[k]? = some b ∧ b.ins[j]? = some x ∧
          x.addr = r.deps.entry ∧ st'.cursor.value = Listing.Spec.lineOf (listingOf info r.deps) k j) ∨
       (s ≠ .ok ∧ st'.cursor = r.st.cursor))) := by
  refine ⟨fun n => ?_, fun ms hms => ?_, ?_⟩
  · obtain ⟨s, st', h1, k, h2⟩ := Lemmas.Listing.goto_spec (opsAt info r.deps) r.st hr.listing n
    exact ⟨s, st', h1, k.code, h2⟩
  · obtain ⟨s, st', h1, k, h2⟩ := Lemmas.Listing.find_spec (opsAt info r.deps) r.st hr.listing ms
      (fun v hv => by subst hv; exact hms)
    exact ⟨s, st', h1, k.code, h2⟩
  · obtain ⟨s, st', h1, k, h2⟩ := Lemmas.Listing.entry_sound (opsAt info r.deps) r.st hr.listing
    refine ⟨s, st', h1, k.code, ?_⟩
    rcases h2 with ⟨hs, ⟨k', j, b, x, a1, a2, a3, a4⟩, _⟩ | ⟨hs, hst, _⟩
    · rw [hr.coupled] at a1 a3 a4
      exact Or.inl ⟨hs, k', j, b, x, a1, a2, a3, a4⟩
    · exact Or.inr ⟨hs, by rw [hst]⟩

/-- C31 `entrypoint_lands` over the real code WITHOUT its assumption `AddrWF` ("concerns the code model
underneath"): for the view of a real code satisfying C07's invariant, none of whose blocks ends at `2^64`, the
address assumptions are theorems (`addrWF_listingOf`), so `entrypoint` puts the cursor on the row of THE instruction
of the current real code whose current address is the entry point, or fails and changes nothing when there is none -/
theorem entrypoint_lands_real (info : Info) (r : RSt) (hr : RInv info r) (hn : NoTop r.deps) :
    Listing.Spec.AddrWF (listingOf info r.deps) ∧
    ∃ s st', Listing.step (opsAt info r.deps) r.st .entrypoint = some (s, st') ∧ st'.lines = r.st.lines ∧
      st'.code = r.st.code ∧
      Listing.Spec.Lands (Listing.Spec.expectEntry (listingOf info r.deps)) (s = .ok) r.st.cursor.value
        st'.cursor.value := by
  have ha := addrWF_listingOf info hr.deps hn
  refine ⟨ha, ?_⟩
  obtain ⟨s, st', h1, k, h2⟩ := Lemmas.Listing.entry_spec (opsAt info r.deps) r.st hr.listing (hr.coupled ▸ ha)
  rw [hr.coupled] at h2
  exact ⟨s, st', h1, k.lines, k.code, h2⟩

/-- `NoTop` holds for the code start-up builds (C20 `Fits`: no section reaches `2^64`) and is kept by every
history of moves -/
theorem noTop_real {image : List Elf.Block} (ht : Elf.Spec.Tidy image)
    {is : List (Parse.Ins (Riscv.Entry × Riscv.Ins))} (h : Parse.parseRv64 image = .ok is) (entry : Nat)
    (c0 : Deps.Code) (hc : Deps.newCode entry (rawOf is) = .ok c0) (ops : List Deps.Op) :
    NoTop (c0.run ops) := by
  have h0 := inv_of_parse ht h entry c0 hc
  obtain ⟨h1, h2⟩ := h0.run ops
  exact noTop_sameCode h0 h1 h2 (noTop_of_parse ht h entry c0 hc)

/-! ### seam 2: C22 over the real dependency model and the real emulator -/

open Mltwist.UI Mltwist.Lemmas.UI in
/-- THE COHERENCE of byte memory and sparse memory (and any overlay of them) with the memory view: what the NOTES
of C22 list as "not composed anywhere yet".  If every layer satisfies its invariant (C14 `Sparse.Inv`, C15
`BytesSpec.Inv`; C16 `Mem.Inv`), stores constants and no present byte sits at `2^64 - 1`, then the memory the
memory view reads (`ofMem`) is coherent in the sense of C32 with the layered byte map of C16: `Blocks()` is a
normal, bounded list of exactly the present addresses and every present address loads as its byte -/
theorem memory_coherence (m : Overlay.Mem) (hinv : m.Inv) (hc : AllConst m) (hb : PresentBounded m.abs) :
    ∃ bl, Lemmas.MemView.NormalR bl ∧ Lemmas.MemView.Bounded bl ∧
      Lemmas.MemView.Coh (ofMem m) bl (memBytes m) ∧ ∀ a, Lemmas.MemView.MemR a bl ↔ m.abs a ≠ none :=
  ofMem_coh m hinv hc hb

open Mltwist.UI Mltwist.Lemmas.UI in
/-- EVERY ASSUMPTION OF C22 ON THE EMULATOR (`EmuLawful`) is a theorem for the real emulator model AS IT IS:
`step_safe` (C03 `never_panics_step`: no panic whatever the instruction accesses — REPAIR F45), `ip_some` (C03/C04),
`width_byte` (`expr.Width` is `uint8`), `regs_oneIP` (C18: the register file is a map), `mem_ok`
(`memory_coherence`), `init_good`, `store_good` -/
theorem real_emulator_lawful {image bs : List BytesMem.Block} (hnb : BytesMem.newBytes image = .ok bs)
    (hbb : ∀ x, BytesSpec.ofBlocks bs x ≠ none → x + 1 < 2 ^ 64) (cv : CodeView) (hwf : CodeWF cv)
    (hsw : CodeSW cv) :
    EmuLawful (emuOps bs cv) EGood :=
  emu_lawful hnb hbb cv hwf hsw

/-- the former counterexample (F45): `lb x3,-1(x0)` — a one-byte load from address `2^64 - 1` — made `Emulator.Step`
panic from the state the tool starts with (the interval `[2^64 - 1, 0)` reached the interval tree), so
`StepNeverPanics` was false for the emulator as it was.  After the repair the step is the access error: the step
tree of the console is the error leaf and the emulator is still at `0x1000`. -/
theorem step_at_the_top_is_an_error :
    (liftCode topBlocks).map (fun code =>
      match stepTree ⟨code, Emulator.new 4096 (toolState [] [])⟩ stepFuel [] with
      | .fail e => (match mustIP e.st with | .ok ip => some ip | .error _ => none)
      | _ => none) = some (some 4096) :=
  top_access_fails

open Mltwist.UI Mltwist.Lemmas.UI in
/-- C22 `session_never_panics` FOR THE INSTANTIATED UI, THE EMULATOR AS IT IS.  Code operations: the real dependency
model; emulator: the real emulator model on `Overlay(Bytes(bs), Sparse)`; left as parameters: the regular
expression library `rx`, the texts/bytes `info` of the instructions, and the input.  For every input the session
ends by `quit`, at the end of the input or in a starving value prompt — never in a panic. -/
theorem session_never_panics_real (info : Info) {bs : List BytesMem.Block} (rx : Str → Option (String → Bool))
    {d0 : Deps.Code} (henv : EnvOK bs d0) (hd : CInv d0) (inp : Input) :
    realSession info bs rx d0 inp = .exited ∨ (∃ a, realSession info bs rx d0 inp = .eof a) ∨
      realSession info bs rx d0 inp = .hang :=
  realSession_safe info rx henv hd inp

open Mltwist.UI Mltwist.Lemmas.UI in
/-- … with every hypothesis about the program discharged by start-up (C26): for every argument count and every
`debug/elf` view such that start-up reaches the UI, the session on the code and the byte memory that start-up
built never panics, whatever the regular expression library answers and whatever is typed — also when the
user steps the emulator into an access at the top of the address space (F45, repaired: an error message) -/
theorem session_never_panics_after_startup (lim nargs : Nat) (v : Option Elf.View)
    (hv : ∀ w, v = some w → Elf.Spec.ViewOK w) (hui : Startup.run lim nargs v = .ui) :
    ∃ w code mem is c bs, v = some w ∧ Started lim w code mem is c bs ∧
      ∀ (info : Info) (rx : Str → Option (String → Bool)) (inp : Input),
        realSession info bs rx c inp = .exited ∨ (∃ a, realSession info bs rx c inp = .eof a) ∨
          realSession info bs rx c inp = .hang := by
  obtain ⟨_, w, code, mem, is, c, bs, rfl, hs⟩ := run_ui_inv lim nargs v hv hui
  obtain ⟨henv, hc⟩ := envOK_of_started hs
  exact ⟨w, code, mem, is, c, bs, rfl, hs, fun info rx inp => realSession_safe info rx henv hc inp⟩

open Mltwist.UI Mltwist.Lemmas.UI in
/-- every call of `processCommand` on the instantiated UI: no panic, every line answered, the invariants (C07's on
the real code, the UI's) hold again, the real code keeps its instructions, edges and block ranges -/
theorem line_answered_real (info : Info) {bs : List BytesMem.Block} (rx : Str → Option (String → Bool))
    {d0 : Deps.Code} (henv : EnvOK bs d0) (r : RUI) (hr : SInv d0 r) (inp : Input) :
    uiStep (paramsAt info bs rx r.deps) r.ui inp ≠ .panic ∧
    ∀ a ui' rest, uiStep (paramsAt info bs rx r.deps) r.ui inp = .cont a ui' rest →
      rest.length < inp.length ∧ (a = .skipped ↔ inp.head? = some []) ∧
      SInv d0 ⟨uiNextDeps r.deps r.ui inp, ui'⟩ := by
  obtain ⟨hs, hnext⟩ := real_step_safe info rx henv r hr inp
  refine ⟨fun hp => by rw [hp] at hs; exact hs, fun a ui' rest hc => ?_⟩
  have h2 := hnext a ui' rest hc
  rw [hc] at hs
  exact ⟨hs.2.1, hs.2.2, h2⟩

open Mltwist.UI Mltwist.Lemmas.UI in
/-- the screen of every state of the composed system prints without a panic at every terminal height (C24/C32) -/
theorem view_prints_real (info : Info) {bs : List BytesMem.Block} (rx : Str → Option (String → Bool))
    {d0 : Deps.Code} (henv : EnvOK bs d0) (r : RUI) (hr : SInv d0 r) (n : Nat) :
    (renderTop (paramsAt info bs rx r.deps).eops r.ui n).status ≠ .panic ∧
      (renderTop (paramsAt info bs rx r.deps).eops r.ui n).status ≠ .outOfFuel :=
  renderTop_safe _ (paramsAt_lawful info rx henv hr.deps hr.same).2 r.ui hr.ui n

open Mltwist.UI Mltwist.Lemmas.UI in
/-- IN EVERY STATE OF EVERY SESSION of the instantiated UI (`RReach`: the state after `consoleui.New` and every state
`processCommand` returns to `Run`): C07's invariant holds on the real code, which still has the instructions, edges
and block ranges it started with; the invariant of the UI (C22/C23) holds; and the mode stack is `[disassembler]`,
`[emulator, disassembler]` or `[memory view, emulator, disassembler]`, coupled with the real code (`Shaped`) -/
theorem session_invariants (info : Info) {bs : List BytesMem.Block} (rx : Str → Option (String → Bool))
    {d0 : Deps.Code} (henv : EnvOK bs d0) (hd : CInv d0) (r : RUI) (h : RReach info bs rx d0 r) :
    CInv r.deps ∧ SameCode d0 r.deps ∧ UIInv EGood r.ui ∧ Shaped info r.deps r.ui.stack := by
  obtain ⟨h1, h2⟩ := reach_inv info rx henv hd r h
  exact ⟨h1.deps, h1.same, h1.ui, h2⟩

open Mltwist.UI Mltwist.Lemmas.UI in
/-- C23 INSIDE THE UI, OVER THE REAL CODE: whenever the disassembler mode is the current mode of a session, its code
state is the view of the CURRENT real code — so the operations its `move` command calls are the real `code.Move` /
`code.Index(b).Move` (`real_ops_are_real`) — and its listing is, apart from the marks, the fresh rendering of the
current real code -/
theorem ui_listing_reflects_real_code (info : Info) {bs : List BytesMem.Block} (rx : Str → Option (String → Bool))
    {d0 : Deps.Code} (henv : EnvOK bs d0) (hd : CInv d0) (r : RUI) (h : RReach info bs rx d0 r)
    (top : NamedMode ESt) (below : List (NamedMode ESt)) (st : Listing.St) (hst : r.ui.stack = top :: below)
    (hm : top.mode = .dis st) :
    st.code = listingOf info r.deps ∧
      Listing.Spec.shown st.lines = Listing.Spec.rows (listingOf info r.deps) := by
  obtain ⟨_, _, hui, hsh⟩ := session_invariants info rx henv hd r h
  have hinv : LInv st := by
    have := (hui.2 top (by rw [hst]; simp)).2
    rw [hm] at this
    exact this
  have hcode : st.code = listingOf info r.deps := by
    rw [hst] at hsh
    cases hsh with
    | dis hdis =>
      obtain ⟨st', hm', hc⟩ := hdis
      rw [hm] at hm'
      cases hm'
      exact hc
    | emu hemu _ => obtain ⟨e, hm', _⟩ := hemu; rw [hm] at hm'; cases hm'
    | mem hmem _ _ => obtain ⟨m, v, hm'⟩ := hmem; rw [hm] at hm'; cases hm'
  exact ⟨hcode, hcode ▸ (Lemmas.Listing.inv_shows st hinv).1⟩

open Mltwist.UI Mltwist.Lemmas.UI in
/-- … and whenever the emulator mode is the current mode, its emulator runs on the code view of the CURRENT real
code (the code cannot change while an emulator exists), its own listing shows the current real code, and its state
is good (`EGood`: C03 `CodeWF`, C04 `Ready`, …) -/
theorem ui_emulator_runs_on_current_code (info : Info) {bs : List BytesMem.Block}
    (rx : Str → Option (String → Bool)) {d0 : Deps.Code} (henv : EnvOK bs d0) (hd : CInv d0) (r : RUI)
    (h : RReach info bs rx d0 r) (top : NamedMode ESt) (below : List (NamedMode ESt)) (e : EmuMode ESt)
    (hst : r.ui.stack = top :: below) (hm : top.mode = .emu e) :
    e.emu.code = codeViewOf r.deps ∧ e.view.code = listingOf info r.deps ∧ EGood e.emu := by
  obtain ⟨_, _, hui, hsh⟩ := session_invariants info rx henv hd r h
  have hg : EGood e.emu := by
    have := (hui.2 top (by rw [hst]; simp)).2
    rw [hm] at this
    exact this.2
  rw [hst] at hsh
  cases hsh with
  | dis hdis => obtain ⟨st', hm', _⟩ := hdis; rw [hm] at hm'; cases hm'
  | emu hemu _ =>
    obtain ⟨e', hm', hv, hc⟩ := hemu
    rw [hm] at hm'
    cases hm'
    exact ⟨hc, hv, hg⟩
  | mem hmem _ _ => obtain ⟨m, v, hm'⟩ := hmem; rw [hm] at hm'; cases hm'

-- `infoOfParsed is` (the `info` the real program shows: the disassembly text of C25 and the parser's bytes):
-- `Model/Compose.lean`

/-- … every instruction it describes has four bytes: the listing's modelling assumption "instructions have at
least one byte" (`byteStr`) is a theorem of C21 -/
theorem infoOfParsed_bytes {image : List Elf.Block} (ht : Elf.Spec.Tidy image)
    {is : List (Parse.Ins (Riscv.Entry × Riscv.Ins))} (h : Parse.parseRv64 image = .ok is) :
    ∀ i ∈ is, ((infoOfParsed is) i.addr).2.length = 4 := by
  intro i hi
  have hta := (Props.C21.parse_ok_iff _ (Props.C21.rv_honest _) image ht.1 is).1 h
  obtain ⟨l1, _⟩ := tilingAll_layout hta ht
  unfold infoOfParsed
  cases hf : is.find? fun j => j.addr == i.addr with
  | none =>
    have := List.find?_eq_none.1 hf i hi
    simp at this
  | some j => exact (l1 j (List.mem_of_find?_eq_some hf)).1

/-! ### non-vacuity -/

/-- `addi x1,x0,1 ; addi x2,x0,2 ; jal x0,0` at 0x1000 (the jump targets itself: two blocks) -/
def exImage : List Elf.Block :=
  [(4096, [0x93, 0x00, 0x10, 0x00, 0x13, 0x01, 0x20, 0x00, 0x6f, 0x00, 0x00, 0x00])]

/-- the real dependency model start-up builds for it: `parser.Parse`, then `deps.NewCode` at entry 0x1000 -/
def exCode : Option Deps.Code :=
  match Parse.parseRv64 exImage with
  | .ok is => (Deps.newCode 4096 (rawOf is)).toOption
  | .error _ => none

def exInfo : Info := fun a => (toString a, [0, 0, 0, 0])

example : Elf.Spec.Tidy exImage := by decide

set_option maxRecDepth 100000 in
/-- seams 1/5: the chain succeeds; the code view of the real model is `liftCode` of the image; `Code.Address` +
`Block.Address` find the instruction at 0x1004 and report "not found" inside an instruction -/
example : (exCode.map fun c => ((codeViewOf c).map (·.addr), Emulator.liftCode exImage == some (codeViewOf c),
      (instruction c 4100).map (·.map (·.currAddr)), instruction c 4102)) =
    some ([4096, 4100, 4104], true, some (some 4100), some none) := by decide +kernel

set_option maxRecDepth 100000 in
/-- seam 3: on the real model, `move 1 2` swaps the two independent `addi` (the REAL code changes: the instruction
from 0x1004 now sits at 0x1000), `move 3 1` (from the blank row) is rejected and changes nothing but marks, `goto 2`
moves the cursor; the listing state shows the real code afterwards -/
example : (exCode.bind fun c => (realRun exInfo (RSt.init exInfo c) [.move 1 2, .move 3 1, .goto 2]).map fun r =>
      (r.deps.store.map fun b => b.seq.map fun i => (i.origAddr, i.currAddr),
        r.st.code == listingOf exInfo r.deps,
        r.st.lines.lines.map (·.mark), r.st.cursor.value)) =
    some ([[(4100, 4096), (4096, 4100)], [(4104, 4104)]], true, ["", "!>", "", "!<", "", "", ""], 2) := by
  decide +kernel

end Mltwist.Props.Compose
