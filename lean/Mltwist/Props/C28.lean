import Mltwist.Lemmas.Structural
/-
C28 — structural expression utilities are exact.
-/
namespace Mltwist.Props.C28
open Mltwist

/-- structural equality holds exactly for identically built trees -/
theorem equal_iff (a b : Expr) : equal a b = true ↔ a = b := Lemmas.Structural.equal_iff a b

/-- searching returns every sub-expression of the requested kind, in pre-order -/
theorem findAll_spec (k : Kind) (e : Expr) :
    findAll k e = e.subterms.filter (fun s => decide (s.kind = k)) :=
  Lemmas.Structural.findAll_spec k e

/-- substitution replaces exactly the matching sub-expressions, bottom-up -/
theorem replaceAll_spec (k : Kind) (f : Expr → Option Expr) (e : Expr) :
    replaceAll k f e = e.mapBottomUp (fun s => if s.kind = k then (f s).getD s else s) :=
  Lemmas.Structural.replaceAll_spec k f e

/-- … and returns the same tree when nothing matches -/
theorem replaceAll_nomatch (k : Kind) (f : Expr → Option Expr) (e : Expr)
    (h : ∀ s ∈ e.subterms, s.kind = k → f s = none) : replaceAll k f e = e :=
  Lemmas.Structural.replaceAll_nomatch k f e h

/-- the effect helpers list exactly the operand expressions … -/
theorem exprs_memStore (v a : Expr) (k : String) (w : Nat) :
    (Effect.memStore v k a w).exprs = [a, v] := rfl
theorem exprs_regStore (v : Expr) (k : String) (w : Nat) :
    (Effect.regStore v k w).exprs = [v] := rfl

/-- … and transform exactly those, preserving kind, key and width -/
theorem apply_memStore (g : Expr → Expr) (v a : Expr) (k : String) (w : Nat) :
    (Effect.memStore v k a w).apply g = .memStore (g v) k (g a) w := rfl
theorem apply_regStore (g : Expr → Expr) (v : Expr) (k : String) (w : Nat) :
    (Effect.regStore v k w).apply g = .regStore (g v) k w := rfl
theorem apply_width (g : Expr → Expr) (ef : Effect) : (ef.apply g).width = ef.width := by
  cases ef <;> rfl

example : findAll .regLoad (.binary .add (.regLoad "a" 1) (.memLoad "m" (.regLoad "b" 8) 1) 1)
    = [.regLoad "a" 1, .regLoad "b" 8] := by decide

end Mltwist.Props.C28
