module translator

go 1.18
