// Command translator turns the `effects` closures of the RISC-V instruction tables of
// jan-dubsky/mltwist (internal/riscv/opcodes32.go, opcodes64.go) into Lean 4 terms over the
// hand-written Lean counterparts of the helper functions (lean/Mltwist/Model/Riscv.lean,
// Model/Exprtools.lean).  Standard library only (go/parser, go/ast).
//
// The closure language is tiny: `:=` bindings (also tuple bindings), calls, slice literals,
// integer conversions, one generic instantiation.  Anything outside it makes the translator fail
// loudly (exit status 2 and a message naming the construct), which the check reports as a broken
// proof obligation — it is never ignored.
//
// Output: JSON on stdout: {"<table var>": [{"name": "...", "effects": "<lean term>"}, …], …}
package main

import (
	"encoding/json"
	"fmt"
	"go/ast"
	"go/parser"
	"go/token"
	"os"
	"strconv"
	"strings"
)

type entry struct {
	Name    string `json:"name"`
	Effects string `json:"effects"`
}

func fail(fset *token.FileSet, n ast.Node, format string, args ...interface{}) {
	pos := ""
	if n != nil {
		pos = fset.Position(n.Pos()).String() + ": "
	}
	fmt.Fprintf(os.Stderr, "translator: %s%s\n", pos, fmt.Sprintf(format, args...))
	os.Exit(2)
}

// Go integer types of the few integer-valued sub-expressions.
type ityp struct {
	size   int // bytes
	signed bool
}

type tr struct {
	fset *token.FileSet
	vars map[string]ityp // integer-typed local variables
}

var widthConsts = map[string]string{
	"width8": "1", "width16": "2", "width32": "4", "width64": "8", "width128": "16",
}

var exprSel = map[string]string{
	"expr.Add": "BinOp.add", "expr.Lsh": "BinOp.lsh", "expr.Rsh": "BinOp.rsh",
	"expr.Mul": "BinOp.mul", "expr.Div": "BinOp.div", "expr.Nand": "BinOp.nand",
	"expr.Zero": "Expr.zero", "expr.One": "Expr.one", "expr.IPKey": "ipKey",
	"expr.Width8": "1", "expr.Width16": "2", "expr.Width32": "4", "expr.Width64": "8",
	"expr.Width128": "16",
	"expr.NewBinary": "Expr.binary", "expr.NewLess": "Expr.less",
	"expr.NewRegLoad": "Expr.regLoad", "expr.NewMemLoad": "Expr.memLoad",
	"expr.NewRegStore": "Effect.regStore", "expr.NewMemStore": "Effect.memStore",
	"exprtools.NewWidthGadget": "newWidthGadget",
}

var immTypes = map[string]string{
	"immTypeR": "ImmType.R", "immTypeI": "ImmType.I", "immTypeS": "ImmType.S",
	"immTypeB": "ImmType.B", "immTypeU": "ImmType.U", "immTypeJ": "ImmType.J",
	"immTypeShamt": "ImmType.shamt",
}

var regs = map[string]string{"rd": "Reg.rd", "rs1": "Reg.rs1", "rs2": "Reg.rs2"}

func lowerFirst(s string) string {
	if s == "" {
		return s
	}
	return strings.ToLower(s[:1]) + s[1:]
}

func selName(e ast.Expr) (string, bool) {
	s, ok := e.(*ast.SelectorExpr)
	if !ok {
		return "", false
	}
	x, ok := s.X.(*ast.Ident)
	if !ok {
		return "", false
	}
	return x.Name + "." + s.Sel.Name, true
}

// intType returns the Go integer type of an integer-valued expression.
func (t *tr) intType(e ast.Expr) (ityp, bool) {
	switch x := e.(type) {
	case *ast.Ident:
		ty, ok := t.vars[x.Name]
		return ty, ok
	case *ast.ParenExpr:
		return t.intType(x.X)
	case *ast.CallExpr:
		if id, ok := x.Fun.(*ast.Ident); ok {
			switch id.Name {
			case "uint8":
				return ityp{1, false}, true
			case "uint16":
				return ityp{2, false}, true
			case "uint32":
				return ityp{4, false}, true
			case "uint64":
				return ityp{8, false}, true
			case "addrAddImm":
				return ityp{8, false}, true
			}
		}
	case *ast.BinaryExpr:
		if ty, ok := t.intType(x.X); ok {
			return ty, true
		}
		return t.intType(x.Y)
	case *ast.SelectorExpr:
		if n, _ := selName(x); n == "i.addr" {
			return ityp{8, false}, true
		} else if n == "i.value" {
			return ityp{4, false}, true
		}
	}
	return ityp{}, false
}

// intExpr translates an integer-valued expression of Go type ty to a Lean Nat/Int term with the
// wrap-around of the type made explicit.
func (t *tr) intExpr(e ast.Expr) string {
	switch x := e.(type) {
	case *ast.BasicLit:
		if x.Kind == token.INT {
			v, err := strconv.ParseInt(x.Value, 0, 64)
			if err != nil {
				fail(t.fset, e, "bad integer literal %s", x.Value)
			}
			return strconv.FormatInt(v, 10)
		}
	case *ast.Ident:
		if _, ok := t.vars[x.Name]; ok {
			return x.Name
		}
	case *ast.ParenExpr:
		return "(" + t.intExpr(x.X) + ")"
	case *ast.SelectorExpr:
		if n, _ := selName(x); n == "i.addr" || n == "i.value" {
			return n
		}
	case *ast.CallExpr:
		if id, ok := x.Fun.(*ast.Ident); ok && len(x.Args) >= 1 {
			switch id.Name {
			case "uint32":
				return "((" + t.intExpr(x.Args[0]) + ") % 2 ^ 32)"
			case "uint64":
				return "((" + t.intExpr(x.Args[0]) + ") % 2 ^ 64)"
			case "addrAddImm":
				if len(x.Args) == 2 {
					return "(addrAddImm " + t.intExpr(x.Args[0]) + " " + t.intExpr(x.Args[1]) + ")"
				}
			}
		}
	case *ast.BinaryExpr:
		if x.Op == token.ADD {
			ty, ok := t.intType(x)
			if !ok || ty.signed {
				fail(t.fset, e, "cannot type integer addition")
			}
			return fmt.Sprintf("((%s + %s) %% 2 ^ %d)", t.intExpr(x.X), t.intExpr(x.Y), 8*ty.size)
		}
	}
	fail(t.fset, e, "unsupported integer expression %T", e)
	return ""
}

func (t *tr) args(as []ast.Expr) string {
	parts := make([]string, len(as))
	for i, a := range as {
		parts[i] = t.atom(a)
	}
	return strings.Join(parts, " ")
}

// atom translates an expression and parenthesises it when it is an application.
func (t *tr) atom(e ast.Expr) string {
	s := t.expr(e)
	if strings.ContainsAny(s, " \n") && !(strings.HasPrefix(s, "(") && strings.HasSuffix(s, ")") && balanced(s[1:len(s)-1])) &&
		!(strings.HasPrefix(s, "[") && strings.HasSuffix(s, "]")) && !strings.HasPrefix(s, "\"") {
		return "(" + s + ")"
	}
	return s
}

func balanced(s string) bool {
	d := 0
	for _, c := range s {
		if c == '(' {
			d++
		} else if c == ')' {
			d--
			if d < 0 {
				return false
			}
		}
	}
	return d == 0
}

func (t *tr) expr(e ast.Expr) string {
	switch x := e.(type) {
	case *ast.ParenExpr:
		return t.expr(x.X)
	case *ast.Ident:
		if w, ok := widthConsts[x.Name]; ok {
			return w
		}
		if s, ok := immTypes[x.Name]; ok {
			return s
		}
		if s, ok := regs[x.Name]; ok {
			return s
		}
		switch x.Name {
		case "true", "false", "i":
			return x.Name
		case "nil":
			return "[]"
		case "lessFunc":
			return "lessFunc"
		}
		return x.Name // local variable or helper function used as a value
	case *ast.BasicLit:
		if x.Kind == token.INT {
			return t.intExpr(x)
		}
		if x.Kind == token.STRING {
			return x.Value
		}
	case *ast.SelectorExpr:
		n, ok := selName(x)
		if !ok {
			fail(t.fset, e, "unsupported selector")
		}
		if s, ok := exprSel[n]; ok {
			return s
		}
		if strings.HasPrefix(n, "exprtools.") {
			return "Tools." + lowerFirst(strings.TrimPrefix(n, "exprtools."))
		}
		if n == "i.addr" || n == "i.value" {
			return n
		}
		fail(t.fset, e, "unknown selector %s", n)
	case *ast.CompositeLit:
		// []expr.Effect{…}
		at, ok := x.Type.(*ast.ArrayType)
		if !ok {
			fail(t.fset, e, "unsupported composite literal")
		}
		if n, _ := selName(at.Elt); n != "expr.Effect" {
			fail(t.fset, e, "unsupported slice element type")
		}
		parts := make([]string, len(x.Elts))
		for i, el := range x.Elts {
			parts[i] = t.expr(el)
		}
		return "[" + strings.Join(parts, ", ") + "]"
	case *ast.CallExpr:
		return t.call(x)
	}
	fail(t.fset, e, "unsupported expression %T", e)
	return ""
}

func (t *tr) call(c *ast.CallExpr) string {
	// generic instantiation: expr.ConstFromUint[uint8](32)
	if ix, ok := c.Fun.(*ast.IndexExpr); ok {
		n, _ := selName(ix.X)
		ty, ok2 := ix.Index.(*ast.Ident)
		if n == "expr.ConstFromUint" && ok2 && len(c.Args) == 1 {
			sizes := map[string]int{"uint8": 1, "uint16": 2, "uint32": 4, "uint64": 8}
			sz, ok3 := sizes[ty.Name]
			if !ok3 {
				fail(t.fset, c, "unsupported type argument %s", ty.Name)
			}
			return fmt.Sprintf("constFromUint %d %s", sz, t.intExpr(c.Args[0]))
		}
		fail(t.fset, c, "unsupported generic call")
	}
	if n, ok := selName(c.Fun); ok {
		switch n {
		case "expr.ConstFromUint", "expr.ConstFromInt":
			if len(c.Args) != 1 {
				fail(t.fset, c, "bad arity")
			}
			ty, ok := t.intType(c.Args[0])
			if !ok {
				fail(t.fset, c, "cannot type the argument of %s", n)
			}
			if n == "expr.ConstFromUint" {
				if ty.signed {
					fail(t.fset, c, "signed argument of ConstFromUint")
				}
				return fmt.Sprintf("constFromUint %d %s", ty.size, t.intExpr(c.Args[0]))
			}
			if !ty.signed {
				fail(t.fset, c, "unsigned argument of ConstFromInt")
			}
			return fmt.Sprintf("constFromInt %d %s", ty.size, t.intExpr(c.Args[0]))
		}
		// method call on an immediate type: immTypeU.parseValue(i.value)
		if x, ok := c.Fun.(*ast.SelectorExpr); ok {
			if id, ok := x.X.(*ast.Ident); ok {
				if it, ok := immTypes[id.Name]; ok && x.Sel.Name == "parseValue" && len(c.Args) == 1 {
					return fmt.Sprintf("immParse %s %s", it, t.intExpr(c.Args[0]))
				}
			}
		}
		return t.expr(c.Fun) + " " + t.args(c.Args)
	}
	if id, ok := c.Fun.(*ast.Ident); ok {
		switch id.Name {
		case "uint8", "uint16", "uint32", "uint64", "int32":
			fail(t.fset, c, "integer conversion outside a constant constructor")
		}
		if len(c.Args) == 0 {
			return id.Name
		}
		return id.Name + " " + t.args(c.Args)
	}
	fail(t.fset, c, "unsupported call")
	return ""
}

// body translates the statements of a closure into a Lean term.
func (t *tr) body(stmts []ast.Stmt) string {
	var sb strings.Builder
	for idx, st := range stmts {
		switch s := st.(type) {
		case *ast.AssignStmt:
			if s.Tok != token.DEFINE {
				fail(t.fset, st, "only := assignments are supported")
			}
			if len(s.Lhs) == len(s.Rhs) {
				for k := range s.Lhs {
					name := s.Lhs[k].(*ast.Ident).Name
					fmt.Fprintf(&sb, "let %s := %s\n", name, t.expr(s.Rhs[k]))
				}
				continue
			}
			// imm, _ := immTypeU.parseValue(i.value)
			if len(s.Lhs) == 2 && len(s.Rhs) == 1 {
				l0, ok0 := s.Lhs[0].(*ast.Ident)
				l1, ok1 := s.Lhs[1].(*ast.Ident)
				call, ok2 := s.Rhs[0].(*ast.CallExpr)
				if ok0 && ok1 && ok2 && l1.Name == "_" {
					if x, ok := call.Fun.(*ast.SelectorExpr); ok && x.Sel.Name == "parseValue" {
						fmt.Fprintf(&sb, "let %s := (%s).1\n", l0.Name, t.call(call))
						t.vars[l0.Name] = ityp{4, true}
						continue
					}
				}
			}
			fail(t.fset, st, "unsupported assignment form")
		case *ast.ReturnStmt:
			if idx != len(stmts)-1 || len(s.Results) != 1 {
				fail(t.fset, st, "unsupported return")
			}
			sb.WriteString(t.expr(s.Results[0]))
			return sb.String()
		default:
			fail(t.fset, st, "unsupported statement %T", st)
		}
	}
	fail(t.fset, nil, "closure without return")
	return ""
}

func main() {
	if len(os.Args) < 2 {
		fmt.Fprintln(os.Stderr, "usage: translator opcodes32.go opcodes64.go")
		os.Exit(2)
	}
	out := map[string][]entry{}
	for _, path := range os.Args[1:] {
		fset := token.NewFileSet()
		f, err := parser.ParseFile(fset, path, nil, 0)
		if err != nil {
			fmt.Fprintf(os.Stderr, "translator: %v\n", err)
			os.Exit(2)
		}
		for _, d := range f.Decls {
			gd, ok := d.(*ast.GenDecl)
			if !ok || gd.Tok != token.VAR {
				continue
			}
			for _, sp := range gd.Specs {
				vs := sp.(*ast.ValueSpec)
				if len(vs.Names) != 1 || len(vs.Values) != 1 {
					continue
				}
				lit, ok := vs.Values[0].(*ast.CompositeLit)
				if !ok {
					continue
				}
				at, ok := lit.Type.(*ast.ArrayType)
				if !ok {
					continue
				}
				if st, ok := at.Elt.(*ast.StarExpr); !ok || fmt.Sprint(st.X) != "instructionType" {
					continue
				}
				var es []entry
				for _, el := range lit.Elts {
					cl, ok := el.(*ast.CompositeLit)
					if !ok {
						fail(fset, el, "table element is not a composite literal")
					}
					var e entry
					seen := false
					for _, kvx := range cl.Elts {
						kv, ok := kvx.(*ast.KeyValueExpr)
						if !ok {
							fail(fset, kvx, "positional field in table entry")
						}
						switch kv.Key.(*ast.Ident).Name {
						case "name":
							bl, ok := kv.Value.(*ast.BasicLit)
							if !ok {
								fail(fset, kv, "name is not a literal")
							}
							e.Name, _ = strconv.Unquote(bl.Value)
						case "effects":
							fl, ok := kv.Value.(*ast.FuncLit)
							if !ok {
								fail(fset, kv, "effects is not a function literal")
							}
							if len(fl.Type.Params.List) != 1 || len(fl.Type.Params.List[0].Names) != 1 ||
								fl.Type.Params.List[0].Names[0].Name != "i" {
								fail(fset, kv, "effects closure must take one parameter named i")
							}
							t := &tr{fset: fset, vars: map[string]ityp{}}
							e.Effects = t.body(fl.Body.List)
							seen = true
						}
					}
					if !seen {
						fail(fset, cl, "table entry %q without effects", e.Name)
					}
					es = append(es, e)
				}
				out[vs.Names[0].Name] = es
			}
		}
	}
	enc := json.NewEncoder(os.Stdout)
	enc.SetIndent("", " ")
	if err := enc.Encode(out); err != nil {
		os.Exit(2)
	}
}
