"""Opcode matcher: C19."""
from .props import Prop, reg, has
from . import genopcode as go


def _nontrivial(c):
    t = c.tags
    return "multi" in t and ("partial" in t or "samemask" in t or "mixedlen" in t) and \
        ("conflict" in t or "hit" in t)


reg(Prop("C19",
         [("opmatch", go.g_opmatch, 12), ("opinvalid", go.g_opinvalid, 1)],
         _nontrivial,
         "1-8 patterns of 1-4 bytes with sparse masks: forced equal masks (equal / different masked bytes), forced "
         "partially overlapping masks agreeing / disagreeing in one common bit, prefix lengths, don't-care bits set, "
         "conflict-free ISA-like tables, a low-probability stream with one ill-formed pattern; probes: exact, random "
         "don't-care bits, one bit off, truncated, with trailing bytes; oracle = brute force over all patterns / pairs; "
         "non-trivial = >= 3 patterns with equal, partially overlapping or different-length masks and either a "
         "conflict or a probe that matches exactly one pattern",
         3000, 200000,
         trusted=["sort.Slice modelled as a stable insertion sort with the same comparator, sort.Search as the least "
                  "index satisfying the predicate (both predicates are monotone on the sorted slices)",
                  "the i-th Opcoder handed to NewMatcher is identified by its position i"]))
