"""Byte memory: C15."""
from .props import Prop, reg, has, nothas
from . import genbytesmem as gb

reg(Prop("C15",
         [("bytes", gb.g_bytes, 6), ("bytes_front", gb.g_bytes_front, 1), ("bytes_alias", gb.g_bytes_alias, 1),
          ("bytes_small", gb.g_bytes_small, 1), ("bytes_big", gb.g_bytes_big, 1)],
         has("rich"),
         "small scope: all layouts over 6 addresses, <= 3 stores of width 1-3, full read-back (sampled); histories of 1-25 Store/Load/Missing/Blocks over a 60-byte window (also at 2^32, 2^63 and 2^64-300) on "
         "0-5 initial blocks with forced adjacency, gaps of one, overlaps and empty blocks; stores aimed at the "
         "current layout (inside a block, straddling its end, filling a gap exactly, spanning several blocks and "
         "gaps, in front of 2-3 blocks), constants wider/narrower than the store width and constant objects "
         "re-used by several stores; every answer compared with a byte-map replay; every slice/constant handed "
         "over or returned is re-compared with a deep copy at the end; "
         "non-trivial = >= 3 constant stores of which one spans present and absent bytes, touches a neighbouring "
         "block (merge) or lands in front of >= 2 blocks",
         3000, 200000,
         trusted=["sort.Slice modelled as a stable insertion sort on begin (results do not depend on the order of "
                  "equal keys once empty blocks are skipped: equal begins of non-empty blocks are an overlap)",
                  "sort.Search modelled as the least index satisfying the predicate",
                  "builtin copy/append on byte slices and on the block slice modelled by take/drop/++ (value model) "
                  "and by the heap model of Model/BytesHeap for the aliasing clause",
                  "interval.NewMap/MapComplement as modelled and proved for C17"],
         assumptions=["ranges do not reach the end of the address space: addr + w < 2^64 (a byte stored at "
                      "2^64-1 cannot be loaded and Blocks() panics: finding F37, recorded)",
                      "Load/Missing with w = 0 are not judged (Load(a,0) succeeds only inside a block, "
                      "Missing(a,0) returns the empty interval [a,a) outside blocks)"]))
