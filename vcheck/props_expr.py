"""Expression layer: C09-C13, C27, C28."""
from .props import Prop, reg, has, nothas
from . import genexpr as gx
from . import genbasicblock as _gb

reg(Prop("C09",
         [("fold", gx.g_fold, 5), ("fold_closed", gx.g_fold_closed, 2), ("fold_memaddr", gx.g_purge_memaddr, 1),
          ("fold_binop", gx.g_binop, 1), ("fold_less", gx.g_lessconst, 1)],
         lambda c: "changed" in c.tags and "size1" not in c.tags,
         "random expression trees (depth<=5, all operators, widths from {1,2,3,4,8,16,31,32,33,255} and random, "
         "gadget chains, nested Less, MemLoad); non-trivial = folding changed the tree and the tree has > 1 node; "
         "distinct = distinct input lines",
         3000, 150000,
         trusted=["math/big modelled as Nat arithmetic"]))

reg(Prop("C10",
         [("binop", gx.g_binop, 6), ("less", gx.g_lessconst, 2)],
         lambda c: True,
         "one operator applied to two constants: operand and operation widths independent, long carry chains, shift "
         "amounts around 8w and beyond 2^64, divisors truncating to zero; every case is non-trivial; distinct = distinct lines",
         3000, 200000,
         trusted=["math/big (Mul, Div, SetBytes, FillBytes) modelled as Nat arithmetic"]))

reg(Prop("C11",
         [("gadget_const", gx.g_gadget_const, 1), ("gadget_sym", gx.g_gadget_sym, 1)],
         has("spec"),
         "every exported gadget x widths {1,2,3,4,8,9,16,32,127,random} x boundary/random operands; constant operands go "
         "through the real ConstFold, symbolic ones are evaluated by the reference evaluator under 6 valuations; "
         "non-trivial = the documentation defines the value for these operands; distinct = distinct lines",
         3000, 150000))

reg(Prop("C12",
         [("setw", gx.g_setw, 3), ("purge", gx.g_purge, 3), ("purge_memaddr", gx.g_purge_memaddr, 2)],
         has("changed", "cut", "extend"),
         "SetWidth on random trees x target widths; PurgeWidthGadgets on trees with chains of 1-4 width adapters above "
         "every operator and above MemLoad addresses; non-trivial = width actually changes / purge changed the tree",
         3000, 150000))

reg(Prop("C13",
         [("poss", gx.g_poss, 6), ("bbjumps", _gb.g_bbjumps, 1)],
         has("multi"),
         "random trees with 40% conditionals per level; stream bbjumps: jumps() of internal/deps/instruction.go (Possibilities, "
         "folding, filtering of the fall-through address) on instruction-pointer effects with conditionals and symbolic "
         "targets; non-trivial = more than one alternative enumerated",
         2000, 100000))

reg(Prop("C27",
         [("const", gx.g_const, 1)],
         lambda c: True,
         "NewConstUint/NewConstInt/ConstFrom*/ConstUint/WithWidth/NewConst over all 8 integer types, widths 1..20 and wide widths up to 255 (32, 33, 64, 65, 96, 128, ...), "
         "values at and around the signed/unsigned limits of the width and of the type; every case non-trivial",
         3000, 200000))

reg(Prop("C28",
         [("equal", gx.g_equal, 3), ("find", gx.g_find, 2), ("repl", gx.g_repl, 2), ("effects", gx.g_effects, 2)],
         nothas("size1"),
         "Equal on identical / one-token-mutated / unrelated trees; FindAll for each kind; ReplaceAll with a width-"
         "selective rule; Exprs/EffectApply on random effects; non-trivial = tree with more than one node",
         3000, 150000))

