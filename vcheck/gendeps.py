"""Generators for the dependency analysis and move bookkeeping of internal/deps (C05, C06, C07):
deps / depsx / depsadj lines.

A program is a list of blocks laid out contiguously (sometimes with gaps); a block ends with a jump,
at a gap, or before a jump target.  Every generated instruction carries its own footprint, so the
generator can predict which moves the tool has to accept (pairwise conflicts in the current order)
and mixes accepted moves with rejected ones on purpose.
"""
import random

IP = "#r:w:ip"
TOP = 1 << 64
REGS = ["x1", "x2", "x3", "x4"]
MEMS = ["memory", "m2"]


def c64(v, w=8):
    return "c:" + (v % (256 ** w)).to_bytes(w, "little").hex()


class Ins:
    __slots__ = ("typ", "addr", "len", "efs", "rin", "rout", "min", "mout", "ipw", "term")

    def __init__(self):
        self.typ, self.addr, self.len, self.efs = 0, 0, 4, []
        self.rin, self.rout, self.min, self.mout = set(), set(), set(), set()
        self.ipw, self.term = False, False

    def tokens(self):
        return [str(self.typ), str(self.addr), str(self.len), str(len(self.efs))] + self.efs


def value(r, ins, regs, mems, depth=0):
    """A value expression over the given registers; records what it reads."""
    k = r.random()
    if k < 0.22:
        return c64(r.choice([0, 1, 2, 4, 8, 255, 1 << 32, TOP - 1, r.getrandbits(64)]))
    if k < 0.55 or depth >= 2:
        x = r.choice(regs)
        ins.rin.add(x)
        return "r %s %d" % (x, r.choice([8, 8, 8, 4]))
    if k < 0.70:
        m = r.choice(mems)
        ins.min.add(m)
        # rarely a wide load (one cached piece of 40/64 bytes which later narrow loads are cut out of)
        lw = r.choice([8, 8, 4, 1]) if r.random() < 0.93 else r.choice([16, 40, 64, 64])
        return "m %s %d %s" % (m, lw, address(r, ins, regs, depth + 1))
    if k < 0.78:
        return "l 8 %s %s %s %s" % (value(r, ins, regs, mems, depth + 1), value(r, ins, regs, mems, depth + 1),
                                    value(r, ins, regs, mems, depth + 1), value(r, ins, regs, mems, depth + 1))
    op = r.choice(["add", "add", "mul", "nand", "lsh", "rsh", "div"])
    return "b %s 8 %s %s" % (op, value(r, ins, regs, mems, depth + 1), value(r, ins, regs, mems, depth + 1))


def address(r, ins, regs, depth=0):
    """A memory address: a few fixed cells (so loads see earlier stores) or register based."""
    k = r.random()
    if k < 0.55:
        return c64(r.choice([0, 4, 8, 12, 16, 0, 4, 8, 12, 16, 1, 2, 5, 6, 9, 32, 36, 40, 48, 1000, TOP - 4]))
    x = r.choice(regs)
    ins.rin.add(x)
    if k < 0.8:
        return "r %s 8" % x
    return "b add 8 r %s 8 %s" % (x, c64(r.choice([0, 4, 8, 16])))


def plain_effects(r, ins, regs, mems, dense):
    n = r.choice([0, 1, 1, 1, 1, 2, 2, 3]) if not dense else r.choice([1, 1, 2])
    for _ in range(n):
        k = r.random()
        if k < 0.62:
            d = r.choice(regs)
            ins.rout.add(d)
            ins.efs.append("rs %s %d %s" % (d, r.choice([8, 8, 8, 4]), value(r, ins, regs, mems)))
        else:
            m = r.choice(mems)
            ins.mout.add(m)
            w = r.choice([8, 8, 4, 1])
            v = value(r, ins, regs, mems)
            a = address(r, ins, regs)
            ins.efs.append("ms %s %d %s %s" % (m, w, v, a))


def layout_block(r, n, base):
    lens = [r.choice([4, 4, 4, 4, 4, 4, 2, 6]) for _ in range(n)]
    if r.random() < 0.5:
        lens = [4] * n
    out, a = [], base
    for l in lens:
        out.append((a, l))
        a += l
    return out, a


def gen_program(r, shape=None):
    """Returns (entry, blocks) with blocks = list of lists of Ins (in address order)."""
    nb = r.choice([1, 1, 1, 2, 2, 3, 4])
    top = r.random() < 0.04
    sizes = [r.choice([1, 2, 2, 3, 3, 4, 4, 5, 5, 6, 7, 8, 9, 10, 12]) for _ in range(nb)]
    if shape in ("f07", "f08"):
        sizes[0] = max(sizes[0], r.choice([3, 4, 5, 6]))
    # sparse or dense conflicts: fewer registers = denser
    nregs = r.choice([2, 3, 4, 4, 4])
    regs = REGS[:nregs]
    mems = MEMS[:r.choice([1, 2, 2])]
    if r.random() < 0.15:
        # a memory space named like a register: the two name spaces are independent
        mems = [r.choice(regs)] + mems[1:]
    pspecial = r.choice([0.0, 0.0, 0.08, 0.2])
    pmemord = r.choice([0.0, 0.0, 0.1, 0.25])
    pipft = r.choice([0.0, 0.0, 0.1, 0.25])
    base = r.choice([0, 64, 72, 4096, 1 << 31, (1 << 32) - 8, 1 << 40])
    # layout first (block starts are needed as jump targets)
    lay, a = [], base
    for s in sizes:
        if lay and r.random() < 0.25:
            a += r.choice([2, 4, 8, 16])                    # gap
        l, a = layout_block(r, s, a)
        lay.append(l)
    if top:
        delta = TOP - a
        lay = [[(x + delta, l) for x, l in blk] for blk in lay]
    starts = [blk[0][0] for blk in lay]
    # "degenerate end": a block whose last instruction writes the IP only to the next address and which ends
    # there only because the next block's start is the constant target of the last block's jump
    cand = [bi for bi in range(len(lay) - 1) if lay[bi + 1][0][0] == lay[bi][-1][0] + lay[bi][-1][1] and len(lay[bi]) >= 2]
    degen = r.choice(cand) if cand and (shape == "f08" or r.random() < 0.2) else None
    blocks = []
    for bi, blk in enumerate(lay):
        dense = r.random() < 0.3
        out = []
        nxt_is_gap = bi + 1 < len(lay) and lay[bi + 1][0][0] != blk[-1][0] + blk[-1][1]
        last_block = bi + 1 == len(lay)
        for k, (addr, ln) in enumerate(blk):
            ins = Ins()
            ins.addr, ins.len = addr, ln
            plain_effects(r, ins, regs, mems, dense)
            t = 0
            if r.random() < pmemord:
                t |= 1
            if r.random() < pspecial:
                t |= r.choice([2, 4, 4, 6])
            ins.typ = t
            last = k + 1 == len(blk)
            nxt = (addr + ln) % TOP
            if last and degen == bi:
                ins.efs.append(jump_effect(r, ins, regs, starts, nxt, real=False))
            elif last and last_block and degen is not None:
                ins.ipw = True
                ins.rout.add(IP)
                ins.efs.append("rs %s 8 %s" % (IP, c64(starts[degen + 1])))
                ins.term = True
            elif last and not last_block and not nxt_is_gap:
                # the block has to end here: a real jump, or the next block start is somebody's target
                ins.efs.append(jump_effect(r, ins, regs, starts, nxt, real=True))
                ins.term = True
            elif last and r.random() < 0.5:
                ins.efs.append(jump_effect(r, ins, regs, starts, nxt, real=True))
                ins.term = True
            elif not last and r.random() < pipft:
                ins.efs.append(jump_effect(r, ins, regs, starts, nxt, real=False))
            if ins.ipw and r.random() < 0.3:
                r.shuffle(ins.efs)
            out.append(ins)
        blocks.append(out)
    if shape == "f07":
        # three writers of one register around a reader
        blk = blocks[0]
        reg = r.choice(regs)
        idxs = sorted(r.sample(range(len(blk)), min(len(blk), r.choice([3, 4]))))
        for j, i in enumerate(idxs):
            ins = blk[i]
            if ins.ipw:
                continue
            if j == len(idxs) - 2 and len(idxs) == 4:
                other = r.choice(REGS)
                ins.efs.append("rs %s 8 r %s 8" % (other, reg))
                ins.rin.add(reg)
                ins.rout.add(other)
            else:
                ins.efs.append("rs %s 8 %s" % (reg, c64(r.randint(1, 200))))
                ins.rout.add(reg)
    if shape == "f08":
        blk = blocks[0]
        i = r.randrange(len(blk) - 1)
        ins = blk[i]
        if not ins.ipw:
            ins.efs.append(jump_effect(r, ins, regs, starts, (ins.addr + ins.len) % TOP, real=False))
    entry = starts[0] if r.random() < 0.8 else r.choice(starts)
    return entry, blocks


def jump_effect(r, ins, regs, starts, nxt, real):
    ins.ipw = True
    ins.rout.add(IP)
    if not real:
        k = r.random()
        if k < 0.5:
            v = c64(nxt)
        elif k < 0.8:
            a, b = r.choice(regs), r.choice(regs)
            ins.rin.update([a, b])
            v = "l 8 r %s 8 r %s 8 %s %s" % (a, b, c64(nxt), c64(nxt))
        else:
            v = "b add 8 %s %s" % (c64((nxt - 4) % TOP), c64(4))
        return "rs %s 8 %s" % (IP, v)
    k = r.random()
    t = r.choice([s for s in starts if s != nxt] or [starts[0]])
    if k < 0.4:
        v = c64(t)
    elif k < 0.75:
        a, b = r.choice(regs), r.choice(regs)
        ins.rin.update([a, b])
        v = "l 8 r %s 8 r %s 8 %s %s" % (a, b, c64(t), c64(nxt))
    elif k < 0.9:
        a = r.choice(regs)
        ins.rin.add(a)
        v = "r %s 8" % a
    else:
        a = r.choice(regs)
        ins.rin.add(a)
        v = "b add 8 r %s 8 %s" % (a, c64(4))
    return "rs %s 8 %s" % (IP, v)


def conflict(x, y):
    """x before y; the clause list of C06 (with the instruction-pointer clause of the F08 repair)."""
    if x.rout & (y.rin | y.rout) or x.rin & y.rout:
        return True
    if x.mout & (y.min | y.mout) or x.min & y.mout:
        return True
    if x.typ & 6 or y.typ & 6:
        return True
    xm, ym = bool(x.min or x.mout), bool(y.min or y.mout)
    if (x.typ & 1 and (ym or y.typ & 1)) or (y.typ & 1 and xm):
        return True
    if y.term or x.ipw or y.ipw:
        return True
    return False


def admissible(seq, f, t):
    if f < t:
        return not any(conflict(seq[f], seq[k]) for k in range(f + 1, t + 1))
    return not any(conflict(seq[k], seq[f]) for k in range(t, f))


def gen_history(r, blocks, nops=None):
    """Ops as token lists; simulates the expected order to aim at accepted moves."""
    cur = [list(b) for b in blocks]          # current instruction order per block (by current block order)
    ops = []
    n = nops if nops is not None else r.choice([1, 2, 3, 4, 5, 6, 8, 10, 12, 15])
    all_addrs = [i.addr for b in blocks for i in b]
    lo, hi = min(all_addrs), max(i.addr + i.len for b in blocks for i in b)
    for _ in range(n):
        k = r.random()
        nb = len(cur)
        if k < 0.58:
            bi = r.randrange(nb)
            seq = cur[bi]
            m = len(seq)
            j = r.random()
            if j < 0.62 and m >= 2:
                # try to find an admissible move
                cand = [(f, t) for f in range(m) for t in range(m) if f != t and admissible(seq, f, t)]
                if cand:
                    far = [c for c in cand if abs(c[0] - c[1]) >= 2]
                    f, t = r.choice(far) if far and r.random() < 0.5 else r.choice(cand)
                else:
                    f, t = r.randrange(m), r.randrange(m)
            elif j < 0.85:
                f, t = r.randrange(m), r.randrange(m)
            elif j < 0.90:
                f = t = r.randrange(m)
            else:
                f = r.choice([-1, 0, m - 1, m, m + 1, r.randrange(m)])
                t = r.choice([-1, 0, m - 1, m, m + 3, r.randrange(m)])
            if r.random() < 0.03:
                bi = r.choice([-1, nb, nb + 1])
            ops.append(["mv", str(bi), str(f), str(t)])
            if 0 <= bi < nb and 0 <= f < m and 0 <= t < m and admissible(seq, f, t):
                x = seq.pop(f)
                seq.insert(t, x)
        elif k < 0.70:
            if r.random() < 0.8:
                f, t = r.randrange(nb), r.randrange(nb)
            else:
                f = r.choice([-1, 0, nb - 1, nb, nb + 2])
                t = r.choice([-1, 0, nb - 1, nb])
            ops.append(["bmv", str(f), str(t)])
            if 0 <= f < nb and 0 <= t < nb:
                x = cur.pop(f)
                cur.insert(t, x)
        elif k < 0.78:
            bi = r.randrange(nb) if r.random() < 0.95 else r.choice([-1, nb])
            m = len(cur[bi]) if 0 <= bi < nb else 3
            i = r.randrange(m) if r.random() < 0.9 else r.choice([-1, m, m + 1])
            ops.append([r.choice(["lb", "ub"]), str(bi), str(i)])
        elif k < 0.95:
            j = r.random()
            if j < 0.55:
                a = r.choice(all_addrs)
            elif j < 0.75:
                a = (r.choice(all_addrs) + r.choice([1, 2, 3, 4, 6])) % TOP
            elif j < 0.85:
                a = hi % TOP
            elif j < 0.92:
                a = (lo - r.choice([1, 4])) % TOP
            else:
                a = r.choice([0, TOP - 1, (hi + 4) % TOP, r.getrandbits(64)])
            ops.append(["addr", str(a)])
        else:
            bi = r.randrange(nb) if r.random() < 0.95 else r.choice([-1, nb])
            ops.append(["edges", str(bi)])
    return ops


def fmt(opname, entry, blocks, ops=None, shuffle=None):
    inss = [i for b in blocks for i in b]
    if shuffle is not None:
        shuffle.shuffle(inss)
    parts = [opname, str(entry), str(len(inss))]
    for i in inss:
        parts += i.tokens()
    if ops is not None:
        parts.append(str(len(ops)))
        for o in ops:
            parts += o
    return " ".join(parts)


def g_history(opname, shapes):
    def g(r):
        shape = r.choice(shapes)
        entry, blocks = gen_program(r, shape)
        ops = gen_history(r, blocks)
        return fmt(opname, entry, blocks, ops, r if r.random() < 0.5 else None)
    return g


g_deps = g_history("deps", [None, None, None, "f07", "f08"])
g_depsx = g_history("depsx", [None, None, "f07", "f07", "f08"])


g_depsadjh = g_history("depsadjh", [None, None, None, "f07", "f08"])


def g_depsemu_loads(r):
    """One block of mutually independent loads of different widths from one small window (each into its own register),
    reordered freely: the way the emulator's memory caches and cuts the provider's answers depends on the order of the
    loads, the values must not."""
    n = r.choice([2, 3, 3, 4, 5, 6])
    base = r.choice([64, 4096, 1 << 32])
    key = r.choice(MEMS)
    win = r.choice([0, 0, 1000, TOP - 200])
    blocks = [[]]
    a = base
    for k in range(n):
        ins = Ins()
        ins.addr, ins.len = a, 4
        w = r.choice([1, 1, 2, 2, 4, 4, 8, 8, 8, 16, 40, 64])
        off = r.choice([0, 0, 1, 2, 3, 4, 5, 6, 7, 8, 12, 16, 31, 32, 33, 36, 40])
        src = "m %s %d %s" % (key, w, c64(win + off))
        if r.random() < 0.25:
            src = "b add 8 %s %s" % (src, c64(r.randint(0, 9)))
        ins.efs = ["rs y%d 8 %s" % (k, src)]
        if r.random() < 0.2:
            ins.efs.append("rs z%d 4 m %s %d %s" % (k, key, r.choice([1, 2, 4]), c64(win + r.choice([1, 2, 5, 9, 34]))))
        blocks[0].append(ins)
        a += 4
    moves = []
    for _ in range(r.choice([1, 2, 3, 5, 8])):
        moves.append(["mv", "0", str(r.randrange(n)), str(r.randrange(n))])
    return "depsemu %d %s" % (r.getrandbits(32), fmt("x", base, blocks, moves).split(" ", 1)[1])


def g_depsemu(r):
    """C05 end to end: the same programs and histories, run by the real emulator (harness op depsemu)."""
    if r.random() < 0.2:
        return g_depsemu_loads(r)
    if r.random() < 0.4:
        line = g_depsx_long(r)
    else:
        line = g_depsx(r)
    return "depsemu %d %s" % (r.getrandbits(32), line.split(" ", 1)[1])


def g_depsx_long(r):
    """One block, many accepted moves."""
    shape = r.choice([None, "f07", "f08"])
    entry, blocks = gen_program(r, shape)
    blocks = [max(blocks, key=len)]
    entry = blocks[0][0].addr
    # jumps must stay inside the remaining block
    for i in blocks[0]:
        if i.ipw and i.term:
            i.efs = [e for e in i.efs if not e.startswith("rs " + IP)] + ["rs %s 8 %s" % (IP, c64(entry))]
    ops = gen_history(r, blocks, nops=r.choice([6, 10, 15]))
    ops = [o for o in ops if o[0] in ("mv", "addr")]
    return fmt("depsx", entry, blocks, ops)


def g_depsadj(r):
    shape = r.choice([None, None, None, "f07", "f08"])
    entry, blocks = gen_program(r, shape)
    return fmt("depsadj", entry, blocks, None, r if r.random() < 0.5 else None)


W_F07 = ("100 4 0 100 4 1 rs x1 8 c:0100000000000000 0 104 4 1 rs x1 8 c:0200000000000000 0 108 4 1 rs x2 8 r x1 8 "
         "0 112 4 1 rs x1 8 c:0300000000000000")
W_F08 = ("100 3 0 100 4 1 rs #r:w:ip 8 c:6800000000000000 0 104 4 1 rs x1 8 c:0100000000000000 "
         "0 108 4 1 rs x2 8 c:0100000000000000")
W_TOP = "18446744073709551608 2 0 18446744073709551608 4 0 0 18446744073709551612 4 0"

# C05: F07 (w x1; w x1; read x1; w x1 — the two first writes must not swap), F07 with a reading writer,
# F08 (jal x0,+4 ; addi ; addi)
WITNESSES_X = [
    "depsx " + W_F07 + " 1 mv 0 0 1",
    "depsx 100 4 0 100 4 1 rs x1 8 b add 8 r x1 8 c:0100000000000000 0 104 4 1 rs x1 8 c:0200000000000000 "
    "0 108 4 1 rs x2 8 r x1 8 0 112 4 1 rs x1 8 c:0300000000000000 1 mv 0 1 0",
    "depsx " + W_F08 + " 1 mv 0 0 2",
    "depsx " + W_F08 + " 2 mv 0 0 1 mv 0 1 2",
]
# C07: F50 (a block ending at 2^64 is not found by Code.Address); bookkeeping on the F07/F08 shapes
WITNESSES = [
    "deps " + W_TOP + " 2 addr 18446744073709551612 mv 0 0 1",
    "deps " + W_TOP + " 3 mv 0 1 0 addr 18446744073709551608 addr 18446744073709551611",
    "deps " + W_F07 + " 4 mv 0 0 1 mv 0 2 0 ub 0 0 addr 104",
    "deps " + W_F08 + " 3 mv 0 0 2 mv 0 2 1 lb 0 2",
]
# C06: adjacent pairs of the same shapes
WITNESSES_ADJ = ["depsadj " + W_F07, "depsadj " + W_F08, "depsadj " + W_TOP]


def g_witness(r):
    return r.choice(WITNESSES)


def g_witness_x(r):
    return r.choice(WITNESSES_X)


def g_witness_adj(r):
    return r.choice(WITNESSES_ADJ)
