"""Dependency analysis and move bookkeeping of internal/deps: C05, C06, C07."""
from .props import Prop, reg, has, nothas
from . import gendeps as gd

_GEN = ("1-4 basic blocks of 1-12 synthetic instructions (length 4, sometimes 2 or 6) over 2-4 registers and 1-2 memory "
        "spaces, contiguous or with gaps, sometimes ending at 2^64; effects: register moves, arithmetic, conditionals, loads and "
        "stores at a few fixed cells or register based addresses; instruction types none / memory ordering / CPU state / "
        "system call; blocks end with constant, conditional or symbolic jumps, at gaps or before jump targets; writes of the "
        "instruction pointer to the next address in the middle of a block (F08 shape); several writers of one register "
        "around a reader (F07 shape); ")

reg(Prop("C07",
         [("deps", gd.g_deps, 8), ("depswitness", gd.g_witness, 0)],
         lambda c: "mv-ok" in c.tags and ("mv-rej-bound" in c.tags or "mv-rej-index" in c.tags or "lookup" in c.tags),
         _GEN + "histories of 1-15 operations: instruction moves aimed at admissible targets (the generator predicts them from "
         "pairwise conflicts) mixed with rejected ones (out of bounds, indices negative / too large / equal), block moves, "
         "bound queries, address lookups (instruction starts, inside instructions, block ends, outside) and edge dumps; after "
         "every operation the full state (indices, addresses, bounds, lookups of every instruction) is dumped and judged; "
         "non-trivial = at least one accepted move to another position together with a rejected move or an address lookup",
         3000, 150000,
         trusted=["sort.Search followed literally; Go maps as duplicate-free lists / association lists",
                  "errors of Move classified from the message texts of package deps"]))

reg(Prop("C06",
         [("depsadj", gd.g_depsadj, 8), ("depsadjh", gd.g_depsadjh, 4), ("depsadjwitness", gd.g_witness_adj, 0)],
         lambda c: "independent" in c.tags and "conflict" in c.tags,
         _GEN + "for every adjacent pair of every block a fresh code is built and Move(i, i+1) is tried; the oracle evaluates the "
         "clause list of the property on the instructions' effects; stream depsadjh does the same after a history of moves, "
         "bound queries and lookups on ONE code object (every adjacent pair of the current order is swapped and swapped back); "
         "non-trivial = the code has both an independent and a conflicting adjacent pair",
         3000, 150000,
         trusted=["Independent = the clause list of C06 plus: neither instruction writes the instruction pointer (F08 repair)"]))

reg(Prop("C05",
         [("depsx", gd.g_depsx, 6), ("depsx_long", gd.g_depsx_long, 3), ("depsemu", gd.g_depsemu, 4),
          ("depsxwitness", gd.g_witness_x, 0)],
         lambda c: "mv-ok" in c.tags or "e2e-moved" in c.tags,
         _GEN + "histories as for C07, plus one-block histories with many accepted moves; after every accepted instruction move "
         "the original order and the current order of the block are executed by the reference semantics (effects evaluated in "
         "the pre-state, an instruction-pointer write is a jump, otherwise fall through to current address + length) from 5 "
         "pseudo-random valuations and compared on all registers of the block's footprint, all written memory cells and the "
         "final instruction pointer; block moves must not change any address; stream depsemu observes the property end to "
         "end: the real emulator (emulator.New + Step) runs every block of the moved code and of an untouched copy from the "
         "same provider-supplied machine state and the final states must be equal; non-trivial = at least one accepted move "
         "to another position",
         3000, 150000,
         trusted=["execution oracle of depsx = Spec.Lift.applyEffects / nextIp (tied to the Go emulator by C03/C04); "
                  "depsemu runs the Go emulator itself and has no model side (oracle only)"]))
