"""Memory view: C32."""
from .props import Prop, reg
from . import genmemview as gm

reg(Prop("C32",
         [("mvsparse", gm.g_memview_sparse, 5), ("mvbytes", gm.g_memview_bytes, 3), ("mvnil", gm.g_memview_nil, 1),
          ("mvwitness", gm.g_memview_witness, 1)],
         lambda c: "multi" in c.tags and ("print" in c.tags or "addr-hit" in c.tags),
         "sparse memories (constant stores, pieces of 1-16 bytes, shuffled, overwritten) and byte memories (initial blocks + "
         "stores) with 0-6 blocks in a ~200 byte region at address 0, low, middle, just below and at the top of the address "
         "space; blocks sharing a window, adjacent windows, gaps of exactly one window; the nil memory; command sequences of "
         "print (heights 0..40), goto/up/down to both ends and beyond (also MaxInt and above), address in every notation with "
         "stored, absent-in-window, outside and malformed arguments, all through the real Commands()[i].Args/Action of "
         "memview.New(mem); oracle = byte map replayed from the stores -> windows, cells, layout, address row (a stored "
         "address selects the row of its window, any other address is an error) "
         "(Spec/MemView.lean), the printed text parsed row by row; non-trivial = at least two rows and a print or a successful "
         "address command",
         3000, 150000,
         trusted=["fmt verbs %1s, %<k>d, %016x, %02X by their documented meaning; strings.Builder = concatenation",
                  "int(math.Floor(float64(n)/(math.Phi+1))) = (3n - isqrt(5n^2) - 1)/2 for 0 <= n <= 10^6 "
                  "(checked against IEEE doubles: vcheck/genmemview.py check_phi)",
                  "memory contents: the memory models of C14/C15 (Model/Sparse.lean, Model/BytesMem.lean); sparse memories "
                  "hold constants (what the emulator stores)",
                  "strconv.Atoi of the goto/up/down arguments: decimal digits, range error above MaxInt"],
         assumptions=["memory cells hold constants: a memory with a non-constant expression makes formatMemLine panic "
                      "(`bug: expected expr.Const`); the emulator only stores constants"]))
