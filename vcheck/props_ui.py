"""Whole console UI sessions: C22."""
from .props import Prop, reg
from . import genui as gu

reg(Prop("C22",
         [("ui", gu.g_ui, 6), ("uideep", gu.g_ui_deep, 3), ("uiwitness", gu.g_ui_witness, 1), ("uilong", gu.g_ui_long, 1),
          ("uitop", gu.g_ui_top, 1)],
         lambda c: "modes2+" in c.tags or "err+ok" in c.tags,
         "scripts of 1-40 input lines on six tiny RV64IMA programs (straight line, loop, 8-byte and 4-byte loads/stores "
         "with provider prompts, two memory blocks of different sizes, call/ecall) through the real UI.processCommand of a "
         "UI built like cmd/mltwist builds it (parser.Parse, deps.NewCode, disassemble.New, emulate.New over "
         "Overlay(Bytes(image), Sparse), consoleui.New), the view of the current mode printed after every call; lines drawn "
         "from the vocabulary of the current mode with random spacing (leading/trailing/repeated spaces, all-space lines, tabs, "
         "CR), 0-4 arguments, numbers at 0, max, MaxInt, MaxInt+1, 2^64, negative, signed, huge, non-numeric, unknown and "
         "abbreviated and upper-case commands, acknowledgement lines, values for the value prompts (all notations, rejected "
         "ones), lines up to 59000 bytes; model = Model/UI.lean with the code operations, the regular expression answers and "
         "the emulator replayed from the dumps; oracle = Spec/UI.lean (no panic, no endless reading, every non-empty line "
         "answered, end of input only at the end, mode stack as the command words dictate, view prints); non-trivial = the "
         "session reaches at least two modes or has an error answer and an executed command; thorough tier in addition: 40 "
         "scripted sessions of the real binary under a pseudo-terminal (op uibin: exit status 0 or 1, no panic:/goroutine/"
         "fatal error in the output, no timeout)",
         3000, 120000,
         trusted=["strings.Split/Join, strconv.Atoi (decimal, optional sign, int64 range) by their documented meaning",
                  "bufio.Scanner/ScanLines: lines without the newline, one trailing CR dropped; lines longer than 64 KiB end "
                  "the session with an error (excluded: generator lines < 60000 bytes)",
                  "regexp.CompilePOSIX/MatchString, the code model (deps), Emulator.Step and the state provider calls it "
                  "makes are parameters of the model, replayed from the implementation's dumps",
                  "fmt, the terminal size (view.Print/screen.go is not run; Mode.View().Print(n) is)",
                  "status of a call is read off its output: last line holding 'error: ' / 'leaving mode'"],
         assumptions=["Emulator.Step never panics (C03, unconditional since the repair of F45: the stream uitop answers "
                      "register prompts with values at the top of the address space; the generator still avoids loads "
                      "overlapping stored data partially)",
                      "at the end of the input a value prompt never returns (readValueNoErr loops): scripts end with valid "
                      "values; the model reports `hang`, the harness HANG"],
         thorough_lines=gu.bin_lines,
         partial="terminal, fmt, regexp, bufio.Scanner line limit, end-of-input behaviour and the emulator step are parameters"))
