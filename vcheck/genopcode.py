"""Generators for the opcode matcher (C19): pattern sets and probe byte strings."""
import random


def hx(bs):
    return "".join("%02x" % b for b in bs) if bs else "-"


def sparse_byte(r):
    """A mask byte with few bits set (possibly none)."""
    k = r.random()
    if k < 0.15:
        return 0
    if k < 0.3:
        return 0xff
    if k < 0.45:
        return r.choice([0x0f, 0xf0, 0x7f, 0x03, 0xc0, 0x3c])
    b = 0
    for _ in range(r.choice([1, 1, 2, 2, 3])):
        b |= 1 << r.randrange(8)
    return b


def rand_mask(r, n):
    m = [sparse_byte(r) for _ in range(n)]
    while m[-1] == 0:
        m[-1] = sparse_byte(r)
    return m


def rand_bytes(r, mask, dontcare=True):
    out = []
    for m in mask:
        b = r.randrange(256) & m
        if dontcare and r.random() < 0.3:
            b |= r.randrange(256) & ~m & 0xff
        out.append(b)
    return out


def pattern_set(r):
    """1-8 well-formed patterns with forced relations to earlier ones."""
    n = r.choice([1, 2, 2, 3, 3, 4, 5, 6, 8])
    base_len = r.choice([1, 1, 2, 2, 3, 4])
    pats = []
    for _ in range(n):
        k = r.random()
        if pats and k < 0.25:
            # same mask as an earlier pattern, different (or, rarely, equal) masked bytes
            b0, m0 = r.choice(pats)
            m = list(m0)
            if r.random() < 0.12:
                b = [x & y for x, y in zip(b0, m0)]
                if r.random() < 0.5:
                    b = [x | (r.randrange(256) & ~y & 0xff) for x, y in zip(b, m)]
            else:
                b = rand_bytes(r, m)
        elif pats and k < 0.5:
            # partially overlapping mask: shares some bits with an earlier mask, adds others
            b0, m0 = r.choice(pats)
            ln = len(m0) if r.random() < 0.75 else r.choice([1, 2, 3, 4])
            m = []
            for i in range(ln):
                o = m0[i] if i < len(m0) else 0
                keep = o & r.randrange(256)
                extra = sparse_byte(r) & ~o & 0xff if r.random() < 0.7 else 0
                m.append(keep | extra)
            while m[-1] == 0:
                m[-1] = sparse_byte(r)
            b = rand_bytes(r, m)
            if r.random() < 0.45:
                # agree with the earlier pattern on all common bits (a conflict)
                for i in range(min(ln, len(m0))):
                    c = m[i] & m0[i]
                    b[i] = (b[i] & ~c & 0xff) | (b0[i] & c)
            elif r.random() < 0.5:
                # disagree on exactly one common bit (if there is one)
                for i in range(min(ln, len(m0))):
                    c = m[i] & m0[i]
                    b[i] = (b[i] & ~c & 0xff) | (b0[i] & c)
                cand = [(i, bit) for i in range(min(ln, len(m0))) for bit in range(8)
                        if (m[i] & m0[i]) >> bit & 1]
                if cand:
                    i, bit = r.choice(cand)
                    b[i] ^= 1 << bit
        elif pats and k < 0.6:
            # a longer / shorter pattern over the prefix of an earlier one
            b0, m0 = r.choice(pats)
            ln = r.choice([1, 2, 3, 4])
            m = [m0[i] if i < len(m0) else sparse_byte(r) for i in range(ln)]
            while m[-1] == 0:
                m[-1] = sparse_byte(r)
            b = [b0[i] if i < len(b0) and r.random() < 0.8 else r.randrange(256) for i in range(ln)]
        else:
            ln = base_len if r.random() < 0.8 else r.choice([1, 2, 3, 4])
            m = rand_mask(r, ln)
            b = rand_bytes(r, m)
        pats.append((b, m))
    r.shuffle(pats)
    return pats


def disjoint_set(r):
    """A conflict-free set by construction: a common opcode field distinguishes all patterns,
    further mask bits differ per pattern (like an ISA table)."""
    ln = r.choice([1, 2, 2, 3, 4])
    fpos = r.randrange(ln)
    fmask = r.choice([0x0f, 0xf0, 0x7f, 0x1f, 0xe0, 0xff])
    vals = [v for v in range(256) if v & ~fmask == 0]
    r.shuffle(vals)
    n = min(len(vals), r.choice([2, 3, 4, 5, 6, 8]))
    pats = []
    for v in vals[:n]:
        pl = ln if r.random() < 0.8 else r.randint(fpos + 1, 4)
        m = [sparse_byte(r) if r.random() < 0.6 else 0 for _ in range(pl)]
        m[fpos] |= fmask
        while m[-1] == 0:
            m[-1] = sparse_byte(r)
        b = rand_bytes(r, m)
        b[fpos] = (b[fpos] & ~fmask & 0xff) | v
        pats.append((b, m))
    return pats


def inputs_for(r, pats):
    """Probe strings: exact, with random don't-care bits, one bit off, shorter, longer."""
    ins = []
    k = r.choice([1, 2, 3, 4, 6])
    for _ in range(k):
        if not pats or r.random() < 0.1:
            ins.append([r.randrange(256) for _ in range(r.choice([0, 1, 2, 3, 4, 5]))])
            continue
        b, m = r.choice(pats)
        ln = min(len(b), len(m))
        s = [b[i] & m[i] for i in range(ln)]
        c = r.random()
        if c < 0.2:
            pass
        elif c < 0.5:
            s = [x | (r.randrange(256) & ~y & 0xff) for x, y in zip(s, m)]
        elif c < 0.65:
            s = [x | (r.randrange(256) & ~y & 0xff) for x, y in zip(s, m)]
            if s:
                s[r.randrange(len(s))] ^= 1 << r.randrange(8)
        elif c < 0.75:
            s = s[:r.randrange(len(s))] if s else s
        else:
            s = [x | (r.randrange(256) & ~y & 0xff) for x, y in zip(s, m)]
            s = s + [r.randrange(256) for _ in range(r.choice([1, 1, 2, 3]))]
        ins.append(s)
    return ins


def line(pats, ins):
    toks = ["opmatch", str(len(pats))]
    for b, m in pats:
        toks += [hx(b), hx(m)]
    toks.append(str(len(ins)))
    toks += [hx(s) for s in ins]
    return " ".join(toks)


def shared_set(r):
    """Patterns whose byte strings coincide with other patterns' bytes or masks (the harness makes equal strings of a
    line ONE slice): A = (X, mask with don't-care bits) where X is also the MASK of B, or windows of one table."""
    n = r.choice([1, 2, 2, 3])
    x = [0xff] * n
    ma = [r.choice([0xf0, 0x0f, 0xfc, 0x3f, 0xff]) for _ in range(n)]
    ma[-1] = ma[-1] or 0xff
    a = (list(x), ma)                                   # bytes X with don't-care bits set, mask ma
    bb = [r.randrange(256) for _ in range(n)]
    if all((v & m) == m for v, m in zip(bb, ma)):       # keep A and B disjoint
        bb[0] &= 0x0f if ma[0] & 0xf0 else 0xf0
    b = (bb, list(x))                                   # exact pattern whose mask is X
    pats = [a, b] if r.random() < 0.5 else [b, a]
    if r.random() < 0.4:
        c = [r.randrange(256) for _ in range(n + 1)]
        pats.append((c, [0xff] * (n + 1)))
    return pats


def g_opmatch(r):
    if r.random() < 0.06:
        pats = shared_set(r)
        ins = inputs_for(r, pats)
        for _ in range(3):                              # inputs next to B's bytes (one bit away)
            v = list(pats[0][0] if pats[0][1] == [0xff] * len(pats[0][1]) else pats[1][0])
            v[r.randrange(len(v))] ^= 1 << r.randrange(8)
            ins.append(v)
        return line(pats, ins)
    pats = disjoint_set(r) if r.random() < 0.45 else pattern_set(r)
    if r.random() < 0.03:
        pats = []
    return line(pats, inputs_for(r, pats))


def g_opinvalid(r):
    """Mostly valid sets with, usually, one ill-formed pattern (empty, length mismatch, zero last mask byte)."""
    pats = pattern_set(r)
    if r.random() < 0.85:
        i = r.randrange(len(pats))
        b, m = pats[i]
        c = r.random()
        if c < 0.2:
            b, m = [], []
        elif c < 0.3:
            b, m = [], m
        elif c < 0.45:
            b = b + [r.randrange(256)]
        elif c < 0.6:
            m = m + [sparse_byte(r) or 1]
        elif c < 0.7:
            b, m = b, []
        else:
            m = m[:-1] + [0]
        pats[i] = (b, m)
    return line(pats, inputs_for(r, [p for p in pats if len(p[0]) == len(p[1])]))
