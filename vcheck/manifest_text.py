"""Texts for MANIFEST.json (level claims per property)."""
import subprocess as _sp
def _hooks():
    try:
        out = _sp.run(["git", "-C", "/repo", "log", "--format=%h", "--grep=^verif hook"], capture_output=True, text=True).stdout.split()
        return list(reversed(out))
    except Exception:
        return []
HOOK_COMMITS = _hooks()

_T = "theorem(s) in lean/Mltwist/Props/%s.lean for all inputs the property quantifies over; "
_N = ("Trusted: Lean kernel + axioms propext/Classical.choice/Quot.sound (audited each run); the statements (reference "
      "semantics Expr.eval, Spec/*); the model-to-code tie is differential correspondence on this run's generated cases "
      "(sampling); Go runtime and libraries modelled by their mathematical meaning. ")

CLAIMED = {
 "C09": dict(text=_T % "C09" + "width, value under every valuation, closed => constant, no constant-only operation, idempotence of ConstFold, "
             "and unreachability of the 'unreachable' panic, proved for the model of ConstFold/PurgeWidthGadgets/SetWidth; model = code checked structurally on random trees",
             note=_N + "math/big modelled as Nat.", technique="Lean 4 proof by structural induction + structural differential correspondence"),
 "C10": dict(text=_T % "C10" + "byte-level Add/Lsh/Rsh/Mul/Div/Nand/Ltu equal the documented width rules for all byte strings and widths <= 255",
             note=_N + "math/big (Mul, Div, SetBytes, FillBytes) modelled as Nat.", technique="Lean 4 proof (carry/shift invariants by induction on byte lists) + correspondence"),
 "C11": dict(text=_T % "C11" + "one theorem per gadget: reference evaluation of the gadget tree equals the documented function for all widths and operand values "
             "(MaskBits for every bit count since the F34 repair)",
             note=_N, technique="Lean 4 proof (Nat.testBit / two's-complement arithmetic) + structural correspondence of constructors"),
 "C12": dict(text=_T % "C12" + "SetWidth yields trunc/zero-extension of the value at the new width; PurgeWidthGadgets preserves width and value incl. MemLoad addresses",
             note=_N, technique="Lean 4 proof by structural induction (context lemma for prune) + correspondence"),
 "C13": dict(text=_T % "C13" + "coverage of every valuation by some alternative; every alternative has the width and no conditional",
             note=_N, technique="Lean 4 proof by structural induction + correspondence"),
 "C17": dict(text=_T % "C17" + "NewMap/MapUnion/MapComplement/MapIntersect are total, denote the set operations and return normal forms, with the Go cursor bookkeeping modelled literally",
             note=_N + "sort.Slice modelled as a stable insertion sort.", technique="Lean 4 proof (loop invariants over the cursor) + correspondence"),
 "C27": dict(text=_T % "C27" + "NewConstUint/NewConstInt/ConstUint/WithWidth/NewConst against the little-endian two's-complement encoding and exact acceptance ranges; "
             "the aliasing clause is checked at run time by the newconst correspondence op (partial: Go slice aliasing is outside the value model)",
             note=_N + "Go generic integer types represented by their byte size.", technique="Lean 4 proof + correspondence over all 8 integer types"),
 "C28": dict(text=_T % "C28" + "Equal <-> structural identity; FindAll = pre-order filter of sub-terms; ReplaceAll = bottom-up map, identity when nothing matches; effect helpers by rfl",
             note=_N, technique="Lean 4 proof by structural induction + correspondence"),
}

CLAIMED.update({
 "C02": dict(text=_T % "C02" + "the REGENERATED instruction tables contain exactly the (mnemonic, match, mask) rows of the reference encoding table for both variants and all "
             "extension subsets (decide +kernel re-check on every run); decoder = reference decoder for all byte strings (short input, unknown, accepted with name, trailing bytes); "
             "the literal decoder through the C19 matcher equals the specification-style decoder (so NewParser cannot panic)",
             note=_N + "Instruction tables regenerated from /repo (runtime dump + go/ast translation); reference encodings are my transcription of the ISA manual.",
             technique="Lean 4 proof over regenerated tables (kernel decide + generic matcher theorem) + correspondence with reference decoder oracle"),
 "C08": dict(text=_T % "C08" + "basicblock.Parse/NewCode never panic, fail exactly when the entry point or a constant 64-bit target is not an instruction start, and otherwise produce the unique "
             "partition with exactly the required cut set (model follows the Go binary searches and the insertion shift literally)",
             note=_N + "sort.Slice / sort.Search modelled by their meaning.", technique="Lean 4 proof (partition characterisation) + correspondence on generated instruction sets"),
 "C14": dict(text=_T % "C14" + "store preserves the tree invariant and commutes with the byte-map abstraction; load succeeds iff all bytes present, has width w and the little-endian value under every valuation; "
             "missing/blocks exact and normal; the three 'bug:' panics unreachable; for all histories with addr+w < 2^64. The aliasing clause is a runtime monitor in the harness (partial: Go aliasing outside the value model)",
             note=_N + "zyedidia interval tree modelled as a sorted association list.", technique="Lean 4 proof (refinement to a byte map) + structural correspondence on write/read histories"),
 "C15": dict(text=_T % "C15" + "NewBytes fails iff two non-empty blocks overlap; block invariant preserved by Store (overlap panic unreachable); Load/Missing/Blocks exact w.r.t. the byte map for all histories; "
             "heap-level model with Go slice semantics: no array handed in or out is ever written (no_write_through). Known finding F37 (byte at 2^64-1) excluded by addr+w < 2^64",
             note=_N + "sort modelled by its meaning; heap model's agreement with the value model is cross-checked at run time, not proved.", technique="Lean 4 proof (value model + slice/heap model) + correspondence with aliasing monitor"),
 "C19": dict(text=_T % "C19" + "NewMatcher succeeds iff all patterns are well formed and no two patterns (by position) are matched by a common byte string (decidable criterion proved equivalent); "
             "a built matcher returns exactly the unique matching pattern or none",
             note=_N + "sort.Slice / sort.Search modelled by their meaning.", technique="Lean 4 proof + correspondence on random pattern sets"),
 "C25": dict(text=_T % "C25" + "for the REGENERATED tables: the text starts with the mnemonic and two accepted words at one address with identical text have identical lifted effects "
             "(string-level injectivity of the rendering + per-entry dependence on shown fields only)",
             note=_N + "fmt verbs modelled by toString; tables regenerated from /repo.", technique="Lean 4 proof over regenerated tables + byte-for-byte correspondence of String()"),
 "C29": dict(text=_T % "C29" + "format terminates (fuel suffices for every input), every line = indent tabs + 1..chars bytes, non-space content preserved in order, a word is split only if longer than chars; "
             "the executable oracle is proved sound and complete for the model output",
             note=_N + "Go int as unbounded integers, strings.Builder as concatenation, bytes not runes.", technique="Lean 4 proof + correspondence incl. precondition violations"),
})
 
CLAIMED.update({
 "C01": dict(text=_T % "C01" + "lift_correct: for every entry of the REGENERATED tables (RV32/RV64, every subset of M and A), every matching word, every machine state and every valuation representing it, "
             "the reference interpreter executes the instruction and applying the lifted effects (evaluated in the pre-state, applied in order, IP write = jump else fall through) yields a valuation representing "
             "the reference post-state with the same next IP; x0 never written / reads zero; one register per 12-bit CSR number. Scope: accesses wrapping the variant's address space excluded (noWrap)",
             note=_N + "Tables regenerated from /repo (runtime dump + go/ast translation); helper functions of opcodes.go hand-modelled, tied by structural correspondence per entry; the RISC-V reference "
             "(Spec/Riscv.lean) is my transcription of the ISA manual — no independent RISC-V execution oracle exists offline.",
             technique="Lean 4 proof per table entry over regenerated tables (gadget lemmas of C11) + structural correspondence + reference-machine oracle"),
})

CLAIMED.update({
 "C16": dict(text=_T % "C16" + "generic: if base and upper layer obey the memory laws (load iff all bytes present, width, value, missing/blocks exact) the overlay obeys them for 'upper byte if present else base byte'; "
             "instantiated for every stack of memories incl. Sparse over Bytes; history theorem; the 'bug: read from overlay' panic unreachable; MemMap laws. 'Base never modified' is a theorem in the value "
             "model and a runtime monitor (base re-read) for Go aliasing (partial in that clause)",
             note=_N, technique="Lean 4 proof (generic refinement over memory laws, uses C14 C15 C17) + correspondence on layered histories"),
 "C18": dict(text=_T % "C18" + "after any write history a register reads as absent iff never written, else with the requested width and the value trunc w' (trunc w e) of the last write; Apply returns false exactly for a "
             "memory store whose address does not fold to a constant and then leaves the state equal; with a constant address it is the C14/C16 store at the low 8 bytes of the address",
             note=_N + "Go map modelled as an association list.", technique="Lean 4 proof by induction over histories (uses C12, C09) + correspondence"),
 "C24": dict(text=_T % "C24" + "for the listing, memory, register and prompt views and the composites the tool builds (incl. the nested emulation screen): for every state and every n >= MinLines, Print n does not panic, "
             "emits at most n rows, exactly n for fixed-height views; distributeLines terminates and never over-grants for the tool's shapes. Observations (not violations): the missing remLines-- (F26) is "
             "unreachable from the tool's composites; MinLines 5 > MaxLines for listings shorter than 5 lines. Partial: terminal size and the float64 golden-ratio cut are parameters (validated against Go for n <= 100000)",
             note=_N + "terminal.GetSize, fmt and the float64 evaluation of n/(phi+1) are outside the model.", technique="Lean 4 proof + correspondence of rendered row counts and grant vectors"),
})

CLAIMED.update({
 "C05": dict(text=_T % "C05" + "reorderings_preserve_behaviour: for every well-formed code, every history of accepted/rejected instruction and block moves, every block and every valuation, running the current order "
             "gives the same registers, memory and final control transfer as the original order (edge soundness as dependency paths, frame lemmas, commutation of non-conflicting instructions, accepted moves pass only "
             "non-conflicting instructions); block moves change no address and no lookup. Execution semantics = the IR reference semantics (effects evaluated in the pre-state, IP write = jump)",
             note=_N + "Go maps/sets as duplicate-free lists, instructions identified by position; the emulator's own step is C03's subject.", technique="Lean 4 proof (commutation + induction over move histories) + correspondence incl. execution of both orders"),
 "C06": dict(text=_T % "C06" + "(Independent carries one clause more than the property text: neither instruction writes the IP — forced by C05, see known finding F46) no finder adds a spurious edge (every edge joins instructions that conflict by the property's clause list) and, in every state reachable from well-formed code, Independent(seq[i], seq[i+1]) implies Move(i,i+1) succeeds",
             note=_N, technique="Lean 4 proof + correspondence over all adjacent pairs of generated blocks"),
 "C07": dict(text=_T % "C07" + "a move is accepted iff both positions are valid and LowerBound <= to <= UpperBound; rejected operations change nothing; accepted = rotation of the segment; invariant (indices, contiguous addresses, exact "
             "Block/Code lookups, all edges forward, bounds contain each instruction) holds initially and after any history of instruction moves, block moves and lookups; nothing panics",
             note=_N + "sort.Search modelled by its meaning.", technique="Lean 4 proof (invariant by induction over operation histories) + correspondence on interleaved histories"),
 "C20": dict(text=_T % "C20" + "starting from the debug/elf view: result is an error or memory = PT_LOAD images (file bytes then zeros), code = exactly the non-empty executable address-bearing PROGBITS sections, sorted and "
             "non-overlapping, Address = suffix of the containing block or nothing; types none/rel/core and overlaps rejected; no panic given the allocator grants the zero fill (parameter lim). Partial: debug/elf, OS, allocator. "
             "Known finding F19 (enormous p_memsz) recorded",
             note=_N + "debug/elf, file system and allocator outside the model; an independent minimal ELF reader in Lean is the oracle for generated files.", technique="Lean 4 proof from the ELF view + correspondence on generated and mutated ELF files"),
 "C21": dict(text=_T % "C21" + "parse fails iff some instruction position holds an undecodable or truncated word; otherwise instructions tile every block contiguously in address order with Bytes = image bytes and Effects = map constFold "
             "of the front end's lifting; fuel suffices (generic decoder theorem + RV64IMA instance over the regenerated tables)",
             note=_N, technique="Lean 4 proof + correspondence on generated code images"),
 "C26": dict(text=_T % "C26" + "run(args, view) is 'ui' or 'exit1 stage', never panic, composing the no-panic theorems of C20, C21, C02, C08, C15; the 'cannot create byte memory' exit is unreachable. Partial: debug/elf, OS, allocator, "
             "terminal; disassemble.New/consoleui.New executed but not modelled. The real binary is run under ulimit in the check. Known finding F19 recorded",
             note=_N, technique="Lean 4 proof by composition + in-process pipeline and real binary on generated/mutated files"),
 "C23": dict(text=_T % "C23" + "after every history of accepted and rejected instruction and block moves (and of all seven disassembler commands) the listing equals the fresh rendering of the current code apart from marks; "
             "Lines.Line gives each instruction's row; a command that does not succeed leaves listing, code and cursor unchanged; nothing panics (for any code operations satisfying the Lawful assumptions, discharged for the reference operations)",
             note=_N + "fmt verbs modelled by their meaning; the code operations are abstract (Lawful), tied to deps by the driver on every run and by C07.", technique="Lean 4 proof (induction over command histories) + correspondence of rendered listings"),
 "C31": dict(text=_T % "C31" + "up/down/goto/entrypoint/find change only the cursor and either land on the specified line (find: first matching line strictly after the cursor, cyclically, excluding the cursor line) or fail leaving the cursor unchanged",
             note=_N + "regexp matching is a parameter (match vector supplied by the implementation); strconv.Atoi by its meaning.", technique="Lean 4 proof + correspondence"),
 "C30": dict(text=_T % "C30" + "for all byte strings parseAddr accepts exactly the grammar decimal | 0x/0X hex | 0b/0B binary | 0-octal with value < 2^64 and never panics; for all lines and widths readValue accepts exactly the prompt's "
             "grammar and yields natToLE w (n mod 2^(8w)); empty input and underscores rejected",
             note=_N + "strconv.ParseUint and big.Int.SetString grammars modelled from their documentation.", technique="Lean 4 proof + correspondence against an independent positional-value oracle"),
 "C32": dict(text=_T % "C32" + "rows are exactly the 16-byte windows meeting stored memory, ascending, one each; each cell = stored byte or absent mark; ellipsis rows exactly between non-consecutive windows (plus the accepted outer ones); "
             "address selects the row whose stored ranges contain the address or errors with the cursor unchanged; nothing panics incl. the empty view; memory hypothesis discharged for the byte and sparse memory models",
             note=_N + "fmt verbs by their meaning; the golden-ratio window offset validated against IEEE doubles for n <= 10^6.", technique="Lean 4 proof + correspondence of the printed text parsed row by row"),
})

CLAIMED.update({
 "C22": dict(text=_T % "C22" + "for every reachable UI state (mode stack over disassembler, emulator, memory view) and every input line, uiStep is never a panic and the line is executed, answered with an error, or quits the mode; "
             "sessions never panic by induction over scripts; parseCommand total; a hang is possible only inside a value prompt at end of input. Hypotheses named after the theorems that discharge them "
             "(Lawful code operations: C05-C07; WF code: C08; EmuLawful.step_safe: C03). Partial: terminal size, fmt, regexp, bufio.Scanner line limit and OS behaviour at end of input are outside the model; "
             "the thorough tier also drives the real binary under a pseudo-terminal",
             note=_N + "regexp answers, the emulator step and the code operations are parameters replayed from the implementation by the driver.",
             technique="Lean 4 proof (induction over scripts, composing C23 C24 C29 C30 C31 C32) + correspondence of scripted sessions, real binary under a pty in the thorough tier"),
})

CLAIMED.update({
 "C03": dict(text=_T % "C03" + "refinement for RV64IMA: for every provider and program image, while the reference machine (running on its own memory) leaves the code intact, stays on decoded instructions and keeps accesses "
             "below 2^64, the emulator (Overlay(Bytes image, Sparse), RegMap) makes the same successful steps and stays related to the reference state after every step, reports exactly the registers/bytes read and written, "
             "returns the error iff the pc is not at an instruction start, and never panics; never-panics is unconditional in the accesses (F45 repaired: an access with addr + w >= 2^64 makes Step return an error, "
             "the state then results from provider fills only, the instruction pointer stays); start relation proved for any consistent provider. Composes C01, C02, C09, C14-C16, C18. Assumptions outside this model: "
             "Code/Block address lookup exact (C07) and deps.Code's instructions = lifting of the image (C21)",
             note=_N + "The RISC-V reference is my transcription of the ISA manual; the provider is an arbitrary function with a log.",
             technique="Lean 4 refinement proof (induction over step count) + step-by-step correspondence and reference-machine oracle on generated programs"),
 "C04": dict(text=_T % "C04" + "for an arbitrary provider: every request is for state unknown at that moment and exactly for the missing sub-ranges, the whole request log is pairwise disjoint (nothing asked twice), asked state is known "
             "afterwards, reads of known state ask nothing and supplied values persist until overwritten; runs never panic, whatever memory the program accesses (a step whose access leaves the address space is an error; "
             "its provider calls belong to the log and satisfy the same claims)",
             note=_N, technique="Lean 4 proof (invariants over the request log) + correspondence of the logged provider requests"),
})

NOT_YET = {}
