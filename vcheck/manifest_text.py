"""Texts for MANIFEST.json (level claims per property)."""
HOOK_COMMITS = ["ddf86f8", "99b9210"]

_T = "theorem(s) in lean/Mltwist/Props/%s.lean for all inputs the property quantifies over; "
_N = ("Trusted: Lean kernel + axioms propext/Classical.choice/Quot.sound (audited each run); the statements (reference "
      "semantics Expr.eval, Spec/*); the model-to-code tie is differential correspondence on this run's generated cases "
      "(sampling); Go runtime and libraries modelled by their mathematical meaning. ")

CLAIMED = {
 "C09": dict(text=_T % "C09" + "width, value under every valuation, closed => constant, no constant-only operation, idempotence of ConstFold, "
             "and unreachability of the 'unreachable' panic, proved for the model of ConstFold/PurgeWidthGadgets/SetWidth; model = code checked structurally on random trees",
             note=_N + "math/big modelled as Nat.", technique="Lean 4 proof by structural induction + structural differential correspondence"),
 "C10": dict(text=_T % "C10" + "byte-level Add/Lsh/Rsh/Mul/Div/Nand/Ltu equal the documented width rules for all byte strings and widths <= 255",
             note=_N + "math/big (Mul, Div, SetBytes, FillBytes) modelled as Nat.", technique="Lean 4 proof (carry/shift invariants by induction on byte lists) + correspondence"),
 "C11": dict(text=_T % "C11" + "one theorem per gadget: reference evaluation of the gadget tree equals the documented function for all widths and operand values "
             "(F34: MaskBits with w=1 and cnt>=256 excluded by hypothesis, counterexample proved, recorded as known finding)",
             note=_N, technique="Lean 4 proof (Nat.testBit / two's-complement arithmetic) + structural correspondence of constructors"),
 "C12": dict(text=_T % "C12" + "SetWidth yields trunc/zero-extension of the value at the new width; PurgeWidthGadgets preserves width and value incl. MemLoad addresses",
             note=_N, technique="Lean 4 proof by structural induction (context lemma for prune) + correspondence"),
 "C13": dict(text=_T % "C13" + "coverage of every valuation by some alternative; every alternative has the width and no conditional",
             note=_N, technique="Lean 4 proof by structural induction + correspondence"),
 "C17": dict(text=_T % "C17" + "NewMap/MapUnion/MapComplement/MapIntersect are total, denote the set operations and return normal forms, with the Go cursor bookkeeping modelled literally",
             note=_N + "sort.Slice modelled as a stable insertion sort.", technique="Lean 4 proof (loop invariants over the cursor) + correspondence"),
 "C27": dict(text=_T % "C27" + "NewConstUint/NewConstInt/ConstUint/WithWidth/NewConst against the little-endian two's-complement encoding and exact acceptance ranges; "
             "the aliasing clause is checked at run time by the newconst correspondence op (partial: Go slice aliasing is outside the value model)",
             note=_N + "Go generic integer types represented by their byte size.", technique="Lean 4 proof + correspondence over all 8 integer types"),
 "C28": dict(text=_T % "C28" + "Equal <-> structural identity; FindAll = pre-order filter of sub-terms; ReplaceAll = bottom-up map, identity when nothing matches; effect helpers by rfl",
             note=_N, technique="Lean 4 proof by structural induction + correspondence"),
}

NOT_YET = {}
