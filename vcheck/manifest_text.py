"""Texts for MANIFEST.json (level claims per property)."""
import subprocess as _sp
def _hooks():
    try:
        out = _sp.run(["git", "-C", "/repo", "log", "--format=%h", "--grep=^verif hook"], capture_output=True, text=True).stdout.split()
        return list(reversed(out))
    except Exception:
        return []
HOOK_COMMITS = _hooks()

_T = "theorem(s) in lean/Mltwist/Props/%s.lean for all inputs the property quantifies over; "
_N = ("Trusted: Lean kernel + axioms propext/Classical.choice/Quot.sound (audited each run); the statements (reference "
      "semantics Expr.eval, Spec/*); the model-to-code tie is differential correspondence on this run's generated cases "
      "(sampling); Go runtime and libraries modelled by their mathematical meaning. ")

CLAIMED = {
 "C09": dict(text=_T % "C09" + "width, value under every valuation, closed => constant, no constant-only operation, idempotence of ConstFold, "
             "and unreachability of the 'unreachable' panic, proved for the model of ConstFold/PurgeWidthGadgets/SetWidth; model = code checked structurally on random trees",
             note=_N + "math/big modelled as Nat.", technique="Lean 4 proof by structural induction + structural differential correspondence"),
 "C10": dict(text=_T % "C10" + "byte-level Add/Lsh/Rsh/Mul/Div/Nand/Ltu equal the documented width rules for all byte strings and widths <= 255",
             note=_N + "math/big (Mul, Div, SetBytes, FillBytes) modelled as Nat.", technique="Lean 4 proof (carry/shift invariants by induction on byte lists) + correspondence"),
 "C11": dict(text=_T % "C11" + "one theorem per gadget: reference evaluation of the gadget tree equals the documented function for all widths and operand values "
             "(F34: MaskBits with w=1 and cnt>=256 excluded by hypothesis, counterexample proved, recorded as known finding)",
             note=_N, technique="Lean 4 proof (Nat.testBit / two's-complement arithmetic) + structural correspondence of constructors"),
 "C12": dict(text=_T % "C12" + "SetWidth yields trunc/zero-extension of the value at the new width; PurgeWidthGadgets preserves width and value incl. MemLoad addresses",
             note=_N, technique="Lean 4 proof by structural induction (context lemma for prune) + correspondence"),
 "C13": dict(text=_T % "C13" + "coverage of every valuation by some alternative; every alternative has the width and no conditional",
             note=_N, technique="Lean 4 proof by structural induction + correspondence"),
 "C17": dict(text=_T % "C17" + "NewMap/MapUnion/MapComplement/MapIntersect are total, denote the set operations and return normal forms, with the Go cursor bookkeeping modelled literally",
             note=_N + "sort.Slice modelled as a stable insertion sort.", technique="Lean 4 proof (loop invariants over the cursor) + correspondence"),
 "C27": dict(text=_T % "C27" + "NewConstUint/NewConstInt/ConstUint/WithWidth/NewConst against the little-endian two's-complement encoding and exact acceptance ranges; "
             "the aliasing clause is checked at run time by the newconst correspondence op (partial: Go slice aliasing is outside the value model)",
             note=_N + "Go generic integer types represented by their byte size.", technique="Lean 4 proof + correspondence over all 8 integer types"),
 "C28": dict(text=_T % "C28" + "Equal <-> structural identity; FindAll = pre-order filter of sub-terms; ReplaceAll = bottom-up map, identity when nothing matches; effect helpers by rfl",
             note=_N, technique="Lean 4 proof by structural induction + correspondence"),
}

CLAIMED.update({
 "C02": dict(text=_T % "C02" + "the REGENERATED instruction tables contain exactly the (mnemonic, match, mask) rows of the reference encoding table for both variants and all "
             "extension subsets (decide +kernel re-check on every run); decoder = reference decoder for all byte strings (short input, unknown, accepted with name, trailing bytes); "
             "the literal decoder through the C19 matcher equals the specification-style decoder (so NewParser cannot panic)",
             note=_N + "Instruction tables regenerated from /repo (runtime dump + go/ast translation); reference encodings are my transcription of the ISA manual.",
             technique="Lean 4 proof over regenerated tables (kernel decide + generic matcher theorem) + correspondence with reference decoder oracle"),
 "C08": dict(text=_T % "C08" + "basicblock.Parse/NewCode never panic, fail exactly when the entry point or a constant 64-bit target is not an instruction start, and otherwise produce the unique "
             "partition with exactly the required cut set (model follows the Go binary searches and the insertion shift literally)",
             note=_N + "sort.Slice / sort.Search modelled by their meaning.", technique="Lean 4 proof (partition characterisation) + correspondence on generated instruction sets"),
 "C14": dict(text=_T % "C14" + "store preserves the tree invariant and commutes with the byte-map abstraction; load succeeds iff all bytes present, has width w and the little-endian value under every valuation; "
             "missing/blocks exact and normal; the three 'bug:' panics unreachable; for all histories with addr+w < 2^64. The aliasing clause is a runtime monitor in the harness (partial: Go aliasing outside the value model)",
             note=_N + "zyedidia interval tree modelled as a sorted association list.", technique="Lean 4 proof (refinement to a byte map) + structural correspondence on write/read histories"),
 "C15": dict(text=_T % "C15" + "NewBytes fails iff two non-empty blocks overlap; block invariant preserved by Store (overlap panic unreachable); Load/Missing/Blocks exact w.r.t. the byte map for all histories; "
             "heap-level model with Go slice semantics: no array handed in or out is ever written (no_write_through). Known finding F37 (byte at 2^64-1) excluded by addr+w < 2^64",
             note=_N + "sort modelled by its meaning; heap model's agreement with the value model is cross-checked at run time, not proved.", technique="Lean 4 proof (value model + slice/heap model) + correspondence with aliasing monitor"),
 "C19": dict(text=_T % "C19" + "NewMatcher succeeds iff all patterns are well formed and no two patterns (by position) are matched by a common byte string (decidable criterion proved equivalent); "
             "a built matcher returns exactly the unique matching pattern or none",
             note=_N + "sort.Slice / sort.Search modelled by their meaning.", technique="Lean 4 proof + correspondence on random pattern sets"),
 "C25": dict(text=_T % "C25" + "for the REGENERATED tables: the text starts with the mnemonic and two accepted words at one address with identical text have identical lifted effects "
             "(string-level injectivity of the rendering + per-entry dependence on shown fields only)",
             note=_N + "fmt verbs modelled by toString; tables regenerated from /repo.", technique="Lean 4 proof over regenerated tables + byte-for-byte correspondence of String()"),
 "C29": dict(text=_T % "C29" + "format terminates (fuel suffices for every input), every line = indent tabs + 1..chars bytes, non-space content preserved in order, a word is split only if longer than chars; "
             "the executable oracle is proved sound and complete for the model output",
             note=_N + "Go int as unbounded integers, strings.Builder as concatenation, bytes not runes.", technique="Lean 4 proof + correspondence incl. precondition violations"),
})
 
CLAIMED.update({
 "C01": dict(text=_T % "C01" + "lift_correct: for every entry of the REGENERATED tables (RV32/RV64, every subset of M and A), every matching word, every machine state and every valuation representing it, "
             "the reference interpreter executes the instruction and applying the lifted effects (evaluated in the pre-state, applied in order, IP write = jump else fall through) yields a valuation representing "
             "the reference post-state with the same next IP; x0 never written / reads zero; one register per 12-bit CSR number. Scope: accesses wrapping the variant's address space excluded (noWrap)",
             note=_N + "Tables regenerated from /repo (runtime dump + go/ast translation); helper functions of opcodes.go hand-modelled, tied by structural correspondence per entry; the RISC-V reference "
             "(Spec/Riscv.lean) is my transcription of the ISA manual — no independent RISC-V execution oracle exists offline.",
             technique="Lean 4 proof per table entry over regenerated tables (gadget lemmas of C11) + structural correspondence + reference-machine oracle"),
})

CLAIMED.update({
 "C16": dict(text=_T % "C16" + "generic: if base and upper layer obey the memory laws (load iff all bytes present, width, value, missing/blocks exact) the overlay obeys them for 'upper byte if present else base byte'; "
             "instantiated for every stack of memories incl. Sparse over Bytes; history theorem; the 'bug: read from overlay' panic unreachable; MemMap laws. 'Base never modified' is a theorem in the value "
             "model and a runtime monitor (base re-read) for Go aliasing (partial in that clause)",
             note=_N, technique="Lean 4 proof (generic refinement over memory laws, uses C14 C15 C17) + correspondence on layered histories"),
 "C18": dict(text=_T % "C18" + "after any write history a register reads as absent iff never written, else with the requested width and the value trunc w' (trunc w e) of the last write; Apply returns false exactly for a "
             "memory store whose address does not fold to a constant and then leaves the state equal; with a constant address it is the C14/C16 store at the low 8 bytes of the address",
             note=_N + "Go map modelled as an association list.", technique="Lean 4 proof by induction over histories (uses C12, C09) + correspondence"),
 "C24": dict(text=_T % "C24" + "for the listing, memory, register and prompt views and the composites the tool builds (incl. the nested emulation screen): for every state and every n >= MinLines, Print n does not panic, "
             "emits at most n rows, exactly n for fixed-height views; distributeLines terminates and never over-grants for the tool's shapes. Observations (not violations): the missing remLines-- (F26) is "
             "unreachable from the tool's composites; MinLines 5 > MaxLines for listings shorter than 5 lines. Partial: terminal size and the float64 golden-ratio cut are parameters (validated against Go for n <= 100000)",
             note=_N + "terminal.GetSize, fmt and the float64 evaluation of n/(phi+1) are outside the model.", technique="Lean 4 proof + correspondence of rendered row counts and grant vectors"),
})

NOT_YET = {}
