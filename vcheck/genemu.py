"""Generators of emulator histories (C03, C04): RV64IMA programs from an instruction-level mini assembler.

    emu|emuq <seed> <entry> <ncode> (<begin> <hex>)... <ndata> (<begin> <hex>)... <nsteps> <npre> (<key> <hex>)...

Encodings are the reference rows of `Spec/Riscv.lean` (through `genrv.spec_rows()`).
"""
from . import genrv

M64 = 2 ** 64
_rows = None


def rows():
    global _rows
    if _rows is None:
        _rows = {x["name"]: x for x in genrv.spec_rows() if x["rv64"]}
    return _rows


# ---------------------------------------------------------------- assembler

def _m(name):
    return rows()[name]["match"]


def rtype(name, rd, rs1, rs2):
    return _m(name) | rd << 7 | rs1 << 15 | rs2 << 20


def itype(name, rd, rs1, imm):
    return _m(name) | rd << 7 | rs1 << 15 | (imm & 0xfff) << 20


def shift(name, rd, rs1, sh):
    return _m(name) | rd << 7 | rs1 << 15 | sh << 20


def stype(name, rs2, rs1, imm):
    imm &= 0xfff
    return _m(name) | (imm & 0x1f) << 7 | rs1 << 15 | rs2 << 20 | (imm >> 5) << 25


def btype(name, rs1, rs2, off):
    imm = off & 0x1fff
    return (_m(name) | rs1 << 15 | rs2 << 20 | ((imm >> 11) & 1) << 7 | ((imm >> 1) & 0xf) << 8 |
            ((imm >> 5) & 0x3f) << 25 | ((imm >> 12) & 1) << 31)


def utype(name, rd, imm20):
    return _m(name) | rd << 7 | (imm20 & 0xfffff) << 12


def jtype(rd, off):
    imm = off & 0x1fffff
    return (_m("jal") | rd << 7 | ((imm >> 12) & 0xff) << 12 | ((imm >> 11) & 1) << 20 |
            ((imm >> 1) & 0x3ff) << 21 | ((imm >> 20) & 1) << 31)


def amo(name, rd, rs1, rs2, aqrl=0):
    return _m(name) | rd << 7 | rs1 << 15 | rs2 << 20 | aqrl << 25


def csr(name, rd, src, num):
    return _m(name) | rd << 7 | src << 15 | (num & 0xfff) << 20


ALU_R = ["add", "sub", "sll", "slt", "sltu", "xor", "srl", "sra", "or", "and",
         "addw", "subw", "sllw", "srlw", "sraw"]
MUL_R = ["mul", "mulh", "mulhsu", "mulhu", "div", "divu", "rem", "remu", "mulw", "divw", "divuw", "remw", "remuw"]
ALU_I = ["addi", "slti", "sltiu", "xori", "ori", "andi", "addiw"]
SH_I = ["slli", "srli", "srai"]
SH_W = ["slliw", "srliw", "sraiw"]
LOADS = [("lb", 1), ("lh", 2), ("lw", 4), ("ld", 8), ("lbu", 1), ("lhu", 2), ("lwu", 4)]
STORES = [("sb", 1), ("sh", 2), ("sw", 4), ("sd", 8)]
BRANCHES = ["beq", "bne", "blt", "bge", "bltu", "bgeu"]
AMOS_W = ["amoswap.w", "amoadd.w", "amoxor.w", "amoand.w", "amoor.w", "amomin.w", "amomax.w", "amominu.w", "amomaxu.w"]
AMOS_D = [n[:-1] + "d" for n in AMOS_W]
CSRS = ["csrrw", "csrrs", "csrrc", "csrrwi", "csrrsi", "csrrci"]


def imm12(r):
    k = r.random()
    if k < 0.15:
        return r.choice([0, 1, -1, 2047, -2048, 4, -4])
    if k < 0.5:
        return r.randint(-16, 16)
    return r.randint(-2048, 2047)


class Prog:
    """a code block under construction: words with symbolic branch targets"""

    def __init__(self, r, base):
        self.r = r
        self.base = base
        self.words = []          # int or (kind, fields..., label)
        self.labels = {}

    def here(self):
        return len(self.words)

    def emit(self, w):
        self.words.append(w & 0xffffffff)

    def label(self, name):
        self.labels[name] = len(self.words)

    def branch(self, name, rs1, rs2, label):
        self.words.append(("b", name, rs1, rs2, label))

    def jal(self, rd, label):
        self.words.append(("j", rd, label))

    def assemble(self):
        out = []
        for i, w in enumerate(self.words):
            if isinstance(w, tuple):
                if w[0] == "b":
                    t = self.labels[w[4]] if isinstance(w[4], str) else w[4]
                    w = btype(w[1], w[2], w[3], 4 * (t - i))
                else:
                    t = self.labels[w[2]] if isinstance(w[2], str) else w[2]
                    w = jtype(w[1], 4 * (t - i))
            out.append(w & 0xffffffff)
        return b"".join(x.to_bytes(4, "little") for x in out)


# registers: x1 = buffer pointer (kept), x2..x9 work registers, x10 loop counter, x11 link
WORK = [2, 3, 4, 5, 6, 7, 8, 9]
PTR = 1


def reg(r, zero=0.12):
    return 0 if r.random() < zero else r.choice(WORK)


def alu(r, p, narrow=True):
    k = r.random()
    rd = r.choice(WORK)
    if k < 0.3:
        names = ALU_R if narrow else ALU_R[:10]
        p.emit(rtype(r.choice(names), rd, reg(r), reg(r)))
    elif k < 0.55:
        names = ALU_I if narrow else ALU_I[:6]
        p.emit(itype(r.choice(names), rd, reg(r), imm12(r)))
    elif k < 0.65:
        p.emit(shift(r.choice(SH_I), rd, reg(r), r.choice([0, 1, 31, 32, 63, r.randrange(64)])))
    elif k < 0.72 and narrow:
        p.emit(shift(r.choice(SH_W), rd, reg(r), r.choice([0, 1, 31, r.randrange(32)])))
    elif k < 0.80:
        p.emit(utype(r.choice(["lui", "auipc"]), rd, r.choice([0, 1, 0x7ffff, 0x80000, 0xfffff, r.randrange(2 ** 20)])))
    else:
        names = MUL_R if narrow else MUL_R[:8]
        p.emit(rtype(r.choice(names), rd, reg(r), reg(r)))


def store(r, p, lo=0, hi=15):
    n, w = r.choice(STORES)
    p.emit(stype(n, reg(r, 0.05), PTR, r.randint(lo, hi)))


def load(r, p, lo=0, hi=15):
    n, w = r.choice(LOADS)
    p.emit(itype(n, r.choice(WORK), PTR, r.randint(lo, hi)))


def amo_ins(r, p):
    # the address register must hold the address itself: x12 = x1 + off
    off = r.choice([0, 4, 8, r.randint(0, 12)])
    p.emit(itype("addi", 12, PTR, off))
    k = r.random()
    if k < 0.4:
        p.emit(amo(r.choice(AMOS_W), reg(r), 12, reg(r), r.randrange(4)))
    elif k < 0.75:
        p.emit(amo(r.choice(AMOS_D), reg(r), 12, reg(r), r.randrange(4)))
    elif k < 0.85:
        p.emit(amo(r.choice(["lr.w", "lr.d"]), r.choice(WORK), 12, 0, r.randrange(4)))
    else:
        p.emit(amo(r.choice(["sc.w", "sc.d"]), reg(r), 12, reg(r), r.randrange(4)))


def csr_ins(r, p):
    n = r.choice(CSRS)
    num = r.choice([0, 1, 0x300, 0x7ff, 0x800, 0xc00, 0xfff])
    src = r.choice(WORK + [0]) if not n.endswith("i") else r.choice([0, 1, 31, r.randrange(32)])
    p.emit(csr(n, reg(r, 0.3), src, num))


def misc(r, p):
    k = r.random()
    if k < 0.5:
        p.emit(_m("fence") | r.randrange(256) << 20)
    elif k < 0.7:
        p.emit(_m("fence.i"))
    elif k < 0.85:
        p.emit(_m("ecall"))
    else:
        p.emit(_m("ebreak"))


def body(r, p, n, mem=0.5, narrow=True):
    for _ in range(n):
        k = r.random()
        if k < mem * 0.5:
            store(r, p)
        elif k < mem:
            load(r, p)
        elif k < mem + 0.06:
            amo_ins(r, p)
        elif k < mem + 0.10:
            csr_ins(r, p)
        elif k < mem + 0.12:
            misc(r, p)
        else:
            alu(r, p, narrow)


# ---------------------------------------------------------------- layouts

def hexb(bs):
    return bs.hex() if bs else "-"


def le(v, n=8):
    return (v % (1 << (8 * n))).to_bytes(n, "little").hex()


def layout(r):
    """code base, data image block (begin, bytes), buffer pointer.  The buffer [ptr, ptr+24) starts inside
    the image block and ends behind it, so reads straddle image bytes, missing bytes and written bytes."""
    k = r.random()
    if k < 0.7:
        cbase = 0x1000
    elif k < 0.8:
        cbase = 0x10000
    elif k < 0.9:
        cbase = 2 ** 31 - 16
    else:
        cbase = r.choice([2 ** 32, 2 ** 40 + 0x100, 2 ** 63])
    dbase = cbase + 0x1000
    dlen = r.choice([0, 4, 8, 12, 16, 20, 32])
    data = bytes(r.randrange(256) for _ in range(dlen))
    ptr = dbase + r.choice([0, 0, 4, 8, max(dlen - 4, 0), dlen])
    if r.random() < 0.1:
        ptr = dbase - r.choice([1, 4, 8])      # starts before the image block
    return cbase, (dbase, data), ptr


def presets(r, ptr, extra=()):
    pre = {"x1": le(ptr)}
    for x in WORK:
        k = r.random()
        if k < 0.35:
            v = r.choice([0, 1, 2, M64 - 1, 2 ** 63, 2 ** 63 - 1, 2 ** 31, 2 ** 32 - 1, 2 ** 31 - 1, 2 ** 32, 7, M64 - 7])
            pre["x%d" % x] = le(v)
        elif k < 0.5:
            pre["x%d" % x] = le(r.getrandbits(64))
        elif k < 0.55:
            # a narrow pre-set value: the register holds the zero-extended value
            w = r.choice([1, 2, 4])
            pre["x%d" % x] = le(r.getrandbits(8 * w), w)
    for k, v in extra:
        pre[k] = v
    return pre


def line(op, r, entry, code, data, nsteps, pre, seed=None):
    seed = r.randrange(1, 10 ** 6) if seed is None else seed
    cb = " ".join("%d %s" % (b, hexb(bs)) for b, bs in code)
    db = " ".join("%d %s" % (b, hexb(bs)) for b, bs in data if bs)
    nd = len([1 for _, bs in data if bs])
    pp = " ".join("%s %s" % kv for kv in sorted(pre.items()))
    s = "%s %d %d %d %s %d%s %d %d%s" % (op, seed, entry, len(code), cb, nd, (" " + db) if nd else "", nsteps,
                                         len(pre), (" " + pp) if pre else "")
    return s


# ---------------------------------------------------------------- program shapes

def p_straight(r, op):
    cbase, data, ptr = layout(r)
    p = Prog(r, cbase)
    n = r.randint(1, 30)
    body(r, p, n, mem=r.choice([0.0, 0.3, 0.6]))
    steps = r.randint(1, n + 2)          # may run off the end of the code: err
    return line(op, r, cbase, [(cbase, p.assemble())], [data], steps, presets(r, ptr))


def p_membuf(r, op):
    """sb/sh/sw/sd and lb..ld at offsets 0..15 of the shared buffer (the F03 shape)"""
    cbase, data, ptr = layout(r)
    p = Prog(r, cbase)
    n = r.randint(2, 24)
    for _ in range(n):
        k = r.random()
        if k < 0.45:
            store(r, p)
        elif k < 0.9:
            load(r, p)
        elif k < 0.95:
            amo_ins(r, p)
        else:
            alu(r, p)
    return line(op, r, cbase, [(cbase, p.assemble())], [data], len(p.words), presets(r, ptr))


def p_loop(r, op):
    cbase, data, ptr = layout(r)
    p = Prog(r, cbase)
    body(r, p, r.randint(0, 3), mem=0.3)
    cnt = r.randint(1, 6)
    p.emit(itype("addi", 10, 0, cnt))
    p.label("loop")
    nb = r.randint(1, 6)
    body(r, p, nb, mem=r.choice([0.2, 0.6]))
    if r.random() < 0.4:
        p.emit(itype("addi", PTR, PTR, r.choice([1, 2, 4, 8])))     # walk the buffer
    p.emit(itype("addi", 10, 10, -1))
    p.branch("bne", 10, 0, "loop")
    body(r, p, r.randint(0, 3), mem=0.3)
    return line(op, r, cbase, [(cbase, p.assemble())], [data], r.randint(1, 60), presets(r, ptr))


def p_branches(r, op):
    cbase, data, ptr = layout(r)
    p = Prog(r, cbase)
    nseg = r.randint(1, 5)
    for s in range(nseg):
        body(r, p, r.randint(0, 3), mem=0.2)
        p.branch(r.choice(BRANCHES), reg(r), reg(r), "L%d" % s)
        body(r, p, r.randint(1, 3), mem=0.2)
        p.label("L%d" % s)
    body(r, p, r.randint(1, 3), mem=0.2)
    return line(op, r, cbase, [(cbase, p.assemble())], [data], r.randint(1, 40), presets(r, ptr))


def p_calls(r, op):
    """jal / jalr / auipc: call a function behind the main code and return"""
    cbase, data, ptr = layout(r)
    p = Prog(r, cbase)
    body(r, p, r.randint(0, 3), mem=0.2)
    p.jal(11, "f")
    body(r, p, r.randint(1, 3), mem=0.3)
    if r.random() < 0.5:
        # computed call: auipc x13, 0; jalr x11, off(x13)
        i = p.here()
        p.emit(utype("auipc", 13, 0))
        p.words.append(("jr", i))
    p.jal(0, "end")
    p.label("f")
    body(r, p, r.randint(1, 4), mem=0.4)
    p.emit(itype("jalr", r.choice([0, 0, 14]), 11, 0))
    p.label("end")
    body(r, p, r.randint(1, 2), mem=0.2)
    # resolve the computed call
    for i, w in enumerate(p.words):
        if isinstance(w, tuple) and w[0] == "jr":
            p.words[i] = itype("jalr", 11, 13, 4 * (p.labels["f"] - w[1]))
    return line(op, r, cbase, [(cbase, p.assemble())], [data], r.randint(1, 40), presets(r, ptr))


def p_badjump(r, op):
    """jumps to addresses that are not the start of a decoded instruction: must give err"""
    cbase, data, ptr = layout(r)
    p = Prog(r, cbase)
    body(r, p, r.randint(0, 4), mem=0.2)
    k = r.random()
    if k < 0.3:
        # into the middle of an instruction: auipc + jalr with an offset that is 2 mod 4
        p.emit(utype("auipc", 13, 0))
        p.emit(itype("jalr", r.choice([0, 11]), 13, r.choice([2, 3, 6, 10, -2])))
    elif k < 0.6:
        # outside the code
        p.emit(utype("auipc", 13, r.choice([1, 0x10, 0xfffff])))
        p.emit(itype("jalr", r.choice([0, 11]), 13, r.choice([0, 4, -4])))
    elif k < 0.8:
        # through a register the provider supplies
        p.emit(itype("jalr", 11, r.choice([20, 21, 22]), r.choice([0, 4])))
    else:
        pass                                  # run off the end
    body(r, p, r.randint(1, 3), mem=0.2)
    n = len(p.words)
    code = [(cbase, p.assemble())]
    if r.random() < 0.3:
        # a second code block after a gap: falling through the gap is an error as well
        q = Prog(r, cbase + 4 * n + 8)
        body(r, q, r.randint(1, 3), mem=0.0)
        code.append((q.base, q.assemble()))
    return line(op, r, cbase, code, [data], n + r.randint(1, 4), presets(r, ptr))


def p_div(r, op):
    """M extension with the division corner cases in the pre-set registers"""
    cbase, data, ptr = layout(r)
    p = Prog(r, cbase)
    n = r.randint(1, 12)
    for _ in range(n):
        p.emit(rtype(r.choice(MUL_R), r.choice(WORK + [20]), r.choice(WORK[:4] + [0]), r.choice(WORK[:4] + [0])))
    corner = [0, 1, M64 - 1, 2 ** 63, 2 ** 63 - 1, 2 ** 31, 2 ** 32 - 1, 2 ** 31 - 1, 0xffffffff80000000, 0x80000000]
    extra = [("x%d" % x, le(r.choice(corner))) for x in WORK[:4]]
    return line(op, r, cbase, [(cbase, p.assemble())], [data], n, presets(r, ptr, extra))


def p_narrowreg(r, op):
    """a register first read 4 bytes wide (…w instructions, .w atomics), later 8 bytes wide"""
    cbase, data, ptr = layout(r)
    p = Prog(r, cbase)
    unk = r.choice([20, 21, 22, 23])
    k = r.random()
    if k < 0.5:
        p.emit(rtype(r.choice(["addw", "subw", "mulw", "divw", "remuw", "sllw"]), r.choice(WORK), unk, reg(r)))
    elif k < 0.8:
        p.emit(itype("addi", 12, PTR, 0))
        p.emit(amo(r.choice(AMOS_W + ["sc.w"]), r.choice(WORK), 12, unk))
    else:
        p.emit(itype("addiw", r.choice(WORK), unk, imm12(r)))
    body(r, p, r.randint(0, 2), mem=0.2)
    k = r.random()
    if k < 0.4:
        p.emit(rtype(r.choice(["add", "xor", "sub"]), r.choice(WORK), unk, reg(r)))
    elif k < 0.6:
        # the only 8-byte use is the base address of a store / load / atomic
        nm, w = r.choice(STORES)
        p.emit(stype(nm, r.choice(WORK), unk, r.choice([0, 0, 8, -8, imm12(r)])))
    elif k < 0.75:
        nm, w = r.choice(LOADS)
        p.emit(itype(nm, r.choice(WORK), unk, r.choice([0, 0, 8, -8, imm12(r)])))
    elif k < 0.85:
        p.emit(stype("sd", unk, PTR, r.choice([0, 8, 16])))          # ... or the value stored
    elif k < 0.93:
        p.emit(amo(r.choice(AMOS_D), r.choice(WORK), unk, reg(r)))
    else:
        p.emit(btype(r.choice(["beq", "bne", "bltu", "bge"]), unk, reg(r), 8))
        p.emit(itype("addi", r.choice(WORK), 0, 1))
    body(r, p, r.randint(0, 2), mem=0.2)
    return line(op, r, cbase, [(cbase, p.assemble())], [data], len(p.words), presets(r, ptr))


def p_unknown(r, op):
    """few pre-set registers: most state comes from the provider; repeated reads of the same unknown state"""
    cbase, data, ptr = layout(r)
    p = Prog(r, cbase)
    n = r.randint(2, 20)
    regs = [20, 21, 22, 23, 24]
    for _ in range(n):
        k = r.random()
        if k < 0.35:
            p.emit(rtype(r.choice(ALU_R[:10]), r.choice(regs), r.choice(regs + [0]), r.choice(regs + [0])))
        elif k < 0.6:
            nm, w = r.choice(LOADS)
            p.emit(itype(nm, r.choice(regs), PTR, r.randint(0, 24)))
        elif k < 0.8:
            nm, w = r.choice(STORES)
            p.emit(stype(nm, r.choice(regs), PTR, r.randint(0, 24)))
        elif k < 0.9:
            csr_ins(r, p)
        else:
            amo_ins(r, p)
    return line(op, r, cbase, [(cbase, p.assemble())], [data], n, {"x1": le(ptr)})


def p_readcode(r, op):
    """loads (never stores) from the code block itself and across its end: image bytes + provider bytes"""
    cbase, data, ptr = layout(r)
    p = Prog(r, cbase)
    p.emit(utype("auipc", 13, 0))
    n = r.randint(1, 8)
    for _ in range(n):
        nm, w = r.choice(LOADS)
        k = r.random()
        if k < 0.4:
            off = r.randint(-4, 12)                  # around the begin of the code
        elif k < 0.8:
            off = 4 * (n + 1) + r.randint(-8, 4)     # around its end
        else:
            off = r.randint(-16, 64)
        p.emit(itype(nm, r.choice(WORK), 13, off))
    # a data block directly behind the code in a third of the cases
    dat = [data]
    if r.random() < 0.33:
        dat = [(cbase + 4 * len(p.words), bytes(r.randrange(256) for _ in range(r.choice([1, 3, 4, 6]))))]
    return line(op, r, cbase, [(cbase, p.assemble())], dat, len(p.words), presets(r, ptr))


def p_blocks(r, op):
    """two code blocks given in either order, entry in the second or in the middle of the first; a jump between them"""
    cbase, data, ptr = layout(r)
    p = Prog(r, cbase)
    n1 = r.randint(2, 5)
    body(r, p, n1, mem=0.3)
    gap = r.choice([4, 8, 64])
    qbase = cbase + 4 * (n1 + 1) + gap
    q = Prog(r, qbase)
    body(r, q, r.randint(1, 4), mem=0.3)
    # last instruction of the first block jumps to the second block
    p.words.append(jtype(0, qbase - (cbase + 4 * n1)))
    # the second block jumps back into the first one
    back = r.randrange(n1)
    q.words.append(jtype(r.choice([0, 11]), (cbase + 4 * back) - (qbase + 4 * len(q.words))))
    blocks = [(cbase, p.assemble()), (qbase, q.assemble())]
    if r.random() < 0.5:
        blocks.reverse()
    k = r.random()
    if k < 0.5:
        entry = cbase
    elif k < 0.8:
        entry = cbase + 4 * r.randrange(n1)
    elif k < 0.95:
        entry = qbase
    else:
        entry = cbase + r.choice([1, 2, 6])          # not an instruction: the code model is refused
    extra = []
    if r.random() < 0.3:
        extra = [(r.choice(["csr0", "csr768", "csr65535", "csr63488"]), le(r.getrandbits(64)))]
    return line(op, r, entry, blocks, [data], r.randint(1, 30), presets(r, ptr, extra))


def p_selfjump(r, op):
    """control transfers to the instruction's own address: jal rd,0 / taken and not-taken zero-offset branches /
    jalr landing on itself; the machine must stay (or leave) exactly as the reference does"""
    cbase, data, ptr = layout(r)
    p = Prog(r, cbase)
    body(r, p, r.randint(0, 3), mem=0.2)
    k = r.random()
    a = reg(r, zero=0.3)
    if k < 0.3:
        p.emit(jtype(r.choice([0, 0, 11]), 0))
    elif k < 0.75:
        # same register twice: beq/bge/bgeu taken, bne/blt/bltu not taken; or two registers
        b = a if r.random() < 0.6 else reg(r)
        p.emit(btype(r.choice(BRANCHES), a, b, 0))
    else:
        p.emit(utype("auipc", 13, 0))
        p.emit(itype("jalr", r.choice([0, 11]), 13, 4))
    body(r, p, r.randint(1, 3), mem=0.2)
    return line(op, r, cbase, [(cbase, p.assemble())], [data], r.randint(2, 12), presets(r, ptr))


# ---------------------------------------------------------------- the top of the address space (F45)

def _mix(h, x):
    return ((h ^ x) * 1099511628211 + 0x9e3779b97f4a7c15) % M64


def prov_reg(seed, key):
    """the 64 bit value the harness' state provider answers for register key (ops_emu.go: semuRegValue)"""
    h = _mix(seed, 77)
    for c in key:
        h = _mix(h, ord(c))
    k = h % 8
    if k == 0:
        return 0
    if k == 1:
        return M64 - 1
    if k == 2:
        return 2 ** 63
    if k == 3:
        return 2 ** 63 - 1
    if k == 4:
        return _mix(h, 5) % 256
    if k == 5:
        return M64 - 1 - _mix(h, 5) % 256
    return _mix(h, 1)


def _top_access(r, p, base_reg, base_val, val_reg):
    """one access through base_reg (holding base_val) whose end lies at / just below / just above 2^64"""
    k = r.random()
    if k < 0.4:
        nm, n = r.choice(LOADS)
        kind = "l"
    elif k < 0.8:
        nm, n = r.choice(STORES)
        kind = "s"
    else:
        kind = "a"
    if kind == "a":
        # atomics have no immediate: the address is the register itself
        k = r.random()
        if k < 0.4:
            p.emit(amo(r.choice(AMOS_W), reg(r), base_reg, val_reg, r.randrange(4)))
        elif k < 0.75:
            p.emit(amo(r.choice(AMOS_D), reg(r), base_reg, val_reg, r.randrange(4)))
        elif k < 0.87:
            p.emit(amo(r.choice(["lr.w", "lr.d"]), r.choice(WORK), base_reg, 0, r.randrange(4)))
        else:
            p.emit(amo(r.choice(["sc.w", "sc.d"]), reg(r), base_reg, val_reg, r.randrange(4)))
        return
    # end - 2^64: -1 and below = inside the address space, 0 = the end is exactly 2^64, above = wrapped
    e = r.choice([-2, -1, -1, 0, 0, 0, 1, 1, 2, n - 1, n - 1, -n, r.randint(-12, 12)])
    addr = (M64 + e - n) % M64
    imm = (addr - base_val) % M64
    if imm >= M64 - 2048:
        imm -= M64
    if not -2048 <= imm <= 2047:
        imm = r.choice([-1, -2, -4, -8, 0, 1, 4, 2047, -2048, imm12(r)])
    if kind == "l":
        p.emit(itype(nm, r.choice(WORK), base_reg, imm))
    else:
        p.emit(stype(nm, val_reg, base_reg, imm))


def p_top(r, op):
    """loads, stores and atomics whose range ends at, just below or just above 2^64: through immediates on x0
    (lb x3,-1(x0)), through a pre-set register, through a register the provider answers with 0xffff... (the console
    scenario of F45); earlier instructions have already changed the state, the value register of a store may be
    unknown as well (asked before the failing check), in-domain accesses right below the top go on"""
    cbase, data, ptr = layout(r)
    p = Prog(r, cbase)
    pre = presets(r, ptr)
    seed = r.randrange(1, 10 ** 6)
    body(r, p, r.randint(0, 4), mem=r.choice([0.0, 0.4]))
    for _ in range(r.choice([1, 1, 1, 2, 3])):
        k = r.random()
        if k < 0.3:
            base_reg, base_val = 0, 0
        elif k < 0.6:
            base_reg = r.choice(WORK)
            base_val = M64 - r.choice([1, 1, 2, 3, 4, 5, 7, 8, 9, 15, 16, 17, 255, 256, 1000, 2040, 2047, 2048, 2049])
            pre["x%d" % base_reg] = le(base_val)
        else:
            base_reg = r.choice([20, 21, 22, 23, 24])
            key = "x%d" % base_reg
            pre.pop(key, None)
            for _ in range(64):
                if prov_reg(seed, key) >= M64 - 256:
                    break
                seed = r.randrange(1, 10 ** 6)
            base_val = prov_reg(seed, key)
        val_reg = r.choice(WORK + [0, 25, 26])       # x25, x26: never pre-set, the provider is asked for the value
        _top_access(r, p, base_reg, base_val, val_reg)
        body(r, p, r.randint(0, 2), mem=r.choice([0.0, 0.3]))
    dat = [data]
    if r.random() < 0.25:
        # image bytes right below the top (the block ends below 2^64 - 1)
        n = r.choice([4, 8, 14])
        dat = [data, (M64 - 16, bytes(r.randrange(256) for _ in range(n)))]
    return line(op, r, cbase, [(cbase, p.assemble())], dat, len(p.words), pre, seed=seed)


SHAPES = [(p_top, 3), (p_selfjump, 1), (p_straight, 3), (p_membuf, 4), (p_loop, 3), (p_branches, 2), (p_calls, 2), (p_badjump, 2),
          (p_div, 1), (p_narrowreg, 2), (p_unknown, 3), (p_readcode, 1), (p_blocks, 1)]


def _pick(r):
    tot = sum(w for _, w in SHAPES)
    x = r.random() * tot
    for f, w in SHAPES:
        x -= w
        if x < 0:
            return f
    return SHAPES[-1][0]


def g_emu(r):
    return _pick(r)(r, "emu")


def g_emuq(r):
    return _pick(r)(r, "emuq")


def g_emu_mem(r):
    return p_membuf(r, "emu")


def g_emuq_unknown(r):
    return r.choice([p_unknown, p_membuf, p_loop])(r, "emuq")


def g_emu_top(r):
    return p_top(r, "emu")


def g_emuq_top(r):
    return p_top(r, "emuq")
