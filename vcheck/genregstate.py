"""Generators of register map and state histories (C18): `regmap <n> op...`, `state <n> op...`."""
from . import genexpr as gx

KEYS = ["x1", "x2", "sp", "#r:w:ip"]
WIDTHS = [1, 2, 3, 4, 8, 16, 32]
MKEYS = ["memory", "m2"]
TOP = 2 ** 64


def rw(r):
    return r.choice(WIDTHS) if r.random() < 0.93 else r.choice([5, 7, 9, 31, 33, 64, 128, 255])


def value(r, w):
    """value written `w` bytes wide: same width, narrower or wider; constant or symbolic"""
    k = r.random()
    if k < 0.4:
        ew = w
    elif k < 0.7:
        ew = r.choice([x for x in WIDTHS if x != w])
    else:
        ew = rw(r)
    k = r.random()
    if k < 0.30:
        s = r.randrange(1, 200)
        return "c:" + bytes((s + 7 * i) % 251 + 1 for i in range(ew)).hex()
    if k < 0.40:
        return gx.const(r, ew)
    if k < 0.60:
        return "r %s %d" % (r.choice(KEYS[:3] + gx.REGS), ew)
    if k < 0.72:
        return "m %s %d %s" % (r.choice(MKEYS), ew, gx.leaf(r))
    if k < 0.80:
        # a register read adapted by width gadgets
        e = "r %s %d" % (r.choice(gx.REGS), rw(r))
        for _ in range(r.randint(1, 2)):
            e = gx.wg(e, rw(r))
        return e
    return gx.expr(r, r.choice([1, 2, 3]))


def regmap_ops(r, n):
    ops = []
    last = {}          # key -> write width
    for _ in range(n):
        k = r.random()
        if not last or k < 0.45:
            key = r.choice(KEYS)
            w = rw(r)
            ops.append("st %s %d %s" % (key, w, value(r, w)))
            last[key] = w
        elif k < 0.92:
            if r.random() < 0.85:
                key = r.choice(list(last))
                w = last[key]
                kk = r.random()
                if kk < 0.3:
                    lw = w
                elif kk < 0.6:
                    lw = r.choice([x for x in WIDTHS + [w - 1] if 0 < x < w] or [w])
                elif kk < 0.9:
                    lw = r.choice([x for x in WIDTHS + [w + 1] if w < x <= 255] or [w])
                else:
                    lw = rw(r)
            else:
                key = r.choice(KEYS)
                lw = rw(r)
            ops.append("ld %s %d" % (key, lw))
        else:
            ops.append("len")
    return ops


def g_regmap(r):
    n = r.randint(1, 15)
    ops = regmap_ops(r, n)
    return "regmap %d %s" % (len(ops), " ".join(ops))


def g_regmap_interplay(r):
    """forced shape: write k at w1, (write k again at w2,) read k narrower, equal and wider"""
    key = r.choice(KEYS)
    ops = []
    for _ in range(r.choice([1, 2, 2, 3])):
        w = rw(r)
        ops.append("st %s %d %s" % (key, w, value(r, w)))
        if r.random() < 0.3:
            other = r.choice([k for k in KEYS if k != key])
            ow = rw(r)
            ops.append("st %s %d %s" % (other, ow, value(r, ow)))
    for lw in sorted({max(1, w - 1), w, min(255, w + 1), r.choice(WIDTHS), r.choice(WIDTHS)}):
        ops.append("ld %s %d" % (key, lw))
    ops.append("len")
    return "regmap %d %s" % (len(ops), " ".join(ops))


# ---- state ------------------------------------------------------------------

def le(v, n):
    return (v % 256 ** n).to_bytes(n, "little").hex()


def address(r, base):
    """(token string, concrete address or None) of a MemStore address around `base`"""
    a = base + r.randint(0, 40)
    k = r.random()
    if k < 0.30:
        n = r.choice([8, 8, 8, 4, 2, 1]) if a < 256 else 8
        if a >= 256 ** n:
            n = 8
        return "c:" + le(a, n), a
    if k < 0.50:
        # foldable closed expression
        d = r.randint(0, 20)
        kk = r.random()
        if kk < 0.4:
            return "b add 8 c:%s c:%s" % (le(a - d if a >= d else a, 8), le(d if a >= d else 0, 8)), a
        if kk < 0.6:
            return "b add 8 b add 8 c:%s c:%s c:00" % (le(a, 8), le(0, 1)), a
        if kk < 0.8:
            return "l 8 c:01 c:02 c:%s c:%s" % (le(a, 8), le(a + 5, 8)), a
        return "b lsh 8 c:%s c:01" % le(a // 2, 8), a // 2 * 2
    if k < 0.62:
        # a constant wider than 8 bytes: the upper bytes are dropped
        n = r.choice([9, 10, 16, 32])
        hi = r.choice([1, 0xff, r.randrange(1, 2 ** 16), 0])
        return "c:" + le(a + hi * TOP, n), a
    if k < 0.70:
        # open expression that folds to a constant (the symbolic branch is not taken)
        return "l 8 c:01 c:02 c:%s r x1 8" % le(a, 8), a
    kk = r.random()
    if kk < 0.35:
        return "r %s 8" % r.choice(gx.REGS), None
    if kk < 0.55:
        return "b add 8 r %s 8 c:%s" % (r.choice(gx.REGS), le(a, 8)), None
    if kk < 0.70:
        return "m memory 8 c:%s" % le(a, 8), None
    if kk < 0.80:
        return "b mul 8 r x1 8 c:00", None             # constant-valued but not reducible
    if kk < 0.90:
        return "l 8 r x1 8 c:05 c:%s c:%s" % (le(a, 8), le(a, 8)), None
    return gx.expr(r, r.choice([1, 2, 3]), closed=False), None


def state_ops(r, n, base, stored=None):
    ops = []
    stored = stored if stored is not None else []      # (key, addr, w) of memory stores with a known address
    for _ in range(n):
        k = r.random()
        if k < 0.22:
            key = r.choice(KEYS)
            w = rw(r)
            ops.append("ap rs %s %d %s" % (key, w, value(r, w)))
        elif k < 0.55:
            w = r.choice([1, 2, 4, 4, 8, 8, 16, 3])
            key = r.choice(MKEYS + ["memory"])
            tok, a = address(r, base)
            ops.append("ap ms %s %d %s %s" % (key, w, value(r, w), tok))
            if a is not None:
                stored.append((key, a, w))
        elif k < 0.66:
            ops.append("lr %s %d" % (r.choice(KEYS), rw(r)))
        elif k < 0.84:
            if stored and r.random() < 0.75:
                key, a, w = r.choice(stored)
                kk = r.random()
                if kk < 0.4:
                    lo, lw = a, w
                elif kk < 0.7:
                    lo = a + r.randint(0, w - 1)
                    lw = r.randint(1, a + w - lo)
                else:
                    lo = max(base, a - r.choice([0, 1, 2, 4]))
                    lw = min(64, a + w - lo + r.choice([0, 1, 2, 4]))
                ops.append("lm %s %d %d" % (key, lo, lw))
            else:
                ops.append("lm %s %d %d" % (r.choice(MKEYS + ["memory"]), base + r.randint(0, 44),
                                            r.choice([1, 2, 4, 8, 8, 16, 3])))
        elif k < 0.90:
            ops.append("mm %s %d %d" % (r.choice(MKEYS), base + r.randint(0, 44), r.choice([4, 8, 16, 32, 64])))
        elif k < 0.95:
            ops.append("mb %s" % r.choice(MKEYS))
        else:
            ops.append("dump")
    return ops


def g_state(r):
    base = r.choice([0, 0, 0, 1000, 2 ** 32 - 20, TOP - 400])
    n = r.randint(1, 15)
    ops = state_ops(r, n, base)
    return "state %d %s" % (len(ops), " ".join(ops))


def g_state_refuse(r):
    """a few applied effects, then a MemStore with a symbolic address (must be refused, state unchanged)"""
    base = r.choice([0, 0, 100])
    ops = state_ops(r, r.randint(1, 6), base)
    w = r.choice([1, 2, 4, 8])
    sym = r.choice(["r x1 8", "b add 8 r x2 8 c:%s" % le(base + 4, 8), "m memory 8 c:%s" % le(base, 8),
                    "b mul 8 r x1 8 c:00", "r x1 4", "b add 4 r x1 4 c:00"])
    ops.append("ap ms memory %d %s %s" % (w, value(r, w), sym))
    ops.append("dump")
    ops += state_ops(r, r.randint(0, 3), base)
    return "state %d %s" % (len(ops), " ".join(ops))


def g_statemem(r):
    """the tool's arrangement: one address space holding an Overlay of a byte image and a Sparse"""
    from . import genoverlay as go
    base = r.choice([0, 0, 200, TOP - 400])
    blocks, cover = go.base_blocks(r, base, 40)
    k = r.random()
    if k < 0.7:
        desc = "O B %s S 0" % go.fmt_blocks(blocks)
    elif k < 0.85:
        d1, _ = go._sparse_desc(r, base)
        desc = "O O B %s %s S 0" % (go.fmt_blocks(blocks), d1)
    else:
        d1, _ = go._sparse_desc(r, base)
        desc = "O %s S 0" % d1
    stored = [("memory", b, len(bs)) for b, bs in blocks if 0 < len(bs) <= 64]
    ops = state_ops(r, r.randint(1, 12), base, stored)
    ops = [o.replace(" m2 ", " memory ") if o.startswith(("lm ", "mm ", "mb ")) or o.startswith("ap ms m2 ") else o
           for o in ops]
    return "statemem memory %s %d %s" % (desc, len(ops), " ".join(ops))
