"""Numeric user input: C30."""
from .props import Prop, reg
from . import gennumparse as gn

reg(Prop("C30",
         [("parseaddr", gn.g_parseaddr, 1), ("readvalue", gn.g_readvalue, 1)],
         lambda c: "numlike" in c.tags,
         "argument strings / typed lines built from numerals of base 2, 8, 10, 16 with and without prefixes in both "
         "cases, boundary values (0, 1, 2^64-1, 2^64, 2^64+1, 2^(8w)+-1, -1, -2^(8w-1)), leading zeros, signs, empty, "
         "lone prefixes, underscores, digits invalid for the base, embedded spaces, non-ASCII bytes, one-character "
         "strings; widths 0..255; oracle = the reference grammar of Spec/NumParse.lean (positional value, "
         "two's-complement residue) on the implementation's answer; non-trivial = a non-empty string of letters, "
         "digits and signs (a numeral or a near miss), accepted and rejected ones both counted",
         3000, 200000,
         trusted=["strconv.ParseUint(s, base, 64) with an explicit base modelled by its documented grammar "
                  "(non-empty, digits 0-9a-zA-Z below the base, no sign/underscore/prefix, range error above 2^64-1)",
                  "(*big.Int).SetString(s, 0) without underscores modelled by its documented grammar (optional sign, "
                  "0b/0o/0x prefixes in both cases, leading 0 = octal, lone 0 = zero, entire string consumed); "
                  "(*big.Int).Bytes() = minimal big-endian bytes of |n|",
                  "linereader.ReadLine (bufio.Scanner, ScanLines): the typed line ends at the first newline and loses "
                  "one trailing CR; applied in the driver before model and oracle"]))
