"""Generators for the disassembler mode of the console UI (C23 listing, C31 navigation): dis / nav lines.

A line is `<op> <entry> <n> (<addr> <len> <neffects> EF...)... <k> CMD...`; a CMD is the command line
with spaces written as commas, or `x:<hex of the command line>`.

The code: 1-5 basic blocks of 1-6 instructions, of different sizes, separated by address gaps or by a
jump at the end of the block; register and memory effects over a small pool so that some instruction
moves are rejected.  The generator tracks the block order (block moves between two header lines are
always accepted) so that later commands can aim at header lines, instruction lines and blank lines of
the current listing."""
import random

IP = "#r:w:ip"
REGS = ["x1", "x2", "x3", "x4"]
MAXINT = (1 << 63) - 1


def c64(v):
    return "c:" + (v % (1 << 64)).to_bytes(8, "little").hex()


def plain_effects(r):
    """0-2 register/memory effects of an instruction that is no jump"""
    efs = []
    for _ in range(r.choice([0, 1, 1, 1, 2])):
        k = r.random()
        if k < 0.45:
            efs.append("rs %s 8 b add 8 r %s 8 %s" % (r.choice(REGS), r.choice(REGS), c64(r.randint(0, 64))))
        elif k < 0.6:
            efs.append("rs %s 8 %s" % (r.choice(REGS), c64(r.randint(0, 300))))
        elif k < 0.8:
            efs.append("ms memory 8 r %s 8 b add 8 r %s 8 %s" % (r.choice(REGS), r.choice(REGS), c64(8 * r.randint(0, 4))))
        else:
            efs.append("rs %s 8 m memory 8 b add 8 r %s 8 %s" % (r.choice(REGS), r.choice(REGS), c64(8 * r.randint(0, 4))))
    return efs


class Prog:
    """blocks: list of dicts {begin, ins: [(addr, len, efs)]} in creation order"""

    def __init__(self, r, nblocks=None, sizes=None):
        if sizes is None:
            if nblocks is None:
                nblocks = r.choice([1, 2, 2, 3, 3, 3, 4, 4, 5])
            sizes = [r.randint(1, 6) for _ in range(nblocks)]
            if nblocks >= 2 and len(set(sizes)) == 1 and r.random() < 0.85:
                sizes[r.randrange(nblocks)] = (sizes[0] % 6) + 1
        self.sizes0 = list(sizes)
        base = r.choice([0, 0, 4, 64, 4096, 0x10000, 1 << 31, 1 << 32, 1 << 40])
        fixed_len = r.random() < 0.7
        a = base
        layout = []
        for s in sizes:
            blk = []
            for _ in range(s):
                l = 4 if fixed_len else r.choice([4, 4, 2, 1, 3, 8])
                blk.append((a, l))
                a += l
            gap = r.random() < 0.5
            layout.append((blk, gap))
            if gap:
                a += r.choice([4, 8, 16, 100])
        starts = [blk[0][0] for blk, _ in layout]
        self.blocks = []
        for bi, (blk, gap) in enumerate(layout):
            ins = []
            for i, (addr, l) in enumerate(blk):
                last = i == len(blk) - 1
                efs = plain_effects(r)
                need_jump = last and not gap and bi != len(layout) - 1
                if last and (need_jump or r.random() < 0.3):
                    t = r.choice(starts)
                    if r.random() < 0.5:
                        efs.append("rs %s 8 %s" % (IP, c64(t)))
                    else:
                        efs.append("rs %s 8 l 8 r %s 8 r %s 8 %s %s" % (IP, r.choice(REGS), r.choice(REGS), c64(t), c64(addr + l)))
                    r.shuffle(efs)
                ins.append((addr, l, efs))
            self.blocks.append({"begin": blk[0][0], "ins": ins})
        k = r.random()
        if k < 0.6:
            self.entry = starts[0]
        elif k < 0.97:
            self.entry = r.choice(starts)
        else:
            self.entry = r.choice([starts[0] + 1, a + 100, 0])
        # current order of the blocks: (begin, size)
        self.order = [(b["begin"], len(b["ins"])) for b in self.blocks]

    def head(self, op, r):
        inss = [i for b in self.blocks for i in b["ins"]]
        if r.random() < 0.3:
            r.shuffle(inss)
        parts = [op, str(self.entry), str(len(inss))]
        for a, l, efs in inss:
            parts += [str(a), str(l), str(len(efs))] + efs
        return parts

    # ---- the current listing layout ----
    def nlines(self):
        return sum(s + 2 for _, s in self.order)

    def header(self, k):
        return sum(s + 2 for _, s in self.order[:k])

    def insline(self, k, i):
        return self.header(k) + 1 + i

    def blank(self, k):
        return self.header(k) + self.order[k][1] + 1

    def move_block(self, a, b):
        x = self.order.pop(a)
        self.order.insert(b, x)


def enc(cmd):
    if cmd == "":
        return "x:"
    if "," in cmd or r"\x" in cmd:
        return "x:" + cmd.encode().hex()
    return cmd.replace(" ", ",")


def big_line(r, p):
    n = p.nlines()
    return r.choice([n, n, n + 1, n - 1, 2 * n, 999999, MAXINT, MAXINT - 1, 1 << 62])


def any_line(r, p):
    k = r.random()
    n = p.nlines()
    if k < 0.08:
        return big_line(r, p)
    if k < 0.14:
        return r.choice([0, n - 1, n - 2])
    return r.randrange(n)


def cmd_insmove(r, p, prefer=None):
    nb = len(p.order)
    cands = [k for k in range(nb) if p.order[k][1] >= 2]
    if not cands:
        return cmd_blockmove(r, p)
    k = prefer if prefer in cands else r.choice(cands)
    s = p.order[k][1]
    i = r.randrange(s)
    j = r.randrange(s)
    if r.random() < 0.6:
        # neighbours are accepted more often
        j = min(s - 1, max(0, i + r.choice([-1, 1])))
    return "%s %d %d" % (r.choice(["move", "move", "mv", "m"]), p.insline(k, i), p.insline(k, j))


def cmd_blockmove(r, p):
    nb = len(p.order)
    a = r.randrange(nb)
    b = r.randrange(nb)
    if nb >= 2 and r.random() < 0.8:
        while b == a:
            b = r.randrange(nb)
    c = "move %d %d" % (p.header(a), p.header(b))
    p.move_block(a, b)
    return c


def cmd_badmove(r, p):
    nb = len(p.order)
    k = r.randrange(nb)
    k2 = r.randrange(nb)
    s, s2 = p.order[k][1], p.order[k2][1]
    kind = r.random()
    if kind < 0.2:
        return "move %d %d" % (p.header(k), p.insline(k2, r.randrange(s2)))        # block <-> instruction
    if kind < 0.35:
        return "move %d %d" % (p.insline(k, r.randrange(s)), p.header(k2))
    if kind < 0.5:
        return "move %d %d" % (p.blank(k), any_line(r, p))                          # blank line
    if kind < 0.6:
        return "move %d %d" % (r.randrange(p.nlines()), p.blank(k2))
    if kind < 0.75 and nb >= 2 and k != k2:
        return "move %d %d" % (p.insline(k, r.randrange(s)), p.insline(k2, r.randrange(s2)))   # among blocks
    if kind < 0.9:
        a, b = big_line(r, p), any_line(r, p)
        if r.random() < 0.5:
            a, b = b, a
        return "move %d %d" % (a, b)
    return "move %d %d" % (any_line(r, p), any_line(r, p))


def cmd_bounds(r, p):
    k = r.randrange(len(p.order))
    kind = r.random()
    if kind < 0.7:
        l = p.insline(k, r.randrange(p.order[k][1]))
    elif kind < 0.8:
        l = p.header(k)
    elif kind < 0.88:
        l = p.blank(k)
    else:
        l = big_line(r, p)
    return "%s %d" % (r.choice(["bounds", "b"]), l)


def nav_arg(r, p):
    n = p.nlines()
    return r.choice([0, 0, 1, 1, 2, 3, n - 1, n - 1, n, n + 1, n // 2, r.randrange(n), r.randrange(n), 5, 999999,
                     MAXINT, MAXINT - 1, MAXINT - n + 1, MAXINT - n])


def ins_text(addr):
    s = "op%d x%d, x%d, %d" % (addr % 5, addr % 32, (addr // 4) % 32, addr)
    if addr % 11 == 5:
        s += ", long_operand"
    return s


def cmd_find(r, p):
    """returns a list of commands (a goto may precede the search)"""
    key = r.choice(["find", "find", "f", "/"])
    n = p.nlines()
    allins = [i for b in p.blocks for i in b["ins"]]
    kind = r.random()
    pre = []
    if r.random() < 0.45:
        pre = ["goto %d" % r.choice([0, n - 1, n - 1, n - 2, r.randrange(n)])]
    if kind < 0.12:
        pat = r.choice(["zzz", "Block 9", "op7", "^x"])                               # nothing
    elif kind < 0.30:
        a = r.choice(allins)[0]
        pat = r.choice([", %d(,| )" % a, ins_text(a).replace("(", "."), "x%d, x%d, %d" % (a % 32, (a // 4) % 32, a)])   # one instruction
    elif kind < 0.45:
        # only the cursor line: the header of a block, with the cursor put on it first
        k = r.randrange(len(p.order))
        pre = ["goto %d" % p.header(k)]
        pat = "0x%x$" % p.order[k][0]
    elif kind < 0.55:
        k = r.randrange(len(p.order))
        pat = "^Block %d:" % (k + 1)
        if r.random() < 0.5:
            pre = ["goto %d" % r.choice([p.header(k), max(0, p.header(k) - 1), p.header(k) + 1])]
    elif kind < 0.85:
        pat = r.choice(["op1", "op[0-3]", "Block", "^$", "x", "0x", "\\|", "long", "^ +op", "[0-9]+$", ".", "x1,", "Block [12]",
                        "a|b", "^Block.*0$"])                                           # several lines
    elif kind < 0.93:
        pat = r.choice(["(", "[a", "a\\", "x{2,1}", ")", "*", "[[:foo:]]",            # not a regular expression (some are)
                        # Perl-only syntax: not POSIX ERE (or, for the doubled repetitions, a different meaning)
                        "\\d", "x\\d+", "(?i)block", "\\bop", "op1+?", "x1*?,", "\\Qop\\E", "o??p", "\\w+,"])
    else:
        a = r.choice(allins)[0]
        pat = r.choice(["x%d,  x%d" % (a % 32, (a // 4) % 32), "op%d   x%d," % (a % 5, a % 32), "a  b   c"])   # several spaces
    return pre + ["%s %s" % (key, pat)]


def num_str(r, v):
    """decimal spelling of v as a user might type it: now and then with leading zeros (still decimal: 010 is ten)"""
    k = r.random()
    if k < 0.10:
        return "0" * r.choice([1, 1, 2, 3]) + str(v)
    if k < 0.12:
        return "+" + str(v)
    return str(v)


def cmd_nav(r, p):
    k = r.random()
    if k < 0.22:
        return ["%s %s" % (r.choice(["down", "d"]), num_str(r, nav_arg(r, p)))]
    if k < 0.44:
        return ["%s %s" % (r.choice(["up", "u"]), num_str(r, nav_arg(r, p)))]
    if k < 0.62:
        return ["%s %s" % (r.choice(["goto", "g"]), num_str(r, nav_arg(r, p)))]
    if k < 0.74:
        return [r.choice(["entrypoint", "entry"])]
    return cmd_find(r, p)


def cmd_misc(r, p):
    return r.choice(["", "alllines", "nosuch 1", "goto", "move 1", "goto x", "down -1", "up +2", "goto -0", "bounds 1x",
                     "goto 9223372036854775808", "move 1 99999999999999999999", "down  3", " up 1", "goto 1 "])


def script(r, p, nav_weight):
    n = r.choice([1, 2, 3, 4, 5, 6, 8, 10, 12])
    cmds = []
    moved_block = False
    while len(cmds) < n:
        k = r.random()
        if k < nav_weight:
            cmds += cmd_nav(r, p)
        else:
            k = r.random()
            if k < 0.36:
                cmds.append(cmd_insmove(r, p, prefer=(1 if moved_block and len(p.order) > 1 and r.random() < 0.5 else None)))
            elif k < 0.62 and len(p.order) >= 2:
                cmds.append(cmd_blockmove(r, p))
                moved_block = True
            elif k < 0.66:
                cmds.append(cmd_blockmove(r, p))
                moved_block = True
            elif k < 0.80:
                cmds.append(cmd_badmove(r, p))
            elif k < 0.96:
                cmds.append(cmd_bounds(r, p))
            else:
                cmds.append(cmd_misc(r, p))
    return cmds[:12]


def line(r, op, nav_weight, nblocks=None, sizes=None):
    p = Prog(r, nblocks, sizes)
    head = p.head(op, r)
    cmds = script(r, p, nav_weight)
    return " ".join(head + [str(len(cmds))] + [enc(c) for c in cmds])


def g_dis(r):
    return line(r, "dis", 0.2)


def g_dis_blocks(r):
    """block moves among blocks of different sizes, then instruction moves and bounds (F23)"""
    nb = r.choice([2, 2, 3, 4, 5])
    sizes = [r.randint(1, 6) for _ in range(nb)]
    if len(set(sizes)) == 1:
        sizes[0] = sizes[0] % 6 + 1
    p = Prog(r, sizes=sizes)
    head = p.head("dis", r)
    cmds = []
    for _ in range(r.choice([1, 1, 2, 3])):
        cmds.append(cmd_blockmove(r, p))
    for _ in range(r.choice([1, 2, 3, 4])):
        k = r.random()
        if k < 0.4:
            cmds.append(cmd_insmove(r, p))
        elif k < 0.6:
            cmds.append(cmd_bounds(r, p))
        elif k < 0.75:
            cmds.append("entrypoint")
        elif k < 0.9:
            cmds.append(cmd_blockmove(r, p))
        else:
            cmds.append(cmd_badmove(r, p))
    return " ".join(head + [str(len(cmds))] + [enc(c) for c in cmds[:12]])


def g_nav(r):
    return line(r, "nav", 0.8)


def g_nav_find(r):
    """searching with the cursor on the first/last line (F22) and patterns of several words (F70)"""
    p = Prog(r)
    head = p.head("nav", r)
    n = p.nlines()
    cmds = []
    if r.random() < 0.3:
        cmds.append(cmd_blockmove(r, p))
    for _ in range(r.choice([1, 2, 3])):
        cmds += cmd_find(r, p)
        if r.random() < 0.3:
            cmds.append("goto %d" % r.choice([0, n - 1]))
    return " ".join(head + [str(len(cmds[:12]))] + [enc(c) for c in cmds[:12]])


# shapes of the known defects
W_P = "0 5 0 4 0 4 4 0 8 4 0 12 4 1 rs #r:w:ip 8 c:0000000000000000 16 4 0"
WITNESSES = [
    "dis " + W_P + " 1 move,999999,0",                 # F21
    "dis " + W_P + " 1 bounds,9",                       # F21
    "nav " + W_P + " 2 goto,8 find,op",                 # F22
    "dis " + W_P + " 1 move,0,6",                       # F23 (panic)
    "dis 0 5 0 4 0 4 4 1 rs #r:w:ip 8 c:0000000000000000 8 4 0 12 4 0 16 4 0 1 move,0,4",   # F23 (stale rows)
    "nav " + W_P + " 2 move,0,6 entrypoint",            # F23 through Lines.Line
    "nav " + W_P + " 1 x:" + "find x16, x4, 16".encode().hex(),   # F70
]


def g_witness(r):
    return r.choice(WITNESSES)
