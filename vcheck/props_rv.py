"""RISC-V front end: C01, C02 (C25 below)."""
from .props import Prop, reg, has, nothas
from . import genrv as gr
from . import rvgen

RV_TRUSTED = [
    "instruction tables regenerated from /repo on every run (runtime dump of decode facts + go/ast translation of the effects closures by translator/); helper functions of opcodes.go hand-modelled and tied by structural correspondence",
    "RISC-V reference (Spec/Riscv.lean) is my transcription of the unprivileged ISA manual; no independent RISC-V execution oracle exists offline",
]

reg(Prop("C01",
         [("entry", gr.g_entry, 1)],
         has("accepted"),
         "per table entry (implementation's and reference's encoding tables): pattern bits fixed, free bits random with "
         "boundary immediates (0, -1, min, max), x0/x1/x31 and equal registers in every field, addresses 0, 4, 2^31, "
         "top of the address space; lifted effects compared structurally with the regenerated model and executed on the "
         "reference machine from 8 random/boundary states; non-trivial = word accepted",
         4000, 300000, trusted=RV_TRUSTED, pre=[rvgen.regenerate]))

reg(Prop("C02",
         [("decode", gr.g_decode, 3), ("entry", gr.g_entry, 1)],
         lambda c: True,
         "uniformly random words, single/double bit flips of valid words, valid words, x 2 variants x 4 extension "
         "subsets, short (0-3 bytes) and long inputs with trailing bytes; accept/reject and name compared with the "
         "reference decoder; every case non-trivial",
         4000, 400000, trusted=RV_TRUSTED, pre=[rvgen.regenerate], thorough_lines=gr.sweep_lines))

reg(Prop("C25",
         [("pair", gr.g_pair, 1)],
         lambda c: "bothok" in c.tags and "diffeffects" in c.tags,
         "pairs of words of one table entry at one address, differing in one field (rd, rs1, rs2/shamt, funct7 / "
         "immediate bits) or in all free bits; identical text must imply identical lifted effects, text must start "
         "with the mnemonic; texts compared byte for byte with the model of String(); non-trivial = both accepted "
         "and the lifted effects differ",
         4000, 300000, trusted=RV_TRUSTED, pre=[rvgen.regenerate]))
