"""Orchestration: build, run harness + model driver, judge, report (DESIGN.md section 3.6)."""
import json, os, re, subprocess, sys, time, random, hashlib, shutil
from concurrent.futures import ThreadPoolExecutor

VERIF = os.path.dirname(os.path.dirname(os.path.abspath(__file__)))
REPO = os.environ.get("VERIF_REPO", "/repo")
BUILD = os.path.join(VERIF, ".build")
LEAN = os.path.join(VERIF, "lean")
# Per-process copies of both binaries: several checks (or bin/seedtest runs against different trees) may run at
# the same time, and none of them may execute a binary another one is rebuilding.
HARNESS = os.path.join(BUILD, "verifharness-%d" % os.getpid())
MDRIVER_BUILT = os.path.join(LEAN, ".lake", "build", "bin", "mdriver")
MDRIVER = os.path.join(BUILD, "mdriver-%d" % os.getpid())
ALLOWED_AXIOMS = {"propext", "Classical.choice", "Quot.sound"}

GOENV = dict(os.environ, GOFLAGS="-mod=mod", GOPROXY="off", GOSUMDB="off", GOTOOLCHAIN="local",
             CGO_ENABLED="0")


class Broken(Exception):
    """A proof obligation or the tie to the code no longer checks."""
    def __init__(self, what, detail=""):
        super().__init__(what)
        self.what, self.detail = what, detail


def sh(cmd, cwd=None, env=None, timeout=3600, inp=None):
    p = subprocess.run(cmd, cwd=cwd, env=env, timeout=timeout, input=inp,
                       stdout=subprocess.PIPE, stderr=subprocess.STDOUT, text=True)
    return p.returncode, p.stdout


class build_lock:
    """Exclusive lock around everything that writes shared build state (generated Lean tables, lake build
    outputs, the audit scratch files).  Case execution happens outside of it, on per-process binaries."""
    def __enter__(self):
        import fcntl
        os.makedirs(BUILD, exist_ok=True)
        self.f = open(os.path.join(BUILD, "lock"), "w")
        fcntl.flock(self.f, fcntl.LOCK_EX)
        return self

    def __exit__(self, *a):
        import fcntl
        fcntl.flock(self.f, fcntl.LOCK_UN)
        self.f.close()


def snapshot_driver():
    """Copies the freshly built model driver to this process's private path (call under build_lock)."""
    if os.path.exists(MDRIVER_BUILT):
        shutil.copy2(MDRIVER_BUILT, MDRIVER)


def _cleanup():
    for f in (HARNESS, MDRIVER):
        try:
            os.remove(f)
        except OSError:
            pass


import atexit
atexit.register(_cleanup)


def build_harness():
    os.makedirs(BUILD, exist_ok=True)
    rc, out = sh(["go", "build", "-tags", "verif", "-o", HARNESS, "./cmd/verifharness"], cwd=REPO, env=GOENV)
    if rc != 0:
        raise Broken("harness-build", "go build -tags verif ./cmd/verifharness failed:\n" + out[-4000:])


_lake_built = set()


def lake_build(targets):
    """Build Lean targets (incremental).  Failure = a proof obligation no longer checks."""
    targets = [t for t in targets if t not in _lake_built]
    if not targets:
        return
    rc, out = sh(["lake", "build"] + targets, cwd=LEAN, timeout=7200)
    if rc != 0:
        raise Broken("lean-build", "lake build %s failed:\n%s" % (" ".join(targets), out[-6000:]))
    _lake_built.update(targets)


def audit(module):
    """Axiom audit of every theorem declared in a Props module.  Returns list of (name, axioms)."""
    os.makedirs(BUILD, exist_ok=True)
    path = os.path.join(BUILD, "audit_%s.lean" % module.replace(".", "_"))
    with open(path, "w") as f:
        f.write("import Mltwist.AuditTool\nimport %s\n#audit_module %s\n" % (module, module))
    rc, out = sh(["lake", "env", "lean", path], cwd=LEAN, timeout=1800)
    if rc != 0:
        raise Broken("audit", "axiom audit of %s failed:\n%s" % (module, out[-4000:]))
    thms = []
    for line in out.splitlines():
        m = re.search(r"THEOREM (\S+) AXIOMS \[(.*)\]\s*$", line)
        if m:
            axs = [a.strip() for a in m.group(2).split(",") if a.strip()]
            thms.append((m.group(1), axs))
    return thms


def import_closure(module):
    """Files of the Lean project transitively imported by `module` (Mltwist.* only)."""
    seen, todo = {}, [module]
    while todo:
        m = todo.pop()
        if m in seen or not m.startswith("Mltwist"):
            continue
        path = os.path.join(LEAN, *m.split(".")) + ".lean"
        if not os.path.exists(path):
            continue
        seen[m] = path
        for line in open(path, encoding="utf-8"):
            mm = re.match(r"^\s*import\s+(\S+)", line)
            if mm:
                todo.append(mm.group(1))
    return seen


def leanchecker(module):
    """Independent re-check of the compiled module (and everything it imports) by leanchecker."""
    rc, out = sh(["lake", "env", "leanchecker", module], cwd=LEAN, timeout=7200)
    if rc != 0:
        raise Broken("leanchecker", "leanchecker %s failed:\n%s" % (module, out[-3000:]))
    return True


def source_scan(module):
    """Reject sorry/admit/axiom/native_decide/bv_decide in the Lean sources the module depends on."""
    bad = []
    pat = re.compile(r"\b(sorry|admit|native_decide|bv_decide|implemented_by|unsafe)\b|^\s*axiom\s")
    for m, path in sorted(import_closure(module).items()):
        if m == "Mltwist.AuditTool":
            continue
        incomment = 0
        for n, line in enumerate(open(path, encoding="utf-8"), 1):
            out = ""
            i = 0
            while i < len(line):
                if line.startswith("/-", i):
                    incomment += 1; i += 2; continue
                if line.startswith("-/", i) and incomment:
                    incomment -= 1; i += 2; continue
                if not incomment and line.startswith("--", i):
                    break
                if not incomment:
                    out += line[i]
                i += 1
            if pat.search(out):
                bad.append("%s:%d: %s" % (os.path.relpath(path, LEAN), n, line.strip()))
    return bad


_hangs = []


def _pipe(lines, workdir, idx):
    """Run one chunk of case lines through the harness and the model driver."""
    inp = os.path.join(workdir, "in%d.txt" % idx)
    mid = os.path.join(workdir, "impl%d.txt" % idx)
    with open(inp, "w") as f:
        f.write("\n".join(lines) + "\n")
    env = dict(os.environ, GOMEMLIMIT="3GiB")
    hang_s = float(os.environ.get("VERIF_HANG_S", "120"))
    with open(inp) as fi, open(mid, "w") as fo, open(os.path.join(workdir, "err%d.txt" % idx), "w") as fe:
        p = subprocess.Popen([HARNESS], stdin=fi, stdout=fo, stderr=fe, env=env)
        # watchdog: the harness answers line by line (flushed); no new answer for hang_s seconds = the
        # implementation hangs on the next line, which is then reported like a crash
        last, t_last = -1, time.time()
        while p.poll() is None:
            time.sleep(0.2)
            sz = os.path.getsize(mid)
            if sz != last:
                last, t_last = sz, time.time()
            elif time.time() - t_last > hang_s:
                p.kill()
                p.wait()
                break
    impl = open(mid).read().split("\n")
    impl = impl[:-1]        # drop the unterminated tail (empty when the output ends with a newline)
    crashed = None
    if len(impl) > len(lines):
        raise Broken("harness", "the harness printed more answers than it was given lines")
    if len(impl) != len(lines):
        # the harness died (unrecoverable runtime error): the next line is the culprit
        crashed = len(impl)
        impl = impl[:crashed]
        rest = lines[crashed + 1:]
        impl.append(lines[crashed] + " => CRASH")
        if p.returncode == -9:
            _hangs.append(lines[crashed])
        if len(_hangs) > 2:
            # a tree on which many lines hang: the verdict is settled, do not spend hang_s on every further line
            lines = lines[:crashed + 1]
            rest = []
        if rest:
            sub, _ = _pipe(rest, workdir, idx * 1000 + 1)
            impl.extend(s[0] for s in sub)
        # fallthrough: rerun driver over the full set below
    with open(mid, "w") as f:
        f.write("\n".join(impl) + "\n")
    with open(mid) as fi:
        q = subprocess.run([MDRIVER], stdin=fi, stdout=subprocess.PIPE, stderr=subprocess.PIPE, text=True, timeout=3600)
    verd = q.stdout.splitlines()
    if q.returncode != 0 or len(verd) != len(impl):
        raise Broken("mdriver", "model driver failed (rc=%s, %d verdicts for %d lines): %s" %
                     (q.returncode, len(verd), len(impl), q.stderr[-2000:]))
    return list(zip(impl, verd)), crashed


def run_cases(lines, jobs=1):
    """Returns list of Case for the given op lines."""
    workdir = os.path.join(BUILD, "run-%d-%d" % (os.getpid(), int(time.time() * 1000) % 10**9))
    os.makedirs(workdir, exist_ok=True)
    try:
        if jobs <= 1 or len(lines) < 200:
            res, _ = _pipe(lines, workdir, 0)
        else:
            # round-robin distribution (expensive lines are often adjacent), results re-assembled in order
            chunks = [lines[k::jobs] for k in range(jobs)]
            with ThreadPoolExecutor(max_workers=jobs) as ex:
                parts = list(ex.map(lambda a: _pipe(a[1], workdir, a[0])[0] if a[1] else [], enumerate(chunks)))
            res = [None] * len(lines)
            for k, part in enumerate(parts):
                for j, item in enumerate(part):
                    res[k + j * jobs] = item
            res = [x for x in res if x is not None]     # chunks cut short after repeated hangs
    finally:
        shutil.rmtree(workdir, ignore_errors=True)
    return [Case(i, v) for i, v in res]


class Case:
    __slots__ = ("line", "impl", "corr", "model", "oracle", "reason", "tags", "err")

    def __init__(self, implline, verdict):
        if " => " in implline:
            self.line, self.impl = implline.split(" => ", 1)
        else:
            self.line, self.impl = implline, ""
        self.err = None
        self.corr, self.model, self.oracle, self.reason, self.tags = "ok", None, "pass", None, []
        if verdict.startswith("ERR") or verdict == "SKIP":
            self.err = verdict
            self.corr = "diff"
            self.model = verdict
            self.oracle = "na"
            return
        parts = verdict.split(" ;; ")
        for p in parts:
            if p.startswith("C="):
                if p == "C=ok":
                    self.corr = "ok"
                else:
                    self.corr, self.model = "diff", p[len("C=diff:"):]
            elif p.startswith("O="):
                if p == "O=pass":
                    self.oracle = "pass"
                elif p == "O=na":
                    self.oracle = "na"
                else:
                    self.oracle, self.reason = "fail", p[len("O=fail:"):]
            elif p.startswith("T="):
                self.tags = [t for t in p[2:].split(",") if t]

    def to_json(self):
        return {"line": self.line, "impl": self.impl, "model": self.model if self.corr == "diff" else "(same as impl)",
                "oracle": self.oracle, "reason": self.reason, "tags": self.tags}


def load_known():
    p = os.path.join(VERIF, "known_findings.json")
    if not os.path.exists(p):
        return []
    return json.load(open(p)).get("findings", [])


def known_match(finding, case):
    m = finding.get("match", {})
    if "line_regex" in m and not re.search(m["line_regex"], case.line):
        return False
    if "impl_regex" in m and not re.search(m["impl_regex"], case.impl):
        return False
    if "reason_regex" in m and not re.search(m["reason_regex"], case.reason or ""):
        return False
    if "lines" in m and case.line not in m["lines"]:
        return False
    if "pred" in m:
        try:
            if not eval(m["pred"], {"__builtins__": {"int": int, "len": len}}, {"t": case.line.split(), "impl": case.impl}):
                return False
        except Exception:
            return False
    return bool(m)


def shrink_tokens(line, still_fails, budget=120, seconds=150):
    """Greedy delta-debugging on expression sub-trees inside a line: try to replace a
    sub-expression by one of its children or by a small constant.  Bounded by a number of tries and by time
    (a candidate on which the implementation hangs costs a watchdog period)."""
    best = line
    toks = best.split()
    tries = 0
    improved = True
    deadline = time.time() + seconds
    while improved and tries < budget and time.time() < deadline:
        improved = False
        toks = best.split()
        spans = expr_spans(toks)
        # larger spans first
        spans.sort(key=lambda s: -(s[1] - s[0]))
        for (a, b, kids) in spans:
            if b - a <= 1:
                continue
            cands = [toks[k0:k1] for (k0, k1) in kids] + [["c:00"], ["c:01"]]
            for c in cands:
                if tries >= budget or time.time() > deadline:
                    break
                cand = " ".join(toks[:a] + c + toks[b:])
                if len(cand) >= len(best):
                    continue
                tries += 1
                if still_fails(cand):
                    best = cand
                    improved = True
                    break
            if improved:
                break
    return best


def expr_spans(toks):
    """Find spans [a,b) of tokens that parse as expressions, with their child spans."""
    spans = []

    def parse(i):
        if i >= len(toks):
            raise ValueError
        t = toks[i]
        if t.startswith("c:"):
            spans.append((i, i + 1, []))
            return i + 1
        if t == "r":
            spans.append((i, i + 3, []))
            return i + 3
        if t == "b":
            j = i + 3
            kids = []
            for _ in range(2):
                k = parse(j); kids.append((j, k)); j = k
            spans.append((i, j, kids)); return j
        if t == "l":
            j = i + 2
            kids = []
            for _ in range(4):
                k = parse(j); kids.append((j, k)); j = k
            spans.append((i, j, kids)); return j
        if t == "m":
            j = i + 3
            k = parse(j)
            spans.append((i, k, [(j, k)])); return k
        raise ValueError

    i = 0
    while i < len(toks):
        if toks[i].startswith("c:") or toks[i] in ("b", "l", "m", "r"):
            save = len(spans)
            try:
                i = parse(i)
                continue
            except (ValueError, IndexError):
                del spans[save:]
        i += 1
    return spans
