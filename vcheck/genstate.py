"""Generators for interval sets, memories, registers (C14-C18)."""
import random


def intervals(r, lo=-4, hi=40, maxn=6):
    """Raw interval list with forced adjacency / containment / equal begins."""
    n = r.choice([0, 1, 1, 2, 2, 3, 4, 5, maxn])
    out = []
    for _ in range(n):
        k = r.random()
        if out and k < 0.2:
            b = out[-1][1]                      # adjacent to previous
        elif out and k < 0.35:
            b = out[-1][0]                      # equal begin
        elif out and k < 0.5:
            b = r.randint(out[-1][0], max(out[-1][0], out[-1][1] - 1))   # nested / overlapping
        else:
            b = r.randint(lo, hi)
        e = b + r.choice([1, 1, 2, 3, 5, 8, 13, 30])
        out.append((b, e))
    r.shuffle(out)
    return out


I64_ANCHORS = [-2**63, -2**63 + 40, -2**31, -3, 0, 2**31, 2**62, 2**63 - 60]
U64_ANCHORS = [0, 5, 2**31, 2**32 - 8, 2**62, 2**63 - 20, 2**63, 2**63 + 2**62, 2**64 - 60]


def intervals_wide(r, unsigned, maxn=6):
    """Intervals spread over the whole element type (begins more than 2^63 apart, next to the type's limits)."""
    lo, hi = (0, 2**64 - 1) if unsigned else (-2**63, 2**63 - 1)
    anchors = U64_ANCHORS if unsigned else I64_ANCHORS
    n = r.choice([1, 2, 2, 3, 4, 5, maxn])
    out = []
    for _ in range(n):
        k = r.random()
        if out and k < 0.2:
            b = out[-1][1]
        elif out and k < 0.3:
            b = out[-1][0]
        else:
            b = r.choice(anchors) + r.choice([0, 0, 0, r.randint(0, 40)])     # often exactly on the anchor (type minimum!)
        b = min(max(b, lo), hi - 1)
        e = min(b + r.choice([1, 1, 2, 3, 5, 8, 13, 30]), hi)
        if r.random() < 0.12:
            # an interval spanning a large part of the type (length 2^62 .. almost the whole type)
            e = min(max(b + 1, r.choice([b + 2 ** 62, b + 2 ** 63 - 1, b + 2 ** 63, b + 2 ** 63 + 5, hi - r.randint(0, 3)])), hi)
        out.append((b, e))
    r.shuffle(out)
    return out


def fmt_intervals(l):
    return ("%d " % len(l) + " ".join("%d %d" % (b, e) for b, e in l)).strip()


def g_inew(r):
    k = r.random()
    if k < 0.15:
        return "inew " + fmt_intervals(intervals_wide(r, False))
    if k < 0.35:
        return "inewu " + fmt_intervals(intervals_wide(r, True))
    return "inew " + fmt_intervals(intervals(r))


def g_ibin(r):
    op = r.choice(["iunion", "icompl", "iinter"])
    k = r.random()
    if k < 0.25:
        unsigned = k < 0.15
        a, b = intervals_wide(r, unsigned), intervals_wide(r, unsigned)
        if r.random() < 0.1:
            b = []
        return "%s%s %s %s" % (op, "u" if unsigned else "", fmt_intervals(a), fmt_intervals(b))
    a = intervals(r)
    b = intervals(r)
    if r.random() < 0.1:
        b = []
    if r.random() < 0.05:
        a = []
    if r.random() < 0.15:
        # one long interval spanning several of the other
        b = b + [(r.randint(-4, 10), r.randint(25, 45))]
    return "%s %s %s" % (op, fmt_intervals(a), fmt_intervals(b))
