"""Generators for interval sets, memories, registers (C14-C18)."""
import random


def intervals(r, lo=-4, hi=40, maxn=6):
    """Raw interval list with forced adjacency / containment / equal begins."""
    n = r.choice([0, 1, 1, 2, 2, 3, 4, 5, maxn])
    out = []
    for _ in range(n):
        k = r.random()
        if out and k < 0.2:
            b = out[-1][1]                      # adjacent to previous
        elif out and k < 0.35:
            b = out[-1][0]                      # equal begin
        elif out and k < 0.5:
            b = r.randint(out[-1][0], max(out[-1][0], out[-1][1] - 1))   # nested / overlapping
        else:
            b = r.randint(lo, hi)
        e = b + r.choice([1, 1, 2, 3, 5, 8, 13, 30])
        out.append((b, e))
    r.shuffle(out)
    return out


def fmt_intervals(l):
    return ("%d " % len(l) + " ".join("%d %d" % (b, e) for b, e in l)).strip()


def g_inew(r):
    return "inew " + fmt_intervals(intervals(r))


def g_ibin(r):
    op = r.choice(["iunion", "icompl", "iinter"])
    a = intervals(r)
    b = intervals(r)
    if r.random() < 0.1:
        b = []
    if r.random() < 0.05:
        a = []
    if r.random() < 0.15:
        # one long interval spanning several of the other
        b = b + [(r.randint(-4, 10), r.randint(25, 45))]
    return "%s %s %s" % (op, fmt_intervals(a), fmt_intervals(b))
