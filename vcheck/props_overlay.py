"""Layered memory: C16."""
from .props import Prop, reg, has, nothas
from . import genoverlay as go

reg(Prop("C16",
         [("overlay", go.g_overlay, 5), ("overlay_alt", go.g_overlay_alt, 3), ("overlay_cross", go.g_overlay_cross, 2),
          ("layers", go.g_layers, 2), ("memmap", go.g_memmap, 1)],
         has("ld-mixed", "ms-cross"),
         "overlay: NewOverlay(NewBytes(0-4 blocks over a 60-byte window, also at 2^32 and 2^64-400), NewSparse()) x "
         "histories of 1-20 Store/Load/Missing/Blocks: stores (constants with distinct bytes, registers, memory reads, "
         "trees; value width =, <, > store width) straddling either end of a base block, inside it, covering it, adjacent, "
         "inside base gaps; loads entirely in the base / entirely in the upper layer / over 2-6 alternating pieces "
         "(forced shapes, base first and upper first) / across gaps of both layers; missing queries over ranges where a "
         "gap of one layer spans 2-4 gaps of the other (the F33 shape); widths 1-16 mostly, some up to 64 and 255; "
         "layers: the same on sparse-over-sparse (symbolic base), three-layer stacks (both nestings) and single "
         "memories; memmap: keyed histories on a fresh MemMap (unknown keys read as empty, first store creates a Sparse); "
         "every answer is judged against a stack of replayed byte maps ('top-most present byte'): load success = every "
         "byte present in some layer, width = w, value under 6 valuations = little-endian byte sum; Missing/Blocks in "
         "normal form and exact at every address concerned; no panic; the blocks and content of every base are "
         "re-read after the history and must be unchanged; non-trivial = a successful load composed of >= 2 reads from "
         "different layers, or a Missing query where an interval of one layer's missing set meets >= 2 of the other's",
         3000, 150000,
         trusted=["sort.Slice in Overlay.Load modelled as a stable insertion sort on begin (the begins are distinct)",
                  "memory.Sparse / memory.Bytes / interval algebra as modelled and proved for C14 / C15 / C17",
                  "Go interface dispatch modelled by an inductive type of the three memory implementations"],
         assumptions=["ranges with 1 <= w <= 255 and addr + w < 2^64 (as C14/C15)"],
         partial="'the base is never modified' is a theorem of the value model (the base component of the result of "
                 "Store is the old base; no other operation returns a memory); for the Go objects it is an aliasing "
                 "statement covered by the runtime monitor of the harness (base:unchanged), not by a theorem"))
