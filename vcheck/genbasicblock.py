"""Generators for basic-block identification (C08): bbparse / bbjumps lines."""
import random
from . import genexpr as gx

IP = "#r:w:ip"
TOP = 1 << 64


def c64(v, w=8):
    return "c:" + (v % (256 ** w)).to_bytes(w, "little").hex()


def layout(r, n, top=False):
    """n instructions (addr, len), contiguous with occasional gaps; sometimes ending at 2^64."""
    lens = [r.choice([4, 4, 4, 4, 4, 2, 1, 3]) for _ in range(n)]
    gaps = [0 if r.random() < 0.8 else r.choice([1, 2, 4, 4, 8, 16]) for _ in range(n)]
    base = r.choice([0, 0, 4, 64, 72, 4096, 1 << 31, (1 << 32) - 8, 1 << 32, 1 << 40])
    out = []
    a = base
    for i in range(n):
        if i > 0:
            a += gaps[i]
        out.append((a, lens[i]))
        a += lens[i]
    if top and n > 0:
        # shift the whole layout so that it ends at (or just below / wrapping over) 2^64
        end = out[-1][0] + out[-1][1]
        delta = TOP - end + r.choice([0, 0, 0, -1, -4, 1, 2])
        out = [((x + delta) % TOP, l) for x, l in out]
    return out


def other_effect(r):
    k = r.random()
    if k < 0.4:
        return "rs %s 8 b add 8 r %s 8 %s" % (r.choice(gx.REGS), r.choice(gx.REGS), c64(r.randint(0, 64)))
    if k < 0.6:
        return "ms memory 8 r %s 8 b add 8 r %s 8 %s" % (r.choice(gx.REGS), r.choice(gx.REGS), c64(r.randint(0, 64)))
    if k < 0.75:
        return "rs %s 8 m memory 8 r %s 8" % (r.choice(gx.REGS), r.choice(gx.REGS))
    if k < 0.85:
        return "rs %s %d %s" % (r.choice(gx.REGS), r.choice([4, 8]), c64(r.randint(0, 300)))
    return gx.effect(r)


def target_addr(r, ins, i, valid_only):
    """An address to jump to, from instruction index i."""
    n = len(ins)
    a, l = ins[i]
    k = r.random()
    if k < 0.30:
        return ins[r.randrange(n)][0]                    # any instruction start
    if k < 0.42:
        return ins[r.randrange(0, i + 1)][0]             # backward / itself
    if k < 0.50:
        return a                                         # itself
    if k < 0.62:
        return (a + l) % TOP                             # fall through: no real jump
    if k < 0.70 and i + 2 < n:
        return ins[i + 2][0]                             # skip one
    if valid_only:
        return ins[r.randrange(n)][0]
    k = r.random()
    if k < 0.3:
        j = r.randrange(n)
        return (ins[j][0] + r.randint(1, max(1, ins[j][1] - 1))) % TOP   # inside an instruction (or its end)
    if k < 0.5:
        return (ins[-1][0] + ins[-1][1]) % TOP           # exactly at the end of the last block
    if k < 0.65:
        return (ins[-1][0] + ins[-1][1] + r.choice([1, 4, 100])) % TOP   # beyond
    if k < 0.8:
        return (ins[0][0] - r.choice([1, 4, 8])) % TOP   # before the first
    if k < 0.9:
        j = r.randrange(n)
        return (ins[j][0] + ins[j][1]) % TOP             # end of an instruction (gap start or next)
    return r.choice([0, 1, TOP - 1, TOP - 4, 1 << 63])


def jump_effect(r, ins, i, valid_only):
    """A store to the instruction pointer."""
    a, l = ins[i]
    nxt = (a + l) % TOP
    w = r.choice([8, 8, 8, 8, 4])
    k = r.random()
    if k < 0.40:
        v = c64(target_addr(r, ins, i, valid_only))
    elif k < 0.65:
        # conditional branch: target or next instruction
        t = c64(target_addr(r, ins, i, valid_only))
        f = c64(nxt) if r.random() < 0.8 else c64(target_addr(r, ins, i, valid_only))
        if r.random() < 0.2:
            t, f = f, t
        v = "l 8 r %s 8 r %s 8 %s %s" % (r.choice(gx.REGS), r.choice(gx.REGS), t, f)
    elif k < 0.74:
        # computed constant: base + offset, folded by jumps()
        t = target_addr(r, ins, i, valid_only)
        off = r.choice([4, 8, l, 0x100])
        v = "b add 8 %s %s" % (c64((t - off) % TOP), c64(off))
    elif k < 0.80:
        # a constant sub-computation SHARED by the alternatives of a conditional (Possibilities multiplies the tree out,
        # the alternatives share the sub-tree object and are folded one after another)
        op = r.choice(["lsh", "lsh", "rsh", "mul", "div"])
        if op == "lsh":
            x, y = r.randint(1, 0x400), r.randint(1, 7); sv = (x << y) % TOP
        elif op == "rsh":
            x, y = r.getrandbits(20) | 0x100, r.randint(1, 7); sv = x >> y
        elif op == "mul":
            x, y = r.randint(1, 0x400), r.randint(2, 9); sv = (x * y) % TOP
        else:
            x, y = r.getrandbits(24) | 0x1000, r.randint(2, 9); sv = x // y
        xw = r.choice([8, 8, 9, 16])          # sometimes wider than the operation
        sh = "b %s 8 %s %s" % (op, c64(x, xw), c64(y, r.choice([1, 8])))
        t = target_addr(r, ins, i, valid_only)
        f = nxt if r.random() < 0.6 else target_addr(r, ins, i, valid_only)
        v = "b add 8 %s l 8 r %s 8 r %s 8 %s %s" % (sh, r.choice(gx.REGS), r.choice(gx.REGS), c64((t - sv) % TOP), c64((f - sv) % TOP))
    elif k < 0.85:
        v = r.choice(["r x1 8", "b add 8 r x1 8 c:0400000000000000", "m memory 8 r x2 8",
                      "b nand 8 r x1 8 c:0100000000000000"])
    elif k < 0.91:
        # wider than 8 bytes: fits (upper bytes zero) or does not
        t = target_addr(r, ins, i, valid_only)
        if r.random() < 0.5:
            v = c64(t, r.choice([9, 12, 16]))
        else:
            wd = r.choice([9, 16])
            v = "c:" + (t + (r.choice([1, 1, 255]) << 64)).to_bytes(wd, "little").hex()
    elif k < 0.95:
        # narrower constant
        t = target_addr(r, ins, i, valid_only)
        wd = r.choice([1, 2, 4])
        v = c64(t, wd)
    else:
        # nested conditional: three possibilities
        t1 = c64(target_addr(r, ins, i, valid_only))
        t2 = c64(target_addr(r, ins, i, valid_only))
        v = "l 8 r x1 8 r x2 8 %s l 8 r x3 8 c:00 %s %s" % (t1, t2, c64(nxt))
    return "rs %s %d %s" % (IP, w, v)


def program(r, n=None, top=False, pbad=0.12):
    if n is None:
        n = r.choice([0, 1, 1, 2, 2, 3, 3, 4, 5, 6, 7, 8, 9, 10, 11, 12, 12, 13, 20, 33])
    ins = layout(r, n, top)
    valid_only = r.random() > pbad
    out = []
    pj = r.choice([0.1, 0.2, 0.3, 0.5])
    for i, (a, l) in enumerate(ins):
        efs = []
        for _ in range(r.choice([0, 0, 1, 1, 2])):
            efs.append(other_effect(r))
        if r.random() < pj:
            efs.append(jump_effect(r, ins, i, valid_only))
            if r.random() < 0.12:
                efs.append(jump_effect(r, ins, i, valid_only))
        r.shuffle(efs)
        out.append((a, l, efs))
    # entry point
    if n == 0:
        entry = r.choice([0, 0, 4, 72])
    elif r.random() < 0.9:
        k = r.random()
        entry = ins[0][0] if k < 0.5 else ins[r.randrange(n)][0]
    else:
        entry = target_addr(r, ins, r.randrange(n), False)
    return entry, out


def fmt_program(entry, prog):
    parts = ["bbparse", str(entry), str(len(prog))]
    for a, l, efs in prog:
        parts += [str(a), str(l), str(len(efs))] + efs
    return " ".join(parts)


def g_bbparse(r):
    entry, prog = program(r)
    if r.random() < 0.7:
        r.shuffle(prog)
    return fmt_program(entry, prog)


def g_bbparse_top(r):
    """Code at the very end of the address space (End() wraps to 0)."""
    entry, prog = program(r, n=r.choice([1, 2, 3, 4, 6]), top=True)
    r.shuffle(prog)
    return fmt_program(entry, prog)


def g_bbparse_malformed(r):
    """Outside the well-formedness assumption: duplicates, overlaps, zero lengths."""
    entry, prog = program(r, n=r.choice([2, 3, 4, 5, 6, 8]), top=r.random() < 0.15)
    for _ in range(r.choice([1, 1, 2, 3])):
        k = r.random()
        j = r.randrange(len(prog))
        a, l, efs = prog[j]
        if k < 0.3:
            prog.insert(r.randrange(len(prog) + 1), (a, r.choice([l, 1, 2, 4, 8]), list(efs)))   # duplicate address
        elif k < 0.55:
            prog[j] = (a, 0, efs)                                                              # zero length
        elif k < 0.8:
            prog[j] = (a, l + r.choice([1, 2, 4, 8]), efs)                                      # overlaps the next
        else:
            prog.insert(r.randrange(len(prog) + 1), ((a + 1) % TOP, r.choice([1, 2, 4]), []))   # starts inside
    if r.random() < 0.7:
        r.shuffle(prog)
    return fmt_program(entry, prog[:12])


def g_bbjumps(r):
    n = r.choice([1, 2, 3, 5])
    ins = layout(r, n, top=r.random() < 0.15)
    i = r.randrange(n)
    a, l = ins[i]
    efs = []
    for _ in range(r.choice([0, 1, 2])):
        efs.append(other_effect(r))
    for _ in range(r.choice([1, 1, 1, 2, 3])):
        if r.random() < 0.8:
            efs.append(jump_effect(r, ins, i, False))
        else:
            efs.append("rs %s %d %s" % (IP, r.choice([4, 8]), gx.expr(r, r.choice([1, 2, 3]), False, pless=0.4)))
    r.shuffle(efs)
    return " ".join(["bbjumps", str(a), str(l), str(len(efs))] + efs)


# witnesses of known defects (shapes)
WITNESSES = [
    "bbparse 0 0",                                                   # F09
    "bbparse 18446744073709551612 1 18446744073709551612 4 0",       # F48
]


def g_witness(r):
    return r.choice(WITNESSES)
