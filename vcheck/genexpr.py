"""Generators of expression-layer cases (line protocol, see DESIGN.md section 3.4)."""
import random

WIDTHS = [1, 2, 3, 4, 8, 16, 31, 32, 33, 255]
SMALL_WIDTHS = [1, 2, 3, 4, 8]
OPS = ["add", "lsh", "rsh", "mul", "div", "nand"]
REGS = ["x1", "x2", "x3", "t0"]
MEMS = ["memory", "m2"]
KINDS = ["const", "binary", "less", "memload", "regload"]


def rwidth(r, small=False):
    if small or r.random() < 0.7:
        return r.choice(SMALL_WIDTHS)
    if r.random() < 0.8:
        return r.choice(WIDTHS)
    return r.randint(1, 255)


def rbytes(r, w):
    k = r.random()
    if k < 0.12:
        b = bytes(w)
    elif k < 0.22:
        b = b"\xff" * w
    elif k < 0.30:
        b = bytes([1]) + bytes(w - 1)
    elif k < 0.36:
        b = bytes(w - 1) + bytes([0x80])
    elif k < 0.42:
        b = b"\xff" * (w - 1) + bytes([0x7f])
    elif k < 0.55:
        # small number (shift amounts, divisors)
        v = r.choice([0, 1, 2, 3, 7, 8, 9, 15, 16, 17, 31, 32, 33, 63, 64, 65, 8 * w - 1, 8 * w, 8 * w + 1])
        v %= 256 ** w
        b = v.to_bytes(w, "little")
    elif k < 0.62:
        # long carry chain
        n = r.randint(0, w)
        b = b"\xff" * n + bytes([r.randrange(256) for _ in range(w - n)])
    else:
        b = bytes(r.randrange(256) for _ in range(w))
    return b


_last_parent = [None]


def const(r, w=None):
    free = w is None
    if w is None:
        w = rwidth(r)
    k = r.random()
    if k < 0.10 and w <= 64:
        # a constant that shares its bytes and spare capacity with a wider one (Const.WithWidth of the parent),
        # as the values handed out of the emulator's register file do; the parent has non-zero upper bytes
        extra = r.choice([1, 2, 4, 4, 6, 8, 16])
        parent = rbytes(r, w) + bytes(r.randint(1, 255) for _ in range(extra))
        _last_parent[0] = parent.hex()
        return "cw:%s:%d" % (parent.hex(), w)
    if free and k < 0.14 and _last_parent[0] is not None:
        # ... and the parent itself is used again later in the same line (interned: the same object)
        return "c:" + _last_parent[0]
    return "c:" + rbytes(r, w).hex()


def leaf(r, closed=False):
    k = r.random()
    if closed or k < 0.5:
        if r.random() < 0.15:
            return r.choice(["c:00", "c:01"])
        return const(r)
    return "r %s %d" % (r.choice(REGS), rwidth(r))


def wg(e, w):
    return "b add %d %s c:00" % (w, e)


def near_wg(r, e):
    """Additions that look like a width gadget but are not: the second operand is a zero of another
    width, or a wide constant whose low 8 bytes are zero."""
    k = r.random()
    if k < 0.4:
        w = r.choice([9, 12, 16, 32])
        n = r.choice([9, 10, 16])
        c = bytes(8) + bytes([r.choice([1, 0x80, 0xff])]) + bytes(n - 9)
        return "b add %d %s c:%s" % (w, e, c.hex())
    if k < 0.7:
        return "b add %d %s c:%s" % (rwidth(r), e, "00" * r.choice([2, 4, 8, 9]))
    return "b add %d c:00 %s" % (rwidth(r), e)


def expr(r, depth, closed=False, pless=0.15, pmem=0.10, pgad=0.25):
    """Random expression as a token string."""
    if depth <= 0 or r.random() < 0.18:
        return leaf(r, closed)
    k = r.random()
    if k < pgad:
        # chain of 1..4 width gadgets of varying widths
        e = expr(r, depth - 1, closed, pless, pmem, pgad)
        for _ in range(r.randint(1, 4)):
            e = near_wg(r, e) if r.random() < 0.06 else wg(e, rwidth(r))
        return e
    k = r.random()
    if k < pless:
        w = rwidth(r)
        return "l %d %s %s %s %s" % (
            w, expr(r, depth - 1, closed, pless, pmem, pgad), expr(r, depth - 1, closed, pless, pmem, pgad),
            expr(r, depth - 1, closed, pless, pmem, pgad), expr(r, depth - 1, closed, pless, pmem, pgad))
    if k < pless + pmem and not closed:
        return "m %s %d %s" % (r.choice(MEMS), rwidth(r), expr(r, depth - 1, closed, pless, pmem, pgad))
    w = rwidth(r)
    return "b %s %d %s %s" % (r.choice(OPS), w, expr(r, depth - 1, closed, pless, pmem, pgad),
                              expr(r, depth - 1, closed, pless, pmem, pgad))


def rexpr(r, closed=None):
    if closed is None:
        closed = r.random() < 0.3
    return expr(r, r.choice([0, 1, 2, 2, 3, 3, 4, 5]), closed)


def effect(r):
    if r.random() < 0.5:
        return "ms %s %d %s %s" % (r.choice(MEMS), rwidth(r), rexpr(r), rexpr(r))
    return "rs %s %d %s" % (r.choice(REGS), rwidth(r), rexpr(r))


# ---- streams ---------------------------------------------------------------

def g_fold(r):
    return "fold " + rexpr(r)


def g_fold_closed(r):
    return "fold " + rexpr(r, closed=True)


def g_purge(r):
    return "purge " + expr(r, r.choice([1, 2, 3, 4]), False, pgad=0.5)


def g_purge_memaddr(r):
    # width adapters directly above a MemLoad address and above the load itself
    a = expr(r, r.choice([0, 1, 2]), False, pgad=0.6)
    for _ in range(r.randint(1, 3)):
        a = wg(a, rwidth(r, small=True))
    e = "m %s %d %s" % (r.choice(MEMS), rwidth(r, small=True), a)
    for _ in range(r.randint(0, 2)):
        e = wg(e, rwidth(r, small=True))
    return r.choice(["purge ", "fold "]) + e


def g_setw(r):
    return "setw %d %s" % (rwidth(r), rexpr(r))


def g_poss(r):
    if r.random() < 0.12:
        # two conditional operands driven by DIFFERENT conditions with the SAME list of outcomes
        w = r.choice([1, 2, 4, 8])
        t, f = const(r, w), const(r, w)
        regs = r.sample(REGS, 4) if len(REGS) >= 4 else [r.choice(REGS) for _ in range(4)]
        l1 = "l %d r %s %d r %s %d %s %s" % (w, regs[0], w, regs[1], w, t, f)
        l2 = "l %d r %s %d r %s %d %s %s" % (w, regs[2], w, regs[3], w, t, f)
        if r.random() < 0.3:
            l2 = l1                                  # ... or literally the same operand twice
        return "poss b %s %d %s %s" % (r.choice(OPS), r.choice([w, w, 2 * w if w < 128 else w]), l1, l2)
    return "poss " + expr(r, r.choice([1, 2, 3]), False, pless=0.4)


def mutate(r, s):
    toks = s.split()
    for _ in range(8):
        i = r.randrange(len(toks))
        t = toks[i]
        if t.startswith("c:") and len(t) > 2:
            bs = bytearray.fromhex(t[2:])
            bs[r.randrange(len(bs))] ^= 1 << r.randrange(8)
            toks[i] = "c:" + bs.hex()
            return " ".join(toks)
        if t in OPS:
            toks[i] = r.choice(OPS)
            return " ".join(toks)
        if t in REGS:
            toks[i] = r.choice(REGS)
            return " ".join(toks)
        if t in MEMS:
            toks[i] = r.choice(MEMS)
            return " ".join(toks)
        if t.isdigit():
            toks[i] = str(rwidth(r))
            return " ".join(toks)
    return s


def g_equal(r):
    a = rexpr(r)
    k = r.random()
    if k < 0.4:
        b = a
    elif k < 0.8:
        b = mutate(r, a)
    else:
        b = rexpr(r)
    return "equal %s %s" % (a, b)


def g_find(r):
    return "find %s %s" % (r.choice(KINDS), rexpr(r))


def g_repl(r):
    return "repl %s %d %s" % (r.choice(KINDS), rwidth(r, small=True), expr(r, r.choice([1, 2, 3, 4]), False))


def g_effects(r):
    k = r.random()
    if k < 0.3:
        return "exprs " + effect(r)
    if k < 0.5:
        n = r.randint(0, 4)
        return "exprsmany %d %s" % (n, " ".join(effect(r) for _ in range(n)))
    if k < 0.8:
        return "efapply %d %s" % (rwidth(r), effect(r))
    n = r.randint(0, 4)
    return ("efsapply %d %d %s" % (rwidth(r), n, " ".join(effect(r) for _ in range(n)))).strip()


def g_binop(r):
    """C10: one operator on two constants of arbitrary widths."""
    w = rwidth(r)
    w1 = w if r.random() < 0.5 else rwidth(r)
    w2 = w if r.random() < 0.5 else rwidth(r)
    op = r.choice(OPS)
    c1 = const(r, w1)
    if r.random() < 0.12:
        # the same constant object used twice (the harness interns identical constant tokens)
        return "fold b %s %d %s %s" % (op, w, c1, c1)
    if r.random() < 0.08:
        # … and read again by an enclosing operation
        c2x = const(r, w2)
        return "fold b add %d b %s %d %s %s %s" % (rwidth(r), op, w, c1, c2x, r.choice([c1, c2x]))
    if op in ("lsh", "rsh") and r.random() < 0.8:
        v = r.choice([0, 1, 7, 8, 9, 8 * w - 1, 8 * w, 8 * w + 1, 2 ** 16, 2 ** 64, 2 ** 70, r.randrange(0, 8 * w + 2)])
        need = max(1, (v.bit_length() + 7) // 8)
        w2 = max(w2, need) if r.random() < 0.8 else w2
        c2 = "c:" + (v % 256 ** w2).to_bytes(w2, "little").hex()
    elif op == "div" and r.random() < 0.3:
        # divisor that truncates to zero at width w
        w2 = max(w2, w + 1) if w < 255 else w2
        c2 = "c:" + (bytes(min(w, w2)) + rbytes(r, max(0, w2 - w))).hex() if w2 > w else "c:" + bytes(w2).hex()
    else:
        c2 = const(r, w2)
    return "fold b %s %d %s %s" % (op, w, c1, c2)


def g_lessconst(r):
    w = rwidth(r)
    c1 = const(r, w if r.random() < 0.5 else rwidth(r))
    c2 = const(r, w if r.random() < 0.5 else rwidth(r)) if r.random() < 0.8 else c1
    return "fold l %d %s %s %s %s" % (w, c1, c2, leaf(r), leaf(r))


GADGET_WIDTHS = [1, 2, 3, 4, 8, 9, 16, 32, 127]


def sval(r, w):
    """boundary-biased constant of width w (signed corner cases)."""
    m = 256 ** w
    v = r.choice([0, 1, 2, m - 1, m - 2, m // 2, m // 2 - 1, m // 2 + 1, r.randrange(m), r.randrange(m),
                  r.randrange(min(m, 300))])
    return "c:" + v.to_bytes(w, "little").hex()


def garg(r, w, const_only):
    if const_only or r.random() < 0.5:
        return sval(r, w)
    if r.random() < 0.7:
        return "r %s %d" % (r.choice(REGS), w)
    return expr(r, 2, False)


def g_gadget(r, const_only=None):
    if const_only is None:
        const_only = r.random() < 0.5
    name = r.choice(["negate", "sub", "abs", "ones", "mod", "signedmul", "signeddiv", "signedmod", "signextend",
                     "rsha", "bitnot", "bitand", "bitor", "bitxor", "bool", "not", "boolcond", "eq", "lts",
                     "leu", "les", "maskbits", "intnegative", "widthgadget"])
    w = r.choice(GADGET_WIDTHS) if r.random() < 0.9 else r.randint(1, 127)
    op = "gadgetf" if const_only else "gadget"
    a = lambda ww=None: garg(r, ww or w, const_only)
    # operand widths: mostly the documented shape (w), sometimes mixed
    mixed = r.random() < 0.15
    mw = (lambda: r.choice(GADGET_WIDTHS)) if mixed else (lambda: w)
    if name in ("negate", "abs", "bitnot", "intnegative", "widthgadget"):
        return "%s %s %d %s" % (op, name, w, a(mw()))
    if name == "ones":
        return "%s ones %d" % (op, w)
    if name in ("mod", "signeddiv", "signedmod") and r.random() < 0.12 and w <= 100:
        # a divisor wider than the operation whose low w bytes are all zero: zero once cropped to the width
        nx = r.choice([0, 1, 3, 7])
        dv = "c:" + (bytes(w) + bytes([r.randint(1, 255)]) + (rbytes(r, nx) if nx else b"")).hex()
        return "%s %s %d %s %s" % (op, name, w, a(), dv)
    if name in ("sub", "mod", "bitand", "bitor", "bitxor"):
        return "%s %s %d %s %s" % (op, name, w, a(mw()), a(mw()))
    if name in ("signeddiv", "signedmod"):
        return "%s %s %d %s %s" % (op, name, w, a(), a())
    if name == "signedmul":
        if w > 127:
            w = 127
        return "%s %s %d %s %s" % (op, name, w, a(), a())
    if name == "signextend":
        bit = r.choice([0, 1, 7, 8, 8 * w - 1, r.randrange(8 * w)])
        bw = r.choice([1, 2]) if bit < 256 else 2
        return "%s signextend %d %s c:%s" % (op, w, a(mw()), bit.to_bytes(bw, "little").hex())
    if name == "rsha":
        s = r.choice([0, 1, 7, 8, 8 * w - 1, 8 * w, 8 * w + 1, r.randrange(8 * w + 2)])
        if r.random() < 0.12:
            # shift amounts far beyond the width (byte counts that wrap in 8 or 32 bits)
            s = r.choice([255, 256, 2047, 2048, 2048 + r.randint(0, 8 * w), 2 ** 16, 2 ** 16 + 3, 2 ** 32, 2 ** 32 + 8,
                          2 ** 35, 2 ** 64 - 1, 2 ** 64, 2 ** 64 + 8])
        sw = max(1, (s.bit_length() + 7) // 8)
        sh = "c:" + s.to_bytes(sw, "little").hex() if r.random() < 0.8 else a(w)
        return "%s rsha %d %s %s" % (op, w, a(), sh)
    if name in ("bool", "not"):
        return "%s %s %s" % (op, name, a(mw()))
    if name == "boolcond":
        return "%s boolcond %d %s %s %s" % (op, w, a(mw()), a(mw()), a(mw()))
    if name in ("eq", "lts", "leu", "les"):
        x = a()
        y = x if r.random() < 0.2 else a()
        return "%s %s %d %s %s %s %s" % (op, name, w, x, y, a(mw()), a(mw()))
    if name == "maskbits":
        cnt = r.choice([0, 1, 7, 8, 63, 64, 65, 8 * w - 1, 8 * w, r.randrange(8 * w + 1)])
        if w == 1 and r.random() < 0.1:
            cnt = 256 * r.randint(1, 3) + r.randint(0, 12)   # F34: bit count truncated by the enclosing Lsh
        elif r.random() < 0.03:
            cnt = 8 * w + r.randint(1, 8)  # rejected by the constructor when <= 64 bits do not fit
        return "%s maskbits %d %d %s" % (op, w, cnt, a(mw()))
    raise AssertionError(name)


def g_gadget_const(r):
    return g_gadget(r, True)


def g_gadget_sym(r):
    return g_gadget(r, False)


UT = {"u8": 1, "u16": 2, "u32": 4, "u64": 8, "nu8": 1, "nu16": 2, "nu32": 4, "nu64": 8}      # n*: defined (named) types
IT = {"i8": 1, "i16": 2, "i32": 4, "i64": 8, "ni8": 1, "ni16": 2, "ni32": 4, "ni64": 8}


def CONST_WIDE(r):
    """widths whose bit count does not fit a byte (8*w wraps in uint8 arithmetic) and the named wide widths"""
    return r.choice([31, 32, 33, 40, 63, 64, 65, 96, 127, 128, 129, 200, 255, r.randint(21, 255)])


def g_const(r):
    k = r.random()
    if k < 0.3:
        t = r.choice(list(UT))
        s = UT[t]
        w = r.choice([1, 2, 3, 4, 7, 8, 9, 16, s, s, r.randint(1, 20), CONST_WIDE(r)])
        m = 256 ** s
        v = r.choice([0, 1, m - 1, m // 2, 256 ** min(w, s) - 1, 256 ** min(w, s) % m, r.randrange(m),
                      r.randrange(256 ** min(w, s))])
        if r.random() < 0.2:
            return "constfromuint %s %d" % (t, v)
        return "constuint %s %d %d" % (t, w, v)
    if k < 0.65:
        t = r.choice(list(IT))
        s = IT[t]
        w = r.choice([1, 2, 3, 4, 7, 8, 9, 16, s, s, r.randint(1, 20), CONST_WIDE(r)])
        m = 256 ** s
        lim = 256 ** min(w, s) // 2
        v = r.choice([0, 1, -1, m // 2 - 1, -(m // 2), lim - 1, lim, -lim, -lim - 1, lim + 1,
                      r.randrange(-(m // 2), m // 2), r.randrange(-lim, lim), r.randrange(-2 * lim, 2 * lim)])
        v = max(-(m // 2), min(m // 2 - 1, v))
        if r.random() < 0.2:
            return "constfromint %s %d" % (t, v)
        return "constint %s %d %d" % (t, w, v)
    if k < 0.8:
        t = r.choice(list(UT))
        w = r.choice([1, 2, 3, 4, 7, 8, 9, 16, 32])
        b = rbytes(r, w)
        if r.random() < 0.4:
            n = r.randint(0, w)
            b = b[:n] + bytes(w - n)
        return "touint %s c:%s" % (t, b.hex())
    if k < 0.9:
        return "withwidth %d %s" % (rwidth(r), const(r))
    n = r.randint(0, 12)
    b = rbytes(r, n) if n else b""
    b2 = bytes((x ^ 0xa5) for x in b)
    w = r.choice([1, 2, 4, 8, max(1, n), r.randint(1, 16)])
    return "newconst %d %s %s" % (w, b.hex() or "-", b2.hex() or "-")
