"""Generators for the loading pipeline: ELF files (C20), code images (C21), start-up (C26).

ELF files are built with `struct` (ELF32/ELF64, both byte orders), deliberately small.  A file
is described by a header, content sections and program headers; `build_elf` lays it out as

    ELF header | program header table | blobs (section and segment contents) | shstrtab |
    section header table (NULL section, content sections, .shstrtab)

`parse_elf` is a minimal reader of the same format; it is used to keep files whose PT_LOAD headers
request a large zero fill out of the in-process streams (F19)."""
import random, struct, zlib

ET_NONE, ET_REL, ET_EXEC, ET_DYN, ET_CORE = 0, 1, 2, 3, 4
SHT_NULL, SHT_PROGBITS, SHT_SYMTAB, SHT_STRTAB, SHT_NOBITS = 0, 1, 2, 3, 8
SHF_WRITE, SHF_ALLOC, SHF_EXECINSTR = 1, 2, 4
PT_NULL, PT_LOAD, PT_DYNAMIC, PT_INTERP, PT_NOTE, PT_PHDR = 0, 1, 2, 3, 4, 6
EM_RISCV, EM_X86_64, EM_ARM = 243, 62, 40

M64 = 2 ** 64
# zero fill above this size is kept out of the in-process streams
INPROC_FILL = 1 << 20


class Sec:
    def __init__(self, typ, flags, addr, data=b"", size=None, name=".s", offset=None):
        self.typ, self.flags, self.addr, self.data, self.name = typ, flags, addr, data, name
        self.size = len(data) if size is None else size     # header field
        self.offset = offset                                  # forced header field (None: where the data is)


class Seg:
    def __init__(self, typ, vaddr, data=b"", memsz=None, filesz=None, flags=5, offset=None):
        self.typ, self.vaddr, self.data, self.flags = typ, vaddr, data, flags
        self.filesz = len(data) if filesz is None else filesz
        self.memsz = self.filesz if memsz is None else memsz
        self.offset = offset


def build_elf(bits, big, etype, entry, secs, segs, machine=EM_RISCV, names=True, shnull=True):
    e = ">" if big else "<"
    ehsize, phentsize, shentsize = (52, 32, 40) if bits == 32 else (64, 56, 64)
    mask = (1 << bits) - 1
    phoff = ehsize if segs else 0
    pos = ehsize + phentsize * len(segs)
    body = bytearray()
    # blobs
    sec_off = []
    for s in secs:
        if s.typ == SHT_NOBITS:
            sec_off.append(pos + len(body))
            continue
        sec_off.append(pos + len(body))
        body += s.data
    seg_off = []
    for g in segs:
        if g.offset is not None:
            seg_off.append(g.offset)
            continue
        seg_off.append(pos + len(body))
        body += g.data
    # section name table
    strtab = bytearray(b"\0")
    name_idx = []
    all_secs = list(secs)
    if names:
        for s in secs:
            name_idx.append(len(strtab)); strtab += s.name.encode() + b"\0"
        shstr_name = len(strtab); strtab += b".shstrtab\0"
    nsh = (1 if shnull else 0) + len(secs) + (1 if names else 0)
    strtab_off = pos + len(body)
    if names:
        body += strtab
    shoff = pos + len(body) if nsh else 0
    sh = bytearray()

    def shdr(name, typ, flags, addr, off, size):
        if bits == 32:
            return struct.pack(e + "IIIIIIIIII", name, typ, flags & mask, addr & mask, off & mask, size & mask, 0, 0, 1, 0)
        return struct.pack(e + "IIQQQQIIQQ", name, typ, flags & mask, addr & mask, off & mask, size & mask, 0, 0, 1, 0)
    if shnull:
        sh += shdr(0, 0, 0, 0, 0, 0)
    for i, s in enumerate(secs):
        off = sec_off[i] if s.offset is None else s.offset
        sh += shdr(name_idx[i] if names else 0, s.typ, s.flags, s.addr, off, s.size)
    if names:
        sh += shdr(shstr_name, SHT_STRTAB, 0, 0, strtab_off, len(strtab))
    shstrndx = nsh - 1 if names else 0
    ph = bytearray()
    for i, g in enumerate(segs):
        if bits == 32:
            ph += struct.pack(e + "IIIIIIII", g.typ, seg_off[i] & mask, g.vaddr & mask, g.vaddr & mask,
                              g.filesz & mask, g.memsz & mask, g.flags, 1)
        else:
            ph += struct.pack(e + "IIQQQQQQ", g.typ, g.flags, seg_off[i] & mask, g.vaddr & mask, g.vaddr & mask,
                              g.filesz & mask, g.memsz & mask, 1)
    ident = b"\x7fELF" + bytes([1 if bits == 32 else 2, 2 if big else 1, 1, 0]) + bytes(8)
    if bits == 32:
        hdr = ident + struct.pack(e + "HHIIIIIHHHHHH", etype, machine, 1, entry & mask, phoff, shoff, 0, ehsize,
                                  phentsize if segs else 0, len(segs), shentsize if nsh else 0, nsh, shstrndx)
    else:
        hdr = ident + struct.pack(e + "HHIQQQIHHHHHH", etype, machine, 1, entry & mask, phoff, shoff, 0, ehsize,
                                  phentsize if segs else 0, len(segs), shentsize if nsh else 0, nsh, shstrndx)
    return bytes(hdr + ph + body + sh)


def parse_progs(b):
    """Program headers (type, vaddr, filesz, memsz) as debug/elf would read them, or None."""
    try:
        if len(b) < 16 or b[:4] != b"\x7fELF" or b[4] not in (1, 2) or b[5] not in (1, 2):
            return None
        bits = 32 if b[4] == 1 else 64
        e = ">" if b[5] == 2 else "<"
        if bits == 32:
            phoff, = struct.unpack_from(e + "I", b, 28)
            phentsize, phnum = struct.unpack_from(e + "HH", b, 42)
        else:
            phoff, = struct.unpack_from(e + "Q", b, 32)
            phentsize, phnum = struct.unpack_from(e + "HH", b, 54)
        out = []
        if phoff + phnum * phentsize > len(b):
            return None
        for i in range(phnum):
            o = phoff + i * phentsize
            if bits == 32:
                typ, off, va, pa, fsz, msz, fl, al = struct.unpack_from(e + "IIIIIIII", b, o)
            else:
                typ, fl, off, va, pa, fsz, msz, al = struct.unpack_from(e + "IIQQQQQQ", b, o)
            out.append((typ, va, fsz, msz))
        return out
    except (struct.error, IndexError, OverflowError):
        return None


def big_fill(b):
    """Would loading this file allocate a large zero fill (F19 territory)?"""
    ps = parse_progs(b)
    if ps is None:
        return False
    return any(t == PT_LOAD and msz >= fsz and msz > INPROC_FILL for (t, va, fsz, msz) in ps)


# ---------------------------------------------------------------------------------------------
# structured random files

def rbytes(r, n):
    return bytes(r.getrandbits(8) for _ in range(n))


def pick_len(r):
    k = r.random()
    if k < 0.12:
        return 0
    if k < 0.75:
        return r.choice([1, 2, 3, 4, 4, 8, 8, 12, 16])
    if k < 0.97:
        return r.randint(1, 64)
    return r.randint(65, 600)


def base_addr(r, bits):
    top = 2 ** bits
    k = r.random()
    if k < 0.6:
        return r.choice([0x1000, 0x10000, 0x400000, 0x80000000 if bits == 64 else 0x8000000])
    if k < 0.7:
        return top - 0x100
    if k < 0.8:
        return r.choice([0, 8, 0x10])
    return r.randrange(0, top - 0x1000, 4)


def layout(r, bits, n, base):
    """n (addr, len) ranges near base: adjacent, gapped, overlapping, equal begins, nested."""
    top = 2 ** bits
    out = []
    cur = base
    for _ in range(n):
        ln = pick_len(r)
        k = r.random()
        if out and k < 0.18:                       # overlap / equal begin / nested
            pa, pl = r.choice(out)
            a = pa + r.choice([0, 0, 1, max(pl - 1, 0), pl // 2])
        elif out and k < 0.30:                     # exactly adjacent
            a = cur
        else:
            a = cur + r.choice([0, 0, 4, 8, 0x10, 0x1000])
        a %= top
        out.append((a, ln))
        cur = a + ln
    r.shuffle(out) if r.random() < 0.5 else None
    return out


def gen_file(r, well=True):
    """A structured random ELF file.  Returns (bytes, description dict)."""
    bits = r.choice([32, 64, 64])
    big = r.random() < 0.35
    k = r.random()
    etype = ET_EXEC if k < 0.5 else ET_DYN if k < 0.7 else r.choice([ET_NONE, ET_REL, ET_CORE]) if k < 0.95 else \
        r.choice([5, 6, 7, 0xfe00, 0xff02, 0xffff])
    top = 2 ** bits
    base = base_addr(r, bits)
    nsec = r.choice([0, 1, 1, 2, 2, 3, 4])
    secs = []
    for i, (a, ln) in enumerate(layout(r, bits, nsec, base)):
        q = r.random()
        if q < 0.6:
            typ, flags = SHT_PROGBITS, SHF_ALLOC | SHF_EXECINSTR
        elif q < 0.75:
            typ, flags = SHT_PROGBITS, r.choice([SHF_ALLOC, SHF_ALLOC | SHF_WRITE, 0])
        elif q < 0.87:
            typ, flags = SHT_NOBITS, r.choice([SHF_ALLOC | SHF_WRITE, SHF_ALLOC | SHF_EXECINSTR])
        else:
            typ, flags = r.choice([SHT_SYMTAB, SHT_STRTAB, 7, 0x70000003]), r.choice([0, SHF_ALLOC | SHF_EXECINSTR])
        if r.random() < 0.1:
            a = 0
        if r.random() < 0.1:
            flags |= r.choice([0x10, 0x20, 0x100, 0xf0000000])
        if typ == SHT_NOBITS:
            secs.append(Sec(typ, flags, a, b"", size=ln, name=".bss%d" % i))
        else:
            secs.append(Sec(typ, flags, a, rbytes(r, ln), name=r.choice([".text", ".t%d" % i, ".data", ".rodata"])))
    nseg = r.choice([0, 1, 1, 2, 2, 3, 4])
    segs = []
    segbase = base if r.random() < 0.6 else base_addr(r, bits)
    for (a, ln) in layout(r, bits, nseg, segbase):
        q = r.random()
        typ = PT_LOAD if q < 0.75 else r.choice([PT_NULL, PT_DYNAMIC, PT_NOTE, PT_PHDR, 0x6474e551, 0x70000003])
        data = rbytes(r, ln)
        q = r.random()
        if q < 0.45:
            memsz = ln
        elif q < 0.85:
            memsz = ln + r.choice([1, 4, 8, 16, r.randint(1, 100), r.randint(100, 3000)])
        elif q < 0.93 and ln > 0:
            memsz = r.randrange(0, ln)              # memsz < filesz: rejected for PT_LOAD
        else:
            memsz = ln
        segs.append(Seg(typ, a, data, memsz=memsz, flags=r.choice([4, 5, 6, 7])))
    if bits == 64 and r.random() < 0.06 and segs:
        # top of the address space: ending exactly at 2^64 or crossing it
        g = r.choice(segs)
        g.vaddr = (M64 - g.memsz - r.choice([0, 0, 0, 4, -1 if g.memsz > 1 else 0])) % M64
    if bits == 64 and r.random() < 0.04 and secs:
        s = r.choice(secs)
        s.addr = (M64 - s.size - r.choice([0, 0, 4, -1 if s.size > 1 else 0])) % M64
    if r.random() < 0.04 and secs:
        # ".zdebug" section with a ZLIB header: debug/elf decompresses it and rewrites Size
        s = r.choice(secs)
        if s.typ == SHT_PROGBITS:
            raw = rbytes(r, r.randint(1, 24))
            s.name = ".zdebug_x"
            s.data = b"ZLIB" + struct.pack(">Q", len(raw) + r.choice([0, 0, 0, 1])) + zlib.compress(raw)
            s.size = len(s.data)
    if r.random() < 0.04 and secs:
        s = r.choice(secs)
        s.flags |= 0x800                            # SHF_COMPRESSED
    entry = r.choice([base, base + 4, 0, r.randrange(top)])
    machine = EM_RISCV if r.random() < 0.85 else r.choice([EM_X86_64, EM_ARM, 0, 0xffff])
    names = r.random() < 0.7
    shnull = names or r.random() < 0.7
    if r.random() < 0.05:
        # a PT_LOAD whose file range reaches past the end of the file, sizes around the 512-byte read buffer
        fsz = r.choice([0x300, 0x800, 0x2000, r.randint(600, 5000)])
        msz = r.choice([fsz, fsz + 64, fsz - 1, fsz // 2, 513, 600, r.randint(513, fsz)])
        g = Seg(PT_LOAD, (segbase + 0x100000) % (2 ** bits - 0x10000), b"", memsz=msz, filesz=fsz, flags=6, offset=0)
        segs.append(g)
        total = len(build_elf(bits, big, etype, entry, secs, segs, machine=machine, names=names, shnull=shnull))
        g.offset = max(0, total - r.choice([0, 1, 100, 400, 511, 512, 513, 600]))
    b = build_elf(bits, big, etype, entry, secs, segs, machine=machine, names=names, shnull=shnull)
    return b, dict(bits=bits, secs=secs, segs=segs, etype=etype)


def probe_addrs(r, info):
    """Addresses to look up: block edges +-1, the extremes, a few random ones."""
    cands = [0, M64 - 1]
    for s in info["secs"]:
        cands += [s.addr, s.addr + 1, s.addr + s.size - 1, s.addr + s.size, s.addr - 1]
    for g in info["segs"]:
        cands += [g.vaddr, g.vaddr + 1, g.vaddr + g.memsz - 1, g.vaddr + g.memsz, g.vaddr - 1,
                  g.vaddr + g.filesz]
    cands = [c % M64 for c in cands]
    k = min(len(cands), r.randint(2, 7))
    out = r.sample(cands, k)
    if r.random() < 0.3:
        out.append(r.randrange(M64))
    return out


def elf_line(op, b, addrs):
    return "%s %s %d%s" % (op, b.hex() or "-", len(addrs), "".join(" %d" % a for a in addrs))


def g_elf(r):
    """Structured files (mostly loadable)."""
    while True:
        b, info = gen_file(r)
        if not big_fill(b):
            return elf_line("elf", b, probe_addrs(r, info))


def mutate(r, b):
    b = bytearray(b)
    k = r.random()
    n = len(b)
    if n < 8:
        return bytes(b)
    if k < 0.25:
        b = b[:r.randrange(n + 1)]                                  # truncate
    elif k < 0.55:
        for _ in range(r.choice([1, 1, 2, 4])):                     # flip bytes of the ELF header
            i = r.randrange(min(64, n))
            b[i] ^= 1 << r.randrange(8) if r.random() < 0.6 else r.getrandbits(8)
    elif k < 0.8:
        for _ in range(r.choice([1, 2, 3])):                        # flip bytes anywhere (tables mostly)
            i = r.randrange(n)
            b[i] = r.choice([0, 0xff, 0x80, 0x7f, b[i] ^ (1 << r.randrange(8))])
    else:
        # absurd 32/64-bit field somewhere in the header or the tables
        i = r.randrange(0, max(1, n - 8), 4)
        v = r.choice([0xffffffff, 0x7fffffff, 0x80000000, n, n + 1, n - 1, 0xfffffff0])
        b[i:i + 4] = struct.pack(r.choice(["<I", ">I"]), v & 0xffffffff)
    return bytes(b)


def g_elf_mut(r):
    """Corrupted files: truncated, flipped header bytes, absurd offsets and sizes."""
    while True:
        b, info = gen_file(r)
        for _ in range(r.choice([1, 1, 2])):
            b = mutate(r, b)
        if not big_fill(b):
            return elf_line("elf", b, probe_addrs(r, info))


def g_elf_junk(r):
    """Not ELF at all: empty, short, random, text."""
    k = r.random()
    if k < 0.2:
        b = b""
    elif k < 0.5:
        b = b"\x7fELF"[:r.randint(1, 4)] + rbytes(r, r.randint(0, 70))
    elif k < 0.8:
        b = rbytes(r, r.randint(1, 200))
    else:
        b = b"#!/bin/sh\necho hello\n"
    if big_fill(b):
        b = b""
    return elf_line("elf", b, [0, 4096])


F19_SIZES = [2 ** 31, 2 ** 32 + 5, 2 ** 40, 2 ** 62, 2 ** 63, 2 ** 64 - 1]


def f19_file(r, memsz=None, code=None):
    """A well-formed RV64 executable whose PT_LOAD header asks for an enormous zero fill."""
    memsz = memsz if memsz is not None else r.choice(F19_SIZES)
    text = code if code is not None else bytes.fromhex("93001000" "6f000000")   # addi x1,x0,1; jal x0,0
    secs = [Sec(SHT_PROGBITS, SHF_ALLOC | SHF_EXECINSTR, 0x10000, text, name=".text")]
    segs = [Seg(PT_LOAD, 0x10000, text, memsz=memsz)]
    return build_elf(64, False, ET_EXEC, 0x10000, secs, segs)


def g_elf_f19(r):
    """F19: p_memsz far beyond any allocation; loaded only in a memory-limited child process."""
    return elf_line("elfsub", f19_file(r), [0x10000])


def g_elf_sub(r):
    """Ordinary files through the child-process path (keeps `elfsub` honest)."""
    while True:
        b, info = gen_file(r)
        if not big_fill(b):
            return elf_line("elfsub", b, probe_addrs(r, info))


# ---------------------------------------------------------------------------------------------
# code images (C21)

def rv_word(r, valid=True):
    """A 32-bit word: an RV64IMA instruction with boundary-biased fields, or (valid=False) a random /
    slightly damaged one."""
    from . import genrv
    rows = [x for x in genrv.spec_rows() if x["rv64"]]
    if r.random() < 0.3:
        # address-dependent lifting: jal, auipc, branches
        names = ("jal", "auipc", "beq", "bne", "blt", "bge", "bltu", "bgeu", "jalr")
        rows = [x for x in rows if x["name"] in names] or rows
    w = genrv.fill(r, r.choice(rows))
    if not valid:
        k = r.random()
        if k < 0.4:
            w = r.getrandbits(32)
        elif k < 0.8:
            w ^= 1 << r.randrange(32)
        else:
            w = r.choice([0, 0xffffffff, 0x0000007f])
    return w


def code_bytes(r, nwords, bad=0.0):
    out = bytearray()
    for _ in range(nwords):
        out += rv_word(r, valid=r.random() >= bad).to_bytes(4, "little")
    return bytes(out)


def g_tile(r):
    """Code images: 0-4 blocks of RV64IMA words; damaged words, truncated tails, empty blocks,
    blocks at the top of the address space, overlapping / adjacent / unsorted layouts."""
    n = r.choice([0, 1, 1, 1, 2, 2, 3, 4])
    k = r.random()
    base = r.choice([0, 4, 0x1000, 0x10000, 0x80000000, 2 ** 63]) if k < 0.6 else \
        M64 - 4 * r.randint(1, 40) if k < 0.8 else 4 * r.randrange(M64 // 4 - 1000) + r.choice([0, 0, 0, 1, 2])
    bad = r.choice([0, 0, 0, 0.05, 0.3])
    blocks = []
    cur = base
    for _ in range(n):
        q = r.random()
        nw = 0 if q < 0.08 else r.choice([1, 1, 2, 3, 4, 6, 8]) if q < 0.9 else r.randint(9, 40)
        bs = code_bytes(r, nw, bad)
        q = r.random()
        if q < 0.08 and bs:
            bs = bs[:len(bs) - r.randint(1, 3)]                 # truncated tail
        elif q < 0.12:
            bs = bs + bytes(r.getrandbits(8) for _ in range(r.randint(1, 3)))
        q = r.random()
        if blocks and q < 0.08:
            a = blocks[-1][0] + r.choice([0, 2, 4])             # overlap / equal begin
        elif q < 0.35:
            a = cur                                             # adjacent
        else:
            a = cur + r.choice([4, 8, 0x10, 0x1000, 2, 6])
        a %= M64
        blocks.append((a, bs))
        cur = a + len(bs)
    if r.random() < 0.04 and blocks:
        # a block ending exactly at 2^64 or beyond
        a, bs = blocks[-1]
        blocks[-1] = ((M64 - len(bs) + r.choice([0, 0, 4])) % M64, bs)
    if r.random() < 0.4:
        r.shuffle(blocks)
    return "tile %d%s" % (len(blocks), "".join(" %d %s" % (a, bs.hex() or "-") for a, bs in blocks))


# ---------------------------------------------------------------------------------------------
# start-up (C26)

CONTROL = ("jal", "beq", "bne", "blt", "bge", "bltu", "bgeu")


def enc_jal(rd, off):
    off &= 0x1fffff
    return ((off >> 20) & 1) << 31 | ((off >> 1) & 0x3ff) << 21 | ((off >> 11) & 1) << 20 | ((off >> 12) & 0xff) << 12 | \
        rd << 7 | 0x6f


def enc_branch(f3, rs1, rs2, off):
    off &= 0x1fff
    return ((off >> 12) & 1) << 31 | ((off >> 5) & 0x3f) << 25 | rs2 << 20 | rs1 << 15 | f3 << 12 | \
        ((off >> 1) & 0xf) << 8 | ((off >> 11) & 1) << 7 | 0x63


def program(r, nwords, outside=0.0, bad=0.0):
    """nwords RV64IMA words: straight-line instructions, plus jumps/branches whose targets are
    instruction starts of the same block (or, with probability `outside`, are not)."""
    from . import genrv
    rows = [x for x in genrv.spec_rows() if x["rv64"] and x["name"] not in CONTROL]
    out = []
    for i in range(nwords):
        k = r.random()
        if k < bad:
            w = rv_word(r, valid=False)
        elif k < bad + 0.25:
            if r.random() < outside:
                off = r.choice([2, -2, 4 * (nwords - i), 4 * (nwords - i) + 8, -4 * i - 4, 0x7fe, -0x800, 6])
            else:
                off = 4 * (r.randrange(nwords) - i)
            w = enc_jal(r.choice([0, 1, 5]), off) if r.random() < 0.5 else \
                enc_branch(r.choice([0, 1, 4, 5, 6, 7]), r.randrange(32), r.randrange(32), off)
        else:
            w = genrv.fill(r, r.choice(rows))
        out.append(w & 0xffffffff)
    return b"".join(w.to_bytes(4, "little") for w in out)


def startup_file(r):
    """An ELF file for the start-up pipeline; returns bytes.  Mostly RV64 executables that reach the
    UI; with smaller probabilities one of the failure stages is provoked."""
    k = r.random()
    bits, big = (64, False) if r.random() < 0.8 else (r.choice([32, 64]), r.random() < 0.5)
    base = r.choice([0x10000, 0x400000, 0x80000000, 0x1000])
    nblocks = r.choice([1, 1, 1, 2, 3])
    outside = 0.5 if 0.55 <= k < 0.67 else 0.0
    bad = 0.2 if 0.67 <= k < 0.77 else 0.0
    secs, segs, cur = [], [], base
    starts = []
    eofseg = False
    for i in range(nblocks):
        nw = r.choice([1, 2, 3, 4, 8, 16]) if r.random() < 0.9 else r.randint(17, 60)
        text = program(r, nw, outside, bad)
        if 0.77 <= k < 0.80 and i == nblocks - 1:
            text = text[:-r.randint(1, 3)]                              # truncated last word
        secs.append(Sec(SHT_PROGBITS, SHF_ALLOC | SHF_EXECINSTR, cur, text, name=".text" if i == 0 else ".text%d" % i))
        extra = r.choice([0, 0, 8, 64])
        segs.append(Seg(PT_LOAD, cur, text, memsz=len(text) + extra, flags=5))
        starts += list(range(cur, cur + len(text) - 3, 4))
        cur += len(text) + extra + r.choice([0, 0x10, 0x1000, 4])
    # data
    if r.random() < 0.7:
        d = rbytes(r, r.randint(1, 40))
        daddr = cur + 0x1000
        secs.append(Sec(SHT_PROGBITS, SHF_ALLOC | SHF_WRITE, daddr, d, name=".data"))
        segs.append(Seg(PT_LOAD, daddr, d, memsz=len(d) + r.choice([0, 16, 200]), flags=6))
        if r.random() < 0.3:
            secs.append(Sec(SHT_NOBITS, SHF_ALLOC | SHF_WRITE, daddr + 0x1000, b"", size=64, name=".bss"))
    entry = r.choice(starts) if starts and r.random() < 0.9 else r.choice([0, base + 2, cur + 100])
    etype = ET_EXEC if r.random() < 0.7 else ET_DYN
    machine = EM_RISCV
    if 0.80 <= k < 0.84:
        etype = r.choice([ET_NONE, ET_REL, ET_CORE])
    elif 0.84 <= k < 0.87:
        segs.append(Seg(PT_LOAD, segs[0].vaddr + r.choice([0, 2, 4]), rbytes(r, 8)))     # overlapping segments
    elif 0.87 <= k < 0.89:
        secs.append(Sec(SHT_PROGBITS, 6, secs[0].addr + r.choice([0, 4]), program(r, 2), name=".dup"))  # overlapping code
    elif 0.89 <= k < 0.91:
        secs = [s for s in secs if not (s.flags & SHF_EXECINSTR)]       # no code at all
    elif 0.91 <= k < 0.93:
        segs = [g for g in segs if g.typ != PT_LOAD]                    # no memory
    elif 0.93 <= k < 0.95:
        machine = r.choice([EM_X86_64, EM_ARM])                         # another machine: foreign code
        secs[0].data = rbytes(r, len(secs[0].data))
    elif 0.95 <= k < 0.97:
        if r.random() < 0.5:
            segs[0].memsz = max(0, segs[0].filesz - r.randint(1, 4))    # memsz < filesz
        else:
            eofseg = True
    r.shuffle(secs) if r.random() < 0.3 else None
    r.shuffle(segs) if r.random() < 0.3 else None
    names = r.random() < 0.8
    if eofseg:
        # a PT_LOAD whose file range reaches past the end of the file (fewer bytes can be read than p_filesz),
        # with p_memsz below, at or above p_filesz and above the first read buffer of io.ReadAll (512 bytes)
        fsz = r.choice([0x300, 0x800, 0x2000, r.randint(600, 5000)])
        msz = r.choice([fsz, fsz + 64, fsz - 1, fsz // 2, 513, 600, r.randint(513, fsz)])
        g = Seg(PT_LOAD, cur + 0x100000, b"", memsz=msz, filesz=fsz, flags=6, offset=0)
        segs.append(g)
        total = len(build_elf(bits, big, etype, entry, secs, segs, machine=machine, names=names))
        g.offset = max(0, total - r.choice([0, 1, 100, 400, 511, 512, 513, 600]))
    b = build_elf(bits, big, etype, entry, secs, segs, machine=machine, names=names)
    if k >= 0.97:
        b = mutate(r, b)
    return b


def g_startup(r):
    """In-process replay of run() on generated executables."""
    while True:
        b = startup_file(r)
        if not big_fill(b):
            return "startup %s" % (b.hex() or "-")


_BIN = None


def ensure_binary():
    """Build the real binary once per process and tell the harness where it is."""
    global _BIN
    import os
    from . import core
    if _BIN is None:
        os.makedirs(core.BUILD, exist_ok=True)
        path = os.path.join(core.BUILD, "mltwist-%d" % os.getpid())
        import atexit
        atexit.register(lambda: os.path.exists(path) and os.remove(path))
        rc, out = core.sh(["go", "build", "-o", path, "./cmd/mltwist"], cwd=core.REPO, env=core.GOENV)
        if rc != 0:
            raise core.Broken("binary-build", "go build ./cmd/mltwist failed:\n" + out[-3000:])
        _BIN = path
    os.environ["VERIF_MLTWIST_BIN"] = _BIN
    return _BIN


def g_startupbin(r):
    """The real binary: argument vectors of length 0, 1, 2+, missing path, directory, empty file,
    non-ELF file, truncated ELF, generated executables."""
    ensure_binary()
    k = r.random()
    if k < 0.06:
        return "startupbin 0"
    if k < 0.14:
        n = r.choice([2, 2, 3, 5])
        args = [r.choice(["dir", "missing", "file:-", "file:" + startup_file(r).hex()]) for _ in range(n)]
        return "startupbin %d %s" % (n, " ".join(args))
    if k < 0.20:
        return "startupbin 1 " + r.choice(["dir", "missing", "file:-"])
    if k < 0.28:
        b = r.choice([b"\x7fELF", b"\x7fELF\x02\x01\x01", rbytes(r, r.randint(1, 100)), b"#!/bin/sh\n"])
        return "startupbin 1 file:%s" % b.hex()
    while True:
        b = startup_file(r)
        if k < 0.36:
            b = b[:r.randrange(len(b) + 1)]
        if not big_fill(b):
            return "startupbin 1 file:%s" % (b.hex() or "-")


def g_startup_f19(r):
    """F19 at start-up: only through the real binary in a memory-limited child process."""
    ensure_binary()
    return "startupbin 1 file:%s" % f19_file(r, code=program(r, 4)).hex()
