"""Help-text wrapping: C29."""
from .props import Prop, reg, has
from . import genformat as gf

reg(Prop("C29",
         [("fmt", gf.g_fmt, 5), ("fmtexact", gf.g_fmt_exact, 3), ("fmtviol", gf.g_fmt_violation, 1)],
         lambda c: "pre" in c.tags and "wrapped" in c.tags,
         "single-line texts of words of length 1..chars+5 separated by 1-3 spaces, trailing spaces, one long word, "
         "exact fits (line of chars bytes, space exactly at index chars), indent 0-4, chars 1..80, UTF-8 and tab bytes; "
         "oracle = the property on the implementation's bytes (lines = indent tabs + 1..chars bytes, non-space bytes "
         "preserved in order, a word is split only if longer than chars); a small stream of precondition violations "
         "(chars <= 0, leading space, newline, negative indent) only compares model and implementation; "
         "non-trivial = within the precondition and the text was wrapped into >= 2 lines",
         3000, 200000,
         trusted=["Go int modelled as unbounded integers (no overflow of width - 8*indent)",
                  "strings.Builder modelled as byte concatenation",
                  "the harness does not execute format for chars = 0 with a non-space byte in s (the loop never ends): "
                  "it answers DIVERGES for exactly this parameter set (read off format.go, confirmed by a bounded run)"]))
