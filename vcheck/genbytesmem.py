"""Generator of byte memory histories (C15): `bytes <k> <begin hex>... <n> op...`.

The generator tracks the set of present addresses so that stores, loads and missing queries can be
aimed at the current block layout: entirely inside a block, straddling its end, filling a gap
exactly, spanning several blocks and gaps, landing in front of 2-3 blocks (F32), re-using the same
constant object in several stores (F05), constants wider/narrower than the store width."""

TOP = 2 ** 64


def _hex(bs):
    return "".join("%02x" % b for b in bs) if bs else "-"


def _rbytes(r, n):
    k = r.random()
    if k < 0.1:
        return [0] * n
    if k < 0.15:
        return [255] * n
    return [r.randrange(256) for _ in range(n)]


def _runs(present):
    """maximal runs [b, e) of a set of addresses, sorted"""
    out = []
    for a in sorted(present):
        if out and out[-1][1] == a:
            out[-1][1] = a + 1
        else:
            out.append([a, a + 1])
    return out


def initial_blocks(r, base, span):
    n = r.choice([0, 1, 1, 2, 2, 3, 3, 4, 5])
    blocks = []
    overlap_wanted = r.random() < 0.2
    for i in range(n):
        ln = r.choice([1, 1, 2, 3, 4, 6, 8, 12])
        if r.random() < 0.06:
            ln = 0
        k = r.random()
        if blocks and k < 0.25:
            b = blocks[-1][0] + len(blocks[-1][1])                  # adjacent
        elif blocks and k < 0.40:
            b = blocks[-1][0] + len(blocks[-1][1]) + 1              # gap of one
        elif blocks and k < 0.50 and blocks[-1][0] >= base + ln:
            b = blocks[-1][0] - ln                                  # adjacent in front
        elif blocks and overlap_wanted and k < 0.75:
            pb, pl = blocks[-1][0], len(blocks[-1][1])
            b = r.randint(max(base, pb - ln + 1) if ln else pb, pb + max(pl - 1, 0))   # overlapping
        else:
            b = base + r.randint(0, span)
        blocks.append((b, _rbytes(r, ln)))
    r.shuffle(blocks)
    if not overlap_wanted:
        # drop blocks until no two overlap (keeps adjacency and gaps of one)
        kept, cover = [], set()
        for b, bs in blocks:
            rng = set(range(b, b + len(bs)))
            if rng & cover:
                continue
            cover |= rng
            kept.append((b, bs))
        blocks = kept
    return blocks


def _pick_store(r, present, base, span):
    """choose (addr, w) aimed at the layout"""
    runs = _runs(present)
    k = r.random()
    w = r.choice([1, 1, 2, 2, 3, 4, 4, 4, 5, 8, 8, 12])
    if runs and k < 0.12:                       # entirely inside a block
        b, e = r.choice(runs)
        w = min(w, e - b)
        return r.randint(b, e - w), w
    if runs and k < 0.24:                       # straddles the end of a block
        b, e = r.choice(runs)
        a = max(b, e - r.randint(1, 3))
        return a, max(w, e - a + 1)
    if runs and k < 0.34:                       # starts right at the end of a block (append)
        b, e = r.choice(runs)
        return e, w
    if len(runs) >= 2 and k < 0.46:             # fills a gap exactly / minus one / plus one
        i = r.randrange(len(runs) - 1)
        g0, g1 = runs[i][1], runs[i + 1][0]
        if 1 <= g1 - g0 <= 40:
            v = r.choice([0, 0, 1, 2, 3])
            if v == 0:
                return g0, g1 - g0
            if v == 1 and g1 - g0 >= 2:
                return g0, g1 - g0 - 1
            if v == 2 and g1 - g0 >= 2:
                return g0 + 1, g1 - g0 - 1
            return max(base, g0 - 1), g1 - g0 + 2
    if len(runs) >= 2 and k < 0.60:             # spans several blocks and gaps
        i = r.randrange(len(runs) - 1)
        j = min(len(runs) - 1, i + r.choice([1, 1, 2, 3]))
        a = r.randint(max(base, runs[i][0] - 2), runs[i][1])
        e = r.randint(runs[j][0], runs[j][1] + 2)
        if 1 <= e - a <= 60:
            return a, e - a
    if len(runs) >= 2 and k < 0.75:             # lands in front of 2-3 blocks
        i = r.randrange(max(1, len(runs) - 1))
        lo = runs[i - 1][1] + 1 if i > 0 else base
        hi = runs[i][0] - 1
        if lo <= hi:
            a = r.randint(lo, hi)
            return a, min(w, 60)
    return base + r.randint(0, span), w


def _const_for(r, w, pool):
    """hex token of the constant to store: same width, wider, narrower, or a re-used object"""
    k = r.random()
    if pool and k < 0.3:
        return r.choice(pool)
    if k < 0.36:
        return r.choice(["c:00", "c:01"])       # expr.Zero / expr.One
    if k < 0.48:
        n = w + r.choice([1, 2, 4, 8])
    elif k < 0.58 and w > 1:
        n = r.randint(1, w - 1)
    else:
        n = w
    if n == 0:
        n = 1
    tok = "".join("%02x" % b for b in _rbytes(r, min(n, 255)))
    if r.random() < 0.15 and n <= 64:
        # narrowed view of a wider constant (Const.WithWidth): shares bytes and spare capacity with its parent
        extra = "".join("%02x" % r.randint(1, 255) for _ in range(r.choice([1, 2, 4, 8])))
        tok = "cw:%s%s:%d" % (tok, extra, n)
        pool.append(tok)
        return tok
    pool.append("c:" + tok)
    return "c:" + tok


NONCONST = ["r x1 4", "b add 4 c:01000000 c:02000000", "m mem 2 c:10", "l 1 c:01 c:02 c:03 c:04"]


def history(r, base=None, maxops=25):
    """one region, or (25%) two regions at least 2^63 bytes apart whose operations are interleaved"""
    if base is not None or r.random() >= 0.25:
        blocks, ops = _history_parts(r, base, maxops)
    else:
        lo = r.choice([0, 7, 1000, 2 ** 32 - 30])
        hi = r.choice([2 ** 63 + 2 ** 62, TOP - 300, 2 ** 63 + 2000, 2 ** 63 + 2 ** 32])
        b1, o1 = _history_parts(r, lo, max(3, maxops // 2))
        b2, o2 = _history_parts(r, hi, max(3, maxops // 2))
        blocks = b1 + b2
        r.shuffle(blocks)
        ops = []
        while o1 or o2:
            src = o1 if (o1 and (not o2 or r.random() < 0.5)) else o2
            ops.append(src.pop(0))
    hdr = "bytes %d" % len(blocks)
    for b, bs in blocks:
        hdr += " %d %s" % (b, _hex(bs))
    return "%s %d %s" % (hdr, len(ops), " ".join(ops))


def _history_parts(r, base=None, maxops=25):
    if base is None:
        base = r.choice([0, 0, 0, 7, 1000, 2 ** 32 - 30, 2 ** 63 - 20, TOP - 300, TOP - 300])
    span = 60
    blocks = initial_blocks(r, base, span)
    present = set()
    for b, bs in blocks:
        present |= set(range(b, b + len(bs)))
    n = r.choice([1, 2, 3, 5, 8, 12, 16, 20, maxops])
    ops = []
    pool = []
    for _ in range(n):
        k = r.random()
        if k < 0.5:
            a, w = _pick_store(r, present, base, span)
            if r.random() < 0.02:
                w = 0
            w = min(w, 255)
            if a + w >= TOP:
                a = TOP - 1 - w
            if r.random() < 0.015:
                ops.append("st %d %d %s" % (a, w, r.choice(NONCONST)))
                continue
            ops.append("st %d %d %s" % (a, w, _const_for(r, w, pool)))
            present |= set(range(a, a + w))
        elif k < 0.75:
            runs = _runs(present)
            kk = r.random()
            if runs and kk < 0.7:
                b, e = r.choice(runs)
                v = r.random()
                if v < 0.3:                       # whole block or a part of it
                    w = min(r.choice([1, 2, 4, 8, e - b]), e - b, 255)
                    a = r.randint(b, e - w)
                elif v < 0.5:                     # ends exactly at the block end
                    w = min(r.choice([1, 2, 4, 8]), e - b)
                    a = e - w
                elif v < 0.65:                    # one byte too far
                    w = min(r.choice([1, 2, 4, 8]), e - b) + 1
                    a = e - w + 1
                elif v < 0.8:                     # at the exact end
                    a, w = e, r.choice([1, 2, 4])
                else:                             # starts one before the block
                    a, w = max(base, b - 1), r.choice([1, 2, 4])
            else:
                a, w = base + r.randint(0, span), r.choice([1, 2, 4, 8])
            if r.random() < 0.02:
                w = 0
            if a + w >= TOP:
                a = TOP - 1 - w
            ops.append("ld %d %d" % (a, w))
        elif k < 0.92:
            runs = _runs(present)
            if runs and r.random() < 0.7:
                i = r.randrange(len(runs))
                j = min(len(runs) - 1, i + r.choice([0, 0, 1, 2, 3]))
                a = r.randint(max(base, runs[i][0] - 3), runs[i][1])
                e = r.randint(runs[j][0], runs[j][1] + 3)
                w = max(1, min(e - a, 255))
            else:
                a, w = base + r.randint(0, span), r.choice([1, 4, 8, 16, 64, 255])
            if r.random() < 0.02:
                w = 0
            if a + w >= TOP:
                a = TOP - 1 - w
            ops.append("ms %d %d" % (a, w))
        else:
            ops.append("bl")
    return blocks, ops


def g_bytes(r):
    return history(r)


def g_bytes_big(r):
    """one or two contiguous blocks of 256..700 bytes (initial, or grown from adjacent stores) and loads / missing
    queries at every distance from their ends (block lengths and remaining lengths beyond one byte's range)"""
    base = r.choice([0, 1000, 2 ** 32 - 100, TOP - 2000])
    ln = r.choice([255, 256, 257, 300, 511, 512, 513, 520, 700])
    ops = []
    if r.random() < 0.5:
        hdr = "bytes 1 %d %s" % (base, _hex(_rbytes(r, ln)))
    else:
        hdr = "bytes 1 %d %s" % (base, _hex(_rbytes(r, 8)))
        pos = base + 8
        while pos < base + ln:
            w = min(8, base + ln - pos)
            ops.append("st %d %d c:%s" % (pos, w, _hex(_rbytes(r, w))))
            pos += w
    end = base + ln
    for _ in range(r.choice([3, 5, 8])):
        w = r.choice([1, 2, 4, 8, 16, 255])
        rem = r.choice([w, w, w + 1, 256, 256 + w, 256 + w - 1, 257, 258, 512, 512 + w, ln, r.randint(w, ln)])
        a = max(base, end - min(rem, ln))
        ops.append(r.choice(["ld %d %d", "ld %d %d", "ms %d %d"]) % (a, min(w, 255)))
    ops.append("bl")
    return "%s %d %s" % (hdr, len(ops), " ".join(ops))


def g_bytes_front(r):
    """F32 shape: three or more separated blocks, then stores in front of them"""
    base = r.choice([0, 0, 100, TOP - 300])
    nb = r.choice([2, 3, 3, 4])
    blocks = []
    a = base + r.randint(4, 12)
    for _ in range(nb):
        ln = r.choice([1, 2, 4])
        blocks.append((a, _rbytes(r, ln)))
        a += ln + r.choice([1, 2, 5, 9])
    r.shuffle(blocks)
    ops = []
    pool = []
    for _ in range(r.choice([1, 2, 3, 6])):
        w = r.choice([1, 2, 4, 8, 16])
        ad = base + r.randint(0, 30)
        ops.append("st %d %d %s" % (ad, w, _const_for(r, w, pool)))
        ops.append(r.choice(["bl", "ld %d %d" % (ad, w), "ms %d %d" % (base, 40)]))
    ops.append("bl")
    for b, bs in blocks:
        ops.append("ld %d %d" % (b, len(bs)))
    hdr = "bytes %d" % len(blocks)
    for b, bs in blocks:
        hdr += " %d %s" % (b, _hex(bs))
    return "%s %d %s" % (hdr, len(ops), " ".join(ops))


def g_bytes_alias(r):
    """F05 shape: the same constant objects stored at several places, then overwritten"""
    base = r.choice([0, 50, TOP - 300])
    toks = ["".join("%02x" % b for b in _rbytes(r, n)) for n in (1, 2, 4, 4, 8)] + ["00", "01"]
    ops = []
    for _ in range(r.choice([2, 3, 5, 8, 14])):
        c = r.choice(toks)
        w = r.choice([len(c) // 2, len(c) // 2, 1, 2, 4, 8])
        a = base + r.choice([0, 0, 2, 4, 8, 10, 16, 20]) + r.choice([0, 0, 0, 1])
        ops.append("st %d %d c:%s" % (a, w, c))
        if r.random() < 0.4:
            ops.append("ld %d %d" % (base + r.choice([0, 4, 8, 10, 16, 20]), r.choice([1, 2, 4])))
    ops.append("bl")
    k = r.choice([0, 0, 1])
    hdr = "bytes %d" % k
    if k:
        hdr += " %d %s" % (base + 4, _hex(_rbytes(r, 4)))
    return "%s %d %s" % (hdr, len(ops), " ".join(ops))


def g_bytes_small(r):
    """small scope: any initial layout over 6 addresses, up to 3 stores of width 1-3, full read-back"""
    mask = r.randrange(64)
    blocks, a = [], 0
    while a < 6:
        if mask >> a & 1:
            e = a
            while e < 6 and mask >> e & 1:
                e += 1
            # split a run now and then so that NewBytes has to merge
            cut = r.randint(a + 1, e) if e - a > 1 and r.random() < 0.3 else e
            blocks.append((a, [0xa0 + i for i in range(a, cut)]))
            if cut < e:
                blocks.append((cut, [0xa0 + i for i in range(cut, e)]))
            a = e
        else:
            a += 1
    r.shuffle(blocks)
    ops = []
    toks = ["11", "2122", "313233", "41424344"]
    for _ in range(r.randint(0, 3)):
        ops.append("st %d %d c:%s" % (r.randrange(6), r.randint(1, 3), r.choice(toks)))
    ops.append("bl")
    ops.append("ms 0 8")
    for a in range(7):
        ops.append("ld %d 1" % a)
    for _ in range(3):
        a = r.randrange(6)
        ops.append("ld %d %d" % (a, r.randint(2, 4)))
        ops.append("ms %d %d" % (a, r.randint(1, 4)))
    hdr = "bytes %d" % len(blocks)
    for b, bs in blocks:
        hdr += " %d %s" % (b, _hex(bs))
    return "%s %d %s" % (hdr, len(ops), " ".join(ops))
