"""Generator of END-TO-END console sessions (op `uireal`, extra streams of C22/C23/C31).

    uireal <entry> <ncode> (<begin> <hex>)... <ndata> (<begin> <hex>)... <height> <k> LINE...

A case is a program of 1-3 code blocks of real RV64IMA words (encoders of `genemu`), 0-2 data blocks, and a console
script of 1-25 commands (more lines: acknowledgements, answers of value prompts).  The composed model runs the same
script (`Driver/UIRealOps.lean`); nothing is replayed from the implementation.

The generator keeps an APPROXIMATE picture of the session -- the listing (basic blocks as `deps.NewCode` cuts them:
after control instructions and at jump targets), the mode stack, and a little emulator (which registers are known,
the values it typed itself, which bytes are known, where the instruction pointer is) -- so that most lines arrive
where they mean something: `step` is followed by as many answers as the instruction will ask for (value register
before address register for stores, address register / memory / operand for AMOs), failing commands by an
acknowledgement.  The picture may be wrong (after block moves, computed jumps, unknown values); then a line meets
another reader, and the session recovers within a few lines.  Where the outcome of a command is uncertain, the
acknowledgement is the EMPTY line, which is harmless as a command.

`find` patterns are restricted to what the driver's matcher handles exactly: `^? (literal | .)* $?` with literals
from [A-Za-z0-9 ,:_-], plus the patterns of `BAD_RX` which `regexp.CompilePOSIX` rejects.
"""
from . import genemu as ge

M64 = 2 ** 64
WORK = [5, 6, 7, 8, 9]
BAD_RX = ["(", ")", "[", "*", "+", "?", "\\", "a(b", "[a-", "x{2,1}"]


# ---------------------------------------------------------------- instructions
class Ins:
    """kind: alui alur lui load store amo lr sc branch jal jalr misc"""
    def __init__(self, kind, name, rd=0, rs1=0, rs2=0, imm=0, w=0, target=None, word=None):
        self.kind, self.name, self.rd, self.rs1, self.rs2, self.imm, self.w = kind, name, rd, rs1, rs2, imm, w
        self.target, self.raw = target, word

    def word(self, addr):
        k = self.kind
        if k == "alui":
            return ge.itype(self.name, self.rd, self.rs1, self.imm)
        if k == "alur":
            return ge.rtype(self.name, self.rd, self.rs1, self.rs2)
        if k == "lui":
            return ge.utype("lui", self.rd, self.imm)
        if k == "load":
            return ge.itype(self.name, self.rd, self.rs1, self.imm)
        if k == "store":
            return ge.stype(self.name, self.rs2, self.rs1, self.imm)
        if k in ("amo", "lr", "sc"):
            return ge.amo(self.name, self.rd, self.rs1, self.rs2)
        if k == "branch":
            return ge.btype(self.name, self.rs1, self.rs2, self.target - addr)
        if k == "jal":
            return ge.jtype(self.rd, self.target - addr)
        if k == "jalr":
            return ge.itype("jalr", self.rd, self.rs1, self.imm)
        if k == "csr":
            return self.raw | self.rd << 7
        return self.raw

    def control(self):
        return self.kind in ("branch", "jal", "jalr", "rawctl")

    def reads(self):
        """registers in the order the emulator asks for them (x0 is never asked)"""
        k = self.kind
        if k in ("alui", "load", "jalr", "lr"):
            l = [self.rs1]
        elif k in ("alur", "branch"):
            l = [self.rs1, self.rs2]
        elif k in ("store", "sc"):
            l = [self.rs2, self.rs1]
        elif k == "amo":
            l = [self.rs1]          # then memory, then rs2
        elif k == "csr":
            l = ["csr%d" % self.imm] + ([] if self.name.endswith("i") else [self.rs1])
        else:
            l = []
        return [x for x in l if x != 0]

    def writes(self):
        if self.kind in ("store", "branch", "misc") or self.rd == 0:
            return None
        return self.rd

    def regs(self):
        return set(self.reads()) | ({self.rs2} if self.kind == "amo" else set())


def sx(v, bits):
    return v - (1 << bits) if v >> (bits - 1) else v


def raw_ins(w, addr):
    """an arbitrary RV64IMA word (`genelf.program`): only its control flow is pictured"""
    op = w & 0x7f
    x = Ins("misc", "raw", word=w)
    if op == 0x6f:
        imm = ((w >> 31) & 1) << 20 | ((w >> 12) & 0xff) << 12 | ((w >> 20) & 1) << 11 | ((w >> 21) & 0x3ff) << 1
        x.kind, x.rawctl, x.target = "rawctl", True, addr + sx(imm, 21)
    elif op == 0x63:
        imm = ((w >> 31) & 1) << 12 | ((w >> 7) & 1) << 11 | ((w >> 25) & 0x3f) << 5 | ((w >> 8) & 0xf) << 1
        x.kind, x.target = "rawctl", addr + sx(imm, 13)
    elif op == 0x67:
        x.kind = "rawctl"
    return x


def gen_ins(r, mem, WORK):
    def reg(r, zero=0.15):
        return 0 if r.random() < zero else r.choice(WORK)
    k = r.random()
    if k < 0.26:
        return Ins("alui", r.choice(["addi", "addi", "addi", "xori", "ori", "andi", "slti", "sltiu", "addiw"]),
                   rd=r.choice(WORK), rs1=reg(r, 0.35), imm=r.choice([0, 1, -1, 4, 8, 16, 2047, -2048, r.randint(-64, 64)]))
    if k < 0.40:
        return Ins("alur", r.choice(["add", "sub", "xor", "or", "and", "mul", "sltu", "addw", "sll", "divu", "rem"]),
                   rd=r.choice(WORK), rs1=reg(r), rs2=reg(r))
    if k < 0.45:
        return Ins("lui", "lui", rd=r.choice(WORK), imm=r.choice([0, 1, 2, 3, 0x7ffff, 0x80000, 0xfffff]))
    if k < 0.45 + 0.22 * mem:
        n, w = r.choice(ge.LOADS)
        return Ins("load", n, rd=r.choice(WORK), rs1=reg(r, 0.08), imm=r.choice([0, 0, 4, 8, -4, -8, -1, 12, r.randint(-16, 16)]), w=w)
    if k < 0.45 + 0.40 * mem:
        n, w = r.choice(ge.STORES)
        return Ins("store", n, rs2=reg(r), rs1=reg(r, 0.08), imm=r.choice([0, 0, 4, 8, -4, -8, -1, 12, r.randint(-16, 16)]), w=w)
    if k < 0.45 + 0.47 * mem:
        j = r.random()
        if j < 0.6:
            n = r.choice(ge.AMOS_W + ge.AMOS_D)
            return Ins("amo", n, rd=reg(r), rs1=r.choice(WORK), rs2=reg(r), w=4 if n.endswith(".w") else 8)
        if j < 0.8:
            n = r.choice(["lr.w", "lr.d"])
            return Ins("lr", n, rd=r.choice(WORK), rs1=r.choice(WORK), w=4 if n.endswith(".w") else 8)
        n = r.choice(["sc.w", "sc.d"])
        return Ins("sc", n, rd=reg(r), rs1=r.choice(WORK), rs2=reg(r), w=4 if n.endswith(".w") else 8)
    if k < 0.90:
        return Ins("alui", "addi", rd=r.choice(WORK), rs1=reg(r, 0.5), imm=r.randint(-8, 8))
    if k < 0.94:
        return Ins("branch", r.choice(ge.BRANCHES), rs1=reg(r, 0.3), rs2=reg(r, 0.3))
    if k < 0.97:
        return Ins("jal", "jal", rd=r.choice([0, 1, 5]))
    if k < 0.98:
        return Ins("jalr", "jalr", rd=r.choice([0, 1]), rs1=r.choice(WORK), imm=r.choice([0, 4, -4]))
    if k < 0.99:
        n = r.choice(ge.CSRS)
        num = r.choice([0, 1, 0x300, 0x7ff, 0xc00, 0xfff])
        src = r.choice(WORK + [0]) if not n.endswith("i") else r.choice([0, 1, 31])
        return Ins("csr", n, rd=reg(r, 0.3), rs1=src, imm=num, word=ge.csr(n, 0, src, num))
    return Ins("misc", "misc", word=r.choice([ge._m("ecall"), ge._m("ebreak"), ge._m("fence"), ge._m("fence.i")]))


class Program:
    def __init__(self, r, mem=None, raw=False):
        self.r = r
        self.raw = raw
        k = r.random()
        cbase = 0x1000 if k < 0.75 else r.choice([0x10000, 2 ** 31 - 16, 2 ** 32, 2 ** 40 + 0x100, 2 ** 63, M64 - 0x2000, 0x1002, 0x1001, 8])
        mem = r.choice([0.0, 0.6, 1.0, 1.0]) if mem is None else mem
        # five registers per program: prompts for known registers are not repeated, the register table gets 2-3 rows
        self.work = WORK if r.random() < 0.6 else r.sample([1, 2, 5, 6, 7, 8, 9, 10, 11, 12, 28, 31], 5)
        self.blocks = []                     # code blocks: (base, [Ins])
        addr = cbase
        for _ in range(r.choice([1, 1, 1, 2, 2, 3])):
            n = r.choice([1, 2, 3, 4, 5, 6, 7, 8, 5, 6])
            if raw:
                from . import genelf
                bs = genelf.program(r, n)
                self.blocks.append((addr, [raw_ins(int.from_bytes(bs[4 * i:4 * i + 4], "little"), addr + 4 * i) for i in range(n)]))
            else:
                self.blocks.append((addr, [gen_ins(r, mem, self.work) for _ in range(n)]))
            addr += 4 * n + r.choice([0, 4, 16, 0x100, 0x1000] if cbase < 2 ** 63 else [0, 4, 16, 0x100])
        starts = [b + 4 * i for b, ins in self.blocks for i in range(len(ins))]
        for b, ins in self.blocks:
            for i, x in enumerate(ins):
                if x.kind in ("branch", "jal"):
                    j = r.random()
                    if j < 0.95:
                        near = [a for a in starts if abs(a - (b + 4 * i)) < 4000]
                        x.target = r.choice(near)
                    else:
                        x.target = b + 4 * i + r.choice([4 * len(ins) - 4 * i, 2048, -2048, 8 * len(ins) + 64])
        self.cbase = cbase
        # data: a block behind the code, sometimes one just below the top of the address space
        self.dbase = (addr + 0xfff) // 0x1000 * 0x1000 + r.choice([0, 0, 0x1000])
        if self.dbase + 0x100 >= M64:
            self.dbase = cbase - 0x1000
        self.data = []
        if r.random() < 0.75:
            self.data.append((self.dbase, bytes(r.randrange(256) for _ in range(r.choice([4, 8, 12, 16, 20, 32])))))
        if r.random() < 0.15 and cbase < 2 ** 63:
            ln = r.choice([8, 16, 24])
            self.data.append((M64 - 8 - ln - r.choice([0, 0, 8, 16]), bytes(r.randrange(256) for _ in range(ln))))
        j = r.random()
        first = [b for b, _ in self.blocks]
        self.entry = r.choice(first) if j < 0.6 else r.choice(starts) if j < 0.97 else r.choice([cbase + 2, addr + 64, 0, self.dbase])
        self.layout()

    # -- the listing as the generator pictures it
    def layout(self):
        """basic blocks: [(begin address, [Ins])] in listing order; rows: per line ('h', bb) | ('i', bb, k) | ('e',)"""
        flat = [(b + 4 * i, x) for b, ins in self.blocks for i, x in enumerate(ins)]
        addrs = {a for a, _ in flat}
        leaders = {b for b, _ in self.blocks}
        for a, x in flat:
            if x.control():
                leaders.add(a + 4)
                if x.target is not None and x.target in addrs:
                    leaders.add(x.target)
        if self.entry in addrs:
            leaders.add(self.entry)
        self.bbs = []
        prev = None
        for a, x in flat:
            if a in leaders or prev is None or prev + 4 != a:
                self.bbs.append((a, []))
            self.bbs[-1][1].append(x)
            prev = a
        self.certain = not self.raw      # arbitrary words: the listing is pictured, the emulator is not
        self.rows()

    def rows(self):
        self.lines = []
        for k, (a, ins) in enumerate(self.bbs):
            if k:
                self.lines.append(("e",))
            self.lines.append(("h", k))
            for i in range(len(ins)):
                self.lines.append(("i", k, i))
        self.lines.append(("e",))

    def ins_lines(self):
        return [n for n, l in enumerate(self.lines) if l[0] == "i"]

    def hdr_lines(self):
        return [n for n, l in enumerate(self.lines) if l[0] == "h"]

    def addr_of_line(self, n):
        l = self.lines[n]
        return self.bbs[l[1]][0] + 4 * l[2]

    def ins_at(self, addr):
        for a, ins in self.bbs:
            if a <= addr < a + 4 * len(ins) and (addr - a) % 4 == 0:
                return ins[(addr - a) // 4]
        return None

    def image(self):
        """known bytes of the image: set of addresses"""
        s = set()
        for b, ins in self.blocks:
            s.update(range(b, b + 4 * len(ins)))
        for b, bs in self.data:
            s.update(range(b, b + len(bs)))
        return s

    def text(self):
        code = " ".join("%d %s" % (b, b"".join((x.word(b + 4 * i) & 0xffffffff).to_bytes(4, "little")
                                               for i, x in enumerate(ins)).hex()) for b, ins in self.blocks)
        data = " ".join("%d %s" % (b, bs.hex()) for b, bs in self.data)
        return "%d %d %s %d%s" % (self.entry % M64, len(self.blocks), code, len(self.data), (" " + data) if data else "")


# ---------------------------------------------------------------- values
def fmt_value(r, v):
    f = r.choice(["d", "d", "x", "x", "X", "o", "b", "+", "n"])
    if f == "n" and v >= 2 ** 63:
        return "-%d" % (M64 - v) if r.random() < 0.5 else "-0x%x" % (M64 - v)
    return {"d": "%d" % v, "x": "0x%x" % v, "X": "0X%X" % v, "o": "0o%o" % v, "b": "0b" + format(v, "b"), "+": "+%d" % v,
            "n": "%d" % v}[f]


GARBAGE = ["", "zz", "1_0", "0x", "12a", " 5", "5 ", "+", "-", "0b2", "09", "1.0", "x1", "s", "q", "0x_1", "1e3", "--1", "0xg"]


class Sess:
    def __init__(self, r, p, top=0.28):
        self.r, self.p, self.top = r, p, top
        self.out = []
        self.mode = "dis"
        self.cursor = 0
        self.ncmd = 0
        self.sessions = 0
        self.moved = False

    def emit(self, s):
        self.out.append(s)

    def cmd(self, words):
        r = self.r
        s = " ".join(words)
        k = r.random()
        if k < 0.08:
            s = " " * r.randint(1, 3) + s
        elif k < 0.14:
            s = s + " " * r.randint(1, 3)
        elif k < 0.18:
            s = s.replace(" ", "  ", 1)
        self.emit(s)
        self.ncmd += 1

    def ack(self, sure=True):
        """the line awaited after a message; the empty line when the message is not certain to come"""
        self.emit(self.r.choice(["", "", "", "x", "q", "ok"]) if sure and self.r.random() < 0.3 else "")

    # ---------------- value prompts
    def answer(self, v, w=8):
        """lines answering one value prompt with the value v: garbage first (rarely), a too wide value (rarely)"""
        r = self.r
        while r.random() < 0.10:
            self.emit(r.choice(GARBAGE))
            self.emit(r.choice(["", "", "x", "7"]))
        if r.random() < 0.04:
            self.emit("0x%x" % (v + (r.randint(1, 255) << (8 * w))))      # too wide: the upper bytes are cut off
        else:
            self.emit(fmt_value(r, v))

    def addr_value(self, width):
        """a value for a register used as an address"""
        r, p = self.r, self.p
        k = r.random()
        if k < self.top:
            # the top of the address space: the access must end at or beyond 2^64 (an error line), or just below it
            return (M64 - r.choice([1, 2, 4, 8, width, width + 1, width - 1 or 1, 16, 9, 12, 32])) % M64
        k = r.random()
        if k < 0.50:
            return (p.dbase + r.choice([0, 0, 4, 8, 12, 16, 24, 32, -4, -8, 3])) % M64
        if k < 0.65:
            return (p.cbase + r.choice([0, 2, 4, 8, -4])) % M64
        if k < 0.70:
            # the top of the address space: the access must end at or beyond 2^64 (an error line), or just below it
            return (M64 - r.choice([1, 2, 4, 8, width, width + 1, width - 1 or 1, 16, 9, 12, 32])) % M64
        if k < 0.88 and p.data:
            b, bs = p.data[-1]
            return (b + r.choice([0, len(bs) - 4, len(bs), -4])) % M64
        return r.choice([0, 1, 8, 0x100, 2 ** 32 - 4, 2 ** 63, 2 ** 63 - 8, r.getrandbits(64)])

    def plain_value(self):
        r = self.r
        return r.choice([0, 1, 2, 3, 7, 255, 256, 2 ** 31, 2 ** 32 - 1, 2 ** 63, M64 - 1, M64 - 8, r.getrandbits(16), r.getrandbits(64)])

    # ---------------- the emulator picture
    def start_emu(self, ip):
        self.mode = "emu"
        self.regs = {}                  # reg -> value | None (known, value unknown)
        self.known = self.p.image()     # known bytes
        self.ip = ip
        self.sessions += 1
        self.nstep = 0

    def val(self, x):
        return 0 if x == 0 else self.regs.get(x)

    def ask_reg(self, x, role, width=8):
        if x == 0 or x in self.regs:
            return
        v = self.addr_value(width) if role == "addr" else self.plain_value()
        self.answer(v)
        self.regs[x] = v

    def mem_prompts(self, addr, w):
        """one answer per maximal run of unknown bytes; False = the access does not fit the address space"""
        if addr is None:
            for _ in range(self.r.choice([0, 1, 1])):
                self.answer(self.plain_value(), w)
            return True
        if addr + w >= M64:
            return False
        run = 0
        for a in list(range(addr, addr + w)) + [None]:
            if a is not None and a not in self.known:
                run += 1
            elif run:
                self.answer(self.r.getrandbits(8 * run), run)
                run = 0
        self.known.update(range(addr, addr + w))
        return True

    def step(self):
        r, p = self.r, self.p
        self.cmd([r.choice(["step", "s", "s", "s", "forward", "fwd", "f"])])
        self.nstep += 1
        if self.ip is None or not p.certain:
            # no picture: some answers, an empty line
            for _ in range(r.choice([0, 0, 1, 1, 2])):
                self.answer(self.addr_value(8) if r.random() < 0.5 else self.plain_value())
            self.emit("")
            return
        x = p.ins_at(self.ip)
        if x is None:
            self.ack()                 # no instruction here
            return
        k = x.kind
        ok = True
        nxt = (self.ip + 4) % M64
        if k in ("alui", "alur", "lui", "misc", "csr"):
            for q in x.reads():
                self.ask_reg(q, "val")
            a, b = self.val(x.rs1), (self.val(x.rs2) if k == "alur" else x.imm)
            v = None
            if k == "lui":
                v = (x.imm << 12) % 2 ** 32
                v = v - 2 ** 32 if v >= 2 ** 31 else v
            elif a is not None and b is not None and x.name in ("addi", "add", "sub", "xor", "xori", "or", "ori", "and", "andi"):
                v = {"add": a + b, "sub": a - b, "xor": a ^ b, "or": a | b, "and": a & b}[x.name.rstrip("i") if x.name != "andi" else "and"]
            if x.writes():
                self.regs[x.writes()] = None if v is None else v % M64
        elif k in ("load", "lr"):
            self.ask_reg(x.rs1, "addr", x.w)
            b = self.val(x.rs1)
            addr = None if b is None else (b + (x.imm if k == "load" else 0)) % M64
            ok = self.mem_prompts(addr, x.w)
            if ok and x.writes():
                self.regs[x.writes()] = None
        elif k in ("store", "sc"):
            self.ask_reg(x.rs2, "val")
            self.ask_reg(x.rs1, "addr", x.w)
            b = self.val(x.rs1)
            addr = None if b is None else (b + (x.imm if k == "store" else 0)) % M64
            if addr is not None and addr + x.w >= M64:
                ok = False
            elif addr is not None:
                self.known.update(range(addr, addr + x.w))
            if ok and x.writes():
                self.regs[x.writes()] = None
        elif k == "amo":
            self.ask_reg(x.rs1, "addr", x.w)
            b = self.val(x.rs1)
            ok = self.mem_prompts(b, x.w)
            if ok:
                self.ask_reg(x.rs2, "val")
                if x.writes():
                    self.regs[x.writes()] = None
        elif k == "branch":
            for q in x.reads():
                if q not in self.regs:
                    v = r.choice([0, 0, 1, M64 - 1, 2 ** 63, 5])
                    self.answer(v)
                    self.regs[q] = v
            a, b = self.val(x.rs1), self.val(x.rs2)
            if a is None or b is None:
                nxt = None
            else:
                sa, sb = (a - M64 if a >= 2 ** 63 else a), (b - M64 if b >= 2 ** 63 else b)
                taken = {"beq": a == b, "bne": a != b, "blt": sa < sb, "bge": sa >= sb, "bltu": a < b, "bgeu": a >= b}[x.name]
                nxt = x.target % M64 if taken else nxt
        elif k == "jal":
            if x.writes():
                self.regs[x.rd] = nxt
            nxt = x.target % M64
        elif k == "jalr":
            if x.rs1 not in self.regs:
                v = r.choice([a for a, _ in p.bbs] + [p.cbase + 4, p.dbase, 0])
                self.answer(v)
                self.regs[x.rs1] = v
            b = self.val(x.rs1)
            if x.writes():
                self.regs[x.rd] = nxt
            nxt = None if b is None else ((b + x.imm) % M64) & ~1
        if not ok:
            self.ack()                 # the access error: a message, the instruction pointer stays
            return
        self.ip = nxt
        if nxt is not None and p.ins_at(nxt) is None:
            self.ack()                 # executed, but the cursor cannot follow
        elif nxt is None:
            self.emit("")

    # ---------------- commands by mode
    def dis_cmd(self, want_emu=False):
        r, p = self.r, self.p
        n = len(p.lines)
        k = r.random()
        if want_emu or k < 0.22:
            j = r.random()
            if j < 0.35:
                self.cmd([r.choice(["entrypoint", "entry"])])
                ip = p.entry % M64
                if p.ins_at(ip) is None:
                    self.ack()
                    ip = None
                else:
                    self.cursor = None
            elif j < 0.9 and p.ins_lines():
                il = p.ins_lines()
                ln = r.choice(il[:max(1, len(il) // 2)] if r.random() < 0.5 else il)
                self.cmd([r.choice(["goto", "g"]), str(ln)])
                ip = p.addr_of_line(ln)
                self.cursor = ln
            else:
                ip = None
                if self.cursor is not None and 0 <= self.cursor < n and p.lines[self.cursor][0] == "i":
                    ip = p.addr_of_line(self.cursor)
            self.cmd([r.choice(["emulate", "emul", "e", "e"])])
            if ip is not None or self.cursor is None:
                self.start_emu(ip if p.certain else None)
            else:
                self.ack(p.certain)
            return
        if k < 0.47:
            # moves: adjacent instructions of one block (often accepted), any two lines (mostly rejected), blocks
            j = r.random()
            il, hl = p.ins_lines(), p.hdr_lines()
            if j < 0.55 and il:
                a = r.choice(il)
                b = a + r.choice([1, 1, -1, -1, 2, -2])
            elif j < 0.75 and len(hl) >= 2:
                a, b = r.sample(hl, 2)
            elif j < 0.85:
                a, b = r.randrange(n + 1), r.randrange(n + 1)
            else:
                a, b = r.choice([(n, 0), (0, n), (n - 1, 1), (1, n - 1), (10 ** 9, 1), (1, 2 ** 63 - 1), (2, 2)])
            self.cmd([r.choice(["move", "mv", "m", "m"]), str(a), str(b)])
            self.predict_move(a, b)
            return
        if k < 0.55:
            self.cmd([r.choice(["bounds", "b"]), str(r.choice(p.ins_lines() or [1]) if r.random() < 0.7 else r.randrange(n + 2))])
            self.emit("")
            return
        if k < 0.66:
            w = r.choice(["down", "d", "up", "u", "goto", "g"])
            v = r.choice([0, 1, 2, 3, n - 1, n, n + 1, r.randrange(n + 1), 2 ** 63 - 1])
            self.cmd([w, str(v)])
            c = self.cursor if self.cursor is not None else 0
            t = v if w[0] == "g" else c + v if w[0] == "d" else c - v
            if 0 <= t < n:
                self.cursor = t
            else:
                self.ack(self.cursor is not None)
            return
        if k < 0.80:
            pat = r.choice(["addi", "x5", "x6, x", "Block", "Block 2", "0x", "ld", "sw", "amo", ", 8", "93 0", "^Block", "^$",
                            "^     a", "0$", ".", "x., x.", "^Block .: 0x1", "zzz", "Q", "jal", "lui x", "- x", "a_b"] + BAD_RX)
            self.cmd([r.choice(["find", "f", "/"])] + pat.split(" "))
            self.emit("")              # no match or a bad pattern: a message
            self.cursor = None
            return
        if k < 0.86:
            self.cmd([r.choice(["help", "h", "alllines"])])
            self.ack()
            return
        if k < 0.93:
            self.bad_cmd(["step", "memory x", "regmod x5", "address 0", "ms"])
            return
        self.cmd([r.choice(["quit", "q"])])
        self.ack()
        self.mode = "end"

    def predict_move(self, a, b):
        p = self.p
        n = len(p.lines)
        la = p.lines[a] if 0 <= a < n else None
        lb = p.lines[b] if 0 <= b < n else None
        if not p.certain:
            self.emit("")
            return
        if la and lb and la[0] == "i" and lb[0] == "i" and la[1] == lb[1] and abs(la[2] - lb[2]) == 1:
            ins = p.bbs[la[1]][1]
            x, y = ins[la[2]], ins[lb[2]]
            plain = lambda z: z.kind in ("alui", "alur", "lui")
            indep = (plain(x) and plain(y) and x.rd != y.rd and x.rd not in y.regs() and y.rd not in x.regs())
            if indep:
                ins[la[2]], ins[lb[2]] = y, x
                self.moved = True
                if self.r.random() < 0.2:
                    self.emit("")
                return
            self.emit("")
            return
        if la and lb and la[0] == "h" and lb[0] == "h" and a != b:
            # a block move: accepted or not, the picture of the listing is gone
            p.certain = False
            self.moved = True
            self.emit("")
            return
        self.ack()

    def bad_cmd(self, foreign):
        r = self.r
        self.cmd([r.choice(foreign + ["foo", "?", "G 1", "quit now", "goto", "goto x", "goto 1 2", "down -1", "m 1", "move 1 x",
                                      "e 1", "help me", "d 99999999999999999999"])])
        self.ack()

    def off_code(self):
        return self.p.certain and self.ip is not None and self.p.ins_at(self.ip) is None

    def emu_cmd(self):
        r, p = self.r, self.p
        k = r.random()
        if self.off_code() and k < 0.5:
            k = 0.63 + 0.37 * r.random()       # the instruction pointer has left the code: do something else
        if k < 0.62:
            self.step()
        elif k < 0.72:
            key = r.choice(["memory", "memory", "memory", "memory", "memory", "memory", "nokey", "x5", "Memory", "\u00e9", "#r:w:ip"])
            self.cmd([r.choice(["memory", "mem", "m"]), key])
            self.mode = "mem"
            self.mkey = key
        elif k < 0.76:
            self.cmd([r.choice(["memories", "mems", "ms"])])
            self.ack()
        elif k < 0.86:
            x = r.choice(p.work + [5, 6, 1, 30])
            ints = sorted(q for q in self.regs if isinstance(q, int))
            if ints and r.random() < 0.7:
                x = r.choice(ints)
            name = r.choice(["x%d" % x] * 6 + ["#r:w:ip", "x0", "X5", "ip", "\u00e9"] + [q for q in self.regs if isinstance(q, str)])
            self.cmd([r.choice(["regmod", "rmod"]), name])
            if name.startswith("x") and name[1:].isdigit() and int(name[1:]) in self.regs:
                v = self.addr_value(8) if r.random() < 0.6 else self.plain_value()
                self.answer(v)
                self.regs[int(name[1:])] = v
            elif name in self.regs:
                self.answer(self.plain_value())
            elif name == "#r:w:ip":
                tgt = r.choice([a for a, _ in p.bbs] + [p.cbase, p.cbase + 4, p.dbase])
                self.answer(tgt)
                self.ip = tgt            # the cursor follows at the next step only
            else:
                self.ack()
        elif k < 0.90:
            self.cmd([r.choice(["help", "h"])])
            self.ack()
        elif k < 0.94:
            self.bad_cmd(["goto 1", "move 1 2", "e", "address 0", "step 1", "regmod", "memory"])
        else:
            self.cmd([r.choice(["quit", "q"])])
            self.ack()
            self.mode = "dis"

    def mem_cmd(self):
        r, p = self.r, self.p
        k = r.random()
        if k < 0.40:
            pool = [p.dbase, p.dbase + 4, p.dbase + 17, p.cbase, p.cbase + 5, 0, 16, M64 - 1, M64 - 16, M64 - 9, p.dbase + 0x40]
            pool += [a for a in self.known if r.random() < 0.02][:4] if hasattr(self, "known") else []
            a = r.choice(pool) % M64
            f = r.choice(["d", "x", "X", "o", "b"])
            s = {"d": "%d" % a, "x": "0x%x" % a, "X": "0X%X" % a, "o": ("0%o" % a) if a else "0", "b": "0b" + format(a, "b")}[f]
            if r.random() < 0.1:
                s = r.choice(["", "0x", "-1", str(M64), "08", "1_0", "x"])
            self.cmd([r.choice(["address", "addr", "a"]), s] if s else [r.choice(["address", "a"])])
            self.emit("")
        elif k < 0.72:
            self.cmd([r.choice(["down", "d", "up", "u", "goto", "g"]), str(r.choice([0, 1, 1, 2, 3, 4, 7, 100, 2 ** 63 - 1]))])
            self.emit("")
        elif k < 0.78:
            self.cmd([r.choice(["help", "h"])])
            self.ack()
        elif k < 0.84:
            self.bad_cmd(["step", "e", "memory memory", "a", "a 1 2"])
        else:
            self.cmd([r.choice(["quit", "q"])])
            self.ack()
            self.mode = "emu"

    def run(self, ncmd, plan):
        """plan: None (random walk) or a list of phases steering the walk"""
        r = self.r
        want = list(plan or [])
        while self.ncmd < ncmd and self.mode != "end":
            phase = want[0] if want else None
            if self.mode == "dis":
                if phase == "emu":
                    self.dis_cmd(want_emu=True)
                    if self.mode == "emu":
                        want.pop(0)
                elif phase == "bmove":
                    want.pop(0)
                    hl = self.p.hdr_lines()
                    if len(hl) >= 2:
                        a, b = r.sample(hl, 2)
                        self.cmd([r.choice(["move", "m"]), str(a), str(b)])
                        self.predict_move(a, b)
                elif phase == "move":
                    want.pop(0)
                    il = self.p.ins_lines()
                    if il:
                        a = r.choice(il)
                        b = a + r.choice([1, -1])
                        self.cmd([r.choice(["move", "m"]), str(a), str(b)])
                        self.predict_move(a, b)
                else:
                    if phase in ("steps", "mem", "quit"):
                        want.pop(0)
                    self.dis_cmd()
            elif self.mode == "emu":
                if phase == "steps":
                    want.pop(0)
                    for _ in range(r.randint(1, 5)):
                        if self.mode == "emu" and self.ncmd < ncmd and not (self.off_code() and r.random() < 0.7):
                            self.step()
                elif phase == "mem":
                    want.pop(0)
                    self.cmd([r.choice(["memory", "mem", "m"]), "memory"])
                    self.mode = "mem"
                    for _ in range(r.randint(1, 3)):
                        self.mem_cmd()
                        if self.mode != "mem":
                            break
                elif phase == "quit":
                    want.pop(0)
                    self.cmd([r.choice(["quit", "q"])])
                    self.ack()
                    self.mode = "dis"
                else:
                    if phase in ("emu", "move", "bmove"):
                        # leave the emulator first
                        self.cmd(["q"])
                        self.ack()
                        self.mode = "dis"
                    else:
                        self.emu_cmd()
            else:
                if phase in ("quit", "emu", "move", "bmove", "steps"):
                    self.cmd(["q"])
                    self.ack()
                    self.mode = "emu"
                else:
                    self.mem_cmd()
        return self.out


PLANS = [
    None, None,
    ["emu", "steps", "quit", "move", "emu", "steps"],
    ["move", "emu", "steps", "mem", "quit", "move", "move", "emu", "steps"],
    ["emu", "steps", "mem", "steps", "quit", "emu", "steps"],
    ["move", "move", "emu", "steps", "steps"],
    ["emu", "steps", "steps", "mem"],
    ["bmove", "emu", "steps", "quit", "bmove", "move", "emu", "steps"],
]


def hexline(s):
    return "-" if s == "" else "x:" + s.encode("utf-8").hex()


def session(r, plan=None, eof=0.06, mincmd=1, mem=None, top=0.28, raw=False):
    p = Program(r, mem, raw)
    s = Sess(r, p, top)
    n = max(mincmd, r.choice([1, 2, 3, 5, 8, 12, 16, 20, 25, r.randint(1, 25)]))
    lines = s.run(n, plan)
    if s.mode != "end":
        k = r.random()
        if k < eof and s.mode == "emu":
            lines.append("s")                       # the input ends in a value prompt (or right after the step)
            if r.random() < 0.5:
                lines.append(r.choice(GARBAGE))
        elif k < 0.5:
            # leave all modes
            depth = {"dis": 1, "emu": 2, "mem": 3}[s.mode]
            for _ in range(depth):
                lines += ["q", ""]
    height = r.choice([8, 8, 10, 12, 16, 5, 3, 24, 0, 40])
    return "uireal %s %d %d%s" % (p.text(), height, len(lines), "".join(" " + hexline(x) for x in lines))


def g_uireal(r):
    """the mixed stream: random walks and planned sessions; every fifth program consists of arbitrary RV64IMA words
    (`genelf.program`: every row of the instruction tables, jumps and branches inside the block)"""
    return session(r, r.choice(PLANS), raw=r.random() < 0.2)


def g_uireal_between(r):
    """moves BETWEEN emulator sessions: emulate, step, quit, move, emulate, step (the emulator runs on the current code)"""
    return session(r, r.choice(PLANS[2:4] + PLANS[-1:]), eof=0.02, mincmd=10)


def g_uireal_top(r):
    """stepping loads/stores/AMOs whose address register is answered at the console, often at the top of the address space"""
    return session(r, r.choice([["emu", "steps", "steps", "mem", "steps"], ["emu", "steps", "steps", "steps"]]), mincmd=8, mem=1.0, top=0.6)
