"""Emulator: C03 (agreement with a RISC-V machine), C04 (the provider is asked for unknown state only, once)."""
from .props import Prop, reg, has, nothas
from . import genemu as ge
from . import rvgen

EMU_TRUSTED = [
    "the code view the model runs on is the lifting of the code blocks by the regenerated front-end model; that "
    "deps.Code.Address + Block.Address find exactly the instruction whose current address equals ip is assumed "
    "(LookupExact, property C07) and exercised by every case (real parser.Parse + deps.NewCode in the harness)",
    "RISC-V reference (Spec/Riscv.lean) is my transcription of the unprivileged ISA manual",
    "state provider of the harness: a deterministic function of (seed, key, address), reimplemented in Lean",
    "expression IR, ConstFold, SetWidth, memories, register map as modelled and proved for C09, C12, C14-C16, C18",
]


def nt03(c):
    t = c.tags
    return ("emu" in t and "steps0-1" not in t and "setup-fail" not in t and
            any(x in t for x in ("composed-load", "cut-load", "straddle", "jump-taken", "err-end", "atomic",
                                 "access-err")))


def nt04(c):
    t = c.tags
    return "emuq" in t and ("ask-reg" in t or "ask-mem" in t) and \
        any(x in t for x in ("reread-reg", "reread-mem", "ask-partial", "ask-multi"))


reg(Prop("C03",
         [("emu", ge.g_emu, 4), ("emu_mem", ge.g_emu_mem, 1), ("emu_top", ge.g_emu_top, 1)],
         nt03,
         "RV64IMA programs assembled from the reference encodings: straight-line ALU code (boundary immediates, W forms, "
         "lui/auipc, CSR, fences), loops with backward branches, forward branches, jal/jalr calls and returns, sb/sh/sw/sd "
         "and lb..ld/lbu..lwu at offsets 0..15 of a shared buffer that starts inside an image block and ends behind it "
         "(loads composed of several stores of different widths, of image bytes + written bytes + provider bytes), AMOs, "
         "lr/sc, M extension with the division corner cases pre-set, registers first read 4 bytes wide then 8, jumps "
         "into the middle of an instruction / outside the code / off the end of the code; 1-60 steps; code at 0x1000, "
         "2^31-16, 2^32, 2^63; the real emulator.Step on the real deps.Code over Overlay(Bytes, Sparse) against the "
         "model step by step (report, provider calls, full register map, sparse layer) and against the reference "
         "machine after every step (IP, every held register, every byte either side wrote, the access report with "
         "values); non-trivial = at least 2 steps executed and a composed / cut / straddling load, a taken jump, an "
         "atomic, or a run ending in the expected error; one stream (and a shape of the mixed stream) aims loads, stores "
         "and atomics at the top of the address space (range ending at, just below, just beyond 2^64; through x0 with "
         "negative immediates, pre-set registers, registers answered 0xff.. by the provider)",
         3000, 120000, trusted=EMU_TRUSTED, pre=[rvgen.regenerate],
         assumptions=["refinement is claimed for memory accesses with addr + width < 2^64 (C14 domain); for an access "
                      "that leaves the address space the oracle demands the error of Step with the architectural "
                      "state (held registers, written bytes, instruction pointer) equal to the reference's state "
                      "before the step (F45); a panic is a failure everywhere; programs that store into their code "
                      "blocks are outside the property: the oracle stops judging at the first such step"]))

reg(Prop("C04",
         [("emuq", ge.g_emuq, 3), ("emuq_unknown", ge.g_emuq_unknown, 2), ("emuq_top", ge.g_emuq_top, 1)],
         nt04,
         "the same programs, with only the buffer pointer pre-set in two thirds of the second stream so that most state "
         "comes from the provider: every provider call of every step is compared with the model's and judged against "
         "what the emulator knows (pre-set registers, the instruction pointer, image bytes, everything written by the "
         "program so far according to the reference machine, everything supplied before); reported reads of supplied "
         "state must return the supplied value until the program overwrites it; non-trivial = at least one request and "
         "a later read of supplied state, a partially known load, or several requests for one load",
         3000, 120000, trusted=EMU_TRUSTED, pre=[rvgen.regenerate],
         assumptions=["as C03; when the emulator's instruction pointer leaves the reference's (a C03 violation) the "
                      "log is not judged further"]))
