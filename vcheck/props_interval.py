"""Interval algebra: C17."""
from .props import Prop, reg, has, nothas
from . import genstate as gs

reg(Prop("C17",
         [("inew", gs.g_inew, 1), ("ibin", gs.g_ibin, 3)],
         has("multi"),
         "interval lists over [-4,45] with forced adjacency, equal begins, nesting, one interval spanning several; "
         "NewMap and union/difference/intersection of two sets; membership compared at every end point +-1; "
         "non-trivial = both operands have >= 2 intervals (>= 3 raw intervals for NewMap)",
         3000, 300000,
         trusted=["sort.Slice modelled as a stable insertion sort on begin"]))
