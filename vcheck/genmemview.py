"""Generators for memory view histories (C32).

  memview nil <k> cmd...
  memview sparse <n> (<addr> <w> c:<hex>)*n <k> cmd...
  memview bytes <b> (<begin> <hex>)*b <n> (<addr> <w> c:<hex>)*n <k> cmd...
  cmd = print <n> | addr <hex of the argument string> | goto <n> | up <n> | down <n>

Memories: 0-6 blocks inside a ~200 byte region placed at address 0, at a low address, in the middle of the
address space, just below 2^64-32 and at the very top of the address space (last stored byte 2^64-2); blocks
sharing a 16-byte window (the F28 shape: [0,4) and [8,12)), blocks in adjacent windows, gaps of exactly one
window, long blocks spanning several windows, overwriting stores.  Sparse memories hold constants only (what
the emulator stores).  Commands: print heights 5..40 (a few 0..4), cursor moves to both ends and beyond,
`address` with stored addresses, absent addresses inside a shown window (must be refused: the command only
finds stored addresses; observation F81), addresses outside, window
boundaries, every notation of the address grammar and malformed arguments (F27 shapes).
The nil memory (F29: `memory <unknown key>`) is a separate small stream."""
import math

TOP = 2 ** 64


def hexs(b):
    return b.hex() if b else "-"


def check_phi(limit=10 ** 6):
    """int(math.Floor(float64(n)/(math.Phi+1))) == (3n - isqrt(5n^2) - 1) // 2 (natural subtraction) for 0 <= n <= limit.
    Python floats are the IEEE doubles of Go; math.Phi is the correctly rounded golden ratio."""
    phi = (1 + 5 ** 0.5) / 2
    for n in range(limit + 1):
        k = math.floor(n / (phi + 1))
        c = max(0, 3 * n - math.isqrt(5 * n * n) - 1) // 2
        if c != k:
            return n
    return None


def region_base(r):
    k = r.random()
    if k < 0.3:
        return 0
    if k < 0.45:
        return r.choice([16, 32, 48, 0x1000, 0x1008, 0x7ffffff0])
    if k < 0.6:
        return r.choice([2 ** 32 - 64, 2 ** 63 - 96, 2 ** 63])
    if k < 0.78:
        return TOP - 16 - 200 - r.choice([0, 3, 8, 16])        # the region ends in the window below the top one
    return TOP - 208                                           # the region reaches the top window


def blocks(r, limit):
    """(offset, length) blocks inside [0, limit), non-overlapping, sorted."""
    n = r.choice([0, 1, 1, 2, 2, 3, 3, 4, 5, 6])
    out = []
    pos = r.choice([0, 0, 1, 3, 8, 15, 16, 17, 20])
    for _ in range(n):
        if pos >= limit:
            break
        ln = r.choice([1, 1, 2, 3, 4, 4, 7, 8, 9, 12, 15, 16, 17, 20, 31, 32, 33, 40, 64])
        ln = min(ln, limit - pos)
        out.append((pos, ln))
        k = r.random()
        end = pos + ln
        if k < 0.3:
            gap = r.choice([1, 2, 3, 4, 5])                    # most likely the same window
        elif k < 0.5:
            gap = (16 - end % 16) % 16 + r.choice([0, 1, 4])   # the next block starts in the adjacent window
            gap = max(gap, 1)
        elif k < 0.7:
            gap = (16 - end % 16) % 16 + 16 + r.choice([0, 2, 15])   # exactly one window without memory
            gap = max(gap, 1)
        else:
            gap = r.choice([1, 8, 16, 24, 40, 48, 70])
        pos = end + gap
    return out


def content(r, n):
    k = r.random()
    if k < 0.1:
        return bytes(n)
    if k < 0.2:
        return bytes([0xff]) * n
    return bytes(r.randrange(256) for _ in range(n))


def stores_for(r, base, blks):
    """Constant stores producing the blocks (pieces of 1..16 bytes, shuffled where harmless) + overwrites."""
    sts = []
    for off, ln in blks:
        pos = off
        pieces = []
        wide = r.random() < 0.15                      # now and then ONE stored value of up to 255 bytes for a whole block
        while pos < off + ln:
            w = min(r.choice([1, 2, 4, 4, 8, 8, 16, 3, 5]) if not wide else 255, off + ln - pos)
            pieces.append((base + pos, w, content(r, w)))
            pos += w
        if r.random() < 0.5:
            r.shuffle(pieces)
        sts += pieces
    # overwrite some stored bytes (the value shown must be the last one)
    for _ in range(r.choice([0, 0, 1, 2])):
        if not blks:
            break
        off, ln = r.choice(blks)
        w = r.randint(1, min(ln, 8))
        p = r.randint(off, off + ln - w)
        sts.append((base + p, w, content(r, w)))
    return sts


def fmt_store(a, w, c):
    return "%d %d c:%s" % (a, w, c.hex())


def notation(r, a):
    k = r.random()
    if k < 0.45:
        return r.choice(["0x%x", "0X%X", "0x%016x"]) % a
    if k < 0.8:
        return "%d" % a
    if k < 0.9:
        return "0" + ("%o" % a) if a else "0"
    return r.choice(["0b", "0B"]) + bin(a)[2:]


def commands(r, base, blks, nil=False):
    """Command list; the number of view rows is estimated to aim at both ends."""
    wins = sorted({(base + o + i) // 16 for o, ln in blks for i in range(ln)})
    rows = 0
    if wins:
        rows = len(wins) + 1 + (1 if wins[0] != 0 else 0) + sum(1 for a, b in zip(wins, wins[1:]) if b != a + 1)
    out = []
    k = r.choice([2, 3, 4, 5, 6, 8])
    for _ in range(k):
        c = r.random()
        if c < 0.3:
            n = r.choice([5, 5, 6, 8, 10, 13, 20, 40, r.randint(5, 40), r.choice([0, 1, 2, 3, 4])])
            out.append("print %d" % n)
        elif c < 0.6:
            m = r.random()
            if blks and m < 0.35:                              # a stored address
                o, ln = r.choice(blks)
                a = base + r.choice([o, o + ln - 1, r.randint(o, o + ln - 1)])
            elif blks and m < 0.6:                             # somewhere in a shown window, stored or not
                o, ln = r.choice(blks)
                w = (base + r.choice([o, o + ln - 1])) // 16 * 16
                a = w + r.choice([0, 15, r.randint(0, 15)])
            elif blks and m < 0.75:                            # just outside a shown window
                o, ln = r.choice(blks)
                w = (base + r.choice([o, o + ln - 1])) // 16 * 16
                a = r.choice([w - 1, w + 16]) % TOP
            elif m < 0.85:
                a = r.choice([0, 1, 15, 16, TOP - 1, TOP - 2, TOP - 16, TOP - 17, 2 ** 63, base + 300])
                a %= TOP
            else:
                a = None
            if a is None:
                s = r.choice(["", "5", "0", "0x", "0b", "x", "-1", "+1", "1_0", " 1", "0x1g", "09", "0b2", "18446744073709551616",
                              "0x10000000000000000", "zz", "1 "])
            else:
                s = notation(r, a)
            out.append("addr " + hexs(s.encode()))
        else:
            name = r.choice(["goto", "goto", "up", "down", "down"])
            n = r.choice([0, 1, 1, 2, 3, max(rows - 1, 0), rows, rows + 1, r.randint(0, rows + 2), 2 ** 63 - 1, 2 ** 63 - 2,
                          2 ** 63, 10 ** 30])
            out.append("%s %d" % (name, n))
    if blks and r.random() < 0.2:
        # the memory changes while the view exists: overwrite bytes that are already stored (the rows stay, the
        # values shown must be the current ones) between two prints of the same rows
        o, ln = r.choice(blks)
        w = r.randint(1, min(ln, 8))
        p = r.randint(o, o + ln - w)
        n = r.choice([8, 13, 21, 40])
        out += ["print %d" % n, "st " + fmt_store(base + p, w, content(r, w)), "print %d" % n]
    if r.random() < 0.6:
        out.append("print %d" % r.choice([5, 8, 13, 21, 40]))
    return out


def fmt_cmds(cmds):
    return "%d %s" % (len(cmds), " ".join(cmds)) if cmds else "0"


def g_memview_sparse(r):
    base = region_base(r)
    limit = 207 if base == TOP - 208 else 200                  # the last storable byte is 2^64-2
    blks = blocks(r, limit)
    sts = stores_for(r, base, blks)
    cmds = commands(r, base, blks)
    return ("memview sparse %d %s %s" % (len(sts), " ".join(fmt_store(*s) for s in sts), fmt_cmds(cmds))).replace("  ", " ")


def g_memview_bytes(r):
    base = region_base(r)
    limit = 207 if base == TOP - 208 else 200
    blks = blocks(r, limit)
    init = [b for b in blks if r.random() < 0.7]
    later = [b for b in blks if b not in init]
    ib = [(base + o, content(r, ln)) for o, ln in init]
    r.shuffle(ib)
    sts = stores_for(r, base, later)
    # overwrites inside the initial blocks
    for _ in range(r.choice([0, 0, 1])):
        if init:
            o, ln = r.choice(init)
            w = r.randint(1, min(ln, 8))
            p = r.randint(o, o + ln - w)
            sts.append((base + p, w, content(r, w)))
    cmds = commands(r, base, blks)
    return ("memview bytes %d %s %d %s %s" % (len(ib), " ".join("%d %s" % (a, hexs(c)) for a, c in ib), len(sts),
                                              " ".join(fmt_store(*s) for s in sts), fmt_cmds(cmds))).replace("  ", " ")


def g_memview_nil(r):
    cmds = commands(r, 0, [])
    if r.random() < 0.5:
        cmds = [r.choice(["down 1", "up 1", "goto 0", "addr 30", "addr 35"])] + cmds
    return "memview nil " + fmt_cmds(cmds)


def g_memview_witness(r):
    """The shapes of the known defects."""
    return r.choice([
        "memview sparse 2 0 4 c:01020304 8 4 c:05060708 3 print 10 down 1 print 10",             # F28
        "memview nil 3 print 5 down 1 print 5",                                                  # F29
        "memview nil 2 goto 0 addr 30",
        "memview sparse 1 18446744073709551600 8 c:0102030405060708 2 print 10 addr 307866666666666666666666666666666630",  # F80
        "memview sparse 1 18446744073709551592 16 c:0102030405060708090a0b0c0d0e0f10 3 print 8 down 2 print 8",
        "memview sparse 1 20 2 c:abcd 3 addr 3136 print 5 addr 3230",                            # 16 is in the shown window of 20 but not stored: error (observation F81)
        "memview bytes 2 0 01020304 8 05060708 0 2 print 10 addr 35",
    ])
