"""Generators for the RISC-V front end (C01, C02, C25)."""
import random, subprocess
from . import core

_spec = None
_impl = {}


def spec_rows():
    """Reference encoding rows from the Lean spec (through the model driver)."""
    global _spec
    if _spec is None:
        p = subprocess.run([core.MDRIVER], input="rvspec => x\n", stdout=subprocess.PIPE, text=True, timeout=60)
        toks = p.stdout.split("C=diff:", 1)[1].split(" ;; ")[0].split()
        n = int(toks[0]); toks = toks[1:]
        _spec = []
        for k in range(n):
            f = toks[6 * k:6 * k + 6]
            _spec.append(dict(name=f[0], match=int(f[1]), mask=int(f[2]), ext=f[3], rv32=f[4] == "true", rv64=f[5] == "true"))
    return _spec


def impl_rows(variant):
    """Patterns of the implementation's live table (through the harness)."""
    if variant not in _impl:
        from . import rvgen
        rows = []
        for f in rvgen.dump_table(variant):
            b = bytes.fromhex(f["bytes"]) + bytes(4)
            m = bytes.fromhex(f["mask"]) + bytes(4)
            rows.append(dict(name=f["name"], match=int.from_bytes(b[:4], "little") & int.from_bytes(m[:4], "little"),
                             mask=int.from_bytes(m[:4], "little"), ext="ima"[f["ext"]]))
        _impl[variant] = rows
    return _impl[variant]


EXTS = ["i", "im", "ia", "ima", "iam"]          # "iam": NewParser(v, ExtA, ExtM), the same set in the other order


def addr_for(r, variant):
    a = addr_aligned(r, variant)
    if r.random() < 0.12:
        # decoding must not depend on the address: also 2-byte aligned and odd addresses
        top = 2 ** 32 if variant == "32" else 2 ** 64
        a = (a + r.choice([1, 2, 3])) % top
    return a


def addr_aligned(r, variant):
    top = 2 ** 32 if variant == "32" else 2 ** 64
    k = r.random()
    if k < 0.5:
        return r.choice([0, 4, 0x1000, 0x10000, 0x80000000 - 4 if variant == "32" else 2 ** 63])
    if k < 0.7:
        return top - 4 * r.randint(1, 4)
    if k < 0.8:
        return r.choice([2 ** 31 - 4, 2 ** 31, 2 ** 31 + 4])
    return 4 * r.randrange(top // 4)


def fill(r, row):
    """A word matching the row's pattern with boundary-biased free bits."""
    free = ~row["mask"] & 0xffffffff
    k = r.random()
    if k < 0.1:
        bits = 0
    elif k < 0.2:
        bits = 0xffffffff
    else:
        bits = r.getrandbits(32)
        # register fields: force x0 / x1 / equal registers sometimes
        for lo in (7, 15, 20):
            q = r.random()
            if q < 0.2:
                bits &= ~(0x1f << lo)
            elif q < 0.3:
                bits = (bits & ~(0x1f << lo)) | (r.choice([1, 2, 31]) << lo)
        if r.random() < 0.15:
            rs = (bits >> 15) & 0x1f
            bits = (bits & ~(0x1f << 20) & ~(0x1f << 7)) | (rs << 20) | (rs << 7)
        # immediates: extremes
        q = r.random()
        if q < 0.15:
            bits |= 0xfff00000                  # imm = -1 / sign bit set
        elif q < 0.25:
            bits = (bits & 0x000fffff) | 0x80000000   # most negative I immediate
        elif q < 0.35:
            bits = (bits & 0x000fffff) | 0x7ff00000   # most positive I immediate
        elif q < 0.45:
            bits &= 0x000fffff
    return (row["match"] | (bits & free)) & 0xffffffff


def line(variant, exts, addr, word, extra=b""):
    return "rvparse %s %s %d %s" % (variant, exts, addr, (word.to_bytes(4, "little") + extra).hex())


def g_entry(r):
    """Words generated per table entry (implementation's and reference's tables)."""
    variant = r.choice(["32", "64"])
    exts = r.choice(EXTS) if r.random() < 0.4 else "ima"
    if r.random() < 0.5:
        rows = impl_rows(variant)
    else:
        rows = [x for x in spec_rows() if (x["rv32"] if variant == "32" else x["rv64"])]
    row = r.choice(rows)
    return line(variant, exts, addr_for(r, variant), fill(r, row))


def g_decode(r):
    """Decoder edge: random words, single-bit flips of valid words, short and long inputs."""
    variant = r.choice(["32", "64"])
    exts = r.choice(EXTS)
    rows = [x for x in spec_rows() if (x["rv32"] if variant == "32" else x["rv64"])]
    k = r.random()
    if k < 0.25:
        w = r.getrandbits(32)
    elif k < 0.75:
        w = fill(r, r.choice(rows)) ^ (1 << r.randrange(32))
        if r.random() < 0.3:
            w ^= 1 << r.randrange(32)
    else:
        w = fill(r, r.choice(rows))
    q = r.random()
    if q < 0.12:
        n = r.randint(0, 3)
        return "rvparse %s %s %d %s" % (variant, exts, addr_for(r, variant), w.to_bytes(4, "little")[:n].hex() or "-")
    extra = bytes(r.randrange(256) for _ in range(r.randint(1, 5))) if q < 0.3 else b""
    return line(variant, exts, addr_for(r, variant), w, extra)


def g_pair(r):
    """C25: two words of the same table entry differing in a few free bits (one field), same address."""
    variant = r.choice(["32", "64"])
    exts = "ima"
    rows = impl_rows(variant) if r.random() < 0.5 else [x for x in spec_rows() if (x["rv32"] if variant == "32" else x["rv64"])]
    row = r.choice(rows)
    w1 = fill(r, row)
    free = ~row["mask"] & 0xffffffff
    k = r.random()
    if k < 0.15:
        w2 = w1
    elif k < 0.75:
        # change one field: rd, rs1, rs2/shamt, funct7-ish / upper immediate bits
        lo, n = r.choice([(7, 5), (15, 5), (20, 5), (25, 7), (12, 8), (20, 12), (31, 1), (25, 1), (26, 1)])
        m = ((1 << n) - 1) << lo
        w2 = (w1 & ~m) | (r.getrandbits(32) & m)
        w2 = (row["match"] | (w2 & free)) & 0xffffffff
    else:
        w2 = fill(r, row)
    return "rvpair %s %s %d %s %s" % (variant, exts, addr_for(r, variant), w1.to_bytes(4, "little").hex(),
                                     w2.to_bytes(4, "little").hex())


def sweep_lines(chunks=256):
    """Thorough tier of C02: exhaustive sweep of all 2^32 words for the two full configurations."""
    out = []
    for variant in ("32", "64"):
        rows = [x for x in spec_rows() if (x["rv32"] if variant == "32" else x["rv64"])]
        rtxt = " ".join("%s %d %d" % (x["name"], x["match"], x["mask"]) for x in rows)
        step = 2 ** 32 // chunks
        for k in range(chunks):
            out.append("rvsweep %s ima %d %d %d %s" % (variant, k * step, (k + 1) * step, len(rows), rtxt))
    return out
