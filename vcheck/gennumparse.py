"""Generators for numeric user input (C30).

  parseaddr <hex of the argument string>
  readvalue <w> <hex of the typed line>

Strings are built from digit strings of every base (2, 8, 10, 16) with and without the prefixes in
both cases, boundary values (0, 1, 2^64-1, 2^64, 2^64+1, 2^(8w)+-1, -1, -2^(8w-1)), leading zeros,
signs, the empty string, lone prefixes (0x, 0b, 0o, 0, 00), underscores, digits that are invalid for
the base (8/9 in octal, 2 in binary, g in hex), embedded spaces, non-ASCII bytes and one-character
strings (the F27 witnesses `5`, `0`, `0b101` are forced shapes)."""

DIG = "0123456789abcdefghijklmnopqrstuvwxyz"


def hexs(b):
    return b.hex() if b else "-"


def to_base(n, base, r=None):
    if n == 0:
        return "0"
    out = ""
    while n:
        d = DIG[n % base]
        if r is not None and r.random() < 0.4:
            d = d.upper()
        out = d + out
        n //= base
    return out


PREFIX = {16: ["0x", "0X"], 2: ["0b", "0B"], 8: ["0"], 10: [""]}
PREFIX_VAL = {16: ["0x", "0X"], 2: ["0b", "0B"], 8: ["0", "0o", "0O"], 10: [""]}


def boundary(r, w=None):
    """Interesting magnitudes."""
    c = [0, 1, 2, 7, 8, 9, 10, 15, 16, 255, 256, 2**31, 2**32 - 1, 2**32, 2**63 - 1, 2**63, 2**64 - 1, 2**64,
         2**64 + 1, 2**65, 10**19, 10**20, 18446744073709551615, 18446744073709551616]
    if w is not None:
        m = 2 ** (8 * w)
        c += [m - 1, m, m + 1, m // 2, max(0, m // 2 - 1), m // 2 + 1, 2 * m - 1, 3 * m + 5]
    k = r.random()
    if k < 0.55:
        return r.choice(c)
    if k < 0.8:
        return r.randint(0, 300)
    bits = r.choice([8, 16, 31, 32, 33, 63, 64, 65, 70, 128, 200])
    return r.getrandbits(bits)


def numeral(r, prefixes, w=None):
    """A well-formed numeral (before mutation)."""
    base = r.choice([10, 10, 16, 16, 2, 8])
    n = boundary(r, w)
    body = to_base(n, base, r if base == 16 else None)
    if r.random() < 0.15 and base != 10:
        body = "0" * r.randint(1, 3) + body           # leading zeros after the prefix
    return r.choice(prefixes[base]) + body, base


def mutate(r, s, base):
    k = r.random()
    if k < 0.55:
        return s
    if k < 0.62:                                      # invalid digit for the base
        bad = {2: "2", 8: r.choice("89"), 10: r.choice("aAf"), 16: r.choice("gGzx")}[base]
        i = r.randint(0, len(s))
        return s[:i] + bad + s[i:]
    if k < 0.68:                                      # underscore
        i = r.randint(0, len(s))
        return s[:i] + "_" + s[i:]
    if k < 0.74:                                      # embedded / surrounding space or tab
        i = r.randint(0, len(s))
        return s[:i] + r.choice([" ", "\t", "  "]) + s[i:]
    if k < 0.78:                                      # decimal with leading zero(s) = octal or error
        return "0" * r.randint(1, 2) + s
    if k < 0.82:                                      # lone prefixes and friends
        return r.choice(["0x", "0X", "0b", "0B", "0o", "0O", "0", "00", "000", "x", "b", "0x0", "0b0", "0o0", "08",
                         "09", "0b2", "0xg", "0b101", "5", "9", "a", "-", "+", "--1", "+-1", "-+1", "0x-1", "0-1",
                         "1e3", "1.5", "0x1p3", "١٢"])
    if k < 0.86:                                      # truncated
        return s[:r.randint(0, len(s))]
    if k < 0.90:                                      # doubled prefix
        return r.choice(["0x", "0b", "0", "0o"]) + s
    if k < 0.94:                                      # non-ASCII bytes / control bytes
        i = r.randint(0, len(s))
        return None, s[:i].encode() + r.choice([b"\xc3\xa9", b"\xff", b"\x00", b"\x80", b"\xef\xbc\x91", b"\x7f"]) + s[i:].encode()
    if k < 0.97:
        return s.upper() if r.random() < 0.5 else s.swapcase()
    return ""


def as_bytes(x):
    if isinstance(x, tuple):
        return x[1]
    return x.encode("utf-8")


def g_parseaddr(r):
    k = r.random()
    if k < 0.06:                                      # one-character strings and the F27 witnesses
        s = r.choice(["5", "0", "7", "9", "a", "x", "0b101", "0B11", "0b0", "1", ""])
        return "parseaddr " + hexs(s.encode())
    s, base = numeral(r, PREFIX)
    if r.random() < 0.1:
        s = r.choice(["+", "-"]) + s                  # signs are not part of the address grammar
    return "parseaddr " + hexs(as_bytes(mutate(r, s, base)))


def g_readvalue(r):
    w = r.choice([1, 1, 2, 2, 4, 4, 8, 8, 3, 16, 16, 0, 5, 32, 255])
    k = r.random()
    if k < 0.05:
        s = r.choice(["", "0", "-0", "+0", "-1", "+1", "-", "+", "_", "1_000", "0x_1", "0_7", "-0b1", "-0o7", "-07",
                      "-0x", "0o", "0O17", "0B101", "0X1f"])
        return "readvalue %d %s" % (w, hexs(s.encode()))
    if k < 0.15 and w > 0:                            # signed boundaries of the width
        m = 2 ** (8 * w)
        n = r.choice([-1, -(m // 2), -(m // 2) - 1, -(m // 2) + 1, -m, -m - 1, -m + 1, -(2 * m) - 3, m - 1, m, m + 1])
        base = r.choice([10, 16, 2, 8])
        s = ("-" if n < 0 else r.choice(["", "+"])) + r.choice(PREFIX_VAL[base]) + to_base(abs(n), base, r)
        return "readvalue %d %s" % (w, hexs(s.encode()))
    s, base = numeral(r, PREFIX_VAL, w)
    sg = r.random()
    if sg < 0.3:
        s = "-" + s
    elif sg < 0.4:
        s = "+" + s
    b = as_bytes(mutate(r, s, base))
    if r.random() < 0.02:
        b = b + b"\r"                                 # the line reader drops a trailing CR
    b = b.replace(b"\n", b"")
    return "readvalue %d %s" % (w, hexs(b))
