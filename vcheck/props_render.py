"""Screen rendering: C24."""
from .props import Prop, reg
from . import genrender as gr


def _nontrivial(c):
    t = c.tags
    if "belowmin" in t or "badcode" in t or "na-shape" in t or "phicut" in t or "phisweep" in t:
        return False
    return any(x in t for x in ("clamped", "exact", "nocursor", "tool-shape", "ip-even", "invalid-child", "tiny"))


reg(Prop("C24",
         [("lines", gr.g_lines, 5), ("mem", gr.g_mem, 3), ("regs", gr.g_regs, 3), ("prompt", gr.g_prompt, 0),
          ("emu", gr.g_emu, 3), ("uidis", gr.g_uidis, 2), ("uiemu", gr.g_uiemu, 3), ("uimem", gr.g_uimem, 2),
          ("syn", gr.g_syn, 6), ("phicut", gr.g_phicut, 1), ("phisweep", gr.g_phisweep, 1),
          ("witness", gr.g_witness, 0)],
         _nontrivial,
         "listings of 3..70 rows (1..50 instructions, 1..8 blocks) with the cursor at 0, 1, 2, the middle, last-2, last-1, "
         "last; heights below the minimum (correspondence only), at the minimum, around the size and up to three times the "
         "size; memories of 0..40 rows and the nil memory; register files of 0..34 registers with and without the instruction "
         "pointer, values 1..32 bytes (rows that do not fit the 80 columns); the composites the tool builds (listing + "
         "registers of the emulation mode, mode view + prompt for the three modes); synthetic composites of 0..5 stub views "
         "(min <= max, unbounded, max < min, zero sizes, negative minimums): model = implementation is compared on all of "
         "them, the oracle gives a verdict only for the shape the tool builds (two elements, non-negative minimums, the "
         "second of fixed height) and O=na otherwise (distributeLines over-grants with two growable elements: recorded "
         "observation, unreachable from the tool); the golden ratio "
         "cut on random heights up to 10^6 and in sweeps of 501 consecutive values below 100001 (the corpus sweeps all of "
         "0..100000).  Oracle = the property on the implementation's answer: no panic, rows used <= height, = height for a "
         "fixed height; for composites also the grant vector: within the bounds of the elements, sum + separators <= height, "
         "maximal, fair.  non-trivial = height >= MinLines and the case touches a bound: the window hits the end of the "
         "listing / memory, a fixed height is granted exactly, no cursor, a synthetic composite of the tool's shape, an "
         "instruction pointer with an even number of other registers, a listing of fewer than five lines (max < min)",
         3000, 150000,
         trusted=["rows: every fmt.Printf of a view row ends in one '\\n' and its arguments (indices, marks, instruction texts, "
                  "hex bytes, register names) contain none - observed on every case through the captured stdout, not proved",
                  "int(math.Floor(float64(n)/(math.Phi+1))) = integer part of n/phi^2 (Model.Render.phiCut): float64 "
                  "arithmetic is not modelled; validated for every n in 0..100000 (corpus sweep) and random n up to 10^6",
                  "the number of rows of the memory view (memview/line.go, property C32) is taken from the implementation's "
                  "answer; the number of rows of the listing comes from the model of deps.NewCode (2*blocks + instructions)",
                  "screen.go (terminal.GetSize) is outside the harness: Model.Render.screenHeight is read off the code",
                  "register values and memory bytes are constants (invariant of emulator.State, documented there): the "
                  "register view panics on other expressions",
                  "os.Stdout redirection of verifhook.CaptureStdout; the composite of UI.Run is rebuilt by "
                  "consoleui.VerifSuicScreen (same expression as in ui.go)",
                  "Go int modelled as unbounded integers; Go maps with keys 0..len-1 as lists; sort.Slice of distinct "
                  "register keys as the sorted list"]))
