"""Generators of sparse-memory histories (C14): `sparse <n> op...`."""
import random
from . import genexpr as gx

TOP = 2 ** 64


def value(r, w):
    """Expression to store `w` bytes wide: same width, narrower (zero-extended) or wider (truncated)."""
    k = r.random()
    if k < 0.45:
        ew = w
    elif k < 0.65:
        ew = r.choice([1, 1, 2, max(1, w // 2), max(1, w - 1)])      # narrow value stored wide
    elif k < 0.85:
        ew = min(255, w + r.choice([1, 2, 4, 8, w]))                  # wide value stored narrow
    else:
        ew = gx.rwidth(r)
    k = r.random()
    if k < 0.40:
        # distinct bytes, so that every byte position is recognisable
        s = r.randrange(1, 200)
        return "c:" + bytes((s + 7 * i) % 251 + 1 for i in range(ew)).hex()
    if k < 0.55:
        return gx.const(r, ew)
    if k < 0.80:
        return "r %s %d" % (r.choice(gx.REGS), ew)
    if k < 0.90:
        return "m %s %d %s" % (r.choice(gx.MEMS), ew, gx.leaf(r))
    e = gx.expr(r, r.choice([1, 2, 3]))
    return e if r.random() < 0.5 else gx.wg(e, ew)


def width(r):
    k = r.random()
    if k < 0.80:
        return r.choice([1, 1, 2, 2, 3, 4, 4, 5, 6, 7, 8, 8, 9, 10, 11, 12])
    if k < 0.92:
        return r.choice([16, 31, 32, 33, 34, 40, 64])
    return r.choice([127, 128, 200, 254, 255, r.randint(13, 255)])


def history(r, base=0, window=40, nops=None, wide=False):
    n = nops if nops is not None else r.choice([2, 3, 4, 5, 6, 8, 10, 14, 20, 30, 40])
    ops = []
    stored = []          # (addr, w) of stores so far

    def w_():
        if wide:
            return r.choice([33, 40, 64, 100, 200, 255, width(r)])
        return width(r)

    def addr_near():
        """address chosen relative to an earlier store, to force overlaps at both ends"""
        a, w = r.choice(stored)
        k = r.random()
        if k < 0.25:
            return a + r.randint(0, max(0, w - 1))          # starts inside
        if k < 0.45:
            return max(base, a - r.randint(1, 6))           # starts before
        if k < 0.60:
            return a + w                                    # adjacent after
        if k < 0.70:
            return a
        return base + r.randint(0, window)

    for i in range(n):
        k = r.random()
        if not stored or k < 0.45:
            w = w_()
            a = addr_near() if stored and r.random() < 0.75 else base + r.randint(0, window)
            if a + w >= TOP:
                a = TOP - 1 - w
            ops.append("st %d %d %s" % (a, w, value(r, w)))
            stored.append((a, w))
        elif k < 0.80:
            # load: inside one store, across several, or with a gap
            kk = r.random()
            if kk < 0.35:
                a, w = r.choice(stored)
                lo = a + r.randint(0, w - 1)
                lw = r.randint(1, min(255, a + w - lo))
            elif kk < 0.75:
                a, w = r.choice(stored)
                lo = max(base, a - r.choice([0, 0, 1, 2, 3, 5, 8]))
                hi = a + w + r.choice([0, 0, 1, 2, 3, 5, 8, 13])
                if r.random() < 0.5:
                    lo = a + r.randint(0, w - 1)
                lw = max(1, min(255, hi - lo))
            else:
                lo = base + r.randint(0, window)
                lw = w_()
            if lo + lw >= TOP:
                lw = max(1, TOP - 1 - lo)
                if lo + lw >= TOP:
                    lo = TOP - 2
                    lw = 1
            ops.append("ld %d %d" % (lo, lw))
        elif k < 0.93:
            lo = max(0, base + r.randint(-3, window))
            lw = r.choice([1, 2, 4, 8, 16, 30, 50, width(r)])
            if lo + lw >= TOP:
                lo = TOP - 1 - lw
            ops.append("ms %d %d" % (lo, lw))
        else:
            ops.append("bl")
    return ops


def fmt(ops):
    return "sparse %d %s" % (len(ops), " ".join(ops))


def g_hist(r):
    return fmt(history(r))


def g_hist_high(r):
    """same shapes just below 2^64"""
    base = TOP - r.choice([300, 300, 64, 41, 600])
    return fmt(history(r, base=base, window=r.choice([20, 40])))


def g_hist_far(r):
    """two regions at least 2^63 bytes apart, operations interleaved, closed by block / missing queries"""
    lo = r.choice([0, 7, 1000, 2 ** 32 - 30])
    hi = r.choice([2 ** 63 + 2 ** 62, TOP - 300, 2 ** 63 + 2000, 2 ** 63 + 2 ** 32])
    o1 = history(r, base=lo, window=30, nops=r.choice([2, 3, 5, 8]))
    o2 = history(r, base=hi, window=30, nops=r.choice([2, 3, 5, 8]))
    ops = []
    while o1 or o2:
        src = o1 if (o1 and (not o2 or r.random() < 0.5)) else o2
        ops.append(src.pop(0))
    ops.append("bl")
    return fmt(ops)


def g_restore(r):
    """store X, overwrite a proper prefix (or suffix) of it, then store the SAME value X again exactly over the rest,
    then read: a store must never be skipped because 'the same value is already there'"""
    base = r.choice([0, 0, 100, TOP - 300])
    w = r.choice([2, 4, 4, 8, 8, 8, 12, 16])
    x = value(r, r.choice([w, w, max(1, w // 2)]))
    a = base + r.randint(0, 20)
    k = r.randint(1, w - 1)
    ops = ["st %d %d %s" % (a, w, x)]
    if r.random() < 0.7:
        ops.append("st %d %d %s" % (a, k, value(r, k)))                 # prefix overwritten
        ops.append("st %d %d %s" % (a + k, w - k, x))                   # X again over the tail
        ops.append("ld %d %d" % (a + k, w - k))
    else:
        ops.append("st %d %d %s" % (a + k, w - k, value(r, w - k)))     # suffix overwritten
        ops.append("st %d %d %s" % (a, k, x))                           # X again over the head
        ops.append("ld %d %d" % (a, k))
    ops += ["ld %d %d" % (a, w), "bl", "ms %d %d" % (max(base, a - 1), w + 2)]
    return fmt(ops)


def g_hist_wide(r):
    """few, wide stores (narrow values stored 33..255 bytes wide) and byte loads anywhere in them"""
    ops = history(r, window=60, nops=r.choice([2, 3, 4, 6]), wide=True)
    st = [o.split() for o in ops if o.startswith("st ")]
    for _ in range(r.randint(1, 4)):
        s = r.choice(st)
        a, w = int(s[1]), int(s[2])
        lo = a + r.randint(0, w - 1)
        ops.append("ld %d %d" % (lo, r.randint(1, a + w - lo)))
    return fmt(ops)


def g_partial(r):
    """forced shapes: two or three stores followed by loads cutting both ends / spanning 2-4 intervals"""
    a = r.randint(0, 30)
    ws = [width(r) for _ in range(r.randint(2, 4))]
    ops = []
    pos = a
    spans = []
    for w in ws:
        ops.append("st %d %d %s" % (pos, w, value(r, w)))
        spans.append((pos, w))
        pos += w if r.random() < 0.8 else max(1, w - r.randint(1, w))     # contiguous or overlapping
    if r.random() < 0.4:
        # a store in the middle splitting an earlier one
        p, w = r.choice(spans)
        if w >= 3:
            ops.append("st %d %d %s" % (p + 1, r.randint(1, w - 2), value(r, 1)))
    total = pos - a + ws[-1]
    for _ in range(r.randint(1, 4)):
        lo = a + r.randint(0, max(0, total - 2))
        lw = r.randint(1, max(1, min(255, a + total - lo)))
        ops.append("ld %d %d" % (lo, lw))
    if r.random() < 0.3:
        ops.append("ms %d %d" % (max(0, a - 2), min(255, total + 4)))
    if r.random() < 0.2:
        ops.append("bl")
    return fmt(ops)


def g_outdomain(r):
    """ranges touching 2^64 or of width 0 (outside the property's domain: correspondence only)"""
    k = r.random()
    if k < 0.5:
        w = r.choice([1, 2, 8])
        return fmt(["st %d %d %s" % (TOP - w, w, value(r, w)), "bl"])
    if k < 0.75:
        return fmt(["st 4 4 c:01020304", "ld %d 0" % r.randint(0, 10)])
    return fmt(["st 4 4 c:01020304", "ms %d 0" % r.randint(0, 10)])
