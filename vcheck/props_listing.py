"""Disassembler mode of the console UI: the listing (C23) and the navigation commands (C31)."""
from .props import Prop, reg, has, nothas
from . import genlisting as gl

_CODES = ("codes of 1-5 basic blocks with 1-6 instructions each, of different sizes, blocks separated by address gaps or "
          "jumps, register/memory effects over four registers so that instruction moves are accepted and rejected; "
          "scripts of 1-12 literal command lines run through the real command table of the disassembler mode "
          "(argument parsers and actions); after every command the cursor, every listing line (text, mark, block and "
          "instruction index), Lines.Line(block,0) and the dump of Code.Blocks() are compared")

_TRUSTED = ["the code model underneath (deps.Code: Move, bounds, addresses) is NOT part of this model: the model takes "
            "the dumped Code.Blocks() of the implementation as its code state and only re-checks what the listing "
            "assumes about it (Spec.Lawful: permutation, renumbering, rejected = unchanged) on every step",
            "regexp.CompilePOSIX/MatchString as a parameter: the harness reports which lines match the pattern the user typed",
            "fmt.Sprintf verbs %d %x %02X %4s %-24s (padding by characters) transcribed by hand; instruction texts are ASCII",
            "command line splitting/strconv.Atoi (UI.parseCommand) transcribed in the driver glue, not in the theorems",
            "the backing array of Lines.lines has capacity len+1 (make(..., 2*Len+NumInstr+1))",
            "every instruction has at least one byte (byteStr panics on none)"]

reg(Prop("C23",
         [("dis", gl.g_dis, 5), ("dis_blocks", gl.g_dis_blocks, 4), ("nav", gl.g_nav, 1), ("witness", gl.g_witness, 0)],
         lambda c: "dis" in c.tags and "blocks1" not in c.tags and
                   ("blockmove-uneven" in c.tags or "move-ins-ok" in c.tags),
         _CODES + "; accepted and rejected instruction moves, block moves between header lines (also onto itself, and "
         "followed by instruction moves / bounds / entrypoint in the moved blocks), moves between header, instruction and "
         "blank lines, line numbers len-1, len, len+1, 999999, MaxInt; oracle: every listing = fresh rendering of the dump, "
         "Lines.Line = row of the instruction, rejected commands change neither text nor code; "
         "non-trivial = >= 2 blocks and an accepted block move over blocks of different sizes or an accepted instruction move",
         3000, 100000,
         trusted=_TRUSTED))

reg(Prop("C31",
         [("nav", gl.g_nav, 5), ("nav_find", gl.g_nav_find, 3), ("dis_blocks", gl.g_dis_blocks, 1), ("witness", gl.g_witness, 0)],
         lambda c: "nav" in c.tags and ("nav3+" in c.tags or "find-ok" in c.tags or "entrypoint-after-blockmove" in c.tags),
         _CODES + "; up/down/goto with 0, 1, len-1, len, len+1, 999999, MaxInt, MaxInt-len (overflow of cursor+N), "
         "entrypoint before and after block and instruction moves, find with the cursor on the first/last line, patterns "
         "matching nothing / one line / only the cursor line / several lines / blank lines, invalid patterns, patterns of "
         "several words; oracle: error and cursor unchanged, or cursor on the specified line; "
         "non-trivial = >= 3 navigation commands, or a successful search, or entrypoint after a block move",
         3000, 100000,
         trusted=_TRUSTED))
