"""Generators of layered memory histories (C16): `overlay ...`, `layers ...`, `memmap ...`.

The generators track which addresses are present in the base and in the upper layer, so that loads and
missing queries can be aimed: entirely in the base, entirely in the upper layer, alternating pieces
(3-5), across gaps of both layers, and missing ranges where a gap of one layer spans two gaps of the
other (the shape of F33)."""
from . import gensparse as gsp

TOP = 2 ** 64
KEYS = ["memory", "m2", "k"]


def _hex(bs):
    return "".join("%02x" % b for b in bs) if bs else "-"


def _rbytes(r, n):
    k = r.random()
    if k < 0.08:
        return [0] * n
    if k < 0.12:
        return [255] * n
    s = r.randrange(1, 250)
    return [(s + 11 * i) % 256 for i in range(n)]


def _runs(present):
    out = []
    for a in sorted(present):
        if out and out[-1][1] == a:
            out[-1][1] = a + 1
        else:
            out.append([a, a + 1])
    return out


def width(r):
    k = r.random()
    if k < 0.85:
        return r.randint(1, 16)
    if k < 0.97:
        return r.choice([17, 20, 24, 31, 32, 33, 40, 48, 64])
    return r.choice([100, 128, 200, 255])


def base_blocks(r, base, span=60):
    """0-4 non-overlapping blocks (adjacency and gaps of one allowed) in a window"""
    n = r.choice([0, 1, 1, 2, 2, 2, 3, 3, 4])
    blocks, cover = [], set()
    for _ in range(n):
        ln = r.choice([1, 2, 3, 4, 4, 6, 8, 12, 16])
        k = r.random()
        if blocks and k < 0.2:
            b = blocks[-1][0] + len(blocks[-1][1])                 # adjacent (NewBytes merges)
        elif blocks and k < 0.35:
            b = blocks[-1][0] + len(blocks[-1][1]) + 1             # gap of one
        else:
            b = base + r.randint(0, span)
        rng = set(range(b, b + ln))
        if rng & cover:
            continue
        cover |= rng
        blocks.append((b, _rbytes(r, ln)))
    r.shuffle(blocks)
    return blocks, cover


def fmt_blocks(blocks):
    s = "%d" % len(blocks)
    for b, bs in blocks:
        s += " %d %s" % (b, _hex(bs))
    return s


def _aim(r, lower, upper, base, span):
    """(addr, w) of a read/missing query aimed at the two layouts"""
    both = lower | upper
    lr, ur, br = _runs(lower), _runs(upper), _runs(both)
    k = r.random()
    if lr and k < 0.12:                                  # entirely in the base
        b, e = r.choice(lr)
        a = r.randint(b, e - 1)
        return a, r.randint(1, min(255, e - a))
    if ur and k < 0.24:                                  # entirely in the upper layer
        b, e = r.choice(ur)
        a = r.randint(b, e - 1)
        return a, r.randint(1, min(255, e - a))
    if br and k < 0.62:                                  # inside one run of the union: alternating pieces
        b, e = r.choice(sorted(br, key=lambda x: x[0] - x[1])[:2])
        kk = r.random()
        if kk < 0.4:
            return b, min(255, e - b)
        a = r.randint(b, e - 1)
        return a, r.randint(1, min(255, e - a))
    if br and k < 0.85:                                  # across gaps of the union
        i = r.randrange(len(br))
        j = min(len(br) - 1, i + r.choice([0, 1, 1, 2, 3]))
        a = r.randint(max(base, br[i][0] - 3), br[i][1])
        e = r.randint(br[j][0], br[j][1] + 3)
        return a, max(1, min(255, e - a))
    return base + r.randint(0, span), width(r)


def _upper_store(r, lower, upper, base, span):
    """(addr, w) of a store to the upper layer: next to / overlapping the base blocks or earlier stores"""
    lr, ur = _runs(lower), _runs(upper)
    k = r.random()
    w = width(r)
    if lr and k < 0.35:
        b, e = r.choice(lr)
        kk = r.random()
        if kk < 0.25:
            return max(base, b - r.randint(1, 3)), r.randint(2, 6)          # straddles the begin of a block
        if kk < 0.5:
            return max(b, e - r.randint(1, 3)), r.randint(2, 6)             # straddles the end
        if kk < 0.7:
            return e, r.randint(1, 4)                                       # adjacent after
        if kk < 0.85 and e - b >= 3:
            a = r.randint(b + 1, e - 2)
            return a, r.randint(1, e - 1 - a)                               # strictly inside
        return b, e - b                                                     # covers it exactly
    if ur and k < 0.55:
        b, e = r.choice(ur)
        return r.choice([e, e + 1, max(base, b - 2), b + (e - b) // 2]), min(w, 8)
    if len(lr) >= 2 and k < 0.7:                                            # inside a gap of the base
        i = r.randrange(len(lr) - 1)
        g0, g1 = lr[i][1], lr[i + 1][0]
        if g1 - g0 >= 3:
            a = r.randint(g0 + 1, g1 - 2)
            return a, r.randint(1, max(1, min(4, g1 - 1 - a)))
    return base + r.randint(0, span), w


def ops_history(r, lower, base, n, span=60):
    """n ops on an overlay whose base covers `lower`"""
    upper = set()
    ops = []
    for _ in range(n):
        k = r.random()
        if k < 0.38:
            a, w = _upper_store(r, lower, upper, base, span)
            w = max(1, min(w, 255))
            ops.append("st %d %d %s" % (a, w, gsp.value(r, w)))
            upper |= set(range(a, a + w))
        elif k < 0.75:
            a, w = _aim(r, lower, upper, base, span)
            ops.append("ld %d %d" % (a, w))
        elif k < 0.93:
            a, w = _aim(r, lower, upper, base, span)
            if r.random() < 0.5:
                a, w = max(base, a - r.randint(0, 4)), min(255, w + r.randint(0, 8))
            ops.append("ms %d %d" % (a, w))
        else:
            ops.append("bl")
    return ops


def g_overlay(r):
    if r.random() < 0.15:
        return g_overlay_far(r)
    base = r.choice([0, 0, 0, 0, 500, 2 ** 32 - 30, TOP - 400])
    blocks, cover = base_blocks(r, base)
    n = r.choice([1, 2, 3, 4, 6, 8, 10, 14, 20])
    ops = ops_history(r, cover, base, n)
    return "overlay %s %d %s" % (fmt_blocks(blocks), len(ops), " ".join(ops))


def g_overlay_far(r):
    """two regions at least 2^63 bytes apart (base blocks and upper-layer stores in both), interleaved operations"""
    lo = r.choice([0, 7, 1000, 2 ** 32 - 30])
    hi = r.choice([2 ** 63 + 2 ** 62, TOP - 400, 2 ** 63 + 2000])
    b1, c1 = base_blocks(r, lo, 40)
    b2, c2 = base_blocks(r, hi, 40)
    o1 = ops_history(r, c1, lo, r.choice([2, 3, 5, 8]), 40)
    o2 = ops_history(r, c2, hi, r.choice([2, 3, 5, 8]), 40)
    blocks = b1 + b2
    r.shuffle(blocks)
    ops = []
    while o1 or o2:
        src = o1 if (o1 and (not o2 or r.random() < 0.5)) else o2
        ops.append(src.pop(0))
    ops.append("bl")
    return "overlay %s %d %s" % (fmt_blocks(blocks), len(ops), " ".join(ops))


def _alternating(r, a0):
    """pieces [(begin, len, layer)] alternating between base (0) and upper (1)"""
    n = r.choice([2, 3, 3, 4, 4, 5, 5, 6])
    layer = r.randrange(2)
    pieces, p = [], a0
    for _ in range(n):
        ln = r.choice([1, 1, 2, 2, 3, 4, 5, 8])
        pieces.append((p, ln, layer))
        p += ln
        layer ^= 1
    return pieces, p


def g_overlay_alt(r):
    """forced shape: a range made of 2-6 alternating base / upper pieces, read whole and in parts"""
    base = r.choice([0, 0, 7, 1000, TOP - 300])
    a0 = base + r.randint(0, 10)
    pieces, end = _alternating(r, a0)
    blocks, ops = [], []
    for b, ln, layer in pieces:
        if layer == 0:
            blocks.append((b, _rbytes(r, ln)))
        else:
            # the store may reach over the neighbouring base bytes (upper wins) or fit exactly
            ext_l = r.choice([0, 0, 0, 1]) if b > a0 else 0
            ext_r = r.choice([0, 0, 0, 1])
            ops.append(("st", b - ext_l, ln + ext_l + ext_r))
    r.shuffle(blocks)
    r.shuffle(ops)
    out = ["st %d %d %s" % (a, w, gsp.value(r, w)) for _, a, w in ops]
    w = min(255, end - a0)
    out.append("ld %d %d" % (a0, w))
    for _ in range(r.randint(1, 4)):
        lo = r.randint(a0, end - 1)
        out.append("ld %d %d" % (lo, r.randint(1, min(255, end - lo))))
    if r.random() < 0.5:
        out.append("ld %d %d" % (a0, min(255, w + 1)))               # one byte too far (unless covered)
    out.append("ms %d %d" % (max(base, a0 - 2), min(255, w + 4)))
    out.append("bl")
    return "overlay %s %d %s" % (fmt_blocks(blocks), len(out), " ".join(out))


def g_overlay_cross(r):
    """missing ranges where a gap of one layer spans two (or more) gaps of the other"""
    base = r.choice([0, 0, 100, TOP - 400])
    # layer X has two blocks with one wide gap; layer Y has 2-3 small pieces inside that gap and around it
    g0 = base + r.randint(2, 8)
    glen = r.randint(8, 24)
    g1 = g0 + glen
    xs = [(max(base, g0 - r.randint(1, 4)), g0), (g1, g1 + r.randint(1, 4))]
    ys, p = [], g0 - r.choice([0, 1, 2]) if g0 - 2 >= base else g0
    for _ in range(r.choice([2, 3, 3, 4])):
        ln = r.randint(1, 3)
        ys.append((p, p + ln))
        p += ln + r.randint(1, 5)
    x_is_base = r.random() < 0.5
    lower = xs if x_is_base else ys
    upper = ys if x_is_base else xs
    blocks, cover = [], set()
    for b, e in lower:
        if set(range(b, e)) & cover:
            continue
        cover |= set(range(b, e))
        blocks.append((b, _rbytes(r, e - b)))
    r.shuffle(blocks)
    ops = ["st %d %d %s" % (b, e - b, gsp.value(r, e - b)) for b, e in upper if e > b]
    r.shuffle(ops)
    lo = max(base, g0 - r.randint(0, 5))
    hi = max(p, g1) + r.randint(0, 4)
    ops.append("ms %d %d" % (lo, min(255, hi - lo)))
    for _ in range(r.randint(0, 3)):
        a = r.randint(lo, hi - 1)
        ops.append(r.choice(["ms", "ld"]) + " %d %d" % (a, r.randint(1, min(255, hi - a))))
    if r.random() < 0.3:
        ops.append("bl")
    return "overlay %s %d %s" % (fmt_blocks(blocks), len(ops), " ".join(ops))


def _sparse_desc(r, base, span=40):
    """`S <m> stores...` and the covered set"""
    n = r.choice([0, 1, 2, 3, 4])
    sts, cover = [], set()
    for _ in range(n):
        w = r.choice([1, 2, 3, 4, 6, 8, 12])
        a = base + r.randint(0, span)
        if cover and r.random() < 0.4:
            a = r.choice(sorted(cover)) + r.choice([0, 1, -1])
            a = max(base, a)
        sts.append("%d %d %s" % (a, w, gsp.value(r, w)))
        cover |= set(range(a, a + w))
    return "S %d%s" % (len(sts), "".join(" " + s for s in sts)), cover


def g_layers(r):
    """other stacks: sparse over sparse (symbolic base), three layers, a single memory"""
    base = r.choice([0, 0, 300, TOP - 400])
    k = r.random()
    if k < 0.45:
        d1, c1 = _sparse_desc(r, base)
        d2, c2 = _sparse_desc(r, base)
        desc, lower = "O %s %s" % (d1, d2), c1 | c2
    elif k < 0.75:
        blocks, c0 = base_blocks(r, base, 40)
        d1, c1 = _sparse_desc(r, base)
        d2, c2 = _sparse_desc(r, base)
        if r.random() < 0.5:
            desc = "O O B %s %s %s" % (fmt_blocks(blocks), d1, d2)          # (bytes under sparse) under sparse
        else:
            desc = "O B %s O %s %s" % (fmt_blocks(blocks), d1, d2)          # bytes under (sparse under sparse)
        lower = c0 | c1 | c2
    elif k < 0.9:
        blocks, c0 = base_blocks(r, base, 40)
        d1, c1 = _sparse_desc(r, base)
        desc, lower = "O B %s %s" % (fmt_blocks(blocks), d1), c0 | c1
    else:
        d1, c1 = _sparse_desc(r, base)
        desc, lower = d1, c1
    ops = ops_history(r, lower, base, r.choice([1, 2, 3, 5, 8, 12]), 40)
    return "layers %s %d %s" % (desc, len(ops), " ".join(ops))


def g_memmap(r):
    base = r.choice([0, 0, 64, TOP - 300])
    n = r.choice([1, 2, 3, 5, 8, 12])
    ops, stored = [], []
    for _ in range(n):
        k = r.random()
        key = r.choice(KEYS)
        if not stored or k < 0.45:
            w = r.choice([1, 2, 4, 8, 3, 16])
            a = base + r.randint(0, 30)
            ops.append("st %s %d %d %s" % (key, a, w, gsp.value(r, w)))
            stored.append((key, a, w))
        elif k < 0.75:
            if r.random() < 0.7:
                key, a, w = r.choice(stored)
                lo = a + r.randint(0, w - 1)
                ops.append("ld %s %d %d" % (key, lo, r.randint(1, a + w - lo + r.choice([0, 0, 1]))))
            else:
                ops.append("ld %s %d %d" % (key, base + r.randint(0, 30), r.choice([1, 2, 4, 8])))
        elif k < 0.9:
            ops.append("ms %s %d %d" % (key, base + r.randint(0, 30), r.choice([1, 4, 8, 16, 40])))
        else:
            ops.append("bl %s" % key)
    return "memmap %d %s" % (len(ops), " ".join(ops))
