"""Register map and state: C18."""
from .props import Prop, reg, has, nothas
from . import genregstate as gs

reg(Prop("C18",
         [("regmap", gs.g_regmap, 4), ("regmap_interplay", gs.g_regmap_interplay, 2), ("state", gs.g_state, 4),
          ("state_refuse", gs.g_state_refuse, 2), ("statemem", gs.g_statemem, 2)],
         has("width-interplay", "refused", "ap-wideconst", "ap-foldable", "ap-open-folds"),
         "regmap: histories of 1-15 Store/Load/Len over 4 register keys (one reserved '#' key) on a fresh RegMap, widths from "
         "{1,2,3,4,8,16,32} and a few odd ones up to 255, values constant and symbolic (register reads, memory reads, "
         "gadget chains, random trees) of the same, smaller and larger width than the write width, reads narrower / "
         "equal / wider than the last write, rewrites of the same key at another width; every read is judged against the "
         "last write (absent iff never written, width = requested, value = trunc w' (trunc w value) under 6 valuations), "
         "the final Values() dump against the set of written keys; state: histories of 1-15 Apply/Regs.Load/Mems.Load/"
         "Missing/Blocks/dump on state.New(): RegStore effects, MemStore effects whose address is a constant, a closed "
         "foldable expression, a conditional whose symbolic branch folds away, a constant wider than 8 bytes, or symbolic "
         "(register, register+constant, memory read, x*0): a refused Apply must leave the full dump of the state "
         "(registers, every memory's blocks and content) unchanged and is only legitimate for a non-closed address; an "
         "accepted one must have a valuation-independent address and is replayed on a byte map at that value mod 2^64; "
         "statemem: the same on a state whose address space holds NewOverlay(NewBytes(...), NewSparse()) (the arrangement of "
         "cmd/mltwist) or a deeper stack, so that applied stores go through Overlay.Store and reads through Overlay.Load; "
         "non-trivial = a register re-written and read at another width, or a refused / folded / wide-constant memory store",
         3000, 150000,
         trusted=["Go map[expr.Key] modelled as a finite map (association list); iteration order never observed "
                  "(dumps are sorted by key)",
                  "exprtransform.SetWidth / ConstFold and expr.ConstUint as modelled and proved for C12 / C09 / C27",
                  "memory.Sparse as modelled and proved for C14"],
         assumptions=["memory stores with 1 <= w <= 255 and addr + w < 2^64 (as C14); after a store outside this domain "
                      "only model = code is compared for the memories"]))
